(* Driver for the extracted model. Reads a history file produced by the Go harness:
     (genesis <state>)
     (step <ctx> <op> <outcome> <post-state>)
   one s-expression per line, and for each step prints one line
     <line-no> <result s-expression from Model.check_step>
   All logic is in the extracted Coq code; this file only parses and prints [value]. *)
type ostring = string
open Model

let rec pos_of_int (n : int) : positive =
  if n = 1 then XH else if n land 1 = 1 then XI (pos_of_int (n lsr 1)) else XO (pos_of_int (n lsr 1))

(* decimal string -> z, arbitrary size *)
let z_of_string (s : ostring) : z =
  let neg = String.length s > 0 && s.[0] = '-' in
  let digits = if neg then String.sub s 1 (String.length s - 1) else s in
  (* repeated division of a decimal string by 2 to obtain bits (LSB first) *)
  let d = Array.init (String.length digits) (fun i -> Char.code digits.[i] - 48) in
  let n = Array.length d in
  let start = ref 0 in
  let bits = ref [] in
  let is_zero () = (let z = ref true in for i = !start to n - 1 do if d.(i) <> 0 then z := false done; !z) in
  while not (is_zero ()) do
    let carry = ref 0 in
    for i = !start to n - 1 do
      let cur = !carry * 10 + d.(i) in
      d.(i) <- cur / 2; carry := cur mod 2
    done;
    bits := !carry :: !bits;
    while !start < n && d.(!start) = 0 do incr start done
  done;
  (* bits: MSB first *)
  match !bits with
  | [] -> Z0
  | _ :: rest ->
    let p = List.fold_left (fun acc b -> if b = 1 then XI acc else XO acc) XH rest in
    if neg then Zneg p else Zpos p

let string_of_z (x : z) : ostring =
  (* z -> decimal string via repeated doubling on a decimal digit array *)
  let of_pos p =
    let rec bits p acc = match p with XH -> 1 :: acc | XO q -> bits q (0 :: acc) | XI q -> bits q (1 :: acc) in
    let bs = bits p [] in (* MSB first *)
    let digits = ref [0] in (* little endian decimal *)
    List.iter (fun b ->
        let carry = ref b in
        digits := List.map (fun d -> let v = d * 2 + !carry in carry := v / 10; v mod 10) !digits;
        if !carry > 0 then digits := !digits @ [!carry]) bs;
    String.concat "" (List.rev_map string_of_int !digits)
  in
  match x with Z0 -> "0" | Zpos p -> of_pos p | Zneg p -> "-" ^ of_pos p

let ascii_of_char (c : char) : ascii =
  let n = Char.code c in
  let b i = (n lsr i) land 1 = 1 in
  Ascii (b 0, b 1, b 2, b 3, b 4, b 5, b 6, b 7)

let char_of_ascii (a : ascii) : char =
  match a with Ascii (b0, b1, b2, b3, b4, b5, b6, b7) ->
    let v b i = if b then 1 lsl i else 0 in
    Char.chr (v b0 0 + v b1 1 + v b2 2 + v b3 3 + v b4 4 + v b5 5 + v b6 6 + v b7 7)

let coq_string (s : ostring) : Model.string =
  let r = ref EmptyString in
  for i = String.length s - 1 downto 0 do r := String (ascii_of_char s.[i], !r) done;
  !r

let ocaml_string (s : Model.string) : ostring =
  let b = Buffer.create 16 in
  let rec go = function EmptyString -> () | String (a, r) -> Buffer.add_char b (char_of_ascii a); go r in
  go s; Buffer.contents b

(* ---- s-expression parser ---- *)
exception Parse_error of ostring

let parse (s : ostring) : value =
  let n = String.length s in
  let i = ref 0 in
  let skip () = while !i < n && (s.[!i] = ' ' || s.[!i] = '\t' || s.[!i] = '\n' || s.[!i] = '\r') do incr i done in
  let hexv c = match c with
    | '0'..'9' -> Char.code c - 48 | 'a'..'f' -> Char.code c - 87 | 'A'..'F' -> Char.code c - 55
    | _ -> raise (Parse_error "hex") in
  let rec value () =
    skip ();
    if !i >= n then raise (Parse_error "eof");
    match s.[!i] with
    | '(' ->
      incr i;
      let items = ref [] in
      let fin = ref false in
      while not !fin do
        skip ();
        if !i >= n then raise (Parse_error "eof in list");
        if s.[!i] = ')' then (incr i; fin := true) else items := value () :: !items
      done;
      VL (List.rev !items)
    | '"' ->
      incr i;
      let b = Buffer.create 16 in
      let fin = ref false in
      while not !fin do
        if !i >= n then raise (Parse_error "eof in string");
        (match s.[!i] with
         | '"' -> fin := true
         | '\\' ->
           if !i + 2 >= n then raise (Parse_error "escape");
           Buffer.add_char b (Char.chr (hexv s.[!i + 1] * 16 + hexv s.[!i + 2]));
           i := !i + 2
         | c -> Buffer.add_char b c);
        incr i
      done;
      VS (coq_string (Buffer.contents b))
    | _ ->
      let st = !i in
      while !i < n && (s.[!i] = '-' || (s.[!i] >= '0' && s.[!i] <= '9')) do incr i done;
      if !i = st then raise (Parse_error (Printf.sprintf "unexpected char %c at %d" s.[st] st));
      VZ (z_of_string (String.sub s st (!i - st)))
  in
  value ()

let rec print (b : Buffer.t) (v : value) : unit =
  match v with
  | VZ z -> Buffer.add_string b (string_of_z z)
  | VS s ->
    Buffer.add_char b '"';
    String.iter (fun c ->
        let n = Char.code c in
        if n < 32 || n > 126 || c = '"' || c = '\\' then Buffer.add_string b (Printf.sprintf "\\%02x" n)
        else Buffer.add_char b c) (ocaml_string s);
    Buffer.add_char b '"'
  | VL l ->
    Buffer.add_char b '(';
    List.iteri (fun k x -> if k > 0 then Buffer.add_char b ' '; print b x) l;
    Buffer.add_char b ')'

let () =
  let ic = if Array.length Sys.argv > 1 then open_in Sys.argv.(1) else stdin in
  let pre = ref (VL []) in
  let lineno = ref 0 in
  (try
     while true do
       let line = input_line ic in
       incr lineno;
       if String.length line > 0 then begin
         match parse line with
         | VL [VS tag; st] when ocaml_string tag = "genesis" -> pre := st
         | VL [VS tag; ctx; op; outcome; post] when ocaml_string tag = "step" ->
           (match Sys.getenv_opt "VERIF_DUMP_LINE" with
            | Some l when int_of_string l = !lineno ->
              let b = Buffer.create 1024 in print b (model_post !pre ctx op); Printf.printf "MODELPOST %s\n" (Buffer.contents b)
            | _ -> ());
           (match Sys.getenv_opt "VERIF_METRICS" with
            | Some _ ->
              let b = Buffer.create 256 in print b (state_metrics ctx post); Printf.printf "METRICS %d %s\n" !lineno (Buffer.contents b)
            | None -> ());
           let r = check_step !pre ctx op outcome post in
           let b = Buffer.create 64 in
           print b r;
           Printf.printf "%d %s\n" !lineno (Buffer.contents b);
           pre := post
         | _ -> Printf.printf "%d (\"badline\")\n" !lineno
       end
     done
   with End_of_file -> ())
