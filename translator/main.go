// translator: re-derives structural facts about /repo's Go source on every run and
// writes them as Coq definitions (Generated/SourceFacts.v). The Coq obligations in
// theories/Obligations/*.v are re-checked against what the code says now.
//
// Facts (all restricted to functions reachable, in a static call graph, from the
// consensus entry points -- msgServer methods, Begin/EndBlockers, staking hooks,
// genesis init/export, migrations, ValidateBasic, app wiring):
//   ambient_sites   wall clock, randomness, map ranges, goroutines, select, env reads,
//                   writes to package-level variables, pointer-receiver field writes
//   mutable_globals package-level variables assigned outside init
//   bank_sites      calls of bank keeper mint/burn/send methods (function, method)
//   store_prefixes  per module: prefixes used with prefix.NewStore, and whether
//                   genesis export/init reach a function that uses them
//   msg_methods     methods of each module's msgServer
//   hook_methods    methods of x/node/keeper.Hooks with a non-trivial body
//   begin_order / end_order / macc_perms from app/app.go
//   constants       named constants and literals the model copies
package main

import (
	"flag"
	"fmt"
	"go/ast"
	"go/constant"
	"go/token"
	"go/types"
	"os"
	"path/filepath"
	"sort"
	"strings"

	"golang.org/x/tools/go/packages"
)

type site struct {
	File, Func, Kind, Detail string
	Ord                      int
}

type fn struct {
	key   string // pkgpath.Recv.Name
	decl  *ast.FuncDecl
	pkg   *packages.Package
	file  string
	calls map[string]bool
	// method-name calls through interfaces (resolved later by name)
	ifaceCalls map[string]bool
}

var modPath = "github.com/SaoNetwork/sao"

func recvName(fd *ast.FuncDecl) string {
	if fd.Recv == nil || len(fd.Recv.List) == 0 {
		return ""
	}
	t := fd.Recv.List[0].Type
	if s, ok := t.(*ast.StarExpr); ok {
		t = s.X
	}
	if id, ok := t.(*ast.Ident); ok {
		return id.Name
	}
	return "?"
}

func funcKey(pkgPath string, fd *ast.FuncDecl) string {
	r := recvName(fd)
	if r != "" {
		return pkgPath + "." + r + "." + fd.Name.Name
	}
	return pkgPath + "." + fd.Name.Name
}

func objKey(f *types.Func) string {
	if f.Pkg() == nil {
		return f.Name()
	}
	sig := f.Type().(*types.Signature)
	if sig.Recv() != nil {
		t := sig.Recv().Type()
		if p, ok := t.(*types.Pointer); ok {
			t = p.Elem()
		}
		if n, ok := t.(*types.Named); ok {
			return f.Pkg().Path() + "." + n.Obj().Name() + "." + f.Name()
		}
	}
	return f.Pkg().Path() + "." + f.Name()
}

func short(key string) string { return strings.TrimPrefix(key, modPath+"/") }

func coqStr(s string) string { return "\"" + strings.ReplaceAll(s, "\"", "\"\"") + "\"" }

func main() {
	repo := flag.String("repo", "/repo", "repository root")
	out := flag.String("out", "SourceFacts.v", "output file")
	flag.Parse()

	cfg := &packages.Config{
		Mode: packages.NeedName | packages.NeedFiles | packages.NeedSyntax | packages.NeedTypes | packages.NeedTypesInfo | packages.NeedImports,
		Dir:  *repo,
		Env:  append(os.Environ(), "GOFLAGS=-mod=mod", "GOPROXY=off", "GOSUMDB=off", "GOTOOLCHAIN=local"),
	}
	pkgs, err := packages.Load(cfg, "./x/...", "./app/...")
	if err != nil {
		fmt.Fprintln(os.Stderr, "load:", err)
		os.Exit(1)
	}
	funcs := map[string]*fn{}
	methodsByName := map[string][]string{} // method name -> keys of keeper-like methods in the repo
	var consPkgs []*packages.Package
	for _, p := range pkgs {
		if strings.Contains(p.PkgPath, "/client") || strings.Contains(p.PkgPath, "/simulation") || strings.HasSuffix(p.PkgPath, "/docs") || strings.Contains(p.PkgPath, "testutil") {
			continue
		}
		if len(p.Errors) > 0 {
			// type errors in a consensus package are fatal for the facts
			for _, e := range p.Errors {
				fmt.Fprintln(os.Stderr, "pkg error:", p.PkgPath, e)
			}
			os.Exit(1)
		}
		consPkgs = append(consPkgs, p)
		for _, f := range p.Syntax {
			file := p.Fset.Position(f.Pos()).Filename
			rel, _ := filepath.Rel(*repo, file)
			if strings.HasSuffix(rel, "_test.go") || strings.HasSuffix(rel, ".pb.go") || strings.HasSuffix(rel, ".pb.gw.go") ||
				strings.Contains(rel, "grpc_query") || strings.Contains(rel, "module_simulation") || strings.HasPrefix(filepath.Base(rel), "verif_") {
				continue
			}
			for _, d := range f.Decls {
				fd, ok := d.(*ast.FuncDecl)
				if !ok || fd.Body == nil {
					continue
				}
				k := funcKey(p.PkgPath, fd)
				fnn := &fn{key: k, decl: fd, pkg: p, file: rel, calls: map[string]bool{}, ifaceCalls: map[string]bool{}}
				funcs[k] = fnn
				if fd.Recv != nil {
					methodsByName[fd.Name.Name] = append(methodsByName[fd.Name.Name], k)
				}
			}
		}
	}
	// call edges
	for _, f := range funcs {
		info := f.pkg.TypesInfo
		ast.Inspect(f.decl.Body, func(n ast.Node) bool {
			var id *ast.Ident
			switch e := n.(type) {
			case *ast.CallExpr:
				switch fun := e.Fun.(type) {
				case *ast.Ident:
					id = fun
				case *ast.SelectorExpr:
					id = fun.Sel
				}
			case *ast.SelectorExpr:
				id = e.Sel // method values / function references
			case *ast.Ident:
				id = e
			}
			if id == nil {
				return true
			}
			if obj, ok := info.Uses[id].(*types.Func); ok {
				k := objKey(obj)
				sig := obj.Type().(*types.Signature)
				if sig.Recv() != nil {
					if _, isIface := sig.Recv().Type().Underlying().(*types.Interface); isIface {
						f.ifaceCalls[obj.Name()] = true
						return true
					}
				}
				f.calls[k] = true
			}
			return true
		})
	}
	// entry points
	isEntry := func(f *fn) bool {
		r := recvName(f.decl)
		n := f.decl.Name.Name
		switch {
		case r == "msgServer", r == "Hooks":
			return true
		case r == "AppModule" && (n == "BeginBlock" || n == "EndBlock" || n == "InitGenesis" || n == "ExportGenesis" || n == "RegisterServices"):
			return true
		case r == "" && (n == "BeginBlocker" || n == "EndBlocker" || n == "EndBlock" || n == "InitGenesis" || n == "ExportGenesis" || strings.HasPrefix(n, "Migrate")):
			return true
		case n == "ValidateBasic" || n == "Validate":
			return true
		case r == "App" && (n == "BeginBlocker" || n == "EndBlocker" || n == "InitChainer"):
			return true
		case r == "Migrator":
			return true
		case r == "" && n == "New" && f.pkg.PkgPath == modPath+"/app":
			return true
		}
		return false
	}
	reach := map[string]bool{}
	var stack []string
	for k, f := range funcs {
		if isEntry(f) {
			reach[k] = true
			stack = append(stack, k)
		}
	}
	for len(stack) > 0 {
		k := stack[len(stack)-1]
		stack = stack[:len(stack)-1]
		f := funcs[k]
		if f == nil {
			continue
		}
		push := func(c string) {
			if _, ok := funcs[c]; ok && !reach[c] {
				reach[c] = true
				stack = append(stack, c)
			}
		}
		for c := range f.calls {
			push(c)
		}
		for m := range f.ifaceCalls {
			for _, c := range methodsByName[m] {
				push(c)
			}
		}
	}

	var ambient []site
	globalsWritten := map[string]bool{}
	var bank [][3]string
	type prefUse struct{ mod, prefix, fn string }
	var prefUses []prefUse
	var msgMethods [][2]string
	var hookMethods []string
	var consts [][2]string

	keys := make([]string, 0, len(funcs))
	for k := range funcs {
		keys = append(keys, k)
	}
	sort.Strings(keys)

	moduleOf := func(pkgPath string) string {
		rest := strings.TrimPrefix(pkgPath, modPath+"/x/")
		if rest == pkgPath {
			return "app"
		}
		return strings.Split(rest, "/")[0]
	}

	for _, k := range keys {
		f := funcs[k]
		info := f.pkg.TypesInfo
		fname := short(k)
		if recvName(f.decl) == "msgServer" {
			msgMethods = append(msgMethods, [2]string{moduleOf(f.pkg.PkgPath), f.decl.Name.Name})
		}
		if recvName(f.decl) == "Hooks" && f.pkg.PkgPath == modPath+"/x/node/keeper" {
			// non-trivial = more than a bare return
			if len(f.decl.Body.List) > 1 {
				hookMethods = append(hookMethods, f.decl.Name.Name)
			}
		}
		if !reach[k] {
			continue
		}
		ord := map[string]int{}
		add := func(kind, detail string) {
			ord[kind+detail]++
			ambient = append(ambient, site{f.file, fname, kind, detail, ord[kind+detail]})
		}
		isInit := f.decl.Name.Name == "init" && f.decl.Recv == nil
		ast.Inspect(f.decl.Body, func(n ast.Node) bool {
			switch e := n.(type) {
			case *ast.GoStmt:
				add("go", "")
			case *ast.SelectStmt:
				add("select", "")
			case *ast.RangeStmt:
				if t := info.TypeOf(e.X); t != nil {
					if _, ok := t.Underlying().(*types.Map); ok {
						add("maprange", types.ExprString(e.X))
					}
				}
			case *ast.CallExpr:
				var id *ast.Ident
				switch fun := e.Fun.(type) {
				case *ast.Ident:
					id = fun
				case *ast.SelectorExpr:
					id = fun.Sel
				}
				if id != nil {
					if obj, ok := info.Uses[id].(*types.Func); ok && obj.Pkg() != nil {
						pp := obj.Pkg().Path()
						switch {
						case pp == "time" && (obj.Name() == "Now" || obj.Name() == "Since" || obj.Name() == "Until"):
							add("wallclock", "time."+obj.Name())
						case pp == "math/rand" || pp == "crypto/rand" || pp == "math/rand/v2":
							add("random", pp+"."+obj.Name())
						case pp == "os" && (obj.Name() == "Getenv" || obj.Name() == "LookupEnv" || obj.Name() == "Hostname" || obj.Name() == "Getpid"):
							add("env", "os."+obj.Name())
						case strings.HasSuffix(pp, "go.uuid") && (obj.Name() == "NewV1" || obj.Name() == "NewV2" || obj.Name() == "NewV4"):
							// time-, host- or entropy-based identifiers (NewV3 / NewV5 are hashes of their arguments)
							add("random", "uuid."+obj.Name())
						case pp == "github.com/google/uuid" && (obj.Name() == "New" || obj.Name() == "NewString" || obj.Name() == "NewRandom" || obj.Name() == "NewUUID" || obj.Name() == "NewDCEGroup" || obj.Name() == "NewDCEPerson"):
							add("random", "uuid."+obj.Name())
						case pp == "runtime" && (obj.Name() == "NumCPU" || obj.Name() == "NumGoroutine" || obj.Name() == "GOMAXPROCS"):
							add("env", "runtime."+obj.Name())
						}
						// bank keeper calls
						switch obj.Name() {
						case "MintCoins", "BurnCoins", "SendCoinsFromModuleToAccount", "SendCoinsFromAccountToModule", "SendCoinsFromModuleToModule", "SendCoins":
							sig := obj.Type().(*types.Signature)
							if sig.Recv() != nil {
								rt := sig.Recv().Type().String()
								if strings.Contains(rt, "BankKeeper") || strings.Contains(rt, "bank") {
									bank = append(bank, [3]string{f.file, fname, obj.Name()})
								}
							}
						case "NewStore":
							if pp == "github.com/cosmos/cosmos-sdk/store/prefix" && len(e.Args) == 2 {
								prefUses = append(prefUses, prefUse{moduleOf(f.pkg.PkgPath), prefixArg(info, e.Args[1]), k})
							}
						}
					}
				}
			case *ast.AssignStmt:
				for _, lhs := range e.Lhs {
					root := lhs
					for {
						switch x := root.(type) {
						case *ast.SelectorExpr:
							root = x.X
							continue
						case *ast.IndexExpr:
							root = x.X
							continue
						case *ast.StarExpr:
							root = x.X
							continue
						case *ast.ParenExpr:
							root = x.X
							continue
						}
						break
					}
					if id, ok := root.(*ast.Ident); ok {
						if v, ok := info.Uses[id].(*types.Var); ok && v.Parent() == v.Pkg().Scope() && !isInit {
							g := short(v.Pkg().Path()) + "." + v.Name()
							globalsWritten[g] = true
							add("globalwrite", g)
						}
						// pointer receiver field write on keeper-like types
						if f.decl.Recv != nil && len(f.decl.Recv.List) > 0 && len(f.decl.Recv.List[0].Names) > 0 &&
							id.Name == f.decl.Recv.List[0].Names[0].Name && lhs != root {
							_, isPtr := f.decl.Recv.List[0].Type.(*ast.StarExpr)
							// a value receiver still shares maps, slices and pointees with every other copy
							shared := false
							for x := lhs; x != root; {
								switch y := x.(type) {
								case *ast.SelectorExpr:
									if tv, ok := info.Types[y.X]; ok {
										if _, isP := tv.Type.Underlying().(*types.Pointer); isP && y.X != root {
											shared = true
										}
									}
									x = y.X
								case *ast.IndexExpr:
									if tv, ok := info.Types[y.X]; ok {
										switch tv.Type.Underlying().(type) {
										case *types.Map, *types.Slice, *types.Pointer:
											shared = true
										}
									}
									x = y.X
								case *ast.StarExpr:
									shared = true
									x = y.X
								case *ast.ParenExpr:
									x = y.X
								default:
									x = root
								}
							}
							if isPtr || shared {
								rn := recvName(f.decl)
								if rn == "Keeper" || rn == "msgServer" || rn == "Hooks" || rn == "App" || rn == "AppModule" {
									add("recvwrite", rn+"."+types.ExprString(lhs))
								}
							}
						}
					}
				}
			}
			return true
		})
	}

	// which prefixes are reachable from genesis export / init
	reachFrom := func(pred func(f *fn) bool) map[string]bool {
		r := map[string]bool{}
		var st []string
		for k, f := range funcs {
			if pred(f) {
				r[k] = true
				st = append(st, k)
			}
		}
		for len(st) > 0 {
			k := st[len(st)-1]
			st = st[:len(st)-1]
			f := funcs[k]
			for c := range f.calls {
				if _, ok := funcs[c]; ok && !r[c] {
					r[c] = true
					st = append(st, c)
				}
			}
			for m := range f.ifaceCalls {
				for _, c := range methodsByName[m] {
					if !r[c] {
						r[c] = true
						st = append(st, c)
					}
				}
			}
		}
		return r
	}
	type prefFact struct {
		mod, prefix        string
		exported, imported bool
		written            bool
	}
	prefFacts := map[string]*prefFact{}
	modsWithGenesis := map[string]bool{}
	for _, f := range funcs {
		if f.decl.Recv == nil && (f.decl.Name.Name == "ExportGenesis" || f.decl.Name.Name == "InitGenesis") {
			modsWithGenesis[moduleOf(f.pkg.PkgPath)] = true
		}
	}
	for m := range modsWithGenesis {
		mm := m
		exp := reachFrom(func(f *fn) bool {
			return f.decl.Recv == nil && f.decl.Name.Name == "ExportGenesis" && moduleOf(f.pkg.PkgPath) == mm
		})
		imp := reachFrom(func(f *fn) bool {
			return f.decl.Recv == nil && f.decl.Name.Name == "InitGenesis" && moduleOf(f.pkg.PkgPath) == mm
		})
		for _, u := range prefUses {
			if u.mod != mm || !reach[u.fn] {
				continue
			}
			key := u.mod + "|" + u.prefix
			pf := prefFacts[key]
			if pf == nil {
				pf = &prefFact{mod: u.mod, prefix: u.prefix}
				prefFacts[key] = pf
			}
			if exp[u.fn] {
				pf.exported = true
			}
			if imp[u.fn] {
				pf.imported = true
			}
			name := funcs[u.fn].decl.Name.Name
			if strings.HasPrefix(name, "Set") || strings.HasPrefix(name, "Append") || strings.HasPrefix(name, "Remove") || strings.Contains(name, "Next") {
				pf.written = true
			}
		}
	}

	// app.go: begin/end order, maccPerms
	var beginOrder, endOrder []string
	var macc [][2]string
	for _, p := range consPkgs {
		if p.PkgPath != modPath+"/app" {
			continue
		}
		info := p.TypesInfo
		modName := func(e ast.Expr) string {
			if tv, ok := info.Types[e]; ok && tv.Value != nil && tv.Value.Kind() == constant.String {
				return constant.StringVal(tv.Value)
			}
			return types.ExprString(e)
		}
		for _, f := range p.Syntax {
			ast.Inspect(f, func(n ast.Node) bool {
				switch e := n.(type) {
				case *ast.CallExpr:
					if sel, ok := e.Fun.(*ast.SelectorExpr); ok {
						if sel.Sel.Name == "SetOrderBeginBlockers" || sel.Sel.Name == "SetOrderEndBlockers" {
							var l []string
							for _, a := range e.Args {
								l = append(l, modName(a))
							}
							if sel.Sel.Name == "SetOrderBeginBlockers" {
								beginOrder = l
							} else {
								endOrder = l
							}
						}
					}
				case *ast.ValueSpec:
					for i, nm := range e.Names {
						if nm.Name == "maccPerms" && i < len(e.Values) {
							if cl, ok := e.Values[i].(*ast.CompositeLit); ok {
								for _, el := range cl.Elts {
									if kvp, ok := el.(*ast.KeyValueExpr); ok {
										perms := ""
										if pcl, ok := kvp.Value.(*ast.CompositeLit); ok {
											var ps []string
											for _, pe := range pcl.Elts {
												ps = append(ps, modName(pe))
											}
											perms = strings.Join(ps, ",")
										}
										macc = append(macc, [2]string{modName(kvp.Key), perms})
									}
								}
							}
						}
					}
				}
				return true
			})
		}
	}
	sort.Slice(macc, func(i, j int) bool { return macc[i][0] < macc[j][0] })

	// constants: named package-level constants of the consensus packages the model copies
	wantConst := map[string]bool{"MaxTries": true, "EXPIRE_DURATION": true, "MaxRenewDuration": true, "TOTAL_REWARD": true,
		"ProjectionPeriodNumerator": true, "ProjectionPeriodDenominator": true, "OrderAmountNumerator": true, "OrderAmountDenominator": true,
		"DEFAULT_NETWORK": true, "StorageThreshold": true}
	for _, p := range consPkgs {
		sc := p.Types.Scope()
		for _, n := range sc.Names() {
			if c, ok := sc.Lookup(n).(*types.Const); ok && wantConst[n] {
				consts = append(consts, [2]string{short(p.PkgPath) + "." + n, c.Val().ExactString()})
			}
		}
	}
	// literal sites: NewDecWithPrec(1, 6), Duration < 3600, 8000.0, %600
	litCount := map[string]int{}
	for _, k := range keys {
		f := funcs[k]
		if !reach[k] {
			continue
		}
		info := f.pkg.TypesInfo
		ast.Inspect(f.decl.Body, func(n ast.Node) bool {
			switch e := n.(type) {
			case *ast.CallExpr:
				if sel, ok := e.Fun.(*ast.SelectorExpr); ok && sel.Sel.Name == "NewDecWithPrec" && len(e.Args) == 2 {
					litCount["NewDecWithPrec("+types.ExprString(e.Args[0])+","+types.ExprString(e.Args[1])+")@"+short(k)]++
				}
			case *ast.BinaryExpr:
				if bl, ok := e.Y.(*ast.BasicLit); ok {
					if e.Op == token.LSS || e.Op == token.REM || e.Op == token.GTR || e.Op == token.GEQ || e.Op == token.LEQ {
						if bl.Value == "3600" || bl.Value == "600" {
							litCount[types.ExprString(e.X)+e.Op.String()+bl.Value+"@"+short(k)]++
						}
					}
				}
			case *ast.BasicLit:
				if e.Value == "8000.0" || e.Value == "10000.0" {
					litCount[e.Value+"@"+short(k)]++
				}
			}
			_ = info
			return true
		})
	}
	var lits []string
	for k, v := range litCount {
		lits = append(lits, fmt.Sprintf("%s x%d", k, v))
	}
	sort.Strings(lits)
	sort.Slice(consts, func(i, j int) bool { return consts[i][0] < consts[j][0] })

	// ---- emit
	var b strings.Builder
	b.WriteString("(* GENERATED by /verif/translator from the Go sources of the repository. Do not edit. *)\n")
	b.WriteString("From Coq Require Import String List.\nImport ListNotations.\nOpen Scope string_scope.\n\n")
	sort.Slice(ambient, func(i, j int) bool {
		a, c := ambient[i], ambient[j]
		if a.File != c.File {
			return a.File < c.File
		}
		if a.Func != c.Func {
			return a.Func < c.Func
		}
		if a.Kind != c.Kind {
			return a.Kind < c.Kind
		}
		if a.Detail != c.Detail {
			return a.Detail < c.Detail
		}
		return a.Ord < c.Ord
	})
	b.WriteString("(* (file, function, kind, detail, ordinal within the function) *)\n")
	b.WriteString("Definition ambient_sites : list (string * string * string * string * nat) := [\n")
	for i, s := range ambient {
		sep := ";"
		if i == len(ambient)-1 {
			sep = ""
		}
		fmt.Fprintf(&b, "  (%s, %s, %s, %s, %d)%s\n", coqStr(s.File), coqStr(s.Func), coqStr(s.Kind), coqStr(s.Detail), s.Ord, sep)
	}
	b.WriteString("].\n\n")
	var gl []string
	for g := range globalsWritten {
		gl = append(gl, g)
	}
	sort.Strings(gl)
	writeStrList(&b, "mutable_globals", gl)
	// fields of keeper-like structs that can hold state outside the store: maps, slices, channels,
	// sync primitives and pointers to plain data (not to other keepers / codecs / store keys)
	var krf []string
	for _, p := range consPkgs {
		if !strings.Contains(p.PkgPath, "/x/") {
			continue
		}
		sc := p.Types.Scope()
		for _, nm := range sc.Names() {
			if nm != "Keeper" && nm != "msgServer" && nm != "Hooks" && nm != "AppModule" && nm != "AppModuleBasic" {
				continue
			}
			tn, ok := sc.Lookup(nm).(*types.TypeName)
			if !ok {
				continue
			}
			st, ok := tn.Type().Underlying().(*types.Struct)
			if !ok {
				continue
			}
			for i := 0; i < st.NumFields(); i++ {
				fl := st.Field(i)
				kind := ""
				switch u := fl.Type().Underlying().(type) {
				case *types.Map:
					kind = "map"
				case *types.Slice:
					kind = "slice"
				case *types.Chan:
					kind = "chan"
				case *types.Pointer:
					if b, ok := u.Elem().Underlying().(*types.Basic); ok {
						kind = "ptr-" + b.Name()
					}
				case *types.Struct:
					if strings.HasPrefix(fl.Type().String(), "sync.") {
						kind = "sync"
					}
				}
				if kind != "" {
					krf = append(krf, short(p.PkgPath)+"."+nm+"."+fl.Name()+":"+kind)
				}
			}
		}
	}
	sort.Strings(krf)
	writeStrList(&b, "keeper_ref_fields", krf)
	sort.Slice(bank, func(i, j int) bool {
		if bank[i][1] != bank[j][1] {
			return bank[i][1] < bank[j][1]
		}
		return bank[i][2] < bank[j][2]
	})
	// (function, method, count)
	type bk struct{ fn, m string }
	bc := map[bk]int{}
	var bks []bk
	for _, x := range bank {
		k := bk{x[1], x[2]}
		if bc[k] == 0 {
			bks = append(bks, k)
		}
		bc[k]++
	}
	b.WriteString("(* (function, bank method, number of call sites) *)\nDefinition bank_sites : list (string * string * nat) := [\n")
	for i, k := range bks {
		sep := ";"
		if i == len(bks)-1 {
			sep = ""
		}
		fmt.Fprintf(&b, "  (%s, %s, %d)%s\n", coqStr(k.fn), coqStr(k.m), bc[k], sep)
	}
	b.WriteString("].\n\n")
	var pks []string
	for k := range prefFacts {
		pks = append(pks, k)
	}
	sort.Strings(pks)
	b.WriteString("(* (module, store prefix, written by consensus code, reached by ExportGenesis, reached by InitGenesis) *)\n")
	b.WriteString("Definition store_prefixes : list (string * string * bool * bool * bool) := [\n")
	for i, k := range pks {
		p := prefFacts[k]
		sep := ";"
		if i == len(pks)-1 {
			sep = ""
		}
		fmt.Fprintf(&b, "  (%s, %s, %v, %v, %v)%s\n", coqStr(p.mod), coqStr(p.prefix), p.written, p.exported, p.imported, sep)
	}
	b.WriteString("].\n\n")
	sort.Slice(msgMethods, func(i, j int) bool {
		if msgMethods[i][0] != msgMethods[j][0] {
			return msgMethods[i][0] < msgMethods[j][0]
		}
		return msgMethods[i][1] < msgMethods[j][1]
	})
	b.WriteString("Definition msg_methods : list (string * string) := [\n")
	for i, m := range msgMethods {
		sep := ";"
		if i == len(msgMethods)-1 {
			sep = ""
		}
		fmt.Fprintf(&b, "  (%s, %s)%s\n", coqStr(m[0]), coqStr(m[1]), sep)
	}
	b.WriteString("].\n\n")
	sort.Strings(hookMethods)
	writeStrList(&b, "hook_methods", hookMethods)
	writeStrList(&b, "begin_order", beginOrder)
	writeStrList(&b, "end_order", endOrder)
	b.WriteString("Definition macc_perms : list (string * string) := [\n")
	for i, m := range macc {
		sep := ";"
		if i == len(macc)-1 {
			sep = ""
		}
		fmt.Fprintf(&b, "  (%s, %s)%s\n", coqStr(m[0]), coqStr(m[1]), sep)
	}
	b.WriteString("].\n\n")
	b.WriteString("Definition constants : list (string * string) := [\n")
	for i, m := range consts {
		sep := ";"
		if i == len(consts)-1 {
			sep = ""
		}
		fmt.Fprintf(&b, "  (%s, %s)%s\n", coqStr(m[0]), coqStr(m[1]), sep)
	}
	b.WriteString("].\n\n")
	writeStrList(&b, "literal_sites", lits)
	if err := os.WriteFile(*out, []byte(b.String()), 0644); err != nil {
		fmt.Fprintln(os.Stderr, err)
		os.Exit(1)
	}
	fmt.Printf("translator: %d functions, %d reachable, %d ambient sites, %d bank sites, %d prefixes\n", len(funcs), len(reach), len(ambient), len(bank), len(pks))
}

func prefixArg(info *types.Info, e ast.Expr) string {
	// types.KeyPrefix(types.XKeyPrefix) or []byte(...) : report the constant string when known
	var found string
	ast.Inspect(e, func(n ast.Node) bool {
		if ex, ok := n.(ast.Expr); ok {
			if tv, ok := info.Types[ex]; ok && tv.Value != nil && tv.Value.Kind() == constant.String {
				found = constant.StringVal(tv.Value)
				return false
			}
		}
		return true
	})
	if found == "" {
		return types.ExprString(e)
	}
	return found
}

func writeStrList(b *strings.Builder, name string, l []string) {
	fmt.Fprintf(b, "Definition %s : list string := [\n", name)
	for i, s := range l {
		sep := ";"
		if i == len(l)-1 {
			sep = ""
		}
		fmt.Fprintf(b, "  %s%s\n", coqStr(s), sep)
	}
	b.WriteString("].\n\n")
}
