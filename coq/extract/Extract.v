(* Extraction of the executable model. ExtrOcamlBasic only: bool, option, unit, list,
   prod, sumbool, sumor map to OCaml's; Z, positive, N, nat, string, ascii stay the
   extracted inductives (no Extract Constant, no native integers). *)
From SaoVerif Require Import Base.Prelude Model.Driver.
Require Extraction.
Require Import ExtrOcamlBasic.
Extraction Language OCaml.
Extraction "model.ml" check_step model_post state_metrics.
