(* Boolean monitors for the clauses of Inv_did, evaluated by the correspondence runner
   on abstracted IMPLEMENTATION states (a test of the code against the invariant the
   theorems prove of the model). *)
From SaoVerif Require Import Base.Prelude Base.Ints Model.Did Model.DidSpec.

Definition all_items {A} (m : gmap string A) (f : string -> A -> bool) : bool :=
  forallb (fun kv => f kv.1 kv.2) (map_to_list m).

Definition opt_eqb (o : option string) (x : string) : bool :=
  match o with Some y => String.eqb x y | None => false end.

Definition mon_list_sound (s : DidState) : bool :=
  all_items (d_acclist s) (fun d l =>
    forallb (fun a => match d_accid s !! a with
                      | Some id => opt_eqb (d_did s !! id) d
                      | None => false end) l).

Definition mon_list_complete (s : DidState) : bool :=
  all_items (d_accid s) (fun a id =>
    match d_did s !! id with
    | Some d => match d_acclist s !! d with Some l => in_list a l | None => false end
    | None => false
    end).

Definition mon_list_nodup (s : DidState) : bool :=
  all_items (d_acclist s) (fun _ l => nodup_strb l).

Definition mon_did_has_acc (s : DidState) : bool :=
  all_items (d_did s) (fun id d =>
    existsb (fun kv => String.eqb kv.2 id) (map_to_list (d_accid s)) && is_sid d).

Definition mon_auth_dom (s : DidState) : bool :=
  all_items (d_auth s) (fun a _ => bool_decide (is_Some (d_accid s !! a))) &&
  all_items (d_accid s) (fun a _ => bool_decide (is_Some (d_auth s !! a))).

Definition mon_pay_sid (chain : string) (s : DidState) : bool :=
  all_items (d_pay s) (fun d p =>
    if is_sid d then
      existsb (fun kv => String.eqb kv.2 d &&
                 match parse_account_id kv.1 with
                 | Some c => String.eqb (c_network c) "cosmos" && String.eqb (c_chainid c) chain && String.eqb (c_address c) p
                 | None => false end) (map_to_list (d_did s))
    else if is_keydid d then opt_eqb (d_kid s !! p) d
    else false).

Definition mon_kid_pay (s : DidState) : bool :=
  all_items (d_kid s) (fun a d => opt_eqb (d_pay s !! d) a && is_keydid d).

Definition mon_versions (s : DidState) : bool :=
  all_items (d_ver s) (fun r l =>
    match l with
    | h :: _ => String.eqb h r
    | [] => false
    end && nodup_strb l && forallb (fun v => bool_decide (is_Some (d_doc s !! v))) l
    && Nat.eqb (length (default [] (d_seeds s !! ("did:sid:" +:+ r))) + 1) (length l)).

Definition did_monitors (chain : string) (s : DidState) : list (string * bool) :=
  [ ("did.list_sound", mon_list_sound s); ("did.list_complete", mon_list_complete s);
    ("did.list_nodup", mon_list_nodup s); ("did.did_has_acc", mon_did_has_acc s);
    ("did.auth_dom", mon_auth_dom s); ("did.pay_bound", mon_pay_sid chain s);
    ("did.kid_pay", mon_kid_pay s); ("did.versions", mon_versions s) ].

Definition failed_monitors (l : list (string * bool)) : list string :=
  map fst (filter (fun p => negb p.2) l).

(* boolean form of [op_sane]: checked on every generated operation *)
Definition parse_sane_b (did : string) (p : option (string * string)) : bool :=
  match p with
  | None => true
  | Some (m, _) => (negb (String.eqb m "sid") || is_sid did) && (negb (String.eqb m "key") || is_keydid did)
  end.
Definition op_sane_b (op : DidOp) : bool :=
  match op with
  | OpBinding _ _ => true
  | OpUpdate _ m => match u_parse m with
                    | Some (_, id) => negb (is_sid (u_did m)) || String.eqb (u_did m) ("did:sid:" +:+ id)
                    | None => true end
  | OpUpdatePay m => parse_sane_b (p_did m) (p_parse m)
  end.
