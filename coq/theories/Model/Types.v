(* Records of the six custom modules' stores plus the thin bank / staking state, the
   global [State], and its codec to the table format the harness dumps. *)
From SaoVerif Require Import Base.Prelude Base.Ints Base.Dec Model.Did.
From RecordUpdate Require Import RecordUpdate.
Import RecordSetNotations.

(** * node *)
Record Node := mkNode {
  n_peer : string; n_rep : Z; n_status : Z; n_alive : Z; n_tx : list string; n_role : Z; n_val : string }.
Global Instance eta_Node : Settable _ := settable! mkNode <n_peer; n_rep; n_status; n_alive; n_tx; n_role; n_val>.

Record Pledge := mkPledge {
  pl_spledged : Z;   (* TotalStoragePledged (coins) *)
  pl_shpledged : Z;  (* TotalShardPledged (coins) *)
  pl_reward : Z;     (* Reward (Dec) *)
  pl_rdebt : Z;      (* RewardDebt (Dec) *)
  pl_total : Z;      (* TotalStorage (int64) *)
  pl_used : Z }.     (* UsedStorage (int64) *)
Global Instance eta_Pledge : Settable _ := settable! mkPledge <pl_spledged; pl_shpledged; pl_reward; pl_rdebt; pl_total; pl_used>.

Record Pool := mkPool {
  po_pledged : Z; po_reward : Z; po_accpledge : Z; po_accreward : Z; po_rpb : Z; po_nrpb : Z;
  po_storage : Z; po_count : Z }.
Global Instance eta_Pool : Settable _ := settable! mkPool <po_pledged; po_reward; po_accpledge; po_accreward; po_rpb; po_nrpb; po_storage; po_count>.

Record Fault := mkFault {
  f_id : string; f_order : Z; f_data : string; f_shard : Z; f_commit : string; f_provider : string;
  f_reporter : string; f_confirms : string; f_status : Z; f_penalty : Z }.
Global Instance eta_Fault : Settable _ := settable! mkFault <f_id; f_order; f_data; f_shard; f_commit; f_provider; f_reporter; f_confirms; f_status; f_penalty>.

Record NParams := mkNParams {
  np_reward : Z; np_baseline : Z; np_apy : Z; np_halving : Z; np_adjust : Z; np_share : Z;
  np_fishmen : string; np_pbase : Z; np_maxpen : Z; np_vthreshold : Z; np_offline : Z }.

(** * order *)
Record Order := mkOrder {
  o_creator : string; o_owner : string; o_provider : string; o_cid : string; o_duration : Z;
  o_status : Z; o_replica : Z; o_shards : list Z; o_amount : Z; o_size : Z; o_op : Z;
  o_created : Z; o_timeout : Z; o_data : string; o_commit : string; o_price : Z; o_paydid : string }.
Global Instance eta_Order : Settable _ := settable! mkOrder
  <o_creator; o_owner; o_provider; o_cid; o_duration; o_status; o_replica; o_shards; o_amount; o_size; o_op;
   o_created; o_timeout; o_data; o_commit; o_price; o_paydid>.

Record RenewInfo := mkRenew { ri_order : Z; ri_pledge : Z; ri_duration : Z }.

Record Shard := mkShard {
  sh_order : Z; sh_status : Z; sh_size : Z; sh_cid : string; sh_pledge : Z; sh_from : string; sh_sp : string;
  sh_duration : Z; sh_created : Z; sh_renew : list RenewInfo }.
Global Instance eta_Shard : Settable _ := settable! mkShard
  <sh_order; sh_status; sh_size; sh_cid; sh_pledge; sh_from; sh_sp; sh_duration; sh_created; sh_renew>.

(* order status *)
Definition OrderPending := 0. Definition OrderInProgress := 1. Definition OrderCompleted := 3.
Definition OrderDataReady := 6.
(* shard status *)
Definition ShardWaiting := 0. Definition ShardCompleted := 2. Definition ShardMigrating := 4. Definition ShardTimeout := 5.

(** * model *)
Record Meta := mkMeta {
  m_owner : string; m_alias : string; m_group : string; m_order : Z; m_tags : list string; m_cid : string;
  m_commits : list string; m_ext : string; m_update : Z; m_commit : string; m_rule : string; m_duration : Z;
  m_created : Z; m_ro : list string; m_rw : list string; m_status : Z; m_orders : list Z }.
Global Instance eta_Meta : Settable _ := settable! mkMeta
  <m_owner; m_alias; m_group; m_order; m_tags; m_cid; m_commits; m_ext; m_update; m_commit; m_rule; m_duration;
   m_created; m_ro; m_rw; m_status; m_orders>.
Definition MetaNew := 0. Definition MetaComplete := 4.

(** * market *)
Record Worker := mkWorker { w_storage : Z; w_reward : Z; w_rate : Z; w_last : Z }.
Global Instance eta_Worker : Settable _ := settable! mkWorker <w_storage; w_reward; w_rate; w_last>.

(** * staking (shares only) *)
Record Validator := mkVal { v_shares : Z; v_tokens : Z; v_status : Z }.
Record Delegation := mkDel { dl_del : string; dl_val : string; dl_shares : Z }.

(** * the global state *)
Record State := mkState {
  did : DidState;
  nodes : gmap string Node;
  pledges : gmap string Pledge;
  debts : gmap string Z;
  pool : option Pool;
  round : option Z;
  faults : gmap string Fault;                   (* Fault/faultId/ : id -> fault *)
  fault_idx : gmap string (string * Z * string); (* Fault/value/ : raw key -> (provider, shard, fault id) *)
  fishing : gmap string string;
  nparams : NParams;
  orders : gmap Z Order;
  order_count : Z;
  shards : gmap Z Shard;
  shard_count : Z;
  metas : gmap string Meta;
  models : gmap string string;
  expdata : gmap Z (list string);
  timeouts : gmap Z (list Z);
  expshards : gmap Z (list Z);
  workers : gmap string Worker;
  bal : gmap string Z;
  supply : Z;
  vals : gmap string Validator;
  dels : gmap string Delegation;
  pg : Z;                                       (* process global sharesBeforeModified (Dec) *)
}.
Global Instance eta_State : Settable _ := settable! mkState
  <did; nodes; pledges; debts; pool; round; faults; fault_idx; fishing; nparams; orders; order_count; shards;
   shard_count; metas; models; expdata; timeouts; expshards; workers; bal; supply; vals; dels; pg>.

(** * codec *)
Definition tables := list (string * value).
Fixpoint tget (n : string) (t : tables) : option value :=
  match t with
  | [] => None
  | (k, v) :: r => if String.eqb k n then Some v else tget n r
  end.

Definition enc_node (n : Node) : value :=
  VL [VS (n_peer n); VZ (n_rep n); VZ (n_status n); VZ (n_alive n); vLS (n_tx n); VZ (n_role n); VS (n_val n)].
Definition dec_node (v : value) : option Node :=
  match v with
  | VL [VS a; VZ b; VZ c; VZ d; e; VZ f; VS g] =>
      match unLS e with Some e => Some (mkNode a b c d e f g) | None => None end
  | _ => None end.

Definition enc_pledge (p : Pledge) : value :=
  VL [VZ (pl_spledged p); VZ (pl_shpledged p); VZ (pl_reward p); VZ (pl_rdebt p); VZ (pl_total p); VZ (pl_used p)].
Definition dec_pledge (v : value) : option Pledge :=
  match v with VL [VZ a; VZ b; VZ c; VZ d; VZ e; VZ f] => Some (mkPledge a b c d e f) | _ => None end.

Definition enc_pool (p : Pool) : value :=
  VL [VZ (po_pledged p); VZ (po_reward p); VZ (po_accpledge p); VZ (po_accreward p); VZ (po_rpb p); VZ (po_nrpb p);
      VZ (po_storage p); VZ (po_count p)].
Definition dec_pool (v : value) : option Pool :=
  match v with VL [VZ a; VZ b; VZ c; VZ d; VZ e; VZ f; VZ g; VZ h] => Some (mkPool a b c d e f g h) | _ => None end.

Definition enc_opt {A} (f : A -> value) (o : option A) : value :=
  match o with Some a => VL [f a] | None => VL [] end.
Definition dec_opt {A} (f : value -> option A) (v : value) : option (option A) :=
  match v with
  | VL [] => Some None
  | VL [x] => match f x with Some a => Some (Some a) | None => None end
  | _ => None end.

Definition enc_fault (f : Fault) : value :=
  VL [VS (f_id f); VZ (f_order f); VS (f_data f); VZ (f_shard f); VS (f_commit f); VS (f_provider f);
      VS (f_reporter f); VS (f_confirms f); VZ (f_status f); VZ (f_penalty f)].
Definition dec_fault (v : value) : option Fault :=
  match v with
  | VL [VS a; VZ b; VS c; VZ d; VS e; VS f; VS g; VS h; VZ i; VZ j] => Some (mkFault a b c d e f g h i j)
  | _ => None end.
Definition enc_fidx (x : string * Z * string) : value := let '(p, s, i) := x in VL [VS p; VZ s; VS i].
Definition dec_fidx (v : value) : option (string * Z * string) :=
  match v with VL [VS p; VZ s; VS i] => Some (p, s, i) | _ => None end.

Definition enc_nparams (p : NParams) : value :=
  VL [VZ (np_reward p); VZ (np_baseline p); VZ (np_apy p); VZ (np_halving p); VZ (np_adjust p); VZ (np_share p);
      VS (np_fishmen p); VZ (np_pbase p); VZ (np_maxpen p); VZ (np_vthreshold p); VZ (np_offline p)].
Definition dec_nparams (v : value) : option NParams :=
  match v with
  | VL [VZ a; VZ b; VZ c; VZ d; VZ e; VZ f; VS g; VZ h; VZ i; VZ j; VZ k] => Some (mkNParams a b c d e f g h i j k)
  | _ => None end.

Definition enc_order (o : Order) : value :=
  VL [VS (o_creator o); VS (o_owner o); VS (o_provider o); VS (o_cid o); VZ (o_duration o); VZ (o_status o);
      VZ (o_replica o); vLZ (o_shards o); VZ (o_amount o); VZ (o_size o); VZ (o_op o); VZ (o_created o);
      VZ (o_timeout o); VS (o_data o); VS (o_commit o); VZ (o_price o); VS (o_paydid o)].
Definition dec_order (v : value) : option Order :=
  match v with
  | VL [VS a; VS b; VS c; VS d; VZ e; VZ f; VZ g; h; VZ i; VZ j; VZ k; VZ l; VZ m; VS n; VS o; VZ p; VS q] =>
      match unLZ h with Some h => Some (mkOrder a b c d e f g h i j k l m n o p q) | None => None end
  | _ => None end.

Definition enc_renew (r : RenewInfo) : value := VL [VZ (ri_order r); VZ (ri_pledge r); VZ (ri_duration r)].
Definition dec_renew (v : value) : option RenewInfo :=
  match v with VL [VZ a; VZ b; VZ c] => Some (mkRenew a b c) | _ => None end.
Definition enc_shard (s : Shard) : value :=
  VL [VZ (sh_order s); VZ (sh_status s); VZ (sh_size s); VS (sh_cid s); VZ (sh_pledge s); VS (sh_from s); VS (sh_sp s);
      VZ (sh_duration s); VZ (sh_created s); VL (map enc_renew (sh_renew s))].
Definition dec_shard (v : value) : option Shard :=
  match v with
  | VL [VZ a; VZ b; VZ c; VS d; VZ e; VS f; VS g; VZ h; VZ i; VL j] =>
      match mapM dec_renew j with Some j => Some (mkShard a b c d e f g h i j) | None => None end
  | _ => None end.

Definition enc_meta (m : Meta) : value :=
  VL [VS (m_owner m); VS (m_alias m); VS (m_group m); VZ (m_order m); vLS (m_tags m); VS (m_cid m); vLS (m_commits m);
      VS (m_ext m); VZ (m_update m); VS (m_commit m); VS (m_rule m); VZ (m_duration m); VZ (m_created m);
      vLS (m_ro m); vLS (m_rw m); VZ (m_status m); vLZ (m_orders m)].
Definition dec_meta (v : value) : option Meta :=
  match v with
  | VL [VS a; VS b; VS c; VZ d; e; VS f; g; VS h; VZ i; VS j; VS k; VZ l; VZ m; n; o; VZ p; q] =>
      match unLS e, unLS g, unLS n, unLS o, unLZ q with
      | Some e, Some g, Some n, Some o, Some q => Some (mkMeta a b c d e f g h i j k l m n o p q)
      | _, _, _, _, _ => None end
  | _ => None end.

Definition enc_worker (w : Worker) : value := VL [VZ (w_storage w); VZ (w_reward w); VZ (w_rate w); VZ (w_last w)].
Definition dec_worker (v : value) : option Worker :=
  match v with VL [VZ a; VZ b; VZ c; VZ d] => Some (mkWorker a b c d) | _ => None end.

Definition enc_val (x : Validator) : value := VL [VZ (v_shares x); VZ (v_tokens x); VZ (v_status x)].
Definition dec_val (v : value) : option Validator :=
  match v with VL [VZ a; VZ b; VZ c] => Some (mkVal a b c) | _ => None end.
Definition enc_del (x : Delegation) : value := VL [VS (dl_del x); VS (dl_val x); VZ (dl_shares x)].
Definition dec_del (v : value) : option Delegation :=
  match v with VL [VS a; VS b; VZ c] => Some (mkDel a b c) | _ => None end.

Definition enc_one (z : Z) : value := VL [VZ z].
Definition dec_one (v : value) : option Z := match v with VL [VZ z] => Some z | _ => None end.

Definition did_tables (s : DidState) : tables :=
  match enc_did s with
  | VL l => combine (map (fun n => "did." +:+ n) did_table_names) l
  | _ => []
  end.
Definition did_of_tables (t : tables) : option DidState :=
  match mapM (fun n => tget ("did." +:+ n) t) did_table_names with
  | Some l => dec_did (VL l)
  | None => None
  end.

Definition enc_state (s : State) : tables :=
  did_tables (did s) ++
  [ ("node.Node", enc_smap enc_node (nodes s)); ("node.Pledge", enc_smap enc_pledge (pledges s));
    ("node.PledgeDebt", enc_smap VZ (debts s)); ("node.Pool", enc_opt enc_pool (pool s));
    ("node.NodeRound", enc_opt VZ (round s)); ("node.FaultById", enc_smap enc_fault (faults s));
    ("node.FaultIndex", enc_smap enc_fidx (fault_idx s)); ("node.FishingReward", enc_smap VS (fishing s));
    ("node.Params", VL [enc_nparams (nparams s)]);
    ("order.Order", enc_zmap enc_order (orders s)); ("order.OrderCount", enc_one (order_count s));
    ("order.Shard", enc_zmap enc_shard (shards s)); ("order.ShardCount", enc_one (shard_count s));
    ("model.Metadata", enc_smap enc_meta (metas s)); ("model.Model", enc_smap VS (models s));
    ("model.ExpiredData", enc_zmap vLS (expdata s));
    ("sao.TimeoutOrder", enc_zmap vLZ (timeouts s)); ("sao.ExpiredShard", enc_zmap vLZ (expshards s));
    ("market.Worker", enc_smap enc_worker (workers s));
    ("bank.Balance", enc_smap VZ (bal s)); ("bank.Supply", enc_one (supply s));
    ("staking.Validator", enc_smap enc_val (vals s)); ("staking.Delegation", enc_smap enc_del (dels s));
    ("proc.sharesBeforeModified", enc_one (pg s)) ].

Definition obind {A B} (o : option A) (f : A -> option B) : option B :=
  match o with Some a => f a | None => None end.
Notation "x <-? o ; k" := (obind o (fun x => k)) (at level 60, o at level 50, right associativity).

Definition tdec {A} (t : tables) (n : string) (f : value -> option A) : option A :=
  match tget n t with Some v => f v | None => None end.

Definition dec_state (t : tables) : option State :=
  d <-? did_of_tables t;
  n <-? tdec t "node.Node" (dec_smap dec_node);
  pl <-? tdec t "node.Pledge" (dec_smap dec_pledge);
  db <-? tdec t "node.PledgeDebt" (dec_smap unZ);
  po <-? tdec t "node.Pool" (dec_opt dec_pool);
  rd <-? tdec t "node.NodeRound" (dec_opt unZ);
  fa <-? tdec t "node.FaultById" (dec_smap dec_fault);
  fi <-? tdec t "node.FaultIndex" (dec_smap dec_fidx);
  fr <-? tdec t "node.FishingReward" (dec_smap unS);
  np <-? tdec t "node.Params" (fun v => match v with VL [x] => dec_nparams x | _ => None end);
  od <-? tdec t "order.Order" (dec_zmap dec_order);
  oc <-? tdec t "order.OrderCount" dec_one;
  sh <-? tdec t "order.Shard" (dec_zmap dec_shard);
  sc <-? tdec t "order.ShardCount" dec_one;
  me <-? tdec t "model.Metadata" (dec_smap dec_meta);
  mo <-? tdec t "model.Model" (dec_smap unS);
  ed <-? tdec t "model.ExpiredData" (dec_zmap unLS);
  ti <-? tdec t "sao.TimeoutOrder" (dec_zmap unLZ);
  es <-? tdec t "sao.ExpiredShard" (dec_zmap unLZ);
  wo <-? tdec t "market.Worker" (dec_smap dec_worker);
  ba <-? tdec t "bank.Balance" (dec_smap unZ);
  su <-? tdec t "bank.Supply" dec_one;
  va <-? tdec t "staking.Validator" (dec_smap dec_val);
  de <-? tdec t "staking.Delegation" (dec_smap dec_del);
  g <-? tdec t "proc.sharesBeforeModified" dec_one;
  Some (mkState d n pl db po rd fa fi fr np od oc sh sc me mo ed ti es wo ba su va de g).
