(* Boolean monitors: the invariant clauses of the properties, evaluated by the
   correspondence runner on abstracted IMPLEMENTATION states after every step. They are
   tests of the real code against the clauses; which clauses are also theorems of the
   model is recorded per property in the evidence. *)
From SaoVerif Require Import Base.Prelude Base.Ints Base.Dec Model.Did Model.Types Model.Monad Model.Bank Model.Select
     Model.Node Model.Storage Model.Sao Model.Hooks Model.App.

Definition zitems {A} (m : gmap Z A) : list (Z * A) := map_to_list m.
Definition sitems {A} (m : gmap string A) : list (string * A) := map_to_list m.
Definition all_z {A} (m : gmap Z A) (f : Z -> A -> bool) : bool := forallb (fun kv => f kv.1 kv.2) (zitems m).
Definition all_s {A} (m : gmap string A) (f : string -> A -> bool) : bool := forallb (fun kv => f kv.1 kv.2) (sitems m).
Definition sumz {A} (l : list A) (f : A -> Z) : Z := fold_right (fun a acc => f a + acc) 0 l.

(** C13 referential integrity *)
Definition mon_order_shards_exist (s : State) : bool :=
  all_z (orders s) (fun _ o => forallb (fun id => bool_decide (is_Some (shards s !! id))) (o_shards o)).
Definition mon_order_shards_nodup (s : State) : bool :=
  all_z (orders s) (fun _ o => bool_decide (NoDup (o_shards o))).
(* root cause of finding D23: a shard under migration is listed by an order other than its own
   (a renewal placed during the migration copies it). A migration started AFTER a renewal attaches the
   new shard to the renewal order itself, which is benign and satisfies this clause
   (Proofs/RefInt.v, no_renewal_of_migrating_benign). *)
Definition mon_migrating_private (s : State) : bool :=
  all_z (orders s) (fun oid o => forallb (fun id => match shards s !! id with
     | Some sh => negb (sh_status sh =? ShardMigrating) || (sh_order sh =? oid) | None => true end) (o_shards o)).
Definition mon_shard_has_order (s : State) : bool :=
  all_z (shards s) (fun id sh => match orders s !! sh_order sh with
                                | Some o => inZ id (o_shards o)
                                | None => false end).
Definition mon_completed_scheduled (s : State) : bool :=
  all_z (shards s) (fun id sh =>
    if sh_status sh =? ShardCompleted
    then inZ id (default [] (expshards s !! u64 (sh_created sh + sh_duration sh)))
    else true).
Definition mon_model_alias (s : State) : bool :=
  all_s (metas s) (fun d m => match models s !! meta_key m with Some d' => String.eqb d d' | None => false end) &&
  all_s (models s) (fun k d => match metas s !! d with Some m => String.eqb (meta_key m) k | None => false end).

(** C11 / C05 schedules of data models *)
Definition mon_meta_scheduled (s : State) : bool :=
  all_s (metas s) (fun d m => in_list d (default [] (expdata s !! u64 (m_created m + m_duration m)))).
Definition mon_expdata_live (s : State) : bool :=
  all_z (expdata s) (fun h l => nodup_strb l &&
    forallb (fun d => match metas s !! d with Some m => u64 (m_created m + m_duration m) =? h | None => false end) l).
(* a model never disappears while a paid, unexpired shard of it remains: its expiry is not before the end of its completed shards *)
Definition mon_meta_covers_shards (s : State) : bool :=
  all_z (shards s) (fun _ sh =>
    if sh_status sh =? ShardCompleted then
      match orders s !! sh_order sh with
      | Some o => match metas s !! o_data o with
                  | Some m => u64 (sh_created sh + sh_duration sh) <=? u64 (m_created m + m_duration m)
                  | None => false end
      | None => true   (* reported by shard_has_order *)
      end
    else true).
(* ... and until the end of every prepaid renewal queued on the shards of its latest order *)
Definition mon_meta_covers_renewals (s : State) : bool :=
  all_s (metas s) (fun d m =>
    match orders s !! m_order m with
    | Some o =>
        forallb (fun id => match shards s !! id with
                           | Some sh => if (sh_status sh =? ShardCompleted) && (sh_order sh =? m_order m) || (sh_status sh =? ShardCompleted) && (o_op o =? 3)
                                        then u64 (shard_end_all sh) <=? u64 (m_created m + m_duration m) else true
                           | None => true end) (o_shards o)
    | None => true
    end).
(* with no update in flight, a model that still has completed shards lives exactly as long as the longest-lived of
   them, queued renewals included (what ExtendMetaDuration / ResetMetaDuration maintain; a rollback restores it) *)
Definition mon_meta_expiry_is_shard_end (s : State) : bool :=
  all_s (metas s) (fun d m =>
    if m_status m =? MetaComplete then
      let mx := reset_expired_height s (m_orders m) in
      (mx =? 0) || (u64 (m_created m + m_duration m) =? mx)
    else true).
(* at block boundaries every scheduled height is in the future *)
Definition mon_schedules_future (h : Z) (s : State) : bool :=
  all_z (expshards s) (fun k _ => h <? k) && all_z (expdata s) (fun k _ => h <? k).

(** C14 capacity and aggregate accounting *)
Definition live_shards (s : State) (sp : string) : list Shard :=
  map snd (filter (fun kv => (sh_status kv.2 =? ShardCompleted) && String.eqb (sh_sp kv.2) sp) (zitems (shards s))).
Definition mon_used_is_sum (s : State) : bool :=
  all_s (pledges s) (fun sp p => pl_used p =? sumz (live_shards s sp) sh_size).
Definition mon_used_bounds (s : State) : bool :=
  all_s (pledges s) (fun _ p => (0 <=? pl_used p) && (pl_used p <=? pl_total p)).
Definition mon_shpledged_is_sum (s : State) : bool :=
  all_s (pledges s) (fun sp p => pl_shpledged p =? sumz (live_shards s sp) sh_pledge).
(* C02: the collateral a release subtracts is covered by the coin it subtracts from (a violation is a state from which
   the unattended release of the provider's shards at their expiry panics in EndBlock with a negative coin amount; the
   used-capacity counter is a plain integer and may go negative without a panic, so it is not part of this clause) *)
Definition mon_release_covered (s : State) : bool :=
  all_s (pledges s) (fun sp p => sumz (live_shards s sp) sh_pledge <=? pl_shpledged p).
Definition mon_worker_is_sum (s : State) : bool :=
  all_s (pledges s) (fun sp _ =>
    let ls := live_shards s sp in
    match workers s !! worker_name sp with
    | Some w => (w_storage w =? sumz ls sh_size) && (w_rate w =? sumz ls (fun sh => dec_mul_int PRICE (sh_size sh)))
    | None => match ls with [] => true | _ => false end
    end).
Definition mon_pool_is_sum (s : State) : bool :=
  match pool s with
  | Some po => (po_storage po =? sumz (sitems (pledges s)) (fun kv => pl_total kv.2)) &&
               (po_pledged po =? sumz (sitems (pledges s)) (fun kv => pl_spledged kv.2))
  | None => true
  end.

(** C06 escrow solvency *)
Definition owed_order (s : State) : Z :=
  sumz (zitems (orders s)) (fun kv => let o := kv.2 in
    if negb (o_op o =? 3) && ((o_status o =? OrderPending) || (o_status o =? OrderDataReady)) then o_amount o else 0).
Definition mon_order_solvent (s : State) : bool := owed_order s <=? balance s (macc ORDER).

Definition owed_node_collateral (s : State) : Z :=
  sumz (sitems (pledges s)) (fun kv => pl_spledged kv.2 + pl_shpledged kv.2) - sumz (sitems (debts s)) snd.
Definition owed_node_rewards (s : State) : Z :=
  match pool s with
  | Some po => sumz (sitems (pledges s)) (fun kv => dec_trunc (pl_reward kv.2 + pending (po_accreward po) kv.2))
  | None => 0 end.
Definition mon_node_solvent (s : State) : bool :=
  owed_node_collateral s + owed_node_rewards s <=? balance s (macc NODE).

(* market: accrued income of every worker + income still to be earned on live shards and queued renewals *)
Definition owed_market (h : Z) (s : State) : Z :=
  sumz (sitems (workers s)) (fun kv => w_reward kv.2 + dec_mul_int (w_rate kv.2) (h - w_last kv.2)) +
  sumz (zitems (shards s)) (fun kv => let sh := kv.2 in
    if sh_status sh =? ShardCompleted then
      dec_mul_int (dec_mul_int PRICE (sh_size sh)) (Z.max 0 (sh_created sh + sh_duration sh - h)) +
      sumz (sh_renew sh) (fun ri => dec_mul_int (dec_mul_int PRICE (sh_size sh)) (ri_duration ri))
    else 0).
Definition mon_market_solvent (h : Z) (s : State) : bool := owed_market h s <=? dec_of_int (balance s (macc MARKET)).

(* C04 conservation at the market escrow: what it holds beyond what it owes is only (a) the
   price of replicas of deposited orders that are still waiting for a provider and (b)
   rounding dust of less than one coin per shard settlement. Money left there that no
   record can ever release is an orphan. *)
Definition waiting_share (s : State) : Z :=
  sumz (zitems (orders s)) (fun kv => let o := kv.2 in
    if (o_status o =? OrderCompleted) && negb (o_op o =? 3) then
      sumz (omap (fun id => shards s !! id) (o_shards o)) (fun sh =>
        if (sh_status sh =? ShardWaiting) || (sh_status sh =? ShardTimeout) || (sh_status sh =? ShardMigrating)
        then dec_mul_int (dec_mul_int (o_price o) (sh_size sh)) (o_duration o) else 0)
    else 0).
Definition market_surplus (h : Z) (s : State) : Z :=
  dec_of_int (balance s (macc MARKET)) - owed_market h s - waiting_share s.

(** C08 / bank *)
Definition mon_reward_counter (s0_supply s0_reward : Z) (s : State) : bool :=
  match pool s with Some po => po_reward po - s0_reward =? supply s - s0_supply | None => true end.

(** C16 *)
Definition mon_ids (s : State) : bool :=
  all_z (orders s) (fun id _ => id <? order_count s) && all_z (shards s) (fun id _ => id <? shard_count s).
Definition mon_one_in_flight (s : State) : bool :=
  all_s (metas s) (fun d _ =>
    Nat.leb (length (filter (fun kv => String.eqb (o_data kv.2) d && negb (o_op kv.2 =? 3) &&
                                       ((o_status kv.2 =? OrderPending) || (o_status kv.2 =? OrderDataReady)))
                            (zitems (orders s)))) 1).

(* the head of a model with no update in flight is its latest committed version (what a rollback must restore) *)
Definition mon_head_is_last_committed (s : State) : bool :=
  all_s (metas s) (fun _ m =>
    if m_status m =? MetaComplete then
      match last_opt (m_commits m) with
      | Some v => String.eqb (m_commit m) (commit_of_version v)
      | None => true end
    else true).

(** C20 / C03 *)
Definition mon_super_ok (s : State) : bool :=
  all_s (nodes s) (fun a n =>
    if n_role n =? 1 then
      match pledges s !! a with
      | Some p => (np_vthreshold (nparams s) <=? pl_total p) && check_share s a (n_val n) 0
      | None => false end
    else true).
Definition mon_no_residue (s : State) : bool := pg s =? 0.

(** C12: an order handed to providers and not fully stored has a pending check *)
(* the timeout check of an order gives up (and does not re-schedule) once the order's remaining
   lifetime is shorter than its timeout: that case is defect D15 and has its own clause *)
Definition long_timeout (h : Z) (o : Order) : bool := u64 (o_created o + o_duration o) <=? u64 (h + o_timeout o).
Definition mon_timeout_scheduled (h : Z) (s : State) : bool :=
  all_z (orders s) (fun oid o =>
    if (o_status o =? OrderDataReady) && negb (long_timeout h o) then
      existsb (fun kv => (h <? kv.1) && inZ oid kv.2) (zitems (timeouts s))
    else true).
Definition mon_long_timeout_scheduled (h : Z) (s : State) : bool :=
  all_z (orders s) (fun oid o =>
    if (o_status o =? OrderDataReady) && long_timeout h o then
      existsb (fun kv => (h <? kv.1) && inZ oid kv.2) (zitems (timeouts s))
    else true).
Definition mon_timeouts_future (h : Z) (s : State) : bool := all_z (timeouts s) (fun k _ => h <? k).

(** C15 / C12: the providers holding the (distinct) shards of one order are pairwise distinct -- a
    provider that holds, or has timed out on, a shard of the order is never chosen again for it.
    This is also the variant of timeout progress: every re-assignment uses up a fresh provider. *)
Fixpoint dedupz (l : list Z) : list Z :=
  match l with [] => [] | x :: r => if inZ x r then dedupz r else x :: dedupz r end.
Definition mon_order_sps_distinct (s : State) : bool :=
  all_z (orders s) (fun _ o =>
    nodup_strb (omap (fun id => match shards s !! id with Some sh => Some (sh_sp sh) | None => None end) (dedupz (o_shards o)))).

Definition app_monitors (boundary : bool) (h : Z) (s : State) : list (string * bool) :=
  [ ("ref.order_shards_exist", mon_order_shards_exist s);
    ("ref.migrating_private", mon_migrating_private s);
    ("ref.order_shards_nodup", mon_order_shards_nodup s);
    ("ref.shard_has_order", mon_shard_has_order s);
    ("ref.completed_scheduled", mon_completed_scheduled s);
    ("ref.model_alias", mon_model_alias s);
    ("sched.meta_scheduled", mon_meta_scheduled s);
    ("sched.expdata_live", mon_expdata_live s);
    ("sched.meta_covers_shards", mon_meta_covers_shards s);
    ("sched.meta_covers_renewals", mon_meta_covers_renewals s);
    ("sched.meta_expiry_is_shard_end", negb boundary || mon_meta_expiry_is_shard_end s);
    ("sched.future", negb boundary || mon_schedules_future h s);
    ("sched.timeout_scheduled", negb boundary || mon_timeout_scheduled h s);
    ("sched.long_timeout_scheduled", negb boundary || mon_long_timeout_scheduled h s);
    ("sched.timeouts_future", negb boundary || mon_timeouts_future h s);
    ("cons.market_no_orphan", negb boundary || (market_surplus h s <? dec_of_int (Z.of_nat (S (length (zitems (shards s))) + length (zitems (orders s)))%nat * 4 + 8)));
    ("agg.used_is_sum", mon_used_is_sum s);
    ("agg.used_bounds", mon_used_bounds s);
    ("agg.shpledged_is_sum", mon_shpledged_is_sum s);
    ("agg.worker_is_sum", mon_worker_is_sum s);
    ("live.release_covered", mon_release_covered s);
    ("agg.pool_is_sum", mon_pool_is_sum s);
    ("solv.order", mon_order_solvent s);
    ("solv.node", mon_node_solvent s);
    ("solv.market", negb boundary || mon_market_solvent h s);
    ("sel.order_sps_distinct", mon_order_sps_distinct s);
    ("ids.below_count", mon_ids s);
    ("ids.one_in_flight", mon_one_in_flight s);
    ("ver.head_is_last_committed", mon_head_is_last_committed s);
    ("super.role_ok", mon_super_ok s);
    ("proc.no_residue", mon_no_residue s) ].
