(* Per-operation monitors: boolean forms of the authorisation and frame clauses,
   evaluated on the IMPLEMENTATION's pre-state, operation, outcome and post-state.
   A failure is a concrete history on which the real code violates the clause. *)
From SaoVerif Require Import Base.Prelude Base.Ints Base.Dec Model.Did Model.Types Model.Monad Model.Bank Model.Select
     Model.Node Model.Storage Model.Sao Model.Hooks Model.App Model.Spec Model.Monitors.
From RecordUpdate Require Import RecordUpdate.
Import RecordSetNotations.

Fixpoint strip_prefix (p s : string) : option string :=
  match p, s with
  | EmptyString, _ => Some s
  | String a p', String b s' => if Ascii.eqb a b then strip_prefix p' s' else None
  | _, _ => None
  end.

Definition key_of_b (s : State) (d k : string) : bool :=
  String.eqb d ("did:key:" +:+ k) ||
  match strip_prefix "did:sid:" d with
  | Some root =>
      existsb (fun v => match d_doc (did s) !! v with
                        | Some keys => existsb (fun nk => String.eqb nk.2 k) keys
                        | None => false end) (default [] (d_ver (did s) !! root))
  | None => false
  end.

Definition signed_by_b (s : State) (owner : string) (so : SigO) : bool :=
  match so_kid so with
  | Some (m, id, _) => String.eqb ("did:" +:+ m +:+ ":" +:+ id) owner
  | None => false
  end && existsb (key_of_b s owner) (so_keys so).

Definition sig_sane_b (owner : string) (so : SigO) : bool :=
  match so_owner so with
  | Some (m, id) => String.eqb owner ("did:" +:+ m +:+ ":" +:+ id)
  | None => true
  end.

Definition meta_eqb (a b : option Meta) : bool :=
  match a, b with
  | None, None => true
  | Some x, Some y => value_eqb (enc_meta x) (enc_meta y)
  | _, _ => false
  end.

Definition models_same (a b : State) : bool :=
  value_eqb (enc_smap enc_meta (metas a)) (enc_smap enc_meta (metas b)) &&
  value_eqb (enc_smap VS (models a)) (enc_smap VS (models b)) &&
  value_eqb (enc_zmap vLS (expdata a)) (enc_zmap vLS (expdata b)).

Definition faults_same (a b : State) : bool :=
  value_eqb (enc_smap enc_fault (faults a)) (enc_smap enc_fault (faults b)) &&
  value_eqb (enc_smap enc_fidx (fault_idx a)) (enc_smap enc_fidx (fault_idx b)) &&
  value_eqb (enc_smap VS (fishing a)) (enc_smap VS (fishing b)).

Definition others_same {A} (enc : A -> value) (a b : gmap string A) (except : string) : bool :=
  value_eqb (enc_smap enc (delete except a)) (enc_smap enc (delete except b)).

Definition bal_same_except (a b : State) (except : list string) : bool :=
  let strip m := fold_left (fun m k => delete k m) except m in
  value_eqb (enc_smap VZ (strip (bal a))) (enc_smap VZ (strip (bal b))).

(* every tracked account whose balance went down *)
Definition payers (pre post : State) : list string :=
  map fst (filter (fun kv => balance post kv.1 <? kv.2) (map_to_list (bal pre))).

(** C05: an order on which storage never started (no shard ever completed) that disappears takes
    all its shards with it, and exactly its payment leaves the order escrow *)
Definition never_started (pre : State) (oid : Z) (o : Order) : bool :=
  ((o_status o =? OrderPending) || (o_status o =? OrderDataReady)) && negb (o_op o =? 3) &&
  forallb (fun ks => negb ((sh_order ks.2 =? oid) && (sh_status ks.2 =? ShardCompleted))) (map_to_list (shards pre)).
Definition rolled_back_orders (pre post : State) : list (Z * Order) :=
  filter (fun kv => never_started pre kv.1 kv.2 && negb (bool_decide (is_Some (orders post !! kv.1)))) (map_to_list (orders pre)).
Definition mon_rollback_clean (pre post : State) : bool :=
  forallb (fun kv =>
     forallb (fun ks => negb (sh_order ks.2 =? kv.1) || negb (bool_decide (is_Some (shards post !! ks.1)))) (map_to_list (shards pre)))
   (rolled_back_orders pre post).
Definition mon_rollback_refund (pre post : State) : bool :=
  balance pre (macc ORDER) - balance post (macc ORDER) =?
  fold_right (fun kv acc => o_amount kv.2 + acc) 0 (rolled_back_orders pre post).
(* C05: the refund of a rolled-back order reaches the account that paid for it (the payment address of the order's
   payment DID, else of its owner): that account's balance grows by at least the amounts of its rolled-back orders *)
Definition order_payer (s : State) (o : Order) : option string :=
  pay_addr s (if String.eqb (o_paydid o) "" then o_owner o else o_paydid o).
Definition mon_refund_to_payer (pre post : State) : bool :=
  let rolled := rolled_back_orders pre post in
  forallb (fun kv =>
     match order_payer pre kv.2 with
     | Some a => fold_right (fun kv' acc => match order_payer pre kv'.2 with
                                           | Some a' => if String.eqb a a' then o_amount kv'.2 + acc else acc
                                           | None => acc end) 0 rolled <=? balance post a - balance pre a
     | None => true end) rolled.
Definition rollback_monitors (money : bool) (pre post : State) : list (string * bool) :=
  [ ("rollback.clean", mon_rollback_clean pre post);
    ("rollback.refund_exact", negb money || mon_rollback_refund pre post) ].

(** C08: over [n] consecutive blocks at most n times the subsidy of the halving age at their start is minted *)
Definition mon_mint_cap (n : Z) (pre post : State) : bool :=
  match pool pre with
  | Some po => if po_reward po <? TOTAL_REWARD then supply post - supply pre <=? n * subsidy_cap pre else true
  | None => supply post =? supply pre
  end.

(** C06/D13: what the node escrow holds beyond recorded collateral (net of debt) and unclaimed rewards *)
Definition node_margin (s : State) : Z := balance s (macc NODE) - owed_node_collateral s - owed_node_rewards s.
Definition total_debt (s : State) : Z := sumz (sitems (debts s)) snd.

(** C20: a node that holds the super role after the step and did not hold it before was promoted by
    the step: at that moment it must have declared the full service status, have pledged the threshold
    capacity and hold the required fraction of its validator's shares (all on the post-state) *)
Definition mon_promotion_ok (pre post : State) : bool :=
  all_s (nodes post) (fun a n =>
    if (n_role n =? 1) && negb (match nodes pre !! a with Some n0 => n_role n0 =? 1 | None => false end) then
      (Z.land (n_status n) STATUS_SUPER_REQ =? STATUS_SUPER_REQ) &&
      match pledges post !! a with
      | Some p => (np_vthreshold (nparams post) <=? pl_total p) && check_share post a (n_val n) 0
      | None => false end
    else true).

(** C07: in an operation that only releases collateral (Terminate, Cancel, the end blocker), what a provider receives is
    the collateral of its completed shards that disappear, less exactly the reduction of its recorded debt *)
Definition released_to (pre post : State) (sp : string) : Z :=
  sumz (filter (fun kv => (sh_status kv.2 =? ShardCompleted) && String.eqb (sh_sp kv.2) sp &&
                          negb (bool_decide (is_Some (shards post !! kv.1)))) (map_to_list (shards pre)))
       (fun kv => sh_pledge kv.2).
Definition mon_release_exact (pre post : State) : bool :=
  all_s (pledges pre) (fun sp _ =>
    balance post sp - balance pre sp =?
    released_to pre post sp - (default 0 (debts pre !! sp) - default 0 (debts post !! sp))).

Definition op_monitors (cx : Ctx) (pre : State) (op : Op) (accepted : bool) (post : State) : list (string * bool) :=
  (* frames that hold for every operation, accepted or not *)
  [ ("frame.models", touches_models op || models_same pre post);
    ("frame.faults", match op with
                     | OReportFaults _ _ _ | ORecoverFaults _ _ _ =>
                         value_eqb (VL (map (fun kv => VL [VS kv.1; kv.2])
                                            (filter (fun kv => negb (str_prefix "node.Fault" kv.1 || String.eqb kv.1 "node.FishingReward")) (enc_state pre))))
                                   (VL (map (fun kv => VL [VS kv.1; kv.2])
                                            (filter (fun kv => negb (str_prefix "node.Fault" kv.1 || String.eqb kv.1 "node.FishingReward")) (enc_state post))))
                     | _ => faults_same pre post end);
    ("super.promotion_ok", mon_promotion_ok pre post);
    ("coll.release_exact", match op with
                           | OTerminate _ _ _ _ _ | OCancel _ _ _ | OEndBlock _ => negb accepted || mon_release_exact pre post
                           | _ => true end);
    ("frame.supply", match op with OBeginBlock => supply pre <=? supply post | _ => supply pre =? supply post end);
    ("rollback.clean", mon_rollback_clean pre post);
    ("rollback.refund_exact", match op with OCancel _ _ _ | OEndBlock _ => mon_rollback_refund pre post | _ => true end);
    ("rollback.refund_to_payer", match op with OCancel _ _ _ | OEndBlock _ => mon_refund_to_payer pre post | _ => true end);
    ("mint.within_age_cap", match op with OBeginBlock => mon_mint_cap 1 pre post | _ => true end);
    (* defect D13: a claim repays recorded debt out of storage income that never reaches the node escrow *)
    ("solv.debt_repaid_from_income", match op with
                                     | OClaimReward _ => negb ((total_debt post <? total_debt pre) && (node_margin post <? node_margin pre))
                                     | _ => true end);
    (* C03/C20: an ACCEPTED staking transaction leaves nothing in the process-level variable (what a failed or merely
       simulated one leaves there is finding D10, clause proc.no_residue on the state) *)
    ("proc.success_leaves_no_residue", match op with OStaking _ => negb accepted || (pg post =? 0) | _ => true end);
    ("frame.rejected_unchanged", negb (is_tx op) || accepted ||
         value_eqb (VL (map snd (enc_state (pre <| pg := pg post |>)))) (VL (map snd (enc_state post)))) ] ++
  match op with
  | OStore m =>
      [ ("authz.store", negb accepted || negb (sig_sane_b (st_owner m) (st_sig m)) ||
                        (signed_by_b pre (st_owner m) (st_sig m) &&
                         match metas pre !! st_data m with Some em => may_update em (st_owner m) | None => true end));
        (* C16: an accepted update names the model's latest committed version as its base *)
        ("ver.base_is_latest", negb accepted ||
           match metas pre !! st_data m with
           | Some em => String.eqb (fst (split_commit (st_commit m))) (m_commit em) ||
                        str_contains (m_commit em) (fst (split_commit (st_commit m)))   (* that case: next clause *)
           | None => true end);
        (* defect D16: the base is only tested to be a SUBSTRING of the latest commit id *)
        ("ver.base_not_proper_substring", negb accepted ||
           match metas pre !! st_data m with
           | Some em => String.eqb (fst (split_commit (st_commit m))) (m_commit em) ||
                        negb (str_contains (m_commit em) (fst (split_commit (st_commit m))))
           | None => true end);
        ("authz.payer", negb accepted ||
           forallb (fun a =>
             (String.eqb (st_paydid m) "" && bool_decide (pay_addr pre (st_owner m) = Some a) &&
                (creator_bound_s cx pre (st_creator m) (st_owner m) ||
                 (String.eqb (st_pprovider m) (st_creator m) && String.eqb (st_provider m) (st_creator m)) ||
                 (String.eqb (st_pprovider m) (st_provider m) &&
                  match nodes pre !! st_provider m with Some n => in_list (st_creator m) (n_tx n) | None => false end))) ||
             (negb (String.eqb (st_paydid m) "") && bool_decide (pay_addr pre (st_paydid m) = Some a) && String.eqb a (st_creator m)))
             (payers pre post)) ]
  | ORenew m =>
      [ (* whoever is charged for a renewal (provider collateral top-ups aside) is the payment address of the signing owner *)
        ("authz.renew_payer", negb accepted ||
           forallb (fun a => bool_decide (pay_addr pre (rn_owner m) = Some a) ||
                             existsb (fun kv => String.eqb (sh_sp kv.2) a) (map_to_list (shards pre)))
                   (payers pre post));
        ("authz.renew", negb accepted || negb (sig_sane_b (rn_owner m) (rn_sig m)) ||
           forallb (fun kv => meta_eqb (Some kv.2) (metas post !! kv.1) ||
                              (signed_by_b pre (rn_owner m) (rn_sig m) && String.eqb (m_owner kv.2) (rn_owner m) && in_list kv.1 (rn_data m)))
                   (map_to_list (metas pre))) ]
  | OTerminate c p owner data sg =>
      [ ("authz.terminate", negb accepted || negb (sig_sane_b owner sg) ||
           (signed_by_b pre owner sg && match metas pre !! data with Some em => may_update em owner | None => false end)) ]
  | OUpdatePermission c p owner data ro rw sg _ =>
      [ ("authz.permission", negb accepted || negb (sig_sane_b owner sg) ||
           (signed_by_b pre owner sg && match metas pre !! data with Some em => String.eqb (m_owner em) owner | None => false end)) ]
  | OComplete c p oid _ _ _ =>
      [ ("authz.complete", negb accepted ||
           (acts_for pre c p && match orders pre !! oid with
                                | Some o => bool_decide (is_Some (shard_by_sp pre o p))
                                | None => false end)) ]
  | OCancel c p oid =>
      [ ("authz.cancel", negb accepted ||
           match orders pre !! oid with
           | Some o => negb (o_status o =? OrderCompleted) && acts_for pre c p &&
                       (String.eqb (o_creator o) c ||
                        (String.eqb p (o_provider o) &&
                         match nodes pre !! o_provider o with Some n => in_list (o_creator o) (n_tx n) | None => false end))
           | None => false end) ]
  | ONodeCreate c | OAddVstorage c _ | ORemoveVstorage c _ | OClaimReward c =>
      [ ("frame.node_msgs", others_same enc_node (nodes pre) (nodes post) c && others_same enc_pledge (pledges pre) (pledges post) c &&
                            bal_same_except pre post [c; macc NODE; macc MARKET]);
        (* C08: a claim takes the whole-coin part of the accrued reward (paid out, or withheld against recorded debt) and
           leaves only the fraction: nothing that was withheld can be claimed again *)
        ("mint.claim_leaves_fraction", match op with
           | OClaimReward _ => negb accepted ||
               match pledges post !! c with Some p => (0 <=? pl_reward p) && (pl_reward p <? dec_of_int 1) | None => true end
           | _ => true end) ]
  | ONodeReset m =>
      [ ("frame.node_msgs", others_same enc_node (nodes pre) (nodes post) (rs_creator m) &&
                            others_same enc_pledge (pledges pre) (pledges post) (rs_creator m) &&
                            bal_same_except pre post []) ]
  | OReportFaults c _ _ =>
      [ ("authz.faults", negb accepted || (bool_decide (is_Some (nodes pre !! c)) && is_fishman pre c));
        (* a report is recorded only about an existing, unexpired shard that the accused holds for the named order and data model *)
        ("authz.report_valid", negb accepted ||
           forallb (fun kv => bool_decide (is_Some (faults pre !! kv.1)) ||
              (bool_decide (is_Some (metas pre !! f_data kv.2)) &&
               match orders pre !! f_order kv.2 with
               | Some o => String.eqb (o_data o) (f_data kv.2) && inZ (f_shard kv.2) (o_shards o) &&
                           match shards pre !! f_shard kv.2 with
                           | Some sh => String.eqb (sh_sp sh) (f_provider kv.2) && (cx_height cx <? u64 (sh_created sh + sh_duration sh))
                           | None => false end
               | None => false end)) (map_to_list (faults post))) ]
  | ORecoverFaults c p _ =>
      [ ("authz.faults", negb accepted ||
           match nodes pre !! c with
           | Some n => if String.eqb c p then negb (Z.land (n_status n) STATUS_SERVE_STORAGE =? 0) else is_fishman pre c
           | None => false end);
        (* a provider acting in its own name touches only reports recorded against itself *)
        ("authz.recover_own", negb accepted || is_fishman pre c ||
           forallb (fun kv => match faults pre !! kv.1 with
                              | Some f0 => value_eqb (enc_fault f0) (enc_fault kv.2) || String.eqb (f_provider kv.2) c
                              | None => String.eqb (f_provider kv.2) c end) (map_to_list (faults post))) ]
  | _ => []
  end.
