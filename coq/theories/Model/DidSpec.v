(* Specification of the DID registry (property C17): the invariant over the ten
   tables and the per-operation statements. Definitions only; proofs are in
   Proofs/DidInv.v. Boolean checkers of the same clauses are run on abstracted
   implementation states by the correspondence runner (monitors). *)
From SaoVerif Require Import Base.Prelude Base.Ints Model.Did.

Definition is_sid (d : string) : bool := str_prefix "did:sid:" d.
Definition is_keydid (d : string) : bool := str_prefix "did:key:" d.
Definition cosmos_id (chain addr : string) : string := "cosmos:" +:+ chain +:+ ":" +:+ addr.

(* What the proofs need from the sao-did URL parser oracle (trusted, and checked on
   every generated operation by the runner): it reports method "sid" only for strings
   that start with did:sid: and method "key" only for strings that start with did:key:. *)
Definition parse_sane (did : string) (p : option (string * string)) : Prop :=
  match p with
  | None => True
  | Some (m, id) => (m = "sid" -> is_sid did = true) /\ (m = "key" -> is_keydid did = true)
  end.
Definition op_sane (op : DidOp) : Prop :=
  match op with
  | OpBinding _ _ => True
  | OpUpdate _ m => forall meth id, u_parse m = Some (meth, id) -> is_sid (u_did m) = true ->
                                     u_did m = "did:sid:" +:+ id
  | OpUpdatePay m => parse_sane (p_did m) (p_parse m)
  end.

Section Inv.
Variable chain : string.

Record Inv_did (s : DidState) : Prop := {
  (* an account DID listed for d is registered to an account id bound to d, and conversely *)
  I_list_sound : forall d l a, d_acclist s !! d = Some l -> In a l ->
                   exists id, d_accid s !! a = Some id /\ d_did s !! id = Some d;
  I_list_complete : forall a id d, d_accid s !! a = Some id -> d_did s !! id = Some d ->
                   exists l, d_acclist s !! d = Some l /\ In a l;
  I_list_nodup : forall d l, d_acclist s !! d = Some l -> NoDup l;
  (* every bound account id is the id of exactly one registered account DID *)
  I_did_has_acc : forall id d, d_did s !! id = Some d -> exists a, d_accid s !! a = Some id;
  I_accid_inj : forall a a' id, d_accid s !! a = Some id -> d_accid s !! a' = Some id -> a = a';
  I_accid_bound : forall a id, d_accid s !! a = Some id -> exists d, d_did s !! id = Some d;
  (* AccountAuth is defined exactly on the registered account DIDs *)
  I_auth_dom : forall a, is_Some (d_auth s !! a) <-> is_Some (d_accid s !! a);
  (* only sid DIDs have bindings *)
  I_bound_sid : forall id d, d_did s !! id = Some d -> is_sid d = true;
  (* a sid DID's payment address is one of its currently bound accounts on this chain *)
  I_pay_sid : forall d p, is_sid d = true -> d_pay s !! d = Some p ->
                exists id c, d_did s !! id = Some d /\ parse_account_id id = Some c /\
                             c_network c = "cosmos" /\ c_chainid c = chain /\ c_address c = p;
  (* key DIDs: Kid[a] = d implies PaymentAddress[d] = a (so Kid is injective), and the
     payment address of a key DID is recorded in Kid *)
  I_kid_pay : forall a d, d_kid s !! a = Some d -> d_pay s !! d = Some a /\ is_keydid d = true;
  I_pay_key : forall d p, is_keydid d = true -> d_pay s !! d = Some p -> d_kid s !! p = Some d;
  I_pay_kind : forall d p, d_pay s !! d = Some p -> is_sid d = true \/ is_keydid d = true;
  (* version lists: start with the root, duplicate-free, every version has a document,
     one past seed per rotation *)
  I_ver_root : forall r l, d_ver s !! r = Some l -> exists tl, l = r :: tl;
  I_ver_nodup : forall r l, d_ver s !! r = Some l -> NoDup l;
  I_ver_doc : forall r l v, d_ver s !! r = Some l -> In v l -> is_Some (d_doc s !! v);
  I_ver_seeds : forall r l, d_ver s !! r = Some l ->
                  (length (default [] (d_seeds s !! ("did:sid:" +:+ r))) + 1 = length l)%nat;
  I_seeds_ver : forall d sd, d_seeds s !! d = Some sd -> exists r, d = "did:sid:" +:+ r /\ is_Some (d_ver s !! r);
  (* a DID with bindings has a version list *)
  I_bound_ver : forall id d, d_did s !! id = Some d -> exists r, d = "did:sid:" +:+ r /\ is_Some (d_ver s !! r);
}.

End Inv.

(* "creating a binding requires a proof signed by the account's own key" and, once the
   DID exists, "submission by an account already bound to it" -- the per-operation
   statements. [binding_authentic] says what an accepted Binding establishes. *)
Definition binding_authentic (chain : string) (s : DidState) (m : BindingMsg) : Prop :=
  exists c, parse_account_id (b_accid m) = Some c /\
    (* the proof was signed by the key of the very account being bound *)
    ((c_network c = "cosmos" /\ c_chainid c = chain /\ b_cosmos_signer m = Some (c_address c)) \/
     (c_network c = "eip155" /\ ~ (c_network c = "cosmos" /\ c_chainid c = chain) /\ b_eth_signer m = Some (c_address c))) /\
    (* the account was not bound before *)
    d_did s !! b_accid m = None /\
    (* once the DID exists the creator is bound to it *)
    (is_Some (d_ver s !! b_root m) -> d_did s !! cosmos_id chain (b_creator m) = Some (b_pdid m)) /\
    (* a new DID is the hash of its keys and timestamp *)
    (d_ver s !! b_root m = None -> b_calc m = Some (b_root m)).

(* "a fresh proof, signed by the account's own key, that the account accepts THAT DID":
   the signed text must at least name the DID it is a proof for. The handler never looks
   at the text (finding D17). *)
Definition proof_names_did (m : BindingMsg) : bool := str_contains (b_message m) (b_pdid m).
