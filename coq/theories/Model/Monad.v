(* The outcome monad of keeper code: a Go function that returns normally with an
   error value (writes made so far are kept in [Err]), panics, or -- for the loops
   modelled on fuel -- does not return. *)
From SaoVerif Require Import Base.Prelude Base.Ints Base.Dec Model.Did Model.Types.

Inductive out (A : Type) : Type :=
| Ok (a : A) (s : State)
| Err (e : string) (s : State)   (* error return; [s] carries the writes made before it *)
| Panic (e : string)             (* Go panic *)
| Hang.                          (* a loop that never returns *)
Arguments Ok {A} a s.
Arguments Err {A} e s.
Arguments Panic {A} e.
Arguments Hang {A}.

Definition M (A : Type) := State -> out A.

Definition ret {A} (a : A) : M A := fun s => Ok a s.
Definition bind {A B} (m : M A) (k : A -> M B) : M B :=
  fun s => match m s with
           | Ok a s' => k a s'
           | Err e s' => Err e s'
           | Panic e => Panic e
           | Hang => Hang
           end.
Definition fail {A} (e : string) : M A := fun s => Err e s.
Definition panic {A} (e : string) : M A := fun _ => Panic e.
Definition get : M State := fun s => Ok s s.
Definition gets {A} (f : State -> A) : M A := fun s => Ok (f s) s.
Definition put (s : State) : M unit := fun _ => Ok tt s.
Definition modify (f : State -> State) : M unit := fun s => Ok tt (f s).

(* call a function whose error return the caller ignores: writes are kept, the error is
   handed to the continuation as a value *)
Definition try_ {A} (m : M A) : M (option A) :=
  fun s => match m s with
           | Ok a s' => Ok (Some a) s'
           | Err _ s' => Ok None s'
           | Panic e => Panic e
           | Hang => Hang
           end.

Notation "x <- m ;; k" := (bind m (fun x => k)) (at level 100, m at next level, right associativity).
Notation "m ;;; k" := (bind m (fun _ => k)) (at level 100, right associativity).

Fixpoint forM {A} (l : list A) (f : A -> M unit) : M unit :=
  match l with
  | [] => ret tt
  | x :: r => f x ;;; forM r f
  end.

(* the class of a transaction outcome as the ABCI client sees it *)
Inductive cls := COk | CRejected | CHang.
Definition cls_str (c : cls) : string :=
  match c with COk => "ok" | CRejected => "rejected" | CHang => "hang" end.

(* DeliverTx: state kept only on success; error returns and panics are both reverted
   (baseapp cache-wrap + recover), except the process-level variable [pg]. (A panic
   after a hook wrote [pg] is not modelled: no modelled path panics there.) *)
Definition deliver {A} (m : M A) (s : State) : State * cls * string :=
  match m s with
  | Ok _ s' => (s', COk, "")
  (* the store is reverted; the process-level variable is not part of the store *)
  | Err e s' => (mkState (did s) (nodes s) (pledges s) (debts s) (pool s) (round s) (faults s) (fault_idx s) (fishing s)
                         (nparams s) (orders s) (order_count s) (shards s) (shard_count s) (metas s) (models s) (expdata s)
                         (timeouts s) (expshards s) (workers s) (bal s) (supply s) (vals s) (dels s) (pg s'), CRejected, e)
  | Panic e => (s, CRejected, "panic: " +:+ e)
  | Hang => (s, CHang, "")
  end.

(* Begin/EndBlock: errors are ignored by the callers and their writes kept; a panic
   halts the chain, a hang hangs it *)
Inductive bcls := BOk | BHalted | BHung.
Definition bcls_str (c : bcls) : string :=
  match c with BOk => "ok" | BHalted => "halted" | BHung => "hung" end.
Definition block_phase {A} (m : M A) (s : State) : State * bcls * string :=
  match m s with
  | Ok _ s' => (s', BOk, "")
  | Err e s' => (s', BOk, e)
  | Panic e => (s, BHalted, e)
  | Hang => (s, BHung, "")
  end.
