(* Model of x/did: the ten binding / key-document tables and the three message
   handlers (msg_server_binding.go, msg_server_update.go,
   msg_server_update_payment_address.go, did_management.go, utils.go).

   Cryptography and the sao-did URL parser are oracles: an operation carries what
   they returned for its fields (computed by the harness with the same libraries).
   Everything else -- account-id syntax, table look-ups, list bookkeeping, the
   freshness window -- is modelled. *)
From SaoVerif Require Import Base.Prelude Base.Ints.
From RecordUpdate Require Import RecordUpdate.
Import RecordSetNotations.

Record DidState := mkDid {
  d_auth    : gmap string (string * string);  (* accountDid -> (encryptedSeed, sidEncryptedAccount) *)
  d_accid   : gmap string string;             (* accountDid -> accountId *)
  d_acclist : gmap string (list string);      (* did -> accountDids *)
  d_did     : gmap string string;             (* accountId -> did *)
  d_bal     : gmap string Z;                  (* did -> balance held by the did module *)
  d_kid     : gmap string string;             (* address -> key did *)
  d_seeds   : gmap string (list string);      (* did -> past seeds *)
  d_pay     : gmap string string;             (* did -> payment address *)
  d_doc     : gmap string (list (string * string)); (* versionId -> keys (name, value) *)
  d_ver     : gmap string (list string);      (* root doc id -> version list *)
}.
Global Instance eta_DidState : Settable _ :=
  settable! mkDid <d_auth; d_accid; d_acclist; d_did; d_bal; d_kid; d_seeds; d_pay; d_doc; d_ver>.

Definition did_empty : DidState :=
  mkDid ∅ ∅ ∅ ∅ ∅ ∅ ∅ ∅ ∅ ∅.

(** ** CAIP-10 account ids: utils.go parseAcccountId + types.ParseToCaip10 *)
Definition c_net (a : ascii) := is_lower a || is_digit a || is_char 45 a.
Definition c_chain (a : ascii) := is_lower a || is_upper a || is_digit a || is_char 45 a || is_char 95 a.
Definition c_addr (a : ascii) := is_lower a || is_upper a || is_digit a || is_char 45 a || is_char 46 a || is_char 37 a.
Definition len_in (s : string) (lo hi : nat) := Nat.leb lo (String.length s) && Nat.leb (String.length s) hi.

Record Caip10 := { c_network : string; c_chainid : string; c_address : string }.

Definition parse_account_id (accid : string) : option Caip10 :=
  match str_split ":" accid with
  | [n; c; a] =>
      if str_all c_net n && len_in n 3 8 && str_all c_chain c && len_in c 1 32
         && str_all c_addr a && len_in a 1 64
      then Some {| c_network := n; c_chainid := c; c_address := a |} else None
  | _ => None
  end.

(** ** Messages with their oracle fields *)
Record BindingMsg := {
  b_creator : string;
  b_accid   : string;
  b_root    : string;
  b_keys    : list (string * string);
  b_accdid  : string;                (* AccountAuth.AccountDid *)
  b_auth    : string * string;       (* the two other AccountAuth fields *)
  b_pdid    : string;                (* proof.Did *)
  b_pts     : Z;                     (* proof.Timestamp *)
  b_message : string;                (* proof.Message: the text the account signed *)
  (* oracles *)
  b_cosmos_signer : option string;   (* bech32 address of the key that validly signed
                                        GetSignData(address-in-accid, proof.Message), if
                                        proof.Signature parses and verifies *)
  b_eth_signer    : option string;   (* lower-case hex address recovered from proof.Signature
                                        over the EIP-191 hash of proof.Message *)
  b_calc    : option string;         (* CalculateDocId(keys, proof.Timestamp) *)
}.

Record UpdateMsg := {
  u_creator : string;
  u_did     : string;
  u_newdoc  : string;
  u_keys    : list (string * string);
  u_ts      : Z;
  u_update  : list (string * (string * string));   (* AccountAuth list: accountDid, rest *)
  u_remove  : list string;
  u_seed    : string;
  (* oracles *)
  u_parse   : option (string * string);  (* parser.Parse(did): method, id *)
  u_calc    : option string;             (* CalculateDocId(keys, timestamp) *)
}.

Record PayMsg := {
  p_creator : string;
  p_accid   : string;
  p_did     : string;
  p_parse   : option (string * string);  (* parser.Parse(did): method, id *)
}.

Definition EXPIRE_DURATION : Z := 900.

Definition creator_bound (chain : string) (s : DidState) (creator did : string) : bool :=
  match d_did s !! ("cosmos:" +:+ chain +:+ ":" +:+ creator) with
  | Some d => String.eqb d did
  | None => false
  end.

Definition proof_ok (chain : string) (c : Caip10) (m : BindingMsg) : bool :=
  if String.eqb (c_network c) "cosmos" && String.eqb (c_chainid c) chain then
    match b_cosmos_signer m with Some a => String.eqb a (c_address c) | None => false end
  else if String.eqb (c_network c) "eip155" then
    match b_eth_signer m with Some a => String.eqb a (c_address c) | None => false end
  else false.

(* [now] is the time the handler compares the proof with: the wall clock on the
   pinned tree (msg_server_binding.go:36), the block time after the D6 repair. *)
Definition did_binding (chain : string) (now : Z) (m : BindingMsg) (s : DidState)
  : string + DidState :=
  let did := b_pdid m in
  if negb (String.eqb ("did:sid:" +:+ b_root m) did) then inl "InconsistentDid" else
  if u64 (b_pts m + EXPIRE_DURATION) <? u64 now then inl "OutOfDate" else
  match parse_account_id (b_accid m) with
  | None => inl "InvalidAccountId"
  | Some c =>
  let acclist := d_acclist s !! did in
  if match acclist with Some l => in_list (b_accdid m) l | None => false end then inl "AuthExists" else
  if bool_decide (is_Some (d_auth s !! b_accdid m)) then inl "AuthExists" else
  let stored := d_accid s !! b_accdid m in
  if match stored with Some a => negb (String.eqb a (b_accid m)) | None => false end then inl "InvalidAccountId" else
  if bool_decide (is_Some (d_did s !! b_accid m)) then inl "BindingExists" else
  if negb (proof_ok chain c m) then inl "InvalidBindingProof" else
  let after_doc : string + DidState :=
    match d_ver s !! b_root m with
    | Some _ =>
        if creator_bound chain s (b_creator m) did then inr s else inl "InvalidCreator"
    | None =>
        match b_calc m with
        | None => inl "InvalidKeys"
        | Some newdoc =>
            if negb (String.eqb newdoc (b_root m)) || negb (String.eqb did ("did:sid:" +:+ newdoc))
            then inl "InconsistentDocId" else
            if bool_decide (is_Some (d_doc s !! newdoc)) then inl "DocExists" else
            let s1 := s <| d_doc ::= <[newdoc := b_keys m]> |>
                        <| d_ver ::= <[newdoc := [newdoc]]> |> in
            let s2 :=
              if String.eqb (c_network c) "cosmos" && String.eqb (c_chainid c) chain then
                match d_pay s1 !! did with
                | Some _ => s1
                | None => s1 <| d_pay ::= <[did := c_address c]> |>
                end
              else s1 in
            inr s2
        end
    end in
  match after_doc with
  | inl e => inl e
  | inr s2 =>
      let newlist := match acclist with Some l => l ++ [b_accdid m] | None => [b_accdid m] end in
      let s3 := s2 <| d_auth ::= <[b_accdid m := b_auth m]> |>
                   <| d_acclist ::= <[did := newlist]> |>
                   <| d_did ::= <[b_accid m := did]> |> in
      let s4 := match stored with
                | Some _ => s3
                | None => s3 <| d_accid ::= <[b_accdid m := b_accid m]> |>
                end in
      inr s4
  end
  end.

(** ** Update (key rotation / unbinding) *)
Definition in_update_list (d : string) (l : list (string * (string * string))) : bool :=
  existsb (fun e => String.eqb (fst e) d) l.

(* the account ids of the accounts to remove; [inl] on the first failure *)
Fixpoint check_remove (chain : string) (s : DidState) (pay : string) (l : list string)
  : string + list string :=
  match l with
  | [] => inr []
  | accdid :: rest =>
      match d_accid s !! accdid with
      | None => inl "AccountIdNotFound"
      | Some aid =>
          match parse_account_id aid with
          | None => inl "InvalidAccountId"
          | Some c =>
              if String.eqb (c_network c) "cosmos" && String.eqb (c_chainid c) chain
                 && String.eqb (c_address c) pay
              then inl "UnbindPayAddr"
              else match check_remove chain s pay rest with
                   | inl e => inl e
                   | inr ids => inr (aid :: ids)
                   end
          end
      end
  end.

Definition did_update (chain : string) (now : Z) (m : UpdateMsg) (s : DidState)
  : string + DidState :=
  let did := u_did m in
  if negb (creator_bound chain s (u_creator m) did) then inl "InvalidCreator" else
  if u64 (u_ts m + EXPIRE_DURATION) <? u64 now then inl "OutOfDate" else
  if Nat.eqb (length (u_remove m)) 0 then inl "NoNeedToUpdate" else
  if Nat.eqb (length (u_update m)) 0 then inl "UpdateAccAuthEmpty" else
  match d_acclist s !! did with
  | None => inl "AccountListNotFound"
  | Some accl =>
  if negb (Nat.eqb (length accl) (length (u_remove m) + length (u_update m))) then inl "InvalidAuthCount" else
  if negb (forallb (fun a => in_list a (u_remove m) || in_update_list a (u_update m)) accl)
  then inl "UnhandledAccountDid" else
  let ps := d_seeds s !! did in
  if match ps with Some l => in_list (u_seed m) l | None => false end then inl "SeedExists" else
  match d_pay s !! did with
  | None => inl "PayAddrNotSet"
  | Some pay =>
  match check_remove chain s pay (u_remove m) with
  | inl e => inl e
  | inr rm_ids =>
  match u_parse m with
  | None => inl "InvalidDid"
  | Some (_, pid) =>
  let versions := default [] (d_ver s !! pid) in
  if in_list (u_newdoc m) versions then inl "DocExists" else
  if bool_decide (is_Some (d_doc s !! u_newdoc m)) then inl "DocExists" else
  match u_calc m with
  | None => inl "InvalidKeys"
  | Some cal =>
  if negb (String.eqb (u_newdoc m) cal) then inl "InconsistentDocId" else
  let s1 := fold_left (fun st aid => st <| d_did ::= delete aid |>) rm_ids s in
  let s2 := fold_left (fun st ad => st <| d_accid ::= delete ad |>) (u_remove m) s1 in
  (* SetSidDocumentVersion stores the (possibly not found, zero-valued) record under its
     own DocId field: when the did's id is not a root the record's DocId is "" *)
  let verkey := match d_ver s !! pid with Some _ => pid | None => "" end in
  let s3 := s2 <| d_doc ::= <[u_newdoc m := u_keys m]> |>
               <| d_ver ::= <[verkey := versions ++ [u_newdoc m]]> |> in
  let s4 := fold_left (fun st a => st <| d_auth ::= <[fst a := snd a]> |>) (u_update m) s3 in
  let s5 := fold_left (fun st ad => st <| d_auth ::= delete ad |>) (u_remove m) s4 in
  let accl' := fold_left (fun l ad => remove_first ad l) (u_remove m) accl in
  let s6 := s5 <| d_acclist ::= <[did := accl']> |> in
  let seeds' := match ps with Some l => l ++ [u_seed m] | None => [u_seed m] end in
  inr (s6 <| d_seeds ::= <[did := seeds']> |>)
  end end end end end.

(** ** UpdatePaymentAddress *)
Definition did_update_pay (chain : string) (m : PayMsg) (s : DidState) : string + DidState :=
  match p_parse m with
  | None => inl "InvalidDid"
  | Some (method, _) =>
  match parse_account_id (p_accid m) with
  | None => inl "InvalidAccountId"
  | Some c =>
  let old := d_pay s !! p_did m in
  if match old with Some _ => String.eqb method "key" | None => false end then inl "ChangePayAddr" else
  if match old with Some a => String.eqb a (c_address c) | None => false end then inl "SamePayAddr" else
  if negb (creator_bound chain s (p_creator m) (p_did m)) && negb (String.eqb method "key")
  then inl "InvalidCreator" else
  if String.eqb (c_network c) "cosmos" && String.eqb (c_chainid c) chain then
    if String.eqb method "sid" then
      match d_did s !! p_accid m with
      | None => inl "BindingNotFound"
      | Some stored =>
          if negb (String.eqb (p_did m) stored) then inl "InconsistentDid"
          else inr (s <| d_pay ::= <[stored := c_address c]> |>)
      end
    else if String.eqb method "key" then
      if negb (String.eqb (c_address c) (p_creator m)) then inl "InvalidAccountId" else
      if bool_decide (is_Some (d_kid s !! c_address c)) then inl "KidExist" else
      inr (s <| d_pay ::= <[p_did m := c_address c]> |>
             <| d_kid ::= <[c_address c := p_did m]> |>)
    else inl "UnsupportedDid"
  else inl "InvalidAccountId"
  end end.

(** ** The did sub-machine *)
Inductive DidOp :=
| OpBinding (now : Z) (m : BindingMsg)
| OpUpdate (now : Z) (m : UpdateMsg)
| OpUpdatePay (m : PayMsg).

Definition did_handle (chain : string) (op : DidOp) (s : DidState) : string + DidState :=
  match op with
  | OpBinding now m => did_binding chain now m s
  | OpUpdate now m => did_update chain now m s
  | OpUpdatePay m => did_update_pay chain m s
  end.

(* a transaction: state kept only on success (baseapp cache-wrap) *)
Definition did_step (chain : string) (s : DidState) (op : DidOp) : DidState :=
  match did_handle chain op s with inr s' => s' | inl _ => s end.

Definition did_run (chain : string) (ops : list DidOp) (s : DidState) : DidState :=
  fold_left (did_step chain) ops s.

(** ** value codec *)
Definition enc_pair (p : string * string) : value := VL [VS p.1; VS p.2].
Definition dec_pair (v : value) : option (string * string) :=
  match v with VL [VS a; VS b] => Some (a, b) | _ => None end.
Definition enc_keys (l : list (string * string)) : value := VL (map enc_pair l).
Definition dec_keys (v : value) : option (list (string * string)) :=
  match v with VL l => mapM dec_pair l | _ => None end.

Definition enc_did (s : DidState) : value :=
  VL [ enc_smap enc_pair (d_auth s); enc_smap VS (d_accid s); enc_smap vLS (d_acclist s);
       enc_smap VS (d_did s); enc_smap VZ (d_bal s); enc_smap VS (d_kid s);
       enc_smap vLS (d_seeds s); enc_smap VS (d_pay s); enc_smap enc_keys (d_doc s);
       enc_smap vLS (d_ver s) ].

Definition dec_did (v : value) : option DidState :=
  match v with
  | VL [a; b; c; d; e; f; g; h; i; j] =>
      match dec_smap dec_pair a, dec_smap unS b, dec_smap unLS c, dec_smap unS d, dec_smap unZ e,
            dec_smap unS f, dec_smap unLS g, dec_smap unS h, dec_smap dec_keys i, dec_smap unLS j with
      | Some a, Some b, Some c, Some d, Some e, Some f, Some g, Some h, Some i, Some j =>
          Some (mkDid a b c d e f g h i j)
      | _, _, _, _, _, _, _, _, _, _ => None
      end
  | _ => None
  end.

Definition did_table_names : list string :=
  ["AccountAuth"; "AccountId"; "AccountList"; "Did"; "DidBalances"; "Kid"; "PastSeeds";
   "PaymentAddress"; "SidDocument"; "SidDocumentVersion"].

Definition dec_opt_s (v : value) : option (option string) :=
  match v with VL [] => Some None | VL [VS s] => Some (Some s) | _ => None end.
Definition dec_opt_pair (v : value) : option (option (string * string)) :=
  match v with VL [] => Some None | VL [VS a; VS b] => Some (Some (a, b)) | _ => None end.
Definition dec_auth (v : value) : option (string * (string * string)) :=
  match v with VL [VS a; VS b; VS c] => Some (a, (b, c)) | _ => None end.

Definition dec_did_op (v : value) : option DidOp :=
  match v with
  | VL [VS "Binding"; VZ now; VS creator; VS accid; VS root; keys; VS accdid; VS au1; VS au2;
        VS pdid; VZ pts; VS pmsg; cs; es; calc] =>
      match dec_keys keys, dec_opt_s cs, dec_opt_s es, dec_opt_s calc with
      | Some keys, Some cs, Some es, Some calc =>
          Some (OpBinding now {| b_creator := creator; b_accid := accid; b_root := root; b_keys := keys;
                                 b_accdid := accdid; b_auth := (au1, au2); b_pdid := pdid; b_pts := pts; b_message := pmsg;
                                 b_cosmos_signer := cs; b_eth_signer := es; b_calc := calc |})
      | _, _, _, _ => None
      end
  | VL [VS "Update"; VZ now; VS creator; VS did; VS newdoc; keys; VZ ts; VL upd; rm; VS seed; parse; calc] =>
      match dec_keys keys, mapM dec_auth upd, unLS rm, dec_opt_pair parse, dec_opt_s calc with
      | Some keys, Some upd, Some rm, Some parse, Some calc =>
          Some (OpUpdate now {| u_creator := creator; u_did := did; u_newdoc := newdoc; u_keys := keys;
                                u_ts := ts; u_update := upd; u_remove := rm; u_seed := seed;
                                u_parse := parse; u_calc := calc |})
      | _, _, _, _, _ => None
      end
  | VL [VS "UpdatePaymentAddress"; VS creator; VS accid; VS did; parse] =>
      match dec_opt_pair parse with
      | Some parse => Some (OpUpdatePay {| p_creator := creator; p_accid := accid; p_did := did; p_parse := parse |})
      | None => None
      end
  | _ => None
  end.
