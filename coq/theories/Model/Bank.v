(* Thin model of x/bank (cosmos-sdk v0.46.2) for a single denomination: the calls the
   storage modules make. Balances of module accounts are keyed "module:<name>". *)
From SaoVerif Require Import Base.Prelude Base.Ints Base.Dec Model.Did Model.Types Model.Monad.
From RecordUpdate Require Import RecordUpdate.
Import RecordSetNotations.

Definition macc (m : string) : string := "module:" +:+ m.
Definition balance (s : State) (a : string) : Z := default 0 (bal s !! a).

Definition move (from to : string) (amt : Z) (s : State) : State :=
  let b1 := <[from := balance s from - amt]> (bal s) in
  s <| bal := <[to := default 0 (b1 !! to) + amt]> b1 |>.

(* SendCoins with the literal sdk.Coins{coin}: Coins.Validate rejects a non-positive coin *)
Definition send_strict (from to : string) (amt : Z) : M unit :=
  fun s => if amt <=? 0 then Err "invalid coins" s
           else if balance s from <? amt then Err "insufficient funds" s
           else Ok tt (move from to amt s).

(* SendCoins with sdk.NewCoins(coin): a zero coin is dropped and the send is a no-op *)
Definition send_lenient (from to : string) (amt : Z) : M unit :=
  fun s => if amt =? 0 then Ok tt s else send_strict from to amt s.

(* MintCoins(module, NewCoins(coin)) *)
Definition mint (module : string) (amt : Z) : M unit :=
  fun s => if amt <=? 0 then Ok tt s
           else Ok tt (s <| bal := <[macc module := balance s (macc module) + amt]> (bal s) |>
                         <| supply := supply s + amt |>).

(* sdk.NewCoin / Coin.Sub panic on a negative amount *)
Definition coin_sub (a b : Z) : M Z := if a - b <? 0 then panic "negative coin amount" else ret (a - b).
