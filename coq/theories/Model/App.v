(* The application-level state machine: operations (decoded from the harness wire
   format), one [step] per ABCI call, runs over operation lists. *)
From SaoVerif Require Import Base.Prelude Base.Ints Base.Dec Model.Did Model.Types Model.Monad Model.Bank Model.Select
     Model.Node Model.Storage Model.Sao Model.Hooks.
From RecordUpdate Require Import RecordUpdate.
Import RecordSetNotations.

Inductive Op :=
| OBeginBlock
| OEndBlock (evs : list StEvent)   (* validator state changes of the staking end-blocker *)
| ODid (o : DidOp)
| ONodeCreate (creator : string)
| ONodeReset (m : ResetMsg)
| OAddVstorage (creator : string) (size : Z)
| ORemoveVstorage (creator : string) (size : Z)
| OClaimReward (creator : string)
| OStore (m : StoreMsg)
| OReady (creator provider : string) (oid : Z)
| OComplete (creator provider : string) (oid : Z) (cid : string) (size : Z) (cid_ok : bool)
| OCancel (creator provider : string) (oid : Z)
| ORenew (m : RenewMsg)
| OTerminate (creator provider owner data : string) (sg : SigO)
| OMigrate (creator provider : string) (data : list string)
| OUpdatePermission (creator provider owner data : string) (ro rw : list string) (sg : SigO) (dids_valid : bool)
| OReportFaults (creator provider : string) (fl : list (FaultIn * string))
| ORecoverFaults (creator provider : string) (fl : list (FaultIn * string))
| OSend (from to : string) (amt : Z)
| OStaking (evs : list StEvent)
| OSimulate (evs : list StEvent).  (* gas simulation of a staking tx: nothing is kept but [pg] *)

(** * one ABCI call *)
Inductive Outcome := OutTx (c : cls) (detail : string) | OutBlock (c : bcls) (detail : string).
Definition outcome_str (o : Outcome) : string :=
  match o with OutTx c _ => cls_str c | OutBlock c _ => bcls_str c end.
Definition outcome_detail (o : Outcome) : string :=
  match o with OutTx _ d => d | OutBlock _ d => d end.

Definition lift_did (cx : Ctx) (o : DidOp) : M unit :=
  fun s => match did_handle (cx_chain cx) o (did s) with
           | inr d' => Ok tt (s <| did := d' |>)
           | inl e => Err e s
           end.

Definition tx_of (cx : Ctx) (op : Op) : option (M unit) :=
  match op with
  | ODid o => Some (lift_did cx o)
  | ONodeCreate c => Some (node_create cx c)
  | ONodeReset m => Some (node_reset cx m)
  | OAddVstorage c sz => Some (add_vstorage c sz)
  | ORemoveVstorage c sz => Some (remove_vstorage c sz)
  | OClaimReward c => Some (claim_reward cx c ;;; ret tt)
  | OStore m => Some (sao_store cx m)
  | OReady c p o => Some (sao_ready cx c p o)
  | OComplete c p o cid sz ok => Some (sao_complete cx c p o cid sz ok)
  | OCancel c p o => Some (sao_cancel cx c p o)
  | ORenew m => Some (sao_renew cx m)
  | OTerminate c p ow d sg => Some (sao_terminate cx c p ow d sg)
  | OMigrate c p d => Some (sao_migrate cx c p d)
  | OUpdatePermission c p ow d ro rw sg v => Some (sao_update_permission cx c p ow d ro rw sg v)
  | OReportFaults c p fl => Some (sao_report_faults cx c p fl)
  | ORecoverFaults c p fl => Some (sao_recover_faults cx c p fl)
  | OSend f t a => Some (send_strict f t a)
  | OStaking evs => Some (staking_tx evs)
  | OSimulate _ | OBeginBlock | OEndBlock _ => None
  end.

(* end-blockers of the custom modules in app.go's order: sao, node, (order), model, (did), (market) *)
Definition end_block (cx : Ctx) (evs : list StEvent) : M unit :=
  staking_tx evs ;;; end_block_sao cx ;;; end_block_node cx ;;; end_block_model cx.

Definition step (cx : Ctx) (s : State) (op : Op) : State * Outcome :=
  match op with
  | OBeginBlock => let '(s', c, d) := block_phase (begin_block cx) s in (s', OutBlock c d)
  | OEndBlock evs => let '(s', c, d) := block_phase (end_block cx evs) s in (s', OutBlock c d)
  | OSimulate evs =>
      (* runs on a branch of the state that is thrown away; the process-level variable is shared *)
      match staking_tx evs s with
      | Ok _ s' | Err _ s' => (s <| pg := pg s' |>, OutTx COk "")
      | _ => (s, OutTx COk "")
      end
  | _ => match tx_of cx op with
         | Some m => let '(s', c, d) := deliver m s in (s', OutTx c d)
         | None => (s, OutTx COk "")
         end
  end.

(** * decoding of operations *)
Definition dec_sig (v : value) : option SigO :=
  match v with
  | VL [ow; kd; VL keys] =>
      match ow, kd, mapM unS keys with
      | VL [], VL [], Some k => Some {| so_owner := None; so_kid := None; so_keys := k |}
      | VL [VS m; VS i], VL [], Some k => Some {| so_owner := Some (m, i); so_kid := None; so_keys := k |}
      | VL [], VL [VS m; VS i; VS q], Some k => Some {| so_owner := None; so_kid := Some (m, i, q); so_keys := k |}
      | VL [VS m; VS i], VL [VS m2; VS i2; VS q], Some k =>
          Some {| so_owner := Some (m, i); so_kid := Some (m2, i2, q); so_keys := k |}
      | _, _, _ => None
      end
  | _ => None
  end.

Definition dec_faults (v : value) : option (list (FaultIn * string)) :=
  match v with
  | VL l => mapM (fun e => match e with
                           | VL [VS d; VZ o; VZ sh; VS c; VS p; VS nid; VS raw] =>
                               Some ({| fi_data := d; fi_order := o; fi_shard := sh; fi_commit := c; fi_provider := p; fi_newid := nid |}, raw)
                           | _ => None end) l
  | _ => None
  end.

Definition dec_ev (v : value) : option StEvent :=
  match v with
  | VL [VS "BeforeShares"; VS d; VS vl] => Some (EvBeforeShares d vl)
  | VL [VS "BeforeRemoved"; VS d; VS vl] => Some (EvBeforeRemoved d vl)
  | VL [VS "AfterModified"; VS d; VS vl] => Some (EvAfterModified d vl)
  | VL [VS "ValHook"; VS vl] => Some (EvValHook vl)
  | VL [VS "SetVal"; VS vl; x] => match dec_val x with Some x => Some (EvSetVal vl x) | None => None end
  | VL [VS "DelVal"; VS vl] => Some (EvDelVal vl)
  | VL [VS "SetDel"; VS k; x] => match dec_del x with Some x => Some (EvSetDel k x) | None => None end
  | VL [VS "DelDel"; VS k] => Some (EvDelDel k)
  | VL [VS "Bal"; VS a; VZ d] => Some (EvBal a d)
  | VL [VS "Fail"] => Some EvFail
  | VL [VS "ResetPG"] => Some EvPgZero
  | _ => None
  end.

Definition dec_op (v : value) : option Op :=
  match v with
  | VL [VS "BeginBlock"] => Some OBeginBlock
  | VL [VS "EndBlock"] => Some (OEndBlock [])
  | VL [VS "EndBlock"; VL evs] => match mapM dec_ev evs with Some l => Some (OEndBlock l) | None => None end
  | VL [VS "Staking"; VL evs] => match mapM dec_ev evs with Some l => Some (OStaking l) | None => None end
  | VL [VS "Simulate"; VL evs] => match mapM dec_ev evs with Some l => Some (OSimulate l) | None => None end
  | VL [VS "NodeCreate"; VS c] => Some (ONodeCreate c)
  | VL [VS "NodeReset"; VS c; VS peer; VZ st; VS val; tx; pv] =>
      match unLS tx, unbool pv with
      | Some tx, Some pv => Some (ONodeReset {| rs_creator := c; rs_peer := peer; rs_status := st; rs_validator := val; rs_tx := tx; rs_peer_valid := pv |})
      | _, _ => None end
  | VL [VS "AddVstorage"; VS c; VZ sz] => Some (OAddVstorage c sz)
  | VL [VS "RemoveVstorage"; VS c; VZ sz] => Some (ORemoveVstorage c sz)
  | VL [VS "ClaimReward"; VS c] => Some (OClaimReward c)
  | VL [VS "Store"; VS creator; VS provider; VS owner; VS pprov; VS group; VZ dur; VZ rep; VZ tmo; VS alias; VS data; VS commit;
        tags; VS cid; VS rule; VS ext; VZ size; VZ op; ro; VS paydid; sg; cok] =>
      match unLS tags, unLS ro, dec_sig sg, unbool cok with
      | Some tags, Some ro, Some sg, Some cok =>
          Some (OStore {| st_creator := creator; st_provider := provider; st_owner := owner; st_pprovider := pprov; st_group := group;
                          st_duration := dur; st_replica := rep; st_timeout := tmo; st_alias := alias; st_data := data;
                          st_commit := commit; st_tags := tags; st_cid := cid; st_rule := rule; st_ext := ext; st_size := size;
                          st_op := op; st_ro := ro; st_paydid := paydid; st_sig := sg; st_cid_ok := cok |})
      | _, _, _, _ => None end
  | VL [VS "Ready"; VS c; VS p; VZ o] => Some (OReady c p o)
  | VL [VS "Complete"; VS c; VS p; VZ o; VS cid; VZ sz; cok] =>
      match unbool cok with Some b => Some (OComplete c p o cid sz b) | None => None end
  | VL [VS "Cancel"; VS c; VS p; VZ o] => Some (OCancel c p o)
  | VL [VS "Renew"; VS c; VS p; VS owner; VZ dur; VZ tmo; data; sg] =>
      match unLS data, dec_sig sg with
      | Some data, Some sg => Some (ORenew {| rn_creator := c; rn_provider := p; rn_owner := owner; rn_duration := dur; rn_timeout := tmo; rn_data := data; rn_sig := sg |})
      | _, _ => None end
  | VL [VS "Terminate"; VS c; VS p; VS owner; VS data; sg] =>
      match dec_sig sg with Some sg => Some (OTerminate c p owner data sg) | None => None end
  | VL [VS "Migrate"; VS c; VS p; data] =>
      match unLS data with Some d => Some (OMigrate c p d) | None => None end
  | VL [VS "UpdatePermission"; VS c; VS p; VS owner; VS data; ro; rw; sg; dv] =>
      match unLS ro, unLS rw, dec_sig sg, unbool dv with
      | Some ro, Some rw, Some sg, Some dv => Some (OUpdatePermission c p owner data ro rw sg dv)
      | _, _, _, _ => None end
  | VL [VS "ReportFaults"; VS c; VS p; fl] =>
      match dec_faults fl with Some fl => Some (OReportFaults c p fl) | None => None end
  | VL [VS "RecoverFaults"; VS c; VS p; fl] =>
      match dec_faults fl with Some fl => Some (ORecoverFaults c p fl) | None => None end
  | VL [VS "Send"; VS f; VS t; VZ a] => Some (OSend f t a)
  | _ => match dec_did_op v with Some o => Some (ODid o) | None => None end
  end.
