(* Genesis export / import of the storage modules (x/*/genesis.go): every table is
   copied except the two fault indexes, the fishing rewards and the round-robin cursor,
   for which the node module's GenesisState has no field (finding D18). Module account
   balances, staking and auth state are exported by the SDK modules. The process-level
   variable is not part of any export. *)
From SaoVerif Require Import Base.Prelude Base.Ints Base.Dec Model.Did Model.Types.
From RecordUpdate Require Import RecordUpdate.
Import RecordSetNotations.

Definition export_import (s : State) : State :=
  s <| faults := ∅ |> <| fault_idx := ∅ |> <| fishing := ∅ |> <| round := None |>.

(* the part of the state that has no genesis field *)
Definition unexported_empty (s : State) : Prop :=
  faults s = ∅ /\ fault_idx s = ∅ /\ fishing s = ∅ /\ round s = None.
Definition unexported_empty_b (s : State) : bool :=
  bool_decide (faults s = ∅) && bool_decide (fault_idx s = ∅) && bool_decide (fishing s = ∅) && bool_decide (round s = None).
