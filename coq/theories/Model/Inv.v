(* Global invariants of the storage modules, as propositions over the model state. Their
   boolean counterparts (Monitors.v) are evaluated on implementation states by the
   correspondence runner; the theorems about them live in Proofs/. Definitions only. *)
From SaoVerif Require Import Base.Prelude Base.Ints Base.Dec Model.Did Model.Types Model.Monad Model.Bank Model.Select
     Model.Node Model.Storage Model.Sao Model.Hooks Model.App Model.Spec.

(** * C13 referential integrity *)
(* one alias per data model and one data model per alias *)
Definition Inv_alias (s : State) : Prop :=
  (forall d m, metas s !! d = Some m -> models s !! meta_key m = Some d) /\
  (forall k d, models s !! k = Some d -> exists m, metas s !! d = Some m /\ meta_key m = k).

(* every order lists shards that exist, each once *)
Definition Inv_order_shards (s : State) : Prop :=
  forall oid o, orders s !! oid = Some o ->
    NoDup (o_shards o) /\ forall id, In id (o_shards o) -> is_Some (shards s !! id).

(* every shard belongs to an order that lists it *)
Definition Inv_shard_order (s : State) : Prop :=
  forall id sh, shards s !! id = Some sh ->
    exists o, orders s !! sh_order sh = Some o /\ In id (o_shards o).

(* every completed shard is scheduled for release at the end of its current paid period *)
Definition Inv_completed_scheduled (s : State) : Prop :=
  forall id sh, shards s !! id = Some sh -> sh_status sh = ShardCompleted ->
    In id (default [] (expshards s !! u64 (sh_created sh + sh_duration sh))).

(* the situation defect D23 creates: a renewal order that lists a shard under migration *)
Definition no_renewal_of_migrating (s : State) : Prop :=
  forall oid o, orders s !! oid = Some o -> o_op o = 3 ->
    forall id sh, In id (o_shards o) -> shards s !! id = Some sh -> sh_status sh <> ShardMigrating.

(* the dividing line found while proving (Proofs/RefInt.v): a shard under migration is listed only by
   the order it names as its own. [no_renewal_of_migrating] above is false in a benign history
   (renew, then migrate: the new shard is attached to the renewal order). *)
Definition migrating_private (s : State) : Prop :=
  forall oid o id sh, orders s !! oid = Some o -> In id (o_shards o) -> shards s !! id = Some sh ->
    sh_status sh = ShardMigrating -> sh_order sh = oid.

Definition Inv_ref (s : State) : Prop :=
  Inv_alias s /\ Inv_order_shards s /\ Inv_shard_order s /\ Inv_completed_scheduled s.

(** * C14 / C07 per-provider accounting: the provider's aggregates are the sums over its live shards *)
Definition live_at (sp : string) (sh : Shard) : bool :=
  (sh_status sh =? ShardCompleted) && String.eqb (sh_sp sh) sp.
Definition live_sum (f : Shard -> Z) (sp : string) (s : State) : Z :=
  sum_map (fun sh => if live_at sp sh then f sh else 0) (shards s).

Definition Inv_used (s : State) : Prop :=
  forall sp p, pledges s !! sp = Some p ->
    pl_used p = live_sum sh_size sp s /\ pl_shpledged p = live_sum sh_pledge sp s.

Definition Inv_capacity (s : State) : Prop :=
  forall sp p, pledges s !! sp = Some p -> 0 <= pl_used p <= pl_total p.

Definition Inv_worker (s : State) : Prop :=
  forall sp p, pledges s !! sp = Some p ->
    match workers s !! worker_name sp with
    | Some w => w_storage w = live_sum sh_size sp s /\
                w_rate w = live_sum (fun sh => dec_mul_int PRICE (sh_size sh)) sp s
    | None => live_sum sh_size sp s = 0
    end.

(** * C06 escrow of the order module: it covers every payment taken and not yet settled *)
Definition order_owes (o : Order) : Z :=
  if negb (o_op o =? 3) && ((o_status o =? OrderPending) || (o_status o =? OrderDataReady)) then o_amount o else 0.
Definition Inv_order_escrow (s : State) : Prop :=
  sum_map order_owes (orders s) <= balance s (macc ORDER).

(** * C16 at most one unfinished storage order per data model *)
Definition in_flight (d : string) (o : Order) : bool :=
  String.eqb (o_data o) d && negb (o_op o =? 3) && ((o_status o =? OrderPending) || (o_status o =? OrderDataReady)).
Definition Inv_one_in_flight (s : State) : Prop :=
  forall d m, metas s !! d = Some m ->
    forall i j oi oj, orders s !! i = Some oi -> orders s !! j = Some oj ->
      in_flight d oi = true -> in_flight d oj = true -> i = j.
