(* Specification vocabulary for the property theorems: runs, sums over tables, the
   reward potential, authorisation independent of the handler code, super-node
   conditions. Definitions only. *)
From SaoVerif Require Import Base.Prelude Base.Ints Base.Dec Model.Did Model.Types Model.Monad Model.Bank Model.Select
     Model.Node Model.Storage Model.Sao Model.Hooks Model.App.
From RecordUpdate Require Import RecordUpdate.
Import RecordSetNotations.

(** * runs: any sequence of ABCI calls, each with its own context *)
Definition run (tr : list (Ctx * Op)) (s : State) : State :=
  fold_left (fun st co => fst (step co.1 st co.2)) tr s.

Definition is_tx (op : Op) : bool :=
  match op with OBeginBlock | OEndBlock _ | OSimulate _ => false | _ => true end.

(** * sums over tables *)
Definition sum_map {K} `{Countable K} {A} (f : A -> Z) (m : gmap K A) : Z :=
  map_fold (fun _ a acc => f a + acc) 0 m.

Definition sum_bal (s : State) : Z := sum_map (fun x : Z => x) (bal s).

(** * C14: network-wide totals *)
Definition Inv_pool (s : State) : Prop :=
  forall po, pool s = Some po ->
    po_storage po = sum_map pl_total (pledges s) /\ po_pledged po = sum_map pl_spledged (pledges s).

(** * C08: reward potential = everything providers have been credited and not yet claimed *)
Definition claimable (acc : Z) (p : Pledge) : Z := pl_reward p + pending acc p.
Definition phi (s : State) : Z :=
  match pool s with
  | Some po => sum_map (claimable (po_accreward po)) (pledges s)
  | None => 0
  end.

(* the block subsidy of the current halving age: the configured reward halved once for every
   time the remaining part of the fixed total has halved *)
Definition halving_age (po : Pool) : Z := Z.log2 (TOTAL_REWARD / (TOTAL_REWARD - po_reward po)).
Definition subsidy_cap (s : State) : Z :=
  match pool s with
  | Some po => Z.shiftr (np_reward (nparams s)) (halving_age po)
  | None => 0
  end.

(** * C09 / C10: authorisation, stated without reference to the handlers *)
(* key [k] is a key of DID [d]: the key a did:key names, or a key listed in a key document
   that is in the sid DID's own version history *)
Definition key_of (s : State) (d k : string) : Prop :=
  d = "did:key:" +:+ k \/
  exists root v keys nm, d = "did:sid:" +:+ root /\ is_version_of (did s) root v = true /\
                         d_doc (did s) !! v = Some keys /\ In (nm, k) keys.

(* the request verifies (over exactly the delivered proposal bytes: that is what [so_keys]
   records) under a key of [owner], and its header names [owner] *)
Definition signed_by (s : State) (owner : string) (so : SigO) : Prop :=
  (exists m id q, so_kid so = Some (m, id, q) /\ "did:" +:+ m +:+ ":" +:+ id = owner) /\
  exists k, In k (so_keys so) /\ key_of s owner k.

(* what is assumed of the URL parser oracle for the owner string (checked at run time on
   every generated operation) *)
Definition sig_sane (owner : string) (so : SigO) : Prop :=
  forall m id, so_owner so = Some (m, id) -> owner = "did:" +:+ m +:+ ":" +:+ id.

Definition may_admin (m : Meta) (d : string) : Prop := m_owner m = d.
Definition may_write (m : Meta) (d : string) : Prop := m_owner m = d \/ In d (m_rw m).

(* the projection of the state a data model consists of *)
Definition model_view (s : State) : gmap string Meta * gmap string string * gmap Z (list string) :=
  (metas s, models s, expdata s).

(* operations that can change a data model at all *)
Definition touches_models (op : Op) : bool :=
  match op with
  | OStore _ | OComplete _ _ _ _ _ _ | OCancel _ _ _ | ORenew _ | OTerminate _ _ _ _ _
  | OUpdatePermission _ _ _ _ _ _ _ _ | OEndBlock _ => true
  | _ => false
  end.

(** * C20: the conditions of the super role *)
Definition super_ok (s : State) (addr : string) (n : Node) : Prop :=
  Z.land (n_status n) STATUS_SUPER_REQ = STATUS_SUPER_REQ /\
  (exists p, pledges s !! addr = Some p /\ np_vthreshold (nparams s) <= pl_total p) /\
  check_share s addr (n_val n) 0 = true.

(* the SDK's event sequences (x/staking/keeper/delegation.go) *)
Definition ev_delegate (del val key : string) (existed : bool) (amount : Z) (v' : Validator) (d' : Delegation) : list StEvent :=
  (if existed then [EvBeforeShares del val] else []) ++
  [EvBal del (- amount); EvSetVal val v'; EvSetDel key d'; EvAfterModified del val].
Definition ev_delegate_fails (del val : string) : list StEvent := [EvBeforeShares del val; EvFail].
Definition ev_unbond_partial (del val key : string) (d' : Delegation) (v' : Validator) : list StEvent :=
  [EvBeforeShares del val; EvSetDel key d'; EvAfterModified del val; EvSetVal val v'].
Definition ev_unbond_full (del val key : string) (v' : Validator) : list StEvent :=
  [EvBeforeShares del val; EvBeforeRemoved del val; EvDelDel key; EvSetVal val v'].

Definition restart (s : State) : State := s <| pg := 0 |>.

(** * C16 *)
Definition Inv_ids (s : State) : Prop :=
  (forall id o, orders s !! id = Some o -> 0 <= id < order_count s) /\
  (forall id sh, shards s !! id = Some sh -> 0 <= id < shard_count s).
Definition counts_small (s : State) : Prop :=
  0 <= order_count s < two63 /\ 0 <= shard_count s < two63.
