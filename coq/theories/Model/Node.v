(* Model of x/node: BeginBlocker (reward minting), EndBlock (offline detection; the
   penalty tick is inert, see [do_penalty]), the five message handlers, shard
   pledge / release, debt repayment, super-node share checks. *)
From SaoVerif Require Import Base.Prelude Base.Ints Base.Dec Model.Did Model.Types Model.Monad Model.Bank Model.Select.
From RecordUpdate Require Import RecordUpdate.
Import RecordSetNotations.

Definition NODE : string := "node".
Definition MARKET : string := "market".
Definition ORDER : string := "order".
Definition DENOM : string := "sao".
Definition TOTAL_REWARD : Z := 400000000000000.
Definition STATUS_ONLINE : Z := 1.
Definition STATUS_SUPER_REQ : Z := 15. (* ONLINE | SERVE_GATEWAY | SERVE_STORAGE | ACCEPT_ORDER *)
Definition STATUS_SERVE_STORAGE : Z := 4.

Record Ctx := { cx_height : Z; cx_chain : string; cx_time : Z; cx_seed : Z }.

(** * reward accumulator *)
Definition pending (acc : Z) (p : Pledge) : Z := dec_mul_int acc (pl_total p) - pl_rdebt p.
Definition settle (acc : Z) (p : Pledge) : Pledge :=
  if 0 <? pl_total p then p <| pl_reward := pl_reward p + pending acc p |> else p.

(** * BeginBlocker *)
Definition reward_age (p : Pool) : M Z :=
  let remain := TOTAL_REWARD - po_reward p in
  if remain <? 0 then panic "negative coin amount"
  else if remain =? 0 then panic "division by zero"
  else ret (Z.log2 (TOTAL_REWARD / remain)).

Definition begin_block (cx : Ctx) : M unit :=
  s <- get ;;
  match pool s with
  | None => ret tt
  | Some p =>
      if po_pledged p =? 0 then ret tt else
      let prm := nparams s in
      if np_reward prm =? 0 then ret tt else
      age <- reward_age p ;;
      let subsidy := Z.shiftr (np_reward prm) age in
      let reward :=
        if po_pledged p <? np_baseline prm then
          let r := dec_trunc (dec_quo_int (dec_mul (dec_of_int (po_pledged p)) (np_apy prm)) (np_halving prm / 2)) in
          if r <? subsidy then r else subsidy
        else subsidy in
      (* QuoInt64(HalvingPeriod/2) with a zero divisor and NewCoin of a negative amount panic *)
      if (po_pledged p <? np_baseline prm) && (np_halving prm / 2 =? 0) then panic "division by zero" else
      if reward <? 0 then panic "negative coin amount" else
      if reward =? 0 then ret tt else
      let p1 := if po_nrpb p =? 0 then p <| po_nrpb := dec_of_int reward |> else p in
      let p2 := if cx_height cx mod np_adjust prm =? 0
                then p1 <| po_rpb := po_nrpb p1 |> <| po_nrpb := dec_of_int reward |> else p1 in
      let p3 := p2 <| po_nrpb := dec_quo (po_nrpb p2 + dec_of_int reward) (dec_of_int 2) |> in
      mint NODE reward ;;;
      if po_storage p3 =? 0 then panic "division by zero" else
      let acc := po_accreward p3 + dec_quo_int (dec_of_int reward) (po_storage p3) in
      let p4 := p3 <| po_reward := po_reward p3 + reward |> <| po_accreward := acc |> <| po_accpledge := acc |>
                   <| po_count := po_count p3 + 1 |> in
      modify (fun s => s <| pool := Some p4 |>)
  end.

(** * EndBlock *)
(* DoPenalty iterates the (provider, shard) -> fault-id index and tries to decode each
   fault-id STRING (a lower-case hexadecimal UUID) as a protobuf Fault; it acts only on a
   decoded record whose status is Confirmed, which needs the tag byte 0x48 -- not a
   character of such a string. The tick is therefore inert; modelled as a no-op. *)
Definition do_penalty : M unit := ret tt.

Definition end_block_node (cx : Ctx) : M unit :=
  (if cx_height cx mod 600 =? 0 then do_penalty else ret tt) ;;;
  s <- get ;;
  let off := np_offline (nparams s) in
  forM (sorted_items (nodes s)) (fun kv =>
    let n := kv.2 in
    if (n_alive n + off <? cx_height cx) && (Z.land (n_status n) STATUS_ONLINE =? STATUS_ONLINE)
    then modify (fun s => s <| nodes ::= <[kv.1 := n <| n_status := 0 |>]> |>)
    else ret tt).

(** * staking share checks (x/node/keeper/super.go) *)
Definition dkey (del val : string) : string := del +:+ "|" +:+ val.
Definition find_del (s : State) (del val : string) : option Delegation :=
  match filter (fun kv => String.eqb (dl_del kv.2) del && String.eqb (dl_val kv.2) val) (sorted_items (dels s)) with
  | kv :: _ => Some kv.2
  | [] => None
  end.

(* CheckDelegationShare: true = no error *)
Definition check_share (s : State) (del val : string) (shares_to_sub : Z) : bool :=
  match find_del s del val, vals s !! val with
  | Some d, Some v =>
      if v_shares v =? shares_to_sub then false else
      let total := v_shares v - shares_to_sub in
      negb (dec_quo (dl_shares d) total <? np_share (nparams s))
  | _, _ => false
  end.

(* CheckNodeShare(&node, acc): the possibly promoted node and whether it was promoted *)
Definition check_node_share (s : State) (n : Node) (acc : string) : Node * bool :=
  if negb (String.eqb (n_val n) "") then
    if check_share s acc (n_val n) 0 then (n <| n_role := 1 |>, true) else (n, false)
  else
    match filter (fun kv => String.eqb (dl_del kv.2) acc && check_share s acc (dl_val kv.2) 0) (sorted_items (dels s)) with
    | kv :: _ => (n <| n_role := 1 |> <| n_val := dl_val kv.2 |>, true)
    | [] => (n, false)
    end.

(** * message handlers *)
Definition node_create (cx : Ctx) (creator : string) : M unit :=
  s <- get ;;
  match nodes s !! creator with
  | Some _ => fail "AlreadyRegistered"
  | None => modify (fun s => s <| nodes ::= <[creator := mkNode "" 10000 0 (cx_height cx) [] 0 ""]> |>)
  end.

Record ResetMsg := { rs_creator : string; rs_peer : string; rs_status : Z; rs_validator : string;
                     rs_tx : list string; rs_peer_valid : bool (* oracle: every multiaddr parses *) }.

Definition node_reset (cx : Ctx) (m : ResetMsg) : M unit :=
  s <- get ;;
  match nodes s !! rs_creator m with
  | None => fail "NodeNotFound"
  | Some n =>
      let n1 := if negb (rs_status m =? 0) && negb (n_status n =? rs_status m) then n <| n_status := rs_status m |> else n in
      if negb (String.eqb (rs_peer m) "") && negb (String.eqb (n_peer n1) (rs_peer m)) && negb (rs_peer_valid m)
      then fail "InvalidPeer" else
      let n2 := if negb (String.eqb (rs_peer m) "") && negb (String.eqb (n_peer n1) (rs_peer m)) then n1 <| n_peer := rs_peer m |> else n1 in
      let chg_val := negb (String.eqb (rs_validator m) "") && negb (String.eqb (n_val n2) (rs_validator m)) in
      if chg_val && negb (bool_decide (is_Some (vals s !! rs_validator m))) then fail "ValidatorNotFound" else
      let n3 := if chg_val then n2 <| n_val := rs_validator m |> else n2 in
      let n4 := match rs_tx m with [] => n3 | l => n3 <| n_tx := l |> end in
      let n5 := n4 <| n_alive := cx_height cx |> <| n_role := 0 |> in
      let n6 :=
        if Z.land (rs_status m) STATUS_SUPER_REQ =? STATUS_SUPER_REQ then
          match pledges s !! rs_creator m with
          | Some p => if np_vthreshold (nparams s) <=? pl_total p then fst (check_node_share s n5 (rs_creator m)) else n5
          | None => n5
          end
        else n5 in
      modify (fun s => s <| nodes ::= <[rs_creator m := n6]> |>)
  end.

Definition add_vstorage (creator : string) (size : Z) : M unit :=
  s <- get ;;
  match nodes s !! creator, pool s with
  | None, _ => fail "node not found"
  | _, None => fail "pool not found"
  | Some _, Some po =>
      let amount := dec_trunc (dec_ceil (dec_mul_int PRICE (i64 size))) in
      let sz := dec_trunc (dec_quo (dec_of_int amount) PRICE) in
      if amount <? 0 then panic "negative coin amount" else
      send_strict creator (macc NODE) amount ;;;
      let p0 := match pledges s !! creator with
                | None => mkPledge amount 0 0 0 0 0
                | Some p => p <| pl_spledged := pl_spledged p + amount |>
                end in
      let acc := po_accreward po in
      let p1 := settle acc p0 in
      let p2 := p1 <| pl_total := pl_total p1 + sz |> in
      let p3 := p2 <| pl_rdebt := dec_mul_int acc (pl_total p2) |> in
      let po' := po <| po_pledged := po_pledged po + amount |> <| po_storage := po_storage po + sz |> in
      (if np_vthreshold (nparams s) <=? pl_total p3 then
         s1 <- get ;;
         match nodes s1 !! creator with
         | None => fail "NodeNotFound"
         | Some n =>
             if (n_role n =? 0) && (Z.land (n_status n) STATUS_SUPER_REQ =? STATUS_SUPER_REQ) then
               let '(n', ok) := check_node_share s1 n creator in
               if ok then modify (fun s => s <| nodes ::= <[creator := n']> |>) else ret tt
             else ret tt
         end
       else ret tt) ;;;
      modify (fun s => s <| pledges ::= <[creator := p3]> |> <| pool := Some po' |>)
  end.

Definition remove_vstorage (creator : string) (size : Z) : M unit :=
  s <- get ;;
  match nodes s !! creator, pool s, pledges s !! creator with
  | None, _, _ => fail "node not found"
  | _, None, _ => fail "pool not found"
  | _, _, None => fail "not pledged"
  | Some _, Some po, Some p =>
      let amount := dec_trunc (dec_mul_int PRICE (i64 size)) in
      if amount =? 0 then fail "too small" else
      let sz := dec_trunc (dec_ceil (dec_quo (dec_of_int amount) PRICE)) in
      if pl_total p - pl_used p <? sz then fail "AvailableVstorage" else
      if amount <? 0 then panic "negative coin amount" else
      sp' <- coin_sub (pl_spledged p) amount ;;
      send_strict (macc NODE) creator amount ;;;
      let acc := po_accreward po in
      let p1 := settle acc (p <| pl_spledged := sp' |>) in
      let p2 := p1 <| pl_total := pl_total p1 - sz |> in
      let p3 := p2 <| pl_rdebt := dec_mul_int acc (pl_total p2) |> in
      let po' := po <| po_pledged := po_pledged po - amount |> <| po_storage := po_storage po - sz |> in
      (if pl_total p3 <? np_vthreshold (nparams s) then
         s1 <- get ;;
         match nodes s1 !! creator with
         | None => fail "NodeNotFound"
         | Some n => if n_role n =? 1 then modify (fun s => s <| nodes ::= <[creator := n <| n_role := 0 |>]> |>) else ret tt
         end
       else ret tt) ;;;
      modify (fun s => s <| pledges ::= <[creator := p3]> |> <| pool := Some po' |>)
  end.

(** * debt *)
(* RepayPledgeDebt(sp, rewards): the rewards after repayment *)
Fixpoint repay_loop (debt : Z) (rewards : list Z) : list Z * option Z :=
  match rewards with
  | [] => ([], Some debt)
  | r :: rest =>
      if debt <=? r then ((r - debt) :: rest, None)
      else let '(rest', d) := repay_loop (debt - r) rest in (0 :: rest', d)
  end.
Definition repay_debt (sp : string) (rewards : list Z) : M (list Z) :=
  s <- get ;;
  match debts s !! sp with
  | None => ret rewards
  | Some debt =>
      let '(rw, d) := repay_loop debt rewards in
      match d with
      | None => modify (fun s => s <| debts ::= delete sp |>) ;;; ret rw
      | Some d' => modify (fun s => s <| debts ::= <[sp := d']> |>) ;;; ret rw
      end
  end.

(** * ShardPledge / ShardRelease *)
Definition store_reward_pledge (duration size price : Z) : Z :=
  dec_quo_int (dec_mul_int (dec_mul_int (dec_mul_int price (i64 size)) (i64 duration)) 1) 10.

(* returns the shard as stored (with its pledge) *)
Definition shard_pledge (id : Z) (sh : Shard) (price : Z) : M Shard :=
  s <- get ;;
  match pledges s !! sh_sp sh, pool s with
  | None, _ => fail "not pledged yet"
  | _, None => fail "PoolNotFound"
  | Some p, Some po =>
      let acc := po_accreward po in
      let p1 := settle acc p in
      if u64 (pl_total p1 - pl_used p1) <? sh_size sh then fail "AvailableVstorage" else
      let base := store_reward_pledge (sh_duration sh) (sh_size sh) price in
      if dec_trunc base <? 0 then panic "negative coin amount" else
      let sp0 := ceil_coin base in
      let spl := fold_left (fun acc ri => if acc <? ri_pledge ri then ri_pledge ri else acc) (sh_renew sh) sp0 in
      let p2 := p1 <| pl_shpledged := pl_shpledged p1 + spl |> in
      (match sh_renew sh with
       | [] => send_lenient (sh_sp sh) (macc NODE) spl
       | _ =>
           let b := balance s (sh_sp sh) in
           if spl <=? b then send_lenient (sh_sp sh) (macc NODE) spl
           else
             (* the debt is recorded before the error of the transfer is looked at *)
             modify (fun s => s <| debts ::= <[sh_sp sh := default 0 (debts s !! sh_sp sh) + (spl - b)]> |>) ;;;
             send_strict (sh_sp sh) (macc NODE) b
       end) ;;;
      let sh' := sh <| sh_pledge := spl |> in
      let p3 := p2 <| pl_rdebt := dec_mul_int acc (pl_total p2) |> <| pl_used := i64 (pl_used p2 + i64 (sh_size sh)) |> in
      modify (fun s => s <| pledges ::= <[sh_sp sh := p3]> |> <| shards ::= <[id := sh']> |>) ;;;
      ret sh'
  end.

(* ShardRelease(sp, shard): [sh = None] is the settlement-only call of ClaimReward *)
Definition shard_release (sp : string) (sh : option Shard) : M unit :=
  s <- get ;;
  match pledges s !! sp, pool s with
  | None, _ => fail "PledgeNotFound"
  | _, None => fail "PoolNotFound"
  | Some p, Some po =>
      let acc := po_accreward po in
      let p1 := settle acc p in
      p2 <- match sh with
            | None => ret p1
            | Some sh =>
                rw <- repay_debt (sh_sp sh) [sh_pledge sh] ;;
                let pay := hd 0 rw in
                (if pay =? 0 then ret tt else send_strict (macc NODE) sp pay) ;;;
                shp <- coin_sub (pl_shpledged p1) (sh_pledge sh) ;;
                ret (p1 <| pl_shpledged := shp |> <| pl_used := i64 (pl_used p1 - i64 (sh_size sh)) |>)
            end ;;
      let p3 := p2 <| pl_rdebt := dec_mul_int acc (pl_total p2) |> in
      modify (fun s => s <| pledges ::= <[sp := p3]> |>)
  end.

(** * market.Claim (x/market/keeper/pool_management.go), needed by ClaimReward *)
Definition worker_name (sp : string) : string := DENOM +:+ "-" +:+ sp.
Definition market_claim (cx : Ctx) (sp : string) : M Z :=
  s <- get ;;
  match workers s !! worker_name sp with
  | None => ret 0
  | Some w =>
      let reward := w_reward w + dec_mul_int (w_rate w) (cx_height cx - w_last w) in
      let coins := dec_trunc reward in
      if coins =? 0 then ret 0 else
      if coins <? 0 then panic "negative coin amount" else
      modify (fun s => s <| workers ::= <[worker_name sp := w <| w_reward := reward - dec_of_int coins |> <| w_last := cx_height cx |>]> |>) ;;;
      ret coins
  end.

Definition claim_reward (cx : Ctx) (creator : string) : M Z :=
  s <- get ;;
  match pledges s !! creator with
  | None => fail "PledgeNotFound"
  | Some _ =>
      try_ (shard_release creator None) ;;;
      s1 <- get ;;
      match pledges s1 !! creator with
      | None => panic "unreachable"
      | Some p =>
          let '(claim, remain) := dec_split (pl_reward p) in
          if claim <? 0 then panic "negative coin amount" else
          let p' := p <| pl_reward := remain |> in
          wr <- market_claim cx creator ;;
          rw <- repay_debt creator [claim; wr] ;;
          let claim' := nth 0 rw 0 in
          let wr' := nth 1 rw 0 in
          (if claim' =? 0 then ret tt else send_strict (macc NODE) creator claim') ;;;
          (if wr' =? 0 then ret tt else send_strict (macc MARKET) creator wr') ;;;
          modify (fun s => s <| pledges ::= <[creator := p']> |>) ;;;
          ret (claim' + wr')
      end
  end.

(* IncreaseReputation(node, float32(v)): float32 arithmetic on integer values *)
Definition f32_round (x : Z) : Z :=
  (* nearest float32 of an integer: 24-bit significand, ties to even *)
  let a := Z.abs x in
  if a <? 16777216 then x else
  let e := Z.log2 a - 23 in
  let q := Z.shiftr a e in
  let r := a - Z.shiftl q e in
  let half := Z.shiftl 1 (e - 1) in
  let q' := if r <? half then q else if half <? r then q + 1 else if Z.even q then q else q + 1 in
  Z.sgn x * Z.shiftl q' e.

Definition increase_reputation (node : string) (v : Z) : M unit :=
  s <- get ;;
  match nodes s !! node with
  | None => fail "NodeNotFound"
  | Some n => modify (fun s => s <| nodes ::= <[node := n <| n_rep := f32_round (n_rep n + f32_round v) |>]> |>)
  end.

(** * RandomSP on the state (sets the round-robin cursor as a side effect) *)
Definition random_sp_m (cx : Ctx) (count : Z) (ignore : list string) (size : Z) : M (list string) :=
  s <- get ;;
  match random_sp (nodes s) (pledges s) (default 0 (round s)) (cx_seed cx) count ignore size with
  | SelHang => fun _ => Hang
  | SelPanic => panic "slice bounds out of range"
  | SelOk (sps, r) =>
      modify (fun s => s <| round := Some (match r with Some x => x | None => default 0 (round s) end) |>) ;;;
      ret (map c_addr sps)
  end.
