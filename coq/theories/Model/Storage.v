(* Models of x/market (pool_management.go), x/order (order_management.go,
   shard_management.go, order.go, shard.go), x/model (data_management.go, abic.go) and
   the did keeper functions they call. One file because the keepers call each other. *)
From SaoVerif Require Import Base.Prelude Base.Ints Base.Dec Model.Did Model.Types Model.Monad Model.Bank Model.Select Model.Node.
From RecordUpdate Require Import RecordUpdate.
Import RecordSetNotations.

(** * did keeper functions used by the storage modules *)
(* GetCosmosPaymentAddress: error if no payment address (MustAccAddressFromBech32 of a
   stored address cannot fail: only addresses of transaction signers get stored) *)
Definition pay_addr (s : State) (d : string) : option string := d_pay (did s) !! d.

(* CreatorIsBoundToDid *)
Definition creator_bound_s (cx : Ctx) (s : State) (creator d : string) : bool :=
  creator_bound (cx_chain cx) (did s) creator d.

(* SendCoinsFromModuleToDidBalances(module, did, amount): the did module has no module
   account, so the bank transfer panics *)
Definition send_to_did_balances (module d : string) (amt : Z) : M unit :=
  if amt =? 0 then ret tt else
  modify (fun s => s <| did ::= (fun ds => ds <| d_bal ::= (fun m => match m !! d with Some _ => m | None => <[d := amt]> m end) |>) |>) ;;;
  panic "module account did does not exist".

(** * market *)
Definition income_of (o : Order) (sh : Shard) : Z := dec_mul_int (o_price o) (i64 (sh_size sh)).

Definition worker_release (cx : Ctx) (o : Order) (sh : Shard) : M unit :=
  s <- get ;;
  let wn := worker_name (sh_sp sh) in
  match workers s !! wn with
  | None => fail "worker not found"
  | Some w =>
      let reward := dec_mul_int (w_rate w) (cx_height cx - w_last w) in
      let w' := w <| w_reward := w_reward w + reward |> <| w_rate := w_rate w - income_of o sh |>
                  <| w_storage := u64 (w_storage w - sh_size sh) |> <| w_last := cx_height cx |> in
      modify (fun s => s <| workers ::= <[wn := w']> |>)
  end.

Definition worker_append (cx : Ctx) (o : Order) (sh : Shard) : M unit :=
  s <- get ;;
  let wn := worker_name (sh_sp sh) in
  let w := default (mkWorker 0 0 0 0) (workers s !! wn) in
  let inc := income_of o sh in
  let r0 := dec_mul_int inc (cx_height cx - i64 (sh_created sh)) in
  let r1 := if 0 <? w_storage w then r0 + dec_mul_int (w_rate w) (cx_height cx - w_last w) else r0 in
  let w' := w <| w_reward := w_reward w + r1 |> <| w_last := cx_height cx |>
              <| w_storage := u64 (w_storage w + sh_size sh) |> <| w_rate := w_rate w + inc |> in
  modify (fun s => s <| workers ::= <[wn := w']> |>).

Definition market_deposit (o : Order) : M unit :=
  if o_amount o =? 0 then fail "InvalidAmount" else send_strict (macc ORDER) (macc MARKET) (o_amount o).

(* Withdraw(order): settles the order's live shards and moves the refund back to the
   order module; returns the refund *)
Definition market_withdraw (cx : Ctx) (oid : Z) (o : Order) : M Z :=
  if o_amount o =? 0 then fail "InvalidAmount" else
  let base := dec_of_int (o_amount o) -
              dec_mul_int (dec_mul_int (dec_mul_int (o_price o) (i64 (o_size o))) (i64 (o_replica o))) (i64 (o_duration o)) in
  (fix go (ids : list Z) (refund : Z) : M Z :=
     match ids with
     | [] =>
         if refund <? 0 then panic "negative decimal coin amount" else
         let coin := dec_trunc refund in
         (if coin =? 0 then ret tt else send_strict (macc MARKET) (macc ORDER) coin) ;;;
         ret coin
     | id :: rest =>
         s <- get ;;
         match shards s !! id with
         | None => go rest refund
         | Some sh =>
             if oid <? sh_order sh then go rest refund else
             let inc := income_of o sh in
             if (sh_status sh =? ShardCompleted) && (sh_order sh =? oid) then
               worker_release cx o sh ;;;
               go rest (refund + dec_mul_int inc (i64 (sh_created sh + sh_duration sh) - cx_height cx))
             else if sh_status sh =? ShardWaiting then
               go rest (refund + dec_mul_int inc (i64 (o_duration o)))
             else if (sh_status sh =? ShardCompleted) && (sh_order sh <? oid) then
               (* D11 repair: a renewal whose period has not started for this shard *)
               go rest (refund + dec_mul_int inc (i64 (o_duration o)))
             else go rest refund
         end
     end) (o_shards o) base.

(** * order keeper *)
Definition append_order (o : Order) : M Z :=
  s <- get ;;
  let id := order_count s in
  modify (fun s => s <| orders ::= <[id := o]> |> <| order_count := u64 (id + 1) |>) ;;;
  ret id.

Definition append_shard (sh : Shard) : M Z :=
  s <- get ;;
  let id := shard_count s in
  modify (fun s => s <| shards ::= <[id := sh]> |> <| shard_count := u64 (id + 1) |>) ;;;
  ret id.

Definition new_shard_task (oid : Z) (o : Order) (provider : string) : M Z :=
  append_shard (mkShard oid ShardWaiting (o_size o) (o_cid o) 0 "" provider 0 0 []).

(* GenerateShards(order, sps): the updated order (not stored) *)
Fixpoint gen_shards (oid : Z) (o : Order) (sps : list string) : M Order :=
  match sps with
  | [] => ret o
  | sp :: rest =>
      id <- new_shard_task oid o sp ;;
      gen_shards oid (o <| o_shards := o_shards o ++ [id] |>) rest
  end.
Definition generate_shards (oid : Z) (o : Order) (sps : list string) : M Order :=
  match sps with
  | [] => ret o
  | _ => o' <- gen_shards oid o sps ;; ret (o' <| o_status := OrderDataReady |>)
  end.

Definition new_order (cx : Ctx) (o : Order) (sps : list string) : M (Z * Order) :=
  id <- append_order o ;;
  o1 <- generate_shards id o sps ;;
  let o2 := o1 <| o_created := cx_height cx |> in
  modify (fun s => s <| orders ::= <[id := o2]> |>) ;;;
  ret (id, o2).

Definition renew_order (o : Order) : M Z :=
  s <- get ;;
  match pay_addr s (o_owner o) with
  | None => fail "PayAddrNotSet"
  | Some payer =>
      send_strict payer (macc MARKET) (o_amount o) ;;;
      append_order o
  end.

Definition order_terminate (oid : Z) (refund : Z) : M unit :=
  s <- get ;;
  match orders s !! oid with
  | None => fail "order not found"
  | Some o =>
      if negb (o_status o =? OrderCompleted) then fail "OrderUnexpectedStatus" else
      (match pay_addr s (o_owner o) with
       | None => send_to_did_balances ORDER (o_owner o) refund
       | Some payer => if refund =? 0 then ret tt else send_strict (macc ORDER) payer refund
       end) ;;;
      modify (fun s => s <| orders ::= delete oid |>)
  end.

Definition refund_order (oid : Z) : M unit :=
  s <- get ;;
  match orders s !! oid with
  | None => fail "order not found"
  | Some o =>
      let pd := if String.eqb (o_paydid o) "" then o_owner o else o_paydid o in
      match pay_addr s pd with
      | None => fail "PayAddrNotSet"
      | Some payer => send_strict (macc ORDER) payer (o_amount o)
      end
  end.

(* GetOrderShardBySP *)
Definition shard_by_sp (s : State) (o : Order) (sp : string) : option (Z * Shard) :=
  let found := omap (fun id => match shards s !! id with
                               | Some sh => if String.eqb (sh_sp sh) sp then Some (id, sh) else None
                               | None => None end) (o_shards o) in
  head found.

(** * model keeper *)
Definition meta_key (m : Meta) : string := m_owner m +:+ "-" +:+ m_alias m +:+ "-" +:+ m_group m.
Definition SEP : ascii := ascii_of_nat 26.
Definition version_str (commit : string) (height : Z) : string := commit +:+ String SEP EmptyString +:+ str_of_Z height.
Definition commit_of_version (v : string) : string := hd "" (str_split SEP v).

Definition set_data_expire (data : string) (at_ : Z) : M unit :=
  modify (fun s => s <| expdata ::= <[at_ := default [] (expdata s !! at_) ++ [data]]> |>).

(* removeDataExpireBlock: the slice is re-sliced while it is ranged over. [arr] is the
   backing array (fixed length), [len] the current length of expiredData.Data. A second
   hit beyond the shortened length evaluates Data[idx+1:] out of range and panics. *)
Fixpoint rm_expire_loop (n : nat) (idx : nat) (arr : list string) (len : nat) (data : string) : option (list string * nat) :=
  match n with
  | O => Some (arr, len)
  | S n' =>
      match arr !! idx with
      | None => Some (arr, len)
      | Some id =>
          if String.eqb id data then
            if Nat.ltb len (idx + 1) then None
            else
              let arr' := take idx arr ++ drop (idx + 1) (take len arr) ++ drop (len - 1) arr in
              rm_expire_loop n' (S idx) arr' (len - 1) data
          else rm_expire_loop n' (S idx) arr len data
      end
  end.

Definition remove_data_expire (data : string) (at_ : Z) : M unit :=
  s <- get ;;
  match expdata s !! at_ with
  | None => ret tt
  | Some l =>
      match rm_expire_loop (length l) 0 l (length l) data with
      | None => panic "slice bounds out of range"
      | Some (arr, len) =>
          let l' := take len arr in
          match l' with
          | [] => modify (fun s => s <| expdata ::= delete at_ |>)
          | _ => modify (fun s => s <| expdata ::= <[at_ := l']> |>)
          end
      end
  end.

Definition new_meta (cx : Ctx) (o : Order) (data : string) (m : Meta) : M unit :=
  s <- get ;;
  if negb (Nat.eqb (String.length data) 36) then fail "InvalidDataId" else
  if bool_decide (is_Some (metas s !! data)) then fail "DataIdExists" else
  if bool_decide (is_Some (models s !! meta_key m)) then fail "ModelExists" else
  modify (fun s => s <| models ::= <[meta_key m := data]> |> <| metas ::= <[data := m]> |>) ;;;
  set_data_expire data (u64 (o_created o + o_duration o)).

(* shardExpiredMap / expiredHeight of ResetMetaDuration *)
Definition shard_end_all (sh : Shard) : Z :=
  fold_left (fun acc ri => u64 (acc + ri_duration ri)) (sh_renew sh) (u64 (sh_created sh + sh_duration sh)).

(* the map shardExpiredMap only avoids recomputation; the result is the maximum over the
   completed shards listed by the model's orders *)
Definition reset_expired_height (s : State) (ords : list Z) : Z :=
  fold_left (fun mx oid =>
    match orders s !! oid with
    | Some o => fold_left (fun mx sid =>
                  match shards s !! sid with
                  | Some sh => if sh_status sh =? ShardCompleted then Z.max mx (shard_end_all sh) else mx
                  | None => mx end) (o_shards o) mx
    | None => mx end) ords 0.

(* ResetMetaDuration(&meta): returns the updated meta (not stored) *)
Definition reset_meta_duration (cx : Ctx) (data : string) (m : Meta) : M Meta :=
  s <- get ;;
  let eh0 := reset_expired_height s (m_orders m) in
  (* D22 repair: with no live shard the model expires at the next block *)
  let eh := if eh0 <=? u64 (cx_height cx) then u64 (cx_height cx) + 1 else eh0 in
  let nd := u64 (eh - m_created m) in
  if m_duration m =? nd then ret m else
  remove_data_expire data (u64 (m_created m + m_duration m)) ;;;
  set_data_expire data eh ;;;
  ret (m <| m_duration := nd |>).

Definition extend_meta_duration (data : string) (expired_at : Z) : M unit :=
  s <- get ;;
  match metas s !! data with
  | None => ret tt   (* not reachable: callers checked the metadata exists *)
  | Some m =>
      let nd := u64 (expired_at - m_created m) in
      if m_duration m <? nd then
        remove_data_expire data (u64 (m_created m + m_duration m)) ;;;
        set_data_expire data expired_at ;;;
        modify (fun s => s <| metas ::= <[data := m <| m_duration := nd |>]> |>)
      else ret tt
  end.

Definition may_update (m : Meta) (d : string) : bool := String.eqb (m_owner m) d || in_list d (m_rw m).

Definition delete_meta (data : string) : M unit :=
  s <- get ;;
  match metas s !! data with
  | None => fail "dataId not found"
  | Some m =>
      modify (fun s => s <| metas ::= delete data |> <| models ::= delete (meta_key m) |>) ;;;
      remove_data_expire data (u64 (m_created m + m_duration m))   (* D7 repair *)
  end.

(* model.TerminateOrder(order) *)
Definition model_terminate_order (cx : Ctx) (oid : Z) (o : Order) : M unit :=
  refund <- market_withdraw cx oid o ;;
  forM (o_shards o) (fun id =>
    s <- get ;;
    match shards s !! id with
    | Some sh => if (sh_status sh =? ShardCompleted) && (sh_order sh =? oid) then shard_release (sh_sp sh) (Some sh) else ret tt
    | None => ret tt
    end) ;;;
  order_terminate oid refund.

Definition remove_shards (ids : list Z) : M unit :=
  modify (fun s => s <| shards := fold_left (fun m id => delete id m) ids (shards s) |>).

Fixpoint dedupZ (l : list Z) : list Z :=
  match l with [] => [] | x :: r => if inZ x r then dedupZ r else x :: dedupZ r end.

(* the force-push loop of UpdateMeta: terminate the trailing orders of the last commit;
   returns the remaining order list and the shard ids collected *)
Fixpoint force_push_loop (cx : Ctx) (rev_orders : list Z) (last_commit : string) (acc : list Z) : M (list Z * list Z) :=
  match rev_orders with
  | [] => ret ([], acc)
  | oid :: rest =>
      s <- get ;;
      match orders s !! oid with
      | None => fail "last order not found"
      | Some o =>
          if negb (String.eqb (o_commit o) last_commit) then ret (rev_orders, acc) else
          model_terminate_order cx oid o ;;;
          force_push_loop cx rest last_commit (acc ++ o_shards o)
      end
  end.

Definition update_meta (cx : Ctx) (oid : Z) (o : Order) : M unit :=
  s <- get ;;
  if negb (Nat.eqb (String.length (o_data o)) 36) then fail "InvalidDataId" else
  match metas s !! o_data o with
  | None => fail "not found"
  | Some m =>
      if negb (may_update m (o_owner o)) then fail "NoPermission" else
      m' <- (if o_op o =? 1 then
               ret (m <| m_cid := o_cid o |> <| m_commit := o_commit o |>
                      <| m_commits := m_commits m ++ [version_str (o_commit o) (cx_height cx)] |>
                      <| m_orders := m_orders m ++ [oid] |>)
             else if o_op o =? 2 then
               match last_opt (m_commits m) with
               | None => panic "index out of range"
               | Some lastv =>
                   r <- force_push_loop cx (rev (m_orders m)) (commit_of_version lastv) [] ;;
                   let '(rev_left, sids) := r in
                   remove_shards (dedupZ sids) ;;;
                   let commits' := removelast (m_commits m) ++ [version_str (o_commit o) (cx_height cx)] in
                   let m1 := m <| m_cid := o_cid o |> <| m_commit := o_commit o |> <| m_commits := commits' |>
                               <| m_orders := rev rev_left ++ [oid] |> in
                   reset_meta_duration cx (o_data o) m1
               end
             else if o_op o =? 3 then
               ret (m <| m_order := oid |> <| m_orders := m_orders m ++ [oid] |>)
             else fail "InvalidOperation") ;;
      modify (fun s => s <| metas ::= <[o_data o := m' <| m_status := MetaComplete |>]> |>)
  end.

Definition update_meta_status_commit (cx : Ctx) (oid : Z) (o : Order) : M unit :=
  s <- get ;;
  match metas s !! o_data o with
  | None => fail "dataId not found"
  | Some m =>
      if negb (m_status m =? MetaComplete) then fail "InvalidStatus" else
      let old_e := u64 (m_created m + m_duration m) in
      let new_e := u64 (o_created o + o_duration o) in
      if old_e <? cx_height cx then fail "metadata should have expired" else
      m1 <- (if old_e <? new_e then
               remove_data_expire (o_data o) old_e ;;;
               set_data_expire (o_data o) new_e ;;;
               ret (m <| m_duration := u64 (new_e - m_created m) |>)
             else ret m) ;;
      modify (fun s => s <| metas ::= <[o_data o := m1 <| m_status := i32 (o_op o) |> <| m_commit := o_commit o |> <| m_order := oid |>]> |>)
  end.

Definition rollback_meta (cx : Ctx) (data : string) : M unit :=
  s <- get ;;
  match metas s !! data with
  | None => ret tt
  | Some m =>
      match last_opt (m_commits m) with
      | None =>
          modify (fun s => s <| metas ::= delete data |> <| models ::= delete (meta_key m) |>) ;;;
          remove_data_expire data (u64 (m_created m + m_duration m))   (* D7 repair *)
      | Some lastv =>
          match last_opt (m_orders m) with
          | None => panic "index out of range"
          | Some lo =>
              let m1 := m <| m_status := MetaComplete |> <| m_commit := commit_of_version lastv |> <| m_order := lo |> in
              m2 <- reset_meta_duration cx data m1 ;;
              modify (fun s => s <| metas ::= <[data := m2]> |>)
          end
      end
  end.

Definition cancel_order (cx : Ctx) (oid : Z) : M unit :=
  s <- get ;;
  let data := match orders s !! oid with Some o => o_data o | None => "" end in
  r <- try_ (refund_order oid) ;;
  match r with
  | None => fail "RefundOrder"
  | Some _ =>
      rollback_meta cx data ;;;
      modify (fun s => s <| orders ::= delete oid |>)
  end.

Definition update_permission (owner data : string) (ro rw : list string) : M unit :=
  s <- get ;;
  match metas s !! data with
  | None => fail "dataId not found"
  | Some m =>
      if negb (String.eqb owner (m_owner m)) then fail "NoPermission" else
      modify (fun s => s <| metas ::= <[data := m <| m_ro := ro |> <| m_rw := rw |>]> |>)
  end.

(* model EndBlocker *)
Definition end_block_model (cx : Ctx) : M unit :=
  s <- get ;;
  match expdata s !! cx_height cx with
  | None => ret tt
  | Some l =>
      forM l (fun d => try_ (delete_meta d) ;;; ret tt) ;;;
      modify (fun s => s <| expdata ::= delete (cx_height cx) |>)
  end.
