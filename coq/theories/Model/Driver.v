(* Entry points evaluated by the correspondence check (extracted to OCaml, and
   evaluated inside Coq by vm_compute in the thorough tier).

   A step of the implementation is  pre-state --ctx,op--> (outcome class, post-state).
   [check_step] decodes the abstracted pre-state, runs the model on the same ctx/op and
   reports which tables of the model's post-state differ from the implementation's and
   whether the outcome class agrees; it also evaluates the invariant monitors on the
   implementation's post-state. All comparison logic lives here, in Gallina. *)
From SaoVerif Require Import Base.Prelude Base.Ints Model.Did Model.DidSpec Model.DidMon Model.Types.

Definition dec_tables (v : value) : option tables :=
  match v with
  | VL l => mapM (fun e => match e with VL [VS n; x] => Some (n, x) | _ => None end) l
  | _ => None
  end.

(* names of the tables on which the model's post-state differs from the implementation's *)
Definition diff_tables (model impl : tables) : list string :=
  fold_right (fun kv acc =>
                match tget kv.1 impl with
                | Some v => if value_eqb kv.2 v then acc else kv.1 :: acc
                | None => kv.1 :: acc
                end) [] model.

(** ** did family *)
Record Ctx := { cx_height : Z; cx_chain : string; cx_time : Z; cx_seed : Z }.
Definition dec_ctx (v : value) : option Ctx :=
  match v with
  | VL [VZ h; VS c; VZ t; VZ sd] => Some {| cx_height := h; cx_chain := c; cx_time := t; cx_seed := sd |}
  | _ => None
  end.

(* result: ["compared"; family; model outcome class; outcome agrees; differing tables;
            detail; failed monitors (on the implementation's post-state); state changed] *)
Definition res_undecodable (what : string) : value := VL [VS "undecodable"; VS what].

Definition tables_eqb (a b : tables) : bool :=
  match diff_tables a b with [] => Nat.eqb (length a) (length b) | _ => false end.

Definition check_did_step (cx : Ctx) (pre : tables) (op : DidOp) (outcome : string) (post : tables) : value :=
  match did_of_tables pre, did_of_tables post with
  | Some s, Some ipost =>
      if negb (op_sane_b op) then VL [VS "outofdomain"; VS "did parser oracle"] else
      let r := did_handle (cx_chain cx) op s in
      let '(cls, s', detail) :=
        match r with
        | inr s' => ("ok", s', "")
        | inl e => ("rejected", s, e)
        end in
      VL [VS "compared"; VS "did"; VS cls; vbool (String.eqb cls outcome); vLS (diff_tables (did_tables s') post);
          VS detail;
          vLS (failed_monitors (did_monitors (cx_chain cx) ipost ++
                 (* per-operation monitor: a Binding the implementation accepted must carry a
                    proof text that names the DID (C17, finding D17) *)
                 [("did.binding_proof_names_did",
                   match op with
                   | OpBinding _ m => negb (String.eqb outcome "ok") || proof_names_did m
                   | _ => true end)]));
          vbool (negb (tables_eqb pre post))]
  | _, _ => res_undecodable "did state"
  end.

Definition is_did_op (op : value) : bool :=
  match op with
  | VL (VS n :: _) => in_list n ["Binding"; "Update"; "UpdatePaymentAddress"]
  | _ => false
  end.

Definition check_step (pre ctx op outcome post : value) : value :=
  match dec_tables pre, dec_ctx ctx, unS outcome, dec_tables post with
  | Some pre, Some cx, Some outcome, Some post =>
      if is_did_op op then
        match dec_did_op op with
        | Some o => check_did_step cx pre o outcome post
        | None => res_undecodable "did op"
        end
      else VL [VS "unmodelled"]
  | _, _, _, _ => res_undecodable "frame"
  end.
