(* Entry points evaluated by the correspondence check (extracted to OCaml, and
   evaluated inside Coq by vm_compute in the thorough tier).

   A step of the implementation is  pre-state --ctx,op--> (outcome class, post-state).
   [check_step] decodes the abstracted pre-state, runs the model on the same ctx/op and
   reports which tables of the model's post-state differ from the implementation's and
   whether the outcome class agrees; it also evaluates the invariant monitors on the
   implementation's post-state. All comparison logic lives here, in Gallina. *)
From SaoVerif Require Import Base.Prelude Base.Ints Model.Did Model.DidSpec Model.DidMon Model.Types Model.Monad Model.Bank Model.Select Model.Node Model.Storage Model.Sao Model.Hooks Model.App Model.Spec Model.Monitors Model.OpMonitors Model.Genesis.

Definition dec_tables (v : value) : option tables :=
  match v with
  | VL l => mapM (fun e => match e with VL [VS n; x] => Some (n, x) | _ => None end) l
  | _ => None
  end.

(* Differences between the model's and the implementation's post-state, by table and,
   for tables of records, by field: "Table#<field index>" when a record present on both
   sides differs in that field, "Table+keys" when the key sets differ. *)
Fixpoint diff_fields (i : nat) (a b : list value) : list nat :=
  match a, b with
  | x :: a', y :: b' => (if value_eqb x y then [] else [i]) ++ diff_fields (S i) a' b'
  | [], [] => []
  | _, _ => [i]
  end.

Definition nat_str (n : nat) : string := str_of_Z (Z.of_nat n).

Fixpoint diff_records (name : string) (m i : list value) : list string :=
  match m, i with
  | [], [] => []
  | VL [k1; VL f1] :: m', VL [k2; VL f2] :: i' =>
      if value_eqb k1 k2 then
        map (fun n => name +:+ "#" +:+ nat_str n) (diff_fields 0 f1 f2) ++ diff_records name m' i'
      else [name +:+ "+keys"]
  | VL [k1; x1] :: m', VL [k2; x2] :: i' =>
      if value_eqb k1 k2 then (if value_eqb x1 x2 then [] else [name +:+ "#0"]) ++ diff_records name m' i'
      else [name +:+ "+keys"]
  | _, _ => [name +:+ "+keys"]
  end.

Fixpoint dedup_str (l : list string) : list string :=
  match l with [] => [] | x :: r => if in_list x r then dedup_str r else x :: dedup_str r end.

Definition diff_value (name : string) (m i : value) : list string :=
  if value_eqb m i then [] else
  match m, i with
  | VL ((VL [_; _] :: _) as ml), VL il => dedup_str (diff_records name ml il)
  | VL ml, VL ((VL [_; _] :: _) as il) => dedup_str (diff_records name ml il)
  | VL [VL f1], VL [VL f2] => map (fun n => name +:+ "#" +:+ nat_str n) (diff_fields 0 f1 f2)
  | _, _ => [name]
  end.

Definition diff_tables (model impl : tables) : list string :=
  flat_map (fun kv => match tget kv.1 impl with
                      | Some v => diff_value kv.1 kv.2 v
                      | None => [kv.1]
                      end) model.

(** ** did family *)
Definition dec_ctx (v : value) : option Ctx :=
  match v with
  | VL [VZ h; VS c; VZ t; VZ sd] => Some {| cx_height := h; cx_chain := c; cx_time := t; cx_seed := sd |}
  | _ => None
  end.

(* result: ["compared"; family; model outcome class; outcome agrees; differing tables;
            detail; failed monitors (on the implementation's post-state); state changed] *)
Definition res_undecodable (what : string) : value := VL [VS "undecodable"; VS what].

Definition tables_eqb (a b : tables) : bool :=
  match diff_tables a b with [] => Nat.eqb (length a) (length b) | _ => false end.

(** ** select family: direct calls of the selection kernels on the real keeper *)
Definition dec_cand (v : value) : option Cand :=
  match v with
  | VL [VS a; VZ alive; VZ rep] => Some (mkCand a (mkNode "" rep 0 alive [] 0 ""))
  | _ => None end.

Definition sel_result {A} (r : sel A) (f : A -> value) : value :=
  match r with SelOk a => f a | SelHang => VS "hang" | SelPanic => VS "panic" end.

Definition mk_res (fam cls : string) (ok : bool) (diff : list string) (detail : string) (mons : list string) (chg : bool) : value :=
  VL [VS "compared"; VS fam; VS cls; vbool ok; vLS diff; VS detail; vLS mons; vbool chg].

(* monitors of C15 on what the IMPLEMENTATION returned *)
Definition sel_monitors (s : State) (count : Z) (ignore : list string) (size : Z) (observed : list string) : list (string * bool) :=
  [ ("sel.nodup", nodup_strb observed);
    ("sel.not_ignored", forallb (fun a => negb (in_list a ignore)) observed);
    ("sel.eligible", forallb (fun a => match nodes s !! a with
                                       | Some n => eligible (pledges s) size (mkCand a n)
                                       | None => false end) observed);
    ("sel.count", Z.of_nat (length observed) <=? Z.max 0 count) ].

Definition check_select (cx : Ctx) (pre : tables) (op : value) (post : tables) : value :=
  match op with
  | VL [VS "SelRandomIndex"; VZ seed; VZ total; VZ count; observed] =>
      let m := sel_result (random_index seed total count) vLZ in
      let mons := match unLZ observed with
                  | Some l => [("sel.idx_nodup", bool_decide (NoDup l));
                               ("sel.idx_range", forallb (fun i => (0 <=? i) && (i <? total)) l);
                               ("sel.idx_count", if (0 <? count) && (count <? total) then Z.of_nat (length l) =? count else true)]
                  | None => [("sel.idx_returns", false)] end in
      mk_res "select" "ok" (value_eqb m observed) [] "RandomIndex" (failed_monitors mons) true
  | VL [VS "SelSelectNodes"; VZ size; VL cands; observed] =>
      match mapM dec_cand cands with
      | Some cl =>
          let m := vLS (map c_addr (select_nodes (Z.to_nat size) cl)) in
          mk_res "select" "ok" (value_eqb m observed) [] "SelectNodes" [] true
      | None => res_undecodable "cands"
      end
  | VL [VS "SelRandomSP"; VZ count; ign; VZ size; observed] =>
      match dec_state pre, unLS ign, dec_tables (VL []) with
      | Some s, Some ignore, _ =>
          let r := random_sp (nodes s) (pledges s) (default 0 (round s)) (cx_seed cx) count ignore size in
          let m := sel_result r (fun p => vLS (map c_addr p.1)) in
          let round' := match r with
                        | SelOk (_, Some x) => Some x
                        | _ => Some (default 0 (round s)) end in
          let diff := match r with SelOk _ => (fun d : list string => d) | _ => (fun _ => []) end
                      match tget "node.NodeRound" post with
                      | Some v => if value_eqb v (enc_opt VZ round') then [] else ["node.NodeRound"]
                      | None => ["node.NodeRound"] end in
          let mons := match unLS observed with
                      | Some l => sel_monitors s count ignore size l
                      | None => [] end in
          mk_res "select" "ok" (value_eqb m observed) diff "RandomSP" (failed_monitors mons) true
      | _, _, _ => res_undecodable "select state"
      end
  | _ => res_undecodable "select op"
  end.

Definition is_select_op (op : value) : bool :=
  match op with
  | VL (VS n :: _) => in_list n ["SelRandomIndex"; "SelSelectNodes"; "SelRandomSP"]
  | _ => false
  end.

(** ** application steps (did, node, sao, block boundaries) *)
Definition family_of_op (op : Op) : string :=
  match op with
  | OBeginBlock | OEndBlock _ => "block"
  | OStaking _ | OSimulate _ => "staking"
  | OReportFaults _ _ _ | ORecoverFaults _ _ _ => "fault"
  | ODid _ => "did"
  | ONodeCreate _ | ONodeReset _ | OAddVstorage _ _ | ORemoveVstorage _ _ | OClaimReward _ => "node"
  | OSend _ _ _ => "bank"
  | _ => "sao"
  end.

Definition op_in_domain (op : Op) : bool :=
  match op with
  | ODid o => op_sane_b o
  | OStore m => sig_sane_b (st_owner m) (st_sig m)
  | ORenew m => sig_sane_b (rn_owner m) (rn_sig m)
  | OTerminate _ _ owner _ sg => sig_sane_b owner sg
  | OUpdatePermission _ _ owner _ _ _ sg _ => sig_sane_b owner sg
  | _ => true
  end.

Definition check_app_step (cx : Ctx) (pre : tables) (op : Op) (outcome : string) (post : tables) : value :=
  match dec_state pre, dec_state post with
  | Some s, Some ipost =>
      if negb (op_in_domain op) then VL [VS "outofdomain"; VS "oracle"] else
      let '(s', out) := step cx s op in
      let opmon := match op with
                   | ODid (OpBinding _ m) =>
                       [("did.binding_proof_names_did", negb (String.eqb outcome "ok") || proof_names_did m);
                        (* a binding to a DID that already exists is submitted by an account already bound to it *)
                        ("did.binding_by_bound_creator", negb (String.eqb outcome "ok") ||
                           match d_ver (did s) !! b_root m with
                           | Some _ => creator_bound (cx_chain cx) (did s) (b_creator m) (b_pdid m)
                           | None => true end)]
                   | _ => [] end in
      mk_res (family_of_op op) (outcome_str out) (String.eqb (outcome_str out) outcome)
             (diff_tables (enc_state s') post) (outcome_detail out)
             (failed_monitors (did_monitors (cx_chain cx) (did ipost) ++ opmon ++
                               op_monitors cx s op (String.eqb outcome "ok") ipost ++
                               app_monitors (match op with OEndBlock _ => true | _ => false end) (cx_height cx) ipost))
             (negb (tables_eqb pre post))
  | None, _ => res_undecodable "pre-state"
  | _, None => res_undecodable "post-state"
  end.

(* A run of [n] empty blocks recorded as one step: BeginBlock and EndBlock at heights
   h, h+1, ..., each block [dt] seconds after the previous one. *)
Fixpoint run_blocks (n : nat) (cx : Ctx) (dt : Z) (s : State) : State * string :=
  match n with
  | O => (s, "ok")
  | S n' =>
      let '(s1, o1) := step cx s OBeginBlock in
      if negb (String.eqb (outcome_str o1) "ok") then (s1, outcome_str o1) else
      let '(s2, o2) := step cx s1 (OEndBlock []) in
      if negb (String.eqb (outcome_str o2) "ok") then (s2, outcome_str o2) else
      run_blocks n' {| cx_height := cx_height cx + 1; cx_chain := cx_chain cx; cx_time := cx_time cx + dt; cx_seed := cx_seed cx |} dt s2
  end.

Definition check_blocks (cx : Ctx) (pre : tables) (n dt : Z) (outcome : string) (post : tables) : value :=
  match dec_state pre, dec_state post with
  | Some s, Some ipost =>
      let '(s', out) := run_blocks (Z.to_nat n) cx dt s in
      mk_res "block" out (String.eqb out outcome) (diff_tables (enc_state s') post) "blocks"
             (failed_monitors (did_monitors (cx_chain cx) (did ipost) ++ rollback_monitors true s ipost ++ [("mint.within_age_cap", mon_mint_cap n s ipost);
                                                                                                     ("coll.release_exact", negb (String.eqb outcome "ok") || mon_release_exact s ipost)] ++
                               app_monitors true (cx_height cx + n - 1) ipost))
             (negb (tables_eqb pre post))
  | _, _ => res_undecodable "state"
  end.

(* genesis export / import: the implementation's re-imported state against the model's *)
Definition check_export_import (cx : Ctx) (pre : tables) (outcome : string) (post : tables) : value :=
  match dec_state pre, dec_state post with
  | Some s, Some ipost =>
      let s' := export_import s in
      mk_res "genesis" "ok" (String.eqb outcome "ok") (diff_tables (enc_state s') post) "export/import"
             (failed_monitors [("genesis.roundtrip_complete", tables_eqb pre post);
                               (* the tables that DO have a genesis field survive the round trip (the four that do not are finding D18) *)
                               ("genesis.roundtrip_exported",
                                tables_eqb (filter (fun kv => negb (in_list kv.1 ["node.FaultById"; "node.FaultIndex"; "node.FishingReward"; "node.NodeRound"])) pre)
                                           (filter (fun kv => negb (in_list kv.1 ["node.FaultById"; "node.FaultIndex"; "node.FishingReward"; "node.NodeRound"])) post));
                               ("genesis.export_validates", String.eqb outcome "ok")])
             (negb (tables_eqb pre post))
  | _, _ => res_undecodable "state"
  end.

Definition check_step (pre ctx op outcome post : value) : value :=
  match dec_tables pre, dec_ctx ctx, unS outcome, dec_tables post with
  | Some pre, Some cx, Some outcome, Some post =>
      if is_select_op op then check_select cx pre op post
      else match op with
           | VL [VS "Blocks"; VZ n; VZ dt] => check_blocks cx pre n dt outcome post
           | VL [VS "ExportImport"; VS _] => check_export_import cx pre outcome post
           | _ =>
           match dec_op op with
           | Some o => check_app_step cx pre o outcome post
           | None => VL [VS "unmodelled"]
           end end
  | _, _, _, _ => res_undecodable "frame"
  end.

(* debugging aid: the model's post-state for one step *)
Definition model_post (pre ctx op : value) : value :=
  match dec_tables pre, dec_ctx ctx with
  | Some pre, Some cx =>
      match dec_state pre, dec_op op with
      | Some s, Some o => let '(s', out) := step cx s o in
                          VL [VS (outcome_str out); VS (outcome_detail out); VL (map (fun kv => VL [VS kv.1; kv.2]) (enc_state s'))]
      | _, _ => VS "undecodable"
      end
  | _, _ => VS "undecodable"
  end.

(* debugging aid: the quantities the solvency / conservation monitors compare, for one recorded state *)
Definition state_metrics (ctx post : value) : value :=
  match dec_ctx ctx, dec_tables post with
  | Some cx, Some t =>
      match dec_state t with
      | Some s =>
          let h := cx_height cx in
          VL [VL [VS "market_balance"; VZ (balance s (macc MARKET))];
              VL [VS "owed_market"; VZ (owed_market h s)];
              VL [VS "waiting_share"; VZ (waiting_share s)];
              VL [VS "market_surplus"; VZ (market_surplus h s)];
              VL [VS "order_balance"; VZ (balance s (macc ORDER))];
              VL [VS "owed_order"; VZ (owed_order s)];
              VL [VS "node_balance"; VZ (balance s (macc NODE))];
              VL [VS "owed_node_collateral"; VZ (owed_node_collateral s)];
              VL [VS "owed_node_rewards"; VZ (owed_node_rewards s)]]
      | None => VS "undecodable"
      end
  | _, _ => VS "undecodable"
  end.
