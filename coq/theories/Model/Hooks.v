(* Staking hooks of x/node (keeper/hooks.go) and the thin staking model. The staking
   module itself is not modelled: a staking transaction is given as the sequence of
   store writes and hook calls the SDK performs (cosmos-sdk v0.46.2
   x/staking/keeper/delegation.go: Delegate, Unbond, RemoveDelegation, and the validator
   state changes of its end-blocker), with the share amounts read back from the real
   keeper. What is modelled is everything x/node does in the hooks, including the
   process-level variable sharesBeforeModified ([pg], which baseapp's revert does not
   restore). *)
From SaoVerif Require Import Base.Prelude Base.Ints Base.Dec Model.Did Model.Types Model.Monad Model.Bank Model.Select Model.Node.
From RecordUpdate Require Import RecordUpdate.
Import RecordSetNotations.

Inductive StEvent :=
| EvBeforeShares (del val : string)     (* BeforeDelegationSharesModified *)
| EvBeforeRemoved (del val : string)    (* BeforeDelegationRemoved *)
| EvAfterModified (del val : string)    (* AfterDelegationModified *)
| EvValHook (val : string)              (* AfterValidatorBonded / BeginUnbonding / Removed *)
| EvSetVal (val : string) (v : Validator)
| EvDelVal (val : string)
| EvSetDel (key : string) (d : Delegation)
| EvDelDel (key : string)
| EvBal (addr : string) (delta : Z)     (* bank effect on a tracked account *)
| EvFail                                (* the SDK returns an error here *)
| EvPgZero.                             (* simulation only: net effect of the second hook on [pg]; its store writes are discarded *)

Definition del_shares (s : State) (del val : string) : option Z :=
  match find_del s del val with Some d => Some (dl_shares d) | None => None end.

Definition set_role (creator : string) (role : Z) (val : option string) : M unit :=
  modify (fun s => match nodes s !! creator with
                   | Some n => s <| nodes ::= <[creator := match val with
                                                          | Some v => n <| n_role := role |> <| n_val := v |>
                                                          | None => n <| n_role := role |> end]> |>
                   (* SetSuperNode / SetNormalNode on a missing node store the zero node under "" *)
                   | None => s <| nodes ::= <[EmptyString := mkNode "" 0 0 0 [] role (default "" val)]> |>
                   end).

(* verifySuperStorageNodes(val, acc, beforeDelegationRemoved) *)
Definition verify_super (val : string) (acc : option string) (before_removed : bool) : M unit :=
  s <- get ;;
  sub <- (match acc with
          | Some a =>
              if pg s =? 0 then ret 0 else
              match del_shares s a val with
              | None => panic "nil delegation"
              | Some cur => if cur <? pg s then ret (pg s - cur) else if before_removed then ret cur else ret 0
              end
          | None => ret 0
          end) ;;
  forM (filter (fun kv => String.eqb (dl_val kv.2) val) (sorted_items (dels s))) (fun kv =>
    let d := dl_del kv.2 in
    s1 <- get ;;
    match nodes s1 !! d with
    | None => ret tt
    | Some n =>
        if negb (String.eqb (n_val n) "" || String.eqb (n_val n) val) then ret tt else
        let demote := if n_role n =? 1 then set_role d 0 None else ret tt in
        if before_removed && (match acc with Some a => String.eqb d a | None => false end) then demote else
        if negb (Z.land (n_status n) STATUS_SUPER_REQ =? STATUS_SUPER_REQ) then demote else
        if negb (match pledges s1 !! d with Some p => np_vthreshold (nparams s1) <=? pl_total p | None => false end) then demote else
        if check_share s1 d val sub then
          (if n_role n =? 0 then set_role d 1 (Some val) else ret tt)
        else demote
    end) ;;;
  modify (fun s => if pg s =? 0 then s else s <| pg := 0 |>).

Definition st_event (e : StEvent) : M unit :=
  match e with
  | EvBeforeShares del val =>
      s <- get ;;
      match del_shares s del val with
      | Some sh => modify (fun s => s <| pg := sh |>)
      | None => panic "nil delegation"
      end
  | EvBeforeRemoved del val => verify_super val (Some del) true
  | EvAfterModified del val => verify_super val (Some del) false
  | EvValHook val => verify_super val None false
  | EvSetVal val v => modify (fun s => s <| vals ::= <[val := v]> |>)
  | EvDelVal val => modify (fun s => s <| vals ::= delete val |>)
  | EvSetDel k d => modify (fun s => s <| dels ::= <[k := d]> |>)
  | EvDelDel k => modify (fun s => s <| dels ::= delete k |>)
  | EvBal a dlt => modify (fun s => s <| bal ::= <[a := balance s a + dlt]> |>)
  | EvFail => fail "staking error"
  | EvPgZero => modify (fun s => s <| pg := 0 |>)
  end.

Definition staking_tx (evs : list StEvent) : M unit := forM evs st_event.
