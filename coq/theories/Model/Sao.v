(* Model of x/sao: signature verification (verify.go + the sao-did resolvers), the ten
   message handlers, the timeout and expiry end-blocker. Follows the repaired code
   (D2, D4, D8, D9; see KNOWN_FINDINGS.txt). *)
From SaoVerif Require Import Base.Prelude Base.Ints Base.Dec Model.Did Model.Types Model.Monad Model.Bank Model.Select Model.Node Model.Storage.
From RecordUpdate Require Import RecordUpdate.
Import RecordSetNotations.

(** * JWS verification *)
(* Oracle part of a signed request: what the URL parser returns for the owner and for the
   kid in the JWS header, and under which (multibase-rendered) public keys the signature
   verifies over exactly the protobuf bytes of the proposal in the message. *)
Record SigO := {
  so_owner : option (string * string);           (* parser.Parse(owner): method, id *)
  so_kid   : option (string * string * string);  (* parser.Parse(kid): method, id, query *)
  so_keys  : list string;                        (* keys that verify protected.payload *)
}.

(* getVersionInfo(query) *)
Definition version_info (q : string) : option string :=
  match filter (fun p => str_contains p "versionId" || str_contains p "version-id") (str_split "&" q) with
  | [] => Some ""
  | p :: _ => match str_split "=" p with
              | _ :: v :: _ => Some v
              | _ => None   (* strings.Split(q, "=")[1] out of range: panic *)
              end
  end.

(* IsSidDocumentOfDid(owner, versionId) *)
Definition is_version_of (ds : DidState) (owner_id version : string) : bool :=
  match d_ver ds !! owner_id with Some l => in_list version l | None => false end.

(* verifySignature: the DID named by the signature header, if the request verifies *)
Definition verify_sig (s : State) (owner : string) (so : SigO) : option string :=
  match so_owner so, so_kid so with
  | Some (om, oid), Some (km, kid_id, kq) =>
      let did_in_sig := "did:" +:+ km +:+ ":" +:+ kid_id in
      if negb (String.eqb did_in_sig owner) then None else
      if String.eqb om "key" then
        if String.eqb km "key" && in_list kid_id (so_keys so) then Some did_in_sig else None
      else if String.eqb om "sid" then
        if negb (String.eqb km "sid") then None else
        match version_info kq with
        | None => None
        | Some v =>
            if negb (is_version_of (did s) oid v) then None else
            match d_doc (did s) !! v with
            | Some keys => if existsb (fun k => in_list k.2 (so_keys so)) keys then Some did_in_sig else None
            | None => None
            end
        end
      else None
  | _, _ => None
  end.

(* the isProvider test shared by most handlers *)
Definition acts_for (s : State) (creator provider : string) : bool :=
  String.eqb provider creator ||
  match nodes s !! provider with Some n => in_list creator (n_tx n) | None => false end.

(** * schedules *)
Definition set_timeout_block (oid : Z) (h : Z) : M unit :=
  modify (fun s => s <| timeouts ::= <[h := default [] (timeouts s !! h) ++ [oid]]> |>).
Definition set_expired_shard_block (sid : Z) (h : Z) : M unit :=
  modify (fun s => s <| expshards ::= <[h := default [] (expshards s !! h) ++ [sid]]> |>).

(** * GetSps / FindSPByDataId *)
Definition find_sp_by_data (s : State) (data : string) : list string :=
  match metas s !! data with
  | None => []
  | Some m =>
      match orders s !! m_order m with
      | None => []
      | Some o => omap (fun id => match shards s !! id with
                                  | Some sh => match nodes s !! sh_sp sh with Some _ => Some (sh_sp sh) | None => None end
                                  | None => None end) (o_shards o)
      end
  end.

Definition get_sps (cx : Ctx) (o : Order) (data : string) : M (list string) :=
  if o_op o =? 1 then
    sps <- random_sp_m cx (o_replica o) [] (i64 (o_size o)) ;;
    if (o_replica o <=? 0) || (Z.of_nat (length sps) <? o_replica o) then fail "InvalidReplica" else ret sps
  else if o_op o =? 2 then
    if o_replica o <=? 0 then fail "InvalidReplica" else
    s <- get ;;
    let cur := find_sp_by_data s data in
    sps <- (if o_replica o <? Z.of_nat (length cur) then ret (take (Z.to_nat (o_replica o)) cur)
            else if Z.of_nat (length cur) <? o_replica o then
              add <- random_sp_m cx (o_replica o - Z.of_nat (length cur)) cur (i64 (o_size o)) ;;
              ret (cur ++ add)
            else ret cur) ;;
    if Z.of_nat (length sps) <? o_replica o then fail "InvalidReplica" else ret sps
  else fail "InvalidOperation".

(** * Store *)
Record StoreMsg := {
  st_creator : string; st_provider : string;             (* msg.Creator, msg.Provider *)
  st_owner : string; st_pprovider : string;               (* proposal.Owner, proposal.Provider *)
  st_group : string; st_duration : Z; st_replica : Z; st_timeout : Z (* int32 *);
  st_alias : string; st_data : string; st_commit : string; st_tags : list string; st_cid : string;
  st_rule : string; st_ext : string; st_size : Z; st_op : Z; st_ro : list string; st_paydid : string;
  st_sig : SigO; st_cid_ok : bool;
}.

Definition split_commit (c : string) : string * string :=
  if str_contains c "|" then
    match str_split "|" c with
    | a :: b :: _ => (a, b)
    | _ => (c, c)
    end
  else (c, c).

Definition sao_store (cx : Ctx) (m : StoreMsg) : M unit :=
  s <- get ;;
  match verify_sig s (st_owner m) (st_sig m) with
  | None => fail "InvalidSignature"
  | Some sigdid =>
  if String.eqb (st_commit m) "" then fail "invalid commitId" else
  if String.eqb (st_data m) "" then fail "invalid dataId" else
  if (st_op m <? 1) || (2 <? st_op m) then fail "invalid operation" else
  if st_duration m <? 3600 then fail "invalid duration" else
  if negb (st_cid_ok m) then fail "InvalidCid" else
  let existing := metas s !! st_data m in
  if match existing with None => negb (str_contains (st_commit m) (st_data m)) | Some _ => false end
  then fail "metadata not found" else
  if match existing with Some em => negb (may_update em sigdid) | None => false end then fail "NoPermission" else
  (* sponsor *)
  pay0 <- (if String.eqb (st_paydid m) "" then ret None else
           if negb (str_prefix "did:key:" (st_paydid m)) then fail "NotKid" else
           match pay_addr s (st_paydid m) with
           | None => fail "invalid payment did"
           | Some a => if String.eqb a (st_creator m) then ret (Some a) else fail "NoPermission"
           end) ;;
  match nodes s !! st_pprovider m with
  | None => fail "NodeNotFound"
  | Some _ =>
  let '(last_commit, commit) := split_commit (st_commit m) in
  let size := if st_size m =? 0 then 1 else st_size m in
  if st_timeout m =? 0 then fail "invalid timeout" else
  let o0 := mkOrder (st_creator m) (st_owner m) (st_pprovider m) (st_cid m) (st_duration m) OrderPending
                    (st_replica m) [] 0 size (st_op m) 0 (u64 (st_timeout m)) (st_data m) commit 0 (st_paydid m) in
  is_provider <-
    (match pay0 with
     | Some _ => ret true
     | None =>
         if creator_bound_s cx s (st_creator m) (st_owner m) then ret false else
         if (String.eqb (st_pprovider m) (st_creator m) && String.eqb (st_provider m) (st_creator m)) ||
            (String.eqb (st_pprovider m) (st_provider m) &&
             match nodes s !! st_provider m with Some n => in_list (st_creator m) (n_tx n) | None => false end)
         then ret true else fail "InvalidProvider"
     end) ;;
  sps <- (if is_provider then get_sps cx o0 (st_data m) else ret []) ;;
  let o1 := o0 <| o_price := PRICE |> in
  let total := dec_mul_int (dec_mul_int (dec_mul_int PRICE (i64 size)) (i64 (st_replica m))) (i64 (st_duration m)) in
  if total <? 0 then panic "negative decimal coin amount" else
  let amount := ceil_coin total in
  s1 <- get ;;
  payer <- (match pay0 with
            | Some a => ret a
            | None => match pay_addr s1 (st_owner m) with Some a => ret a | None => fail "PayAddrNotSet" end
            end) ;;
  if balance s1 payer <? amount then fail "InsufficientCoin" else
  send_strict payer (macc ORDER) amount ;;;
  r <- new_order cx (o1 <| o_amount := amount |>) sps ;;
  let '(oid, o2) := r in
  (if is_provider then set_timeout_block oid (u64 (o_created o2 + o_timeout o2)) else ret tt) ;;;
  s2 <- get ;;
  match metas s2 !! st_data m with
  | Some em =>
      if oid <? m_order em then fail "InvalidCommitId" else
      match orders s2 !! m_order em with
      | None => fail "InvalidLastOrder"
      | Some lo =>
          if negb (o_status lo =? OrderCompleted) then fail "InvalidLastOrder" else
          if negb (str_contains (m_commit em) last_commit) then fail "InvalidCommitId" else
          update_meta_status_commit cx oid o2
      end
  | None =>
      let nm := mkMeta (st_owner m) (st_alias m) (st_group m) oid (st_tags m) (st_cid m) [] (st_ext m) 0 commit
                       (st_rule m) (st_duration m) (cx_height cx) (st_ro m) [] MetaNew [] in
      new_meta cx o2 (st_data m) nm
  end
  end end.

(** * Ready *)
Definition sao_ready (cx : Ctx) (creator provider : string) (oid : Z) : M unit :=
  s <- get ;;
  match orders s !! oid with
  | None => fail "OrderNotFound"
  | Some o =>
      let isp := (String.eqb (o_provider o) creator && String.eqb provider creator) ||
                 (String.eqb (o_provider o) provider &&
                  match nodes s !! provider with Some n => in_list creator (n_tx n) | None => false end) in
      if negb isp then fail "InvalidProvider" else
      if negb (o_status o =? OrderPending) then fail "OrderUnexpectedStatus" else
      sps <- get_sps cx o (o_data o) ;;
      o' <- generate_shards oid o sps ;;
      modify (fun s => s <| orders ::= <[oid := o']> |>) ;;;
      set_timeout_block oid (u64 (cx_height cx + o_timeout o'))
  end.

(** * Complete *)
Definition zero_order : Order := mkOrder "" "" "" "" 0 0 0 [] 0 0 0 0 0 "" "" 0 "".

Definition last_order_blocks (s : State) (meta : Meta) : bool :=
  match last_opt (m_orders meta) with
  | None => false
  | Some lid =>
      match orders s !! lid with
      | Some lo => (o_status lo =? OrderPending) || (o_status lo =? OrderInProgress) || (o_status lo =? OrderDataReady)
      | None => true
      end
  end.

(* the migration branch: returns (the new shard before activation, the order in progress,
   the completing order as it will be stored) *)
Definition complete_migration (cx : Ctx) (oid : Z) (o : Order) (sid : Z) (sh : Shard) : M (Shard * Order * Order) :=
  if String.eqb (sh_from sh) "" then fail "EmptyShardFrom" else
  s <- get ;;
  match shard_by_sp s o (sh_from sh) with
  | None => panic "nil pointer dereference"
  | Some (old_id, old) =>
      shard_release (sh_from sh) (Some old) ;;;
      let get0 (id : Z) : Z * Order :=
        match orders s !! id with Some x => (id, x) | None => (0, zero_order) end in
      let ip := if sh_order old =? oid then o else snd (get0 (sh_order old)) in
      let sh1 := sh <| sh_order := sh_order old |> <| sh_renew := sh_renew old |> <| sh_created := cx_height cx |>
                    <| sh_duration := u64 (sh_created old + sh_duration old - cx_height cx) |> in
      worker_release cx ip old ;;;
      worker_append cx ip sh1 ;;;
      modify (fun s => s <| shards ::= delete old_id |>) ;;;
      let strip (x : Order) := filter (fun i => negb (i =? old_id)) (o_shards x) in
      let others := (if sh_order old =? oid then [] else [sh_order old]) ++ map ri_order (removelast (sh_renew old)) in
      let o' := o <| o_shards := strip o |> in
      modify (fun s => s <| orders ::= <[oid := o']> |>) ;;;
      forM others (fun id =>
        let '(key, x) := get0 id in
        modify (fun s => s <| orders ::= <[key := x <| o_shards := strip x ++ [sid] |>]> |>)) ;;;
      ret (sh1, ip, o')
  end.

Definition sao_complete (cx : Ctx) (creator provider : string) (oid : Z) (cid : string) (size : Z) (cid_ok : bool) : M unit :=
  if size =? 0 then fail "InvalidShardSize" else
  s <- get ;;
  match orders s !! oid with
  | None => fail "OrderNotFound"
  | Some o =>
  if negb (acts_for s creator provider) then fail "InvalidProvider" else
  match shard_by_sp s o provider with
  | None => fail "OrderShardProvider"
  | Some (sid, sh) =>
  if sh_status sh =? ShardCompleted then fail "ShardCompleted" else
  if negb (sh_status sh =? ShardWaiting) && negb (sh_status sh =? ShardMigrating) then fail "ShardUnexpectedStatus" else
  if negb (size =? sh_size sh) then fail "InvalidShardSize" else
  match metas s !! o_data o with
  | None => fail "metadata not found"
  | Some meta =>
  if negb (m_status meta =? MetaNew) && negb (m_status meta =? MetaComplete) && negb (m_status meta =? i32 (o_op o))
  then fail "InvalidOperation" else
  if last_order_blocks s meta then fail "InvalidLastOrder" else
  if negb cid_ok then fail "InvalidCid" else
  r <- (if sh_status sh =? ShardMigrating then complete_migration cx oid o sid sh
        else
          let sh1 := sh <| sh_created := cx_height cx |> <| sh_duration := o_duration o |> in
          worker_append cx o sh1 ;;;
          if negb (o_status o =? OrderCompleted) then
            update_meta cx oid o ;;;
            market_deposit o ;;;
            ret (sh1, o, o <| o_status := OrderCompleted |>)
          else ret (sh1, o, o)) ;;
  let '(sh1, ip, o') := r in
  let sh2 := sh1 <| sh_status := ShardCompleted |> <| sh_cid := cid |> in
  let end_ := u64 (sh_created sh2 + sh_duration sh2) in
  set_expired_shard_block sid end_ ;;;
  extend_meta_duration (o_data o) end_ ;;;
  shard_pledge sid sh2 (o_price ip) ;;;
  (if o_replica o' =? 0 then panic "division by zero" else ret tt) ;;;
  (if Z.quot (o_amount o') (o_replica o') <? 0 then panic "negative coin amount" else ret tt) ;;;
  try_ (increase_reputation provider (i64 (Z.quot (o_amount o') (o_replica o')))) ;;;
  modify (fun s => s <| orders ::= <[oid := o']> |>)
  end end end.

(** * Cancel (after the D8 repair) *)
Definition sao_cancel (cx : Ctx) (creator provider : string) (oid : Z) : M unit :=
  s <- get ;;
  match orders s !! oid with
  | None => fail "OrderNotFound"
  | Some o =>
      let is_creator :=
        String.eqb (o_creator o) creator ||
        (String.eqb provider (o_provider o) &&
         match nodes s !! o_provider o with Some n => in_list (o_creator o) (n_tx n) | None => false end) in
      if negb is_creator then fail "NotCreator" else
      if o_status o =? OrderCompleted then fail "OrderCompleted" else
      if negb (acts_for s creator provider) then fail "InvalidProvider" else
      forM (o_shards o) (fun id =>
        s1 <- get ;;
        match shards s1 !! id with
        | None => fail "shard not found"
        | Some sh =>
            (if sh_status sh =? ShardCompleted then shard_release (sh_sp sh) (Some sh) else ret tt) ;;;
            modify (fun s => s <| shards ::= delete id |>)
        end) ;;;
      cancel_order cx oid
  end.

(** * Renew (after the D4 repair) *)
Record RenewMsg := { rn_creator : string; rn_provider : string; rn_owner : string; rn_duration : Z; rn_timeout : Z;
                     rn_data : list string; rn_sig : SigO }.
Definition MAX_RENEW : Z := 63072000.

Definition renew_one (cx : Ctx) (m : RenewMsg) (sigdid : string) (data : string) : M unit :=
  s <- get ;;
  match metas s !! data with
  | None => ret tt
  | Some meta =>
  if negb (String.eqb (m_owner meta) sigdid) then ret tt else
  if negb (m_status meta =? MetaComplete) then ret tt else
  match orders s !! m_order meta with
  | None => ret tt
  | Some o =>
  match mapM (fun id => match shards s !! id with
                        | Some sh => if (sh_status sh =? ShardCompleted) || (sh_status sh =? ShardMigrating) then Some (id, sh) else None
                        | None => None end) (o_shards o) with
  | None => ret tt
  | Some shs =>
  if negb (o_status o =? OrderCompleted) then ret tt else
  if i64 (o_created o) + i64 (o_duration o) <? cx_height cx then ret tt else
  let total := dec_mul_int (dec_mul_int (dec_mul_int PRICE (i64 (o_replica o))) (i64 (o_size o))) (i64 (rn_duration m)) in
  if total <? 0 then panic "negative decimal coin amount" else
  let amount := ceil_coin total in
  let no := mkOrder (rn_creator m) (m_owner meta) (rn_provider m) (o_cid o) (rn_duration m) (o_status o) (o_replica o)
                    (o_shards o) amount (o_size o) 3 (cx_height cx) (u64 (rn_timeout m)) (o_data o) (o_commit o) PRICE "" in
  r <- try_ (renew_order no) ;;
  match r with
  | None => ret tt
  | Some nid =>
      let step (acc_end : Z) (ish : Z * Shard) : M Z :=
        let '(id, sh) := ish in
        if sh_status sh =? ShardMigrating then ret acc_end else
        let srp := store_reward_pledge (rn_duration m) (sh_size sh) PRICE in
        if srp <? 0 then panic "negative decimal coin amount" else
        let np := ceil_coin srp in
        sh1 <- (if sh_pledge sh <? np then
                  let extra := np - sh_pledge sh in
                  s1 <- get ;;
                  let b := balance s1 (sh_sp sh) in
                  (if extra <=? b then try_ (send_strict (sh_sp sh) (macc NODE) extra) ;;; ret tt
                   else
                     try_ (send_strict (sh_sp sh) (macc NODE) b) ;;;
                     modify (fun s => s <| debts ::= <[sh_sp sh := default 0 (debts s !! sh_sp sh) + (extra - b)]> |>)) ;;;
                  (* GetPledge of a missing pledge gives the zero record; Coin.Add on its empty
                     denomination panics *)
                  s2 <- get ;;
                  (match pledges s2 !! sh_sp sh with
                   | Some p => modify (fun s => s <| pledges ::= <[sh_sp sh := p <| pl_shpledged := pl_shpledged p + extra |>]> |>)
                   | None => panic "invalid coin denominations"
                   end) ;;;
                  ret (sh <| sh_pledge := np |>)
                else ret sh) ;;
        let sh2 := sh1 <| sh_renew := sh_renew sh1 ++ [mkRenew nid np (rn_duration m)] |> in
        modify (fun s => s <| shards ::= <[id := sh2]> |>) ;;;
        let e := shard_end_all sh2 in
        ret (if acc_end <? e then e else acc_end) in
      new_end <- (fix go (l : list (Z * Shard)) (acc : Z) : M Z :=
                    match l with [] => ret acc | x :: r => a <- step acc x ;; go r a end) shs 0 ;;
      extend_meta_duration data new_end ;;;
      try_ (update_meta cx nid no) ;;;
      ret tt
  end end end end.

Definition sao_renew (cx : Ctx) (m : RenewMsg) : M unit :=
  s <- get ;;
  match verify_sig s (rn_owner m) (rn_sig m) with
  | None => fail "InvalidSignature"
  | Some sigdid =>
      if negb (acts_for s (rn_creator m) (rn_provider m)) then fail "InvalidProvider" else
      if rn_duration m <? 3600 then fail "invalid duration" else
      if MAX_RENEW <? rn_duration m then fail "InvalidDuration" else
      match pool s with
      | None => fail "PoolNotFound"
      | Some _ => forM (rn_data m) (renew_one cx m sigdid)
      end
  end.

(** * Terminate *)
Definition sao_terminate (cx : Ctx) (creator provider owner data : string) (sg : SigO) : M unit :=
  s <- get ;;
  if negb (acts_for s creator provider) then fail "InvalidProvider" else
  match verify_sig s owner sg with
  | None => fail "InvalidSignature"
  | Some sigdid =>
      match metas s !! data with
      | None => fail "dataId not found"
      | Some meta =>
          if negb (may_update meta sigdid) then fail "NoPermission" else
          sids <- (fix go (l : list Z) (acc : list Z) : M (list Z) :=
                     match l with
                     | [] => ret acc
                     | oid :: r =>
                         s1 <- get ;;
                         match orders s1 !! oid with
                         | None => go r acc
                         | Some o => model_terminate_order cx oid o ;;; go r (acc ++ o_shards o)
                         end
                     end) (m_orders meta) [] ;;
          remove_shards (dedupZ sids) ;;;
          delete_meta data
      end
  end.

(** * Migrate *)
Definition migrate_one (cx : Ctx) (provider : string) (data : string) : M unit :=
  s <- get ;;
  match metas s !! data with
  | None => ret tt
  | Some meta =>
      (fix go (rev_orders : list Z) (commits : list string) : M unit :=
         match rev_orders with
         | [] => ret tt
         | oid :: rest =>
             s1 <- get ;;
             match orders s1 !! oid with
             | None => go rest commits
             | Some o =>
                 if in_list (o_commit o) commits then go rest commits else
                 let commits' := o_commit o :: commits in
                 match shard_by_sp s1 o provider with
                 | None => go rest commits'
                 | Some (old_id, old) =>
                     if negb (sh_status old =? ShardCompleted) then go rest commits' else
                     let present := omap (fun id => shards s1 !! id) (o_shards o) in
                     if existsb (fun sh => String.eqb (sh_from sh) provider) present then go rest commits' else
                     sps <- random_sp_m cx 1 (map sh_sp present) (i64 (sh_size old)) ;;
                     match sps with
                     | [] => go rest commits'
                     | to :: _ =>
                         nid <- append_shard (mkShard oid ShardMigrating (sh_size old) (sh_cid old) 0 provider to 0 0 []) ;;
                         modify (fun s => s <| orders ::= <[oid := o <| o_shards := o_shards o ++ [nid] |>]> |>) ;;;
                         go rest commits'
                     end
                 end
             end
         end) (rev (m_orders meta)) []
  end.

Definition sao_migrate (cx : Ctx) (creator provider : string) (data : list string) : M unit :=
  s <- get ;;
  if negb (acts_for s creator provider) then fail "InvalidProvider" else
  forM data (migrate_one cx provider).

(** * UpdatePermission *)
Definition sao_update_permission (cx : Ctx) (creator provider owner data : string) (ro rw : list string)
           (sg : SigO) (dids_valid : bool (* oracle: ValidDid accepts every listed DID *)) : M unit :=
  s <- get ;;
  if negb (acts_for s creator provider) then fail "InvalidProvider" else
  match verify_sig s owner sg with
  | None => fail "InvalidSignature"
  | Some _ =>
      if negb dids_valid then fail "InvalidDid" else
      update_permission owner data ro rw
  end.

(** * fault reports *)
Record FaultIn := { fi_data : string; fi_order : Z; fi_shard : Z; fi_commit : string; fi_provider : string;
                    fi_newid : string (* oracle: uuid v5 of provider+reporter+commit+shard, used if a new fault is recorded *) }.

Definition fidx_key (provider : string) (shard : Z) : string := provider +:+ "#" +:+ str_of_Z shard.

Definition fault_by_sp_shard (s : State) (provider : string) (shard : Z) : option Fault :=
  match filter (fun kv => let '(p, sh, _) := kv.2 in String.eqb p provider && (sh =? shard)) (sorted_items (fault_idx s)) with
  | kv :: _ => let '(_, _, fid) := kv.2 in faults s !! fid
  | [] => None
  end.

Definition is_fishman (s : State) (addr : string) : bool := str_contains (np_fishmen (nparams s)) addr.

(* the validity filter shared by report and recover; [want_commit] = the commit test differs *)
Definition fault_target_ok (cx : Ctx) (s : State) (provider : string) (f : FaultIn) (report : bool) : bool :=
  String.eqb provider (fi_provider f) &&
  bool_decide (is_Some (metas s !! fi_data f)) &&
  match orders s !! fi_order f with
  | None => false
  | Some o =>
      String.eqb (o_data o) (fi_data f) &&
      (if report then negb (str_contains (o_commit o) (fi_commit f)) else str_contains (o_commit o) (fi_commit f)) &&
      (* first listed shard (report: with the named id) that exists and is held by the accused decides *)
      match filter (fun id => (if report then id =? fi_shard f else true) &&
                              match shards s !! id with Some sh => String.eqb (sh_sp sh) (fi_provider f) | None => false end)
                   (o_shards o) with
      | id :: _ => match shards s !! id with
                   | Some sh => cx_height cx <? u64 (sh_created sh + sh_duration sh)
                   | None => false end
      | [] => false
      end
  end.

Definition set_fault (key : string) (f : Fault) : M unit :=
  modify (fun s => s <| faults ::= <[f_id f := f]> |>
                     <| fault_idx ::= <[key := (f_provider f, f_shard f, f_id f)]> |>).

Definition sao_report_faults (cx : Ctx) (creator provider : string) (fl : list (FaultIn * string)) : M unit :=
  s <- get ;;
  match nodes s !! creator with
  | None => fail "NodeNotFound"
  | Some _ =>
      if negb (is_fishman s creator) then fail "InvalidFishmen" else
      forM fl (fun fk =>
        let '(f, rawkey) := fk in
        s1 <- get ;;
        if negb (fault_target_ok cx s1 provider f true) then ret tt else
        match fault_by_sp_shard s1 (fi_provider f) (fi_shard f) with
        | Some _ => ret tt   (* a second report copies the stored reporter and is always skipped *)
        | None =>
            set_fault rawkey (mkFault (fi_newid f) (fi_order f) (fi_data f) (fi_shard f) (fi_commit f) (fi_provider f)
                                      creator "+" 1 0)
        end)
  end.

Definition str_count (s : string) (c : ascii) : Z := Z.of_nat (length (str_split c s)) - 1.
Fixpoint str_drop_chars (cs : list ascii) (s : string) : string :=
  match s with
  | EmptyString => EmptyString
  | String a r => if existsb (Ascii.eqb a) cs then str_drop_chars cs r else String a (str_drop_chars cs r)
  end.

Definition sao_recover_faults (cx : Ctx) (creator provider : string) (fl : list (FaultIn * string)) : M unit :=
  s <- get ;;
  match nodes s !! creator with
  | None => fail "NodeNotFound"
  | Some n =>
      if String.eqb creator provider && (Z.land (n_status n) STATUS_SERVE_STORAGE =? 0) then fail "InvalidStatus" else
      if negb (String.eqb creator provider) && negb (is_fishman s creator) then fail "InvalidFishmen" else
      match pool s with
      | None => fail "GetPoolInfoFailed"
      | Some _ =>
      forM fl (fun fk =>
        let '(f, rawkey) := fk in
        s1 <- get ;;
        if negb (fault_target_ok cx s1 provider f false) then ret tt else
        match fault_by_sp_shard s1 (fi_provider f) (fi_shard f) with
        | None => ret tt
        | Some fo =>
            if negb (String.eqb (f_data fo) (fi_data f)) || negb (f_order fo =? fi_order f) || negb (f_shard fo =? fi_shard f) then ret tt else
            let base := mkFault (f_id fo) (fi_order f) (fi_data f) (fi_shard f) (fi_commit f) (fi_provider f)
                                (f_reporter fo) (f_confirms fo) (f_status fo) (f_penalty fo) in
            let upd : option Fault :=
              if String.eqb provider creator && String.eqb (f_provider fo) creator then Some (base <| f_status := 3 |>)
              else if str_contains (f_confirms fo) ("-" +:+ creator) then Some (base <| f_confirms := f_confirms fo +:+ "|-" +:+ creator |>)
              else if f_status fo =? 3 then Some (base <| f_confirms := f_confirms fo +:+ "|-" +:+ creator |>)
              else None in
            match upd with
            | None => ret tt
            | Some fm =>
                if (str_count (f_confirms fm) "+" =? str_count (f_confirms fm) "-") &&
                   bool_decide (is_Some (pledges s1 !! f_provider fm)) then
                  (* recovered. The penalty is size * Penalty accumulated rewards; Penalty is 0 for
                     every reachable fault (the penalty tick is inert), so every amount below is 0
                     and the pledge is written back unchanged. A non-zero penalty is outside the
                     declared domain of the model. *)
                  if negb (f_penalty fm =? 0) then panic "fault penalty outside the modelled domain" else
                  let zero := "0.000000000000000000" in
                  let confirmers := str_split "|" (str_drop_chars ["+"%char; "-"%char] (f_confirms fo)) in
                  (* SetFishingReward(ctx, "", ...): the prefix store refuses an empty key. The reporter's own mark is a
                     bare "+", so the first confirmer name is always empty: on the real chain the transaction that would
                     clear a fault panics (and is rejected) -- found by the correspondence check in the thorough tier *)
                  if existsb (String.eqb "") (f_reporter fo :: confirmers) then panic "key is nil" else
                  modify (fun s => s <| fishing ::= (fun m => fold_left (fun m c => <[c := zero]> m) confirmers (<[f_reporter fo := zero]> m)) |>) ;;;
                  modify (fun s => s <| faults ::= delete (f_id fm) |> <| fault_idx ::= delete rawkey |>)
                else set_fault rawkey fm
            end
        end)
      end
  end.

(** * end-blocker: order timeouts, then shard expiry *)
Definition MAX_TRIES : Z := 10.

Definition handle_timeout_order (cx : Ctx) (oid : Z) : M unit :=
  s <- get ;;
  match orders s !! oid with
  | None => ret tt
  | Some o =>
      if o_status o =? OrderPending then (try_ (cancel_order cx oid) ;;; ret tt) else
      if u64 (o_created o + o_duration o) <=? u64 (cx_height cx + o_timeout o) then ret tt else
      let present := omap (fun id => match shards s !! id with Some sh => Some (id, sh) | None => None end) (o_shards o) in
      let sps := map (fun x => sh_sp x.2) present in
      let tshards := filter (fun x => sh_status x.2 =? ShardWaiting) present in
      let completed := map fst (filter (fun x => sh_status x.2 =? ShardCompleted) present) in
      let uncompleted := map fst (filter (fun x => negb (sh_status x.2 =? ShardCompleted)) present) in
      let tcount := Z.of_nat (length tshards) in
      if tcount =? 0 then
        remove_shards uncompleted ;;;
        (match uncompleted with
         | [] => ret tt
         | _ => modify (fun s => s <| orders ::= <[oid := o <| o_shards := completed |>]> |>)
         end)
      else
        rand <- random_sp_m cx tcount sps (i64 (o_size o)) ;;
        match rand with
        | [] =>
            if MAX_TRIES * o_timeout o mod two64 <? u64 (cx_height cx - o_created o) then
              if negb (o_status o =? OrderCompleted) then
                remove_shards (o_shards o) ;;;
                try_ (cancel_order cx oid) ;;; ret tt
              else
                remove_shards uncompleted ;;;
                let o1 := o <| o_replica := i32 (o_replica o - i32 tcount) |> <| o_shards := completed |> in
                let refund_dec := dec_of_int (o_amount o1) -
                                  dec_mul_int (dec_mul_int (dec_mul_int (o_price o1) (i64 (o_size o1))) (i64 (o_replica o1))) (i64 (o_duration o1)) in
                let refund := dec_trunc refund_dec in
                if refund <? 0 then panic "negative coin amount" else
                o2 <- (if refund =? 0 then ret o1 else
                         s1 <- get ;;
                         (match pay_addr s1 (o_owner o1) with
                          | Some payer => try_ (send_strict (macc MARKET) payer refund) ;;; ret tt
                          | None => ret tt
                          end) ;;;
                         a <- coin_sub (o_amount o1) refund ;;
                         ret (o1 <| o_amount := a |>)) ;;
                modify (fun s => s <| orders ::= <[oid := o2]> |>)
            else set_timeout_block oid (u64 (cx_height cx + o_timeout o))
        | _ =>
            o' <- (fix go (l : list (string * (Z * Shard))) (oacc : Order) : M Order :=
                     match l with
                     | [] => ret oacc
                     | (newsp, (sid, sh)) :: r =>
                         modify (fun s => s <| shards ::= <[sid := sh <| sh_status := ShardTimeout |>]> |>) ;;;
                         nid <- new_shard_task oid oacc newsp ;;
                         go r (oacc <| o_shards := o_shards oacc ++ [nid] |>)
                     end) (combine rand tshards) o ;;
            modify (fun s => s <| orders ::= <[oid := o']> |>) ;;;
            set_timeout_block oid (u64 (cx_height cx + o_timeout o))
        end
  end.

Definition handle_expired_shard (cx : Ctx) (sid : Z) : M unit :=
  s <- get ;;
  match shards s !! sid with
  | None => ret tt
  | Some sh =>
      match orders s !! sh_order sh with
      | None => ret tt
      | Some o =>
          try_ (worker_release cx o sh) ;;;
          (match sh_renew sh with
           | [] =>
               try_ (shard_release (sh_sp sh) (Some sh)) ;;;
               modify (fun s => s <| shards ::= delete sid |>)
           | ri :: rest =>
               let sh' := sh <| sh_renew := rest |> <| sh_order := ri_order ri |> <| sh_created := cx_height cx |>
                             <| sh_duration := ri_duration ri |> in
               set_expired_shard_block sid (u64 (cx_height cx + ri_duration ri)) ;;;
               modify (fun s => s <| shards ::= <[sid := sh']> |>) ;;;
               s1 <- get ;;
               let no := default zero_order (orders s1 !! ri_order ri) in
               try_ (worker_append cx no sh') ;;; ret tt
           end) ;;;
          (match o_shards o with
           | [x] => if x =? sid then modify (fun s => s <| orders ::= delete (sh_order sh) |>) else ret tt
           | l => modify (fun s => s <| orders ::= <[sh_order sh := o <| o_shards := remove_firstZ sid l |>]> |>)
           end)
      end
  end.

Definition end_block_sao (cx : Ctx) : M unit :=
  s <- get ;;
  (match timeouts s !! cx_height cx with
   | None => ret tt
   | Some l =>
       forM l (handle_timeout_order cx) ;;;
       modify (fun s => s <| timeouts ::= delete (cx_height cx) |>)
   end) ;;;
  s1 <- get ;;
  match expshards s1 !! cx_height cx with
  | None => ret tt
  | Some l =>
      forM l (handle_expired_shard cx) ;;;
      modify (fun s => s <| expshards ::= delete (cx_height cx) |>)
  end.
