(* Provider selection kernels: x/node/keeper/reputation.go (RandomIndex, RandomSP,
   SelectNodes, buildHeap, heapify) and x/node/keeper/node.go (GetNextSuperNodes,
   GetAllNodesByStatusAndReputationAndRole). Pure functions over the node and pledge
   tables; store iteration is the key-ordered listing. *)
From SaoVerif Require Import Base.Prelude Base.Ints Base.Dec Model.Did Model.Types.

(** * RandomIndex *)
(* math.Pow10(int(math.Ceil(math.Log10(float64(total))))) for total >= 1: the smallest
   power of ten >= total (checked against the Go function for all totals the harness
   reaches by the direct differential test) *)
Fixpoint pow10_ge_aux (fuel : nat) (p total : Z) : Z :=
  match fuel with
  | O => p
  | S f => if total <=? p then p else pow10_ge_aux f (p * 10) total
  end.
Definition pow10_ge (total : Z) : Z := pow10_ge_aux 40 1 total.

Inductive sel A := SelOk (a : A) | SelHang | SelPanic.
Arguments SelOk {A} a.
Arguments SelHang {A}.
Arguments SelPanic {A}.

(* number of decimal digits, as fuel for the seed-consuming loop *)
Fixpoint digits_aux (fuel : nat) (n : Z) : nat :=
  match fuel with
  | O => O
  | S f => if n <=? 0 then O else S (digits_aux f (n / 10))
  end.
Definition digits (n : Z) : nat := digits_aux 400 n.

(* smallest index not in idx (search bounded by length idx + 1 candidates) *)
Fixpoint first_free_aux (fuel : nat) (k : Z) (idx : list Z) : Z :=
  match fuel with
  | O => k
  | S f => if inZ k idx then first_free_aux f (k + 1) idx else k
  end.
Definition first_free (idx : list Z) : Z := first_free_aux (S (length idx)) 0 idx.

(* The loop of RandomIndex (after the D1 repair): a draw consumes one decimal digit of
   the seed; a duplicate draw is retried while the seed is non-zero and replaced by the
   smallest free index once it is exhausted. [fuel] bounds the number of iterations by
   digits(seed) + count; running out of it is impossible (Proofs/SelectFacts). *)
Fixpoint random_index_loop (fuel : nat) (seed md total : Z) (count : nat) (idx : list Z) : sel (list Z) :=
  match count with
  | O => SelOk idx
  | S c =>
      match fuel with
      | O => SelHang
      | S f =>
          let rs := (seed mod md) mod total in
          let seed' := seed / 10 in
          if inZ rs idx then
            if seed' =? 0 then random_index_loop f seed' md total c (idx ++ [first_free idx])
            else random_index_loop f seed' md total count idx
          else random_index_loop f seed' md total c (idx ++ [rs])
      end
  end.

Definition random_index (seed total count : Z) : sel (list Z) :=
  if total <=? count then SelOk []
  else if count <=? 0 then SelOk []
  else random_index_loop (digits seed + Z.to_nat count + 2) seed (pow10_ge total) total (Z.to_nat count) [].

(** * SelectNodes: partial heap selection on (lastAliveHeight, reputation) *)
Record Cand := mkCand { c_addr : string; c_node : Node }.

Definition swap {A} (l : list A) (i j : nat) : list A :=
  match l !! i, l !! j with
  | Some a, Some b => <[j := a]> (<[i := b]> l)
  | _, _ => l
  end.

(* one child comparison of heapify: child index c against the current [index] *)
Definition heap_cmp (l : list Cand) (index c : nat) : list Cand :=
  match l !! c, l !! index with
  | Some nc, Some ni =>
      if n_alive (c_node nc) >=? n_alive (c_node ni) then
        if n_alive (c_node nc) =? n_alive (c_node ni) then
          if n_rep (c_node nc) >? n_rep (c_node ni) then swap l index c else l
        else swap l index c
      else l
  | _, _ => l
  end.

Definition heapify (position : nat) (l : list Cand) : list Cand :=
  let size := length l in
  if Nat.leb size position then l else
  let cl := (2 * position + 1)%nat in
  let cr := (2 * position + 2)%nat in
  let l1 := if Nat.ltb cl size then heap_cmp l position cl else l in
  if Nat.ltb cr size then heap_cmp l1 position cr else l1.

(* for position := size/2 - 1; position >= 0; position-- *)
Fixpoint build_heap_from (k : nat) (l : list Cand) : list Cand :=
  match k with
  | O => l
  | S k' => build_heap_from k' (heapify k' l)
  end.
Definition build_heap (l : list Cand) : list Cand := build_heap_from (length l / 2) l.

(* buildHeap(nodes[i:]) in place *)
Definition build_heap_suffix (i : nat) (l : list Cand) : list Cand :=
  take i l ++ build_heap (drop i l).

Fixpoint select_passes (i n : nat) (l : list Cand) : list Cand :=
  match n with
  | O => l
  | S n' => select_passes (S i) n' (build_heap_suffix i l)
  end.

(* SelectNodes(size, nodes): for i := 0; i <= size; i++ { buildHeap(nodes[i:]) }; nodes[:size] *)
Definition select_nodes (size : nat) (l : list Cand) : list Cand :=
  let size := Nat.min size (length l) in
  take size (select_passes 0 (S size) l).

(** * eligibility *)
Definition STATUS_SERVE : Z := 13.  (* ONLINE | SERVE_STORAGE | ACCEPT_ORDER *)
Definition REP_FLOOR : Z := 8000.

Definition has_status (want st : Z) : bool := Z.land want st =? want.

Definition free_ok (pledges : gmap string Pledge) (addr : string) (size : Z) : bool :=
  match pledges !! addr with
  | Some p => negb (i64 (pl_total p - pl_used p) <? size)
  | None => false
  end.

Definition eligible (pledges : gmap string Pledge) (size : Z) (c : Cand) : bool :=
  free_ok pledges (c_addr c) size && has_status STATUS_SERVE (n_status (c_node c)) && (REP_FLOOR <=? n_rep (c_node c)).

Definition all_cands (nodes : gmap string Node) : list Cand :=
  map (fun kv => mkCand kv.1 kv.2) (sorted_items nodes).

(* GetAllNodesByStatusAndReputationAndRole(role = NORMAL, ...) *)
Definition normal_cands (nodes : gmap string Node) (pledges : gmap string Pledge) (size : Z) : list Cand :=
  filter (fun c => eligible pledges size c && (n_role (c_node c) =? 0)) (all_cands nodes).

Definition super_cands (nodes : gmap string Node) : list Cand :=
  filter (fun c => n_role (c_node c) =? 1) (all_cands nodes).

(** * GetNextSuperNodes: round robin over the super nodes with a uint8 cursor *)
(* returns (chosen node, new cursor value to store) *)
(* the loop after the D3 repair: at most one pass over the super nodes *)
Fixpoint next_super_loop (fuel : nat) (snodes : list Cand) (pledges : gmap string Pledge)
         (ignore : list string) (size : Z) (round0 i : Z) : sel (option (Cand * Z)) :=
  match fuel with
  | O => SelOk None
  | S f =>
      let n := Z.of_nat (length snodes) in
      let i := if u8 n <=? i then 0 else i in
      match snodes !! Z.to_nat i with
      | None => SelPanic   (* snodes[i] out of range; cannot happen with i < uint8(len) <= len *)
      | Some c =>
          let to_ignore := in_list (c_addr c) ignore || negb (free_ok pledges (c_addr c) size) in
          if negb to_ignore && has_status STATUS_SERVE (n_status (c_node c)) && (REP_FLOOR <=? n_rep (c_node c)) then
            SelOk (Some (c, let j := u8 (i + 1) in if n <=? j then 0 else j))
          else
            let stop := if round0 =? 0 then i =? u8 (n - 1) else i =? u8 (round0 - 1) in
            if stop then SelOk None
            else next_super_loop f snodes pledges ignore size round0 (u8 (i + 1))
      end
  end.

Definition next_super (nodes : gmap string Node) (pledges : gmap string Pledge) (round0 : Z)
           (ignore : list string) (size : Z) : sel (option (Cand * Z)) :=
  let snodes := super_cands nodes in
  next_super_loop (length snodes) snodes pledges ignore size round0 round0.

(** * RandomSP *)
Fixpoint remove_cand (s : string) (l : list Cand) : list Cand :=
  match l with
  | [] => []
  | c :: r => if String.eqb s (c_addr c) then r else c :: remove_cand s r
  end.

(* result: chosen providers and the new cursor (None = unchanged) *)
Definition random_sp (nodes : gmap string Node) (pledges : gmap string Pledge) (round0 : Z)
           (seed : Z) (count : Z) (ignore : list string) (size : Z) : sel (list Cand * option Z) :=
  match next_super nodes pledges round0 ignore size with
  | SelHang => SelHang
  | SelPanic => SelPanic
  | SelOk sup =>
      let supn : Z := match sup with Some _ => 1 | None => 0 end in
      let newround := match sup with Some (_, r) => Some r | None => None end in
      let supl := match sup with Some (c, _) => [c] | None => [] end in
      if (supn =? 1) && (count =? 1) then SelOk (supl, newround) else
      let cands := fold_left (fun l s => remove_cand s l) ignore (normal_cands nodes pledges size) in
      if supn + Z.of_nat (length cands) <=? count then SelOk (supl ++ cands, newround) else
      let count' := count - supn in
      if count' <? 0 then SelPanic (* nodes[:maxCandidates] with a negative bound *) else
      let maxc := if count' * 2 <? Z.of_nat (length cands) then count' * 2 else Z.of_nat (length cands) in
      let sel := select_nodes (Z.to_nat maxc) cands in
      match random_index seed maxc count' with
      | SelHang => SelHang
      | SelPanic => SelPanic
      | SelOk idx =>
          let picks := omap (fun i => sel !! Z.to_nat i) idx in
          SelOk (supl ++ picks, newround)
      end
  end.
