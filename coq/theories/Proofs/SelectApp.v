(* Placement at the call sites: what GetSps / RandomSP return inside the handlers. *)
From SaoVerif Require Import Base.Prelude Base.Ints Base.Dec Model.Did Model.Types Model.Monad Model.Bank Model.Select
     Model.Node Model.Storage Model.Sao Proofs.SelectFacts.
From RecordUpdate Require Import RecordUpdate.
Import RecordSetNotations.

(* RandomSP on the state: the providers returned are distinct, eligible in the state the
   selection ran on, not on the ignore list, and not more than requested; the only write is
   the round-robin cursor *)
Lemma random_sp_m_spec cx count ignore size s sps s' :
  0 <= cx_seed cx -> random_sp_m cx count ignore size s = Ok sps s' ->
  NoDup sps /\
  (forall a, In a sps -> exists n, nodes s !! a = Some n /\ eligible (pledges s) size (mkCand a n) = true /\ in_list a ignore = false) /\
  Z.of_nat (length sps) <= Z.max 0 count /\
  nodes s' = nodes s /\ pledges s' = pledges s /\ orders s' = orders s /\ shards s' = shards s /\ bal s' = bal s.
Proof.
  intros Hseed H. unfold random_sp_m, bind, get in H.
  destruct (random_sp (nodes s) (pledges s) (default 0 (round s)) (cx_seed cx) count ignore size) as [[cands r]| |] eqn:E;
    try discriminate.
  unfold modify, ret in H. injection H as <- <-.
  destruct (random_sp_spec _ _ _ _ _ _ _ _ _ Hseed E) as (Hnd & Hall & Hlen).
  split; [exact Hnd|]. split.
  - intros a Ha. apply in_map_iff in Ha as (c & <- & Hc).
    destruct (Hall c Hc) as (Hn & Hel & Hig).
    exists (c_node c). destruct c as [ca cn]. simpl in *. auto.
  - split; [rewrite map_length; exact Hlen|]. cbn. auto.
Qed.

(* GetSps for a new order (operation 1): exactly [replica] distinct eligible providers, or
   the request is rejected -- never under-replicated *)
Lemma get_sps_new_spec cx o data s sps s' :
  0 <= cx_seed cx -> o_op o = 1 -> get_sps cx o data s = Ok sps s' ->
  Z.of_nat (length sps) = o_replica o /\ 0 < o_replica o /\ NoDup sps /\
  (forall a, In a sps -> exists n, nodes s !! a = Some n /\ eligible (pledges s) (i64 (o_size o)) (mkCand a n) = true).
Proof.
  intros Hseed Hop H. unfold get_sps in H. rewrite Hop in H.
  replace (1 =? 1) with true in H by reflexivity.
  unfold bind in H.
  destruct (random_sp_m cx (o_replica o) [] (i64 (o_size o)) s) as [l s1|e s1|e|] eqn:E; try discriminate.
  destruct ((o_replica o <=? 0) || (Z.of_nat (length l) <? o_replica o)) eqn:C; [discriminate|].
  unfold ret in H. injection H as <- <-.
  apply orb_false_iff in C as [C1 C2].
  destruct (random_sp_m_spec _ _ _ _ _ _ _ Hseed E) as (Hnd & Hall & Hlen & _).
  split; [lia|]. split; [lia|]. split; [exact Hnd|].
  intros a Ha. destruct (Hall a Ha) as (n & Hn & Hel & _). eauto.
Qed.
