(* C06 / C04 / C16 -- the order-module escrow covers every order payment taken and not yet
   settled; a data model has at most one unfinished storage order.

   Method.  [slack s] = balance of the order escrow account minus the sum of what the
   unsettled orders owe.  Every keeper function is shown to relate its initial and final
   state (normal AND error return, because the end-blocker keeps the writes of an error
   return) by a preorder that never lowers the slack, under the state hypotheses [G]
   (themselves shown to be preserved).  Functions that lower and raise the slack in two
   separate steps (store, first completion, cancel, terminate) are followed step by step
   with the Hoare triple [tri]. *)
From SaoVerif Require Import Base.Prelude Base.Ints Base.Dec Model.Did Model.Types Model.Monad Model.Bank Model.Select
     Model.Node Model.Storage Model.Sao Model.Hooks Model.App Model.Spec Model.Inv Proofs.SelectFacts Proofs.DidInv Proofs.Frame.
From SaoVerif Require Proofs.Money.
From RecordUpdate Require Import RecordUpdate.
Import RecordSetNotations.

Notation pay_not_escrow := Money.pay_not_escrow.
Notation ESC := (macc ORDER).

(** * 1. Sums over the order table *)
Lemma sum_map_empty {K} `{Countable K} {A} (f : A -> Z) : sum_map f (∅ : gmap K A) = 0.
Proof. unfold sum_map. apply map_fold_empty. Qed.

Lemma sum_map_insert_fresh {K} `{Countable K} {A} (f : A -> Z) (m : gmap K A) k v :
  m !! k = None -> sum_map f (<[k:=v]> m) = sum_map f m + f v.
Proof. intros E. rewrite sum_map_insert, E. lia. Qed.

Lemma sum_map_update {K} `{Countable K} {A} (f : A -> Z) (m : gmap K A) k x v :
  m !! k = Some x -> sum_map f (<[k:=v]> m) = sum_map f m - f x + f v.
Proof. intros E. rewrite sum_map_insert, E. lia. Qed.

Lemma sum_map_delete {K} `{Countable K} {A} (f : A -> Z) (m : gmap K A) k :
  sum_map f (delete k m) = sum_map f m - (match m !! k with Some x => f x | None => 0 end).
Proof.
  destruct (m !! k) as [x|] eqn:E.
  - rewrite <- (insert_delete m k x E) at 2. rewrite sum_map_insert_fresh by apply lookup_delete. lia.
  - rewrite delete_notin by exact E. lia.
Qed.

Lemma sum_map_nonneg {K} `{Countable K} {A} (f : A -> Z) (m : gmap K A) :
  (forall k x, m !! k = Some x -> 0 <= f x) -> 0 <= sum_map f m.
Proof.
  induction m as [|i x m Hi IH] using map_ind; intros Hf.
  - rewrite sum_map_empty. lia.
  - rewrite sum_map_insert_fresh by exact Hi.
    assert (0 <= f x) by (apply (Hf i); apply lookup_insert).
    assert (0 <= sum_map f m).
    { apply IH. intros k y Hk. apply (Hf k). rewrite lookup_insert_ne; [exact Hk|]. intros ->. congruence. }
    lia.
Qed.

(* two tables with the same value of [f] at every key (0 where absent) have the same sum *)
Definition at_key {K} `{Countable K} {A} (f : A -> Z) (m : gmap K A) (k : K) : Z :=
  match m !! k with Some x => f x | None => 0 end.

Lemma sum_map_ext {K} `{Countable K} {A} (f : A -> Z) (m : gmap K A) : forall m' : gmap K A,
  (forall k, at_key f m' k = at_key f m k) -> sum_map f m' = sum_map f m.
Proof.
  induction m as [|i x m Hi IH] using map_ind; intros m' Hp.
  - rewrite sum_map_empty.
    induction m' as [|j y m' Hj IH'] using map_ind; [apply sum_map_empty|].
    rewrite sum_map_insert_fresh by exact Hj.
    pose proof (Hp j) as Hjj. unfold at_key in Hjj. rewrite lookup_insert, lookup_empty in Hjj.
    rewrite IH'; [lia|].
    intros k. specialize (Hp k). unfold at_key in *. rewrite lookup_empty in *.
    destruct (decide (k = j)) as [->|Hne]; [rewrite Hj; reflexivity|].
    rewrite lookup_insert_ne in Hp by congruence. exact Hp.
  - rewrite sum_map_insert_fresh by exact Hi.
    assert (E : sum_map f m' = sum_map f (delete i m') + at_key f m' i).
    { rewrite sum_map_delete. unfold at_key. lia. }
    rewrite E. rewrite (IH (delete i m')).
    + specialize (Hp i). unfold at_key in Hp |- *. rewrite lookup_insert in Hp. lia.
    + intros k. unfold at_key. destruct (decide (k = i)) as [->|Hne].
      * rewrite lookup_delete, Hi. reflexivity.
      * rewrite lookup_delete_ne by congruence. specialize (Hp k). unfold at_key in Hp.
        rewrite lookup_insert_ne in Hp by congruence. exact Hp.
Qed.

(** * 2. The invariant, its side conditions, the relations *)
Definition Inv_amounts (s : State) : Prop := forall oid o, orders s !! oid = Some o -> 0 <= o_amount o.

(* the statuses the chain ever stores: a renewal order is born completed *)
Definition status_ok (o : Order) : Prop :=
  o_status o = OrderCompleted \/ (o_op o <> 3 /\ (o_status o = OrderPending \/ o_status o = OrderDataReady)).
Definition Inv_status (s : State) : Prop := forall oid o, orders s !! oid = Some o -> status_ok o.

(* the escrow account is not a storage provider *)
Definition no_escrow_pledge (s : State) : Prop := pledges s !! ESC = None.

Definition G (s : State) : Prop := Inv_amounts s /\ Inv_status s /\ pay_not_escrow s /\ no_escrow_pledge s.

Definition esc (s : State) : Z := balance s ESC.
Definition owes_at (s : State) (k : Z) : Z := at_key order_owes (orders s) k.
Definition slack (s : State) : Z := esc s - sum_map order_owes (orders s).

Lemma escrow_slack s : Inv_order_escrow s <-> 0 <= slack s.
Proof. unfold Inv_order_escrow, slack, esc. lia. Qed.

Lemma order_owes_cases o : order_owes o = 0 \/ order_owes o = o_amount o.
Proof. unfold order_owes. destruct (_ && _); auto. Qed.
Lemma order_owes_nonneg o : 0 <= o_amount o -> 0 <= order_owes o.
Proof. destruct (order_owes_cases o); lia. Qed.
Lemma order_owes_le o : 0 <= o_amount o -> order_owes o <= o_amount o.
Proof. destruct (order_owes_cases o); lia. Qed.
Lemma order_owes_completed o : o_status o = OrderCompleted -> order_owes o = 0.
Proof. unfold order_owes. intros ->. rewrite andb_false_r. reflexivity. Qed.
Lemma order_owes_renewal o : o_op o = 3 -> order_owes o = 0.
Proof. unfold order_owes. intros ->. reflexivity. Qed.
Lemma order_owes_open o : status_ok o -> o_status o <> OrderCompleted -> order_owes o = o_amount o.
Proof.
  intros [H|(Hop & Hs)] Hn; [contradiction|]. unfold order_owes.
  apply Z.eqb_neq in Hop. rewrite Hop. destruct Hs as [-> | ->]; reflexivity.
Qed.
(* [order_owes] looks at the operation, the status and the amount only *)
Lemma order_owes_same o o' : o_op o' = o_op o -> o_status o' = o_status o -> o_amount o' = o_amount o ->
  order_owes o' = order_owes o.
Proof. unfold order_owes. intros -> -> ->. reflexivity. Qed.
Lemma status_ok_same o o' : o_op o' = o_op o -> o_status o' = o_status o -> status_ok o -> status_ok o'.
Proof. unfold status_ok. intros -> ->. auto. Qed.

Lemma owes_at_nonneg s k : Inv_amounts s -> 0 <= owes_at s k.
Proof.
  intros Ha. unfold owes_at, at_key. destruct (orders s !! k) as [o|] eqn:E; [|lia].
  apply order_owes_nonneg, (Ha k o E).
Qed.

(* [RO]: the table of orders keeps what every entry owes, the escrow balance does not drop *)
Definition RO (s s' : State) : Prop :=
  G s -> G s' /\ esc s <= esc s' /\ orders s' = orders s.
(* [Rk k v]: the slack does not drop; an entry that owes at least [v] keeps owing at least [v] *)
Definition Rk (k v : Z) (s s' : State) : Prop :=
  G s -> G s' /\ slack s <= slack s' /\ (v <= owes_at s k -> v <= owes_at s' k).
Definition RE (s s' : State) : Prop := G s -> G s' /\ slack s <= slack s'.

Global Instance RO_preorder : PreOrder RO.
Proof.
  split; [intros s Hg; split; [exact Hg|split; [lia|reflexivity]]|].
  intros a b c H1 H2 Hg. destruct (H1 Hg) as (Gb & E1 & O1). destruct (H2 Gb) as (Gc & E2 & O2).
  split; [exact Gc|]. split; [lia|]. congruence.
Qed.
Global Instance Rk_preorder k v : PreOrder (Rk k v).
Proof.
  split; [intros s Hg; split; [exact Hg|split; [lia|auto]]|].
  intros a b c H1 H2 Hg. destruct (H1 Hg) as (Gb & E1 & O1). destruct (H2 Gb) as (Gc & E2 & O2).
  split; [exact Gc|]. split; [lia|auto].
Qed.
Global Instance RE_preorder : PreOrder RE.
Proof.
  split; [intros s Hg; split; [exact Hg|lia]|].
  intros a b c H1 H2 Hg. destruct (H1 Hg) as (Gb & E1). destruct (H2 Gb) as (Gc & E2). split; [exact Gc|lia].
Qed.

Lemma owes_sum_eq s s' : (forall k, owes_at s' k = owes_at s k) ->
  sum_map order_owes (orders s') = sum_map order_owes (orders s).
Proof. intros H. apply sum_map_ext. exact H. Qed.

Lemma RO_Rk k v s s' : RO s s' -> Rk k v s s'.
Proof.
  intros H Hg. destruct (H Hg) as (Hg' & He & Ho). split; [exact Hg'|].
  split; [unfold slack; rewrite Ho; lia|]. unfold owes_at. rewrite Ho. auto.
Qed.
Lemma Rk_RE k v s s' : Rk k v s s' -> RE s s'.
Proof. intros H Hg. destruct (H Hg) as (Hg' & He & _). auto. Qed.
Lemma RO_RE s s' : RO s s' -> RE s s'.
Proof. intros H. eapply Rk_RE, (RO_Rk 0 0), H. Qed.
Lemma RE_Rk0 k s s' : RE s s' -> Rk k 0 s s'.
Proof.
  intros H Hg. destruct (H Hg) as (Hg' & He). split; [exact Hg'|]. split; [exact He|].
  intros _. apply owes_at_nonneg, Hg'.
Qed.

Lemma mok_RO_Rk {A} k v (m : M A) : mok RO true m -> mok (Rk k v) true m.
Proof. apply mok_weaken; [apply RO_Rk|auto]. Qed.
Lemma mok_RO_RE {A} (m : M A) : mok RO true m -> mok RE true m.
Proof. apply mok_weaken; [apply RO_RE|auto]. Qed.
Lemma mok_Rk_RE {A} k v (m : M A) : mok (Rk k v) true m -> mok RE true m.
Proof. apply mok_weaken; [apply Rk_RE|auto]. Qed.

(* a state change that leaves the order table, the DID registry and the escrow account's
   pledge alone and does not take from the escrow account *)
Lemma RO_frame s s' :
  orders s' = orders s -> did s' = did s -> esc s <= esc s' ->
  (pledges s !! ESC = None -> pledges s' !! ESC = None) -> RO s s'.
Proof.
  intros Eo Ed Eb Ep (Ha & Hs & Hp & Hn).
  split; [|split; [exact Eb|exact Eo]].
  split; [intros k o; rewrite Eo; apply Ha|]. split; [intros k o; rewrite Eo; apply Hs|].
  split; [intros x a; unfold pay_addr; rewrite Ed; apply Hp|]. apply Ep, Hn.
Qed.

Lemma esc_move_in f t a s : f <> ESC -> 0 <= a -> esc s <= esc (move f t a s).
Proof.
  intros Hf Ha. unfold esc. destruct (decide (t = ESC)) as [->|Ht].
  - rewrite Money.move_to by exact Hf. lia.
  - rewrite Money.move_bal_other by congruence. lia.
Qed.
Lemma RO_move f t a s : f <> ESC -> 0 <= a -> RO s (move f t a s).
Proof. intros Hf Ha. apply RO_frame; try reflexivity; [apply esc_move_in; assumption|auto]. Qed.

(** * 3. Handlers that leave the order table alone *)
Create HintDb esc discriminated.

Ltac ro_pl :=
  let H := fresh "H" in
  intros H; first [ exact H | cbn; rewrite lookup_insert_ne by congruence; exact H ].
Ltac ro_frame :=
  apply RO_frame; [reflexivity | reflexivity | first [apply Z.le_refl | cbn; apply Z.le_refl] | ro_pl].
Ltac ro_side :=
  lazymatch goal with
  | |- RO _ _ => first [ reflexivity | ro_frame | repeat case_match; first [reflexivity | ro_frame] ]
  | |- Rk _ _ _ _ => apply RO_Rk; ro_side
  | |- RE _ _ => apply RO_RE; ro_side
  end.

Ltac ro_step :=
  lazymatch goal with
  | |- mok _ _ (bind _ _) => apply mok_bind; try exact _; [ | intros ?]
  | |- mok _ _ (ret _) => apply mok_ret; try exact _
  | |- mok _ _ (fail _) => apply mok_fail; try exact _
  | |- mok _ _ (panic _) => apply mok_panic
  | |- mok _ _ get => apply mok_get; try exact _
  | |- mok _ _ (gets _) => apply mok_gets; try exact _
  | |- mok _ _ (modify _) => apply mok_modify; intros ?; try ro_side
  | |- mok _ _ (try_ _) => apply mok_try
  | |- mok _ _ (forM _ _) => apply mok_forM; try exact _; intros ?
  | |- mok _ _ (let _ := _ in _) => cbv zeta
  | |- mok _ _ (match ?x with _ => _ end) => first [is_var x; destruct x | destruct x eqn:?]
  | |- mok _ _ _ => solve [auto with esc]
  end.
Ltac ro_tac := repeat ro_step.

Ltac ro_loop :=
  lazymatch goal with
  | |- mok ?R ?h (?F ?l ?a) =>
      let HF := fresh "HF" in
      assert (HF : forall l' a', mok R h (F l' a'));
      [ let ll := fresh "ll" in let x := fresh "x" in let IH := fresh "IH" in
        intros ll; induction ll as [|x ll IH]; intros ?; fix_unfold
      | apply HF ]
  end.

Global Hint Extern 1 (macc _ <> macc _) => discriminate : esc.
Global Hint Extern 6 (mok (Rk _ _) _ _) => apply mok_RO_Rk : esc.
Global Hint Extern 6 (mok RE _ _) => apply mok_RO_RE : esc.

Lemma at_all {A} (R : State -> State -> Prop) (m : M A) s :
  (forall s', R s s') -> match m s with Ok _ s' | Err _ s' => R s s' | Panic _ => True | Hang => true = true end.
Proof. intros H. destruct (m s); auto. Qed.

(* a handler that fails at once unless [key] has a pledge: the key is then not the escrow account *)
Lemma mok_RO_key {A} (m : M A) key :
  (key <> ESC -> mok RO true m) ->
  (forall s, pledges s !! key = None -> match m s with Ok _ s' | Err _ s' => RO s s' | _ => True end) ->
  mok RO true m.
Proof.
  intros H1 H2. destruct (decide (key = ESC)) as [->|Hne]; [|auto]. intros s.
  destruct (pledges s !! ESC) eqn:E.
  - apply at_all. intros s' (_ & _ & _ & Hn). unfold no_escrow_pledge in Hn. congruence.
  - specialize (H2 s E). destruct (m s); auto.
Qed.

Section ROPass.
  Context (cx : Ctx).
  Local Notation R := RO.
  Local Notation h := true.

  Lemma send_strict_ro f t a : f <> ESC -> mok R h (send_strict f t a).
  Proof.
    intros Hf s. unfold send_strict. destruct (a <=? 0) eqn:E; [reflexivity|].
    destruct (balance s f <? a); [reflexivity|]. apply RO_move; [exact Hf|]. apply Z.leb_gt in E. lia.
  Qed.
  Hint Resolve send_strict_ro : esc.
  Lemma send_lenient_ro f t a : f <> ESC -> mok R h (send_lenient f t a).
  Proof. intros Hf s. unfold send_lenient. destruct (a =? 0); [reflexivity|]. apply send_strict_ro, Hf. Qed.
  Hint Resolve send_lenient_ro : esc.
  Lemma coin_sub_ro a b : mok R h (coin_sub a b).
  Proof. unfold coin_sub. ro_tac. Qed.
  Hint Resolve coin_sub_ro : esc.
  Lemma mint_ro m a : macc m <> ESC -> mok R h (mint m a).
  Proof.
    intros Hm s. unfold mint. destruct (a <=? 0); [reflexivity|].
    apply RO_frame; try reflexivity; [|auto].
    unfold esc, balance. cbn. rewrite lookup_insert_ne by exact Hm. apply Z.le_refl.
  Qed.
  Hint Resolve mint_ro : esc.

  (** node *)
  Lemma reward_age_ro p : mok R h (reward_age p).
  Proof. unfold reward_age. ro_tac. Qed.
  Hint Resolve reward_age_ro : esc.
  Lemma begin_block_ro : mok R h (begin_block cx).
  Proof. unfold begin_block. ro_tac. Qed.
  Lemma end_block_node_ro : mok R h (end_block_node cx).
  Proof. unfold end_block_node, do_penalty. ro_tac. Qed.
  Lemma node_create_ro c : mok R h (node_create cx c).
  Proof. unfold node_create. ro_tac. Qed.
  Lemma node_reset_ro m : mok R h (node_reset cx m).
  Proof. unfold node_reset. ro_tac. Qed.
  Lemma add_vstorage_ro c sz : c <> ESC -> mok R h (add_vstorage c sz).
  Proof. intros Hc. unfold add_vstorage. ro_tac. Qed.
  Lemma remove_vstorage_ro c sz : mok R h (remove_vstorage c sz).
  Proof.
    apply (mok_RO_key _ c).
    - intros Hc. unfold remove_vstorage. ro_tac.
    - intros s E. unfold remove_vstorage, bind, get. cbv beta. rewrite E.
      destruct (nodes s !! c), (pool s); cbn; reflexivity.
  Qed.
  Lemma repay_debt_ro sp rw : mok R h (repay_debt sp rw).
  Proof. unfold repay_debt. ro_tac. Qed.
  Hint Resolve repay_debt_ro : esc.
  Lemma shard_pledge_ro id sh price : mok R h (shard_pledge id sh price).
  Proof.
    apply (mok_RO_key _ (sh_sp sh)).
    - intros Hc. unfold shard_pledge. ro_tac.
    - intros s E. unfold shard_pledge, bind, get. cbv beta. rewrite E. cbn. reflexivity.
  Qed.
  Hint Resolve shard_pledge_ro : esc.
  Lemma shard_release_ro sp sh : mok R h (shard_release sp sh).
  Proof.
    apply (mok_RO_key _ sp).
    - intros Hc. unfold shard_release. ro_tac.
    - intros s E. unfold shard_release, bind, get. cbv beta. rewrite E. cbn. reflexivity.
  Qed.
  Hint Resolve shard_release_ro : esc.
  Lemma market_claim_ro sp : mok R h (market_claim cx sp).
  Proof. unfold market_claim. ro_tac. Qed.
  Hint Resolve market_claim_ro : esc.
  Lemma claim_reward_ro c : mok R h (claim_reward cx c).
  Proof.
    apply (mok_RO_key _ c).
    - intros Hc. unfold claim_reward. ro_tac.
    - intros s E. unfold claim_reward, bind, get. cbv beta. rewrite E. cbn. reflexivity.
  Qed.
  Lemma increase_reputation_ro n v : mok R h (increase_reputation n v).
  Proof. unfold increase_reputation. ro_tac. Qed.
  Hint Resolve increase_reputation_ro : esc.
  Lemma random_sp_m_ro count ignore size : mok R h (random_sp_m cx count ignore size).
  Proof.
    unfold random_sp_m. ro_step; [ro_step|].
    destruct (random_sp _ _ _ _ _ _ _) as [[sps r]| |] eqn:E; ro_tac.
    intros s. reflexivity.
  Qed.
  Hint Resolve random_sp_m_ro : esc.

  (** market, order, model *)
  Lemma send_to_did_balances_ro md d amt : mok R h (send_to_did_balances md d amt).
  Proof. intros s. unfold send_to_did_balances. destruct (amt =? 0); [cbn; reflexivity|]. exact I. Qed.
  Hint Resolve send_to_did_balances_ro : esc.
  Lemma worker_release_ro o sh : mok R h (worker_release cx o sh).
  Proof. unfold worker_release. ro_tac. Qed.
  Hint Resolve worker_release_ro : esc.
  Lemma worker_append_ro o sh : mok R h (worker_append cx o sh).
  Proof. unfold worker_append. ro_tac. Qed.
  Hint Resolve worker_append_ro : esc.
  Lemma market_withdraw_ro oid o : mok R h (market_withdraw cx oid o).
  Proof. unfold market_withdraw. ro_tac. ro_loop; ro_tac. Qed.
  Hint Resolve market_withdraw_ro : esc.
  Lemma append_shard_ro sh : mok R h (append_shard sh).
  Proof. unfold append_shard. ro_tac. Qed.
  Hint Resolve append_shard_ro : esc.
  Lemma new_shard_task_ro oid o p : mok R h (new_shard_task oid o p).
  Proof. unfold new_shard_task. ro_tac. Qed.
  Hint Resolve new_shard_task_ro : esc.
  Lemma gen_shards_ro oid sps : forall o, mok R h (gen_shards oid o sps).
  Proof. induction sps as [|sp sps IH]; intros o; cbn [gen_shards]; ro_tac. Qed.
  Hint Resolve gen_shards_ro : esc.
  Lemma generate_shards_ro oid o sps : mok R h (generate_shards oid o sps).
  Proof. unfold generate_shards. ro_tac. Qed.
  Hint Resolve generate_shards_ro : esc.
  Lemma set_data_expire_ro d a : mok R h (set_data_expire d a).
  Proof. unfold set_data_expire. ro_tac. Qed.
  Hint Resolve set_data_expire_ro : esc.
  Lemma remove_data_expire_ro d a : mok R h (remove_data_expire d a).
  Proof. unfold remove_data_expire. ro_tac. Qed.
  Hint Resolve remove_data_expire_ro : esc.
  Lemma new_meta_ro o d m : mok R h (new_meta cx o d m).
  Proof. unfold new_meta. ro_tac. Qed.
  Hint Resolve new_meta_ro : esc.
  Lemma reset_meta_duration_ro d m : mok R h (reset_meta_duration cx d m).
  Proof. unfold reset_meta_duration. ro_tac. Qed.
  Hint Resolve reset_meta_duration_ro : esc.
  Lemma extend_meta_duration_ro d e : mok R h (extend_meta_duration d e).
  Proof. unfold extend_meta_duration. ro_tac. Qed.
  Hint Resolve extend_meta_duration_ro : esc.
  Lemma delete_meta_ro d : mok R h (delete_meta d).
  Proof. unfold delete_meta. ro_tac. Qed.
  Hint Resolve delete_meta_ro : esc.
  Lemma remove_shards_ro ids : mok R h (remove_shards ids).
  Proof. unfold remove_shards. ro_tac. Qed.
  Hint Resolve remove_shards_ro : esc.
  Lemma update_meta_status_commit_ro oid o : mok R h (update_meta_status_commit cx oid o).
  Proof. unfold update_meta_status_commit. ro_tac. Qed.
  Hint Resolve update_meta_status_commit_ro : esc.
  Lemma rollback_meta_ro d : mok R h (rollback_meta cx d).
  Proof. unfold rollback_meta. ro_tac. Qed.
  Hint Resolve rollback_meta_ro : esc.
  Lemma update_permission_ro ow d ro rw : mok R h (update_permission ow d ro rw).
  Proof. unfold update_permission. ro_tac. Qed.
  Hint Resolve update_permission_ro : esc.
  Lemma end_block_model_ro : mok R h (end_block_model cx).
  Proof. unfold end_block_model. ro_tac. Qed.

  (** sao *)
  Lemma set_timeout_block_ro oid a : mok R h (set_timeout_block oid a).
  Proof. unfold set_timeout_block. ro_tac. Qed.
  Hint Resolve set_timeout_block_ro : esc.
  Lemma set_expired_shard_block_ro sid a : mok R h (set_expired_shard_block sid a).
  Proof. unfold set_expired_shard_block. ro_tac. Qed.
  Hint Resolve set_expired_shard_block_ro : esc.
  Lemma get_sps_ro o d : mok R h (get_sps cx o d).
  Proof. unfold get_sps. ro_tac. Qed.
  Hint Resolve get_sps_ro : esc.
  Lemma sao_update_permission_ro c p ow d ro rw sg v : mok R h (sao_update_permission cx c p ow d ro rw sg v).
  Proof. unfold sao_update_permission. ro_tac. Qed.
  Lemma set_fault_ro k f : mok R h (set_fault k f).
  Proof. unfold set_fault. ro_tac. Qed.
  Hint Resolve set_fault_ro : esc.
  Lemma sao_report_faults_ro c p fl : mok R h (sao_report_faults cx c p fl).
  Proof. unfold sao_report_faults. ro_tac. Qed.
  Lemma sao_recover_faults_ro c p fl : mok R h (sao_recover_faults cx c p fl).
  Proof. unfold sao_recover_faults. ro_tac. Qed.

  (** staking *)
  Lemma set_role_ro c r v : mok R h (set_role c r v).
  Proof. unfold set_role. ro_tac. Qed.
  Hint Resolve set_role_ro : esc.
  Lemma verify_super_ro v a b : mok R h (verify_super v a b).
  Proof. unfold verify_super. ro_tac. Qed.
  Hint Resolve verify_super_ro : esc.
End ROPass.

Global Hint Resolve send_strict_ro send_lenient_ro coin_sub_ro mint_ro reward_age_ro repay_debt_ro shard_pledge_ro shard_release_ro
  market_claim_ro increase_reputation_ro random_sp_m_ro send_to_did_balances_ro worker_release_ro worker_append_ro
  market_withdraw_ro append_shard_ro new_shard_task_ro gen_shards_ro generate_shards_ro set_data_expire_ro remove_data_expire_ro
  new_meta_ro reset_meta_duration_ro extend_meta_duration_ro delete_meta_ro remove_shards_ro update_meta_status_commit_ro
  rollback_meta_ro update_permission_ro set_timeout_block_ro set_expired_shard_block_ro get_sps_ro set_fault_ro set_role_ro
  verify_super_ro : esc.

(** * 4. Hoare triples at a state, for the handlers that write the order table *)
Definition ht {A} (m : M A) (s : State) (Q : A -> State -> Prop) (E : State -> Prop) : Prop :=
  match m s with Ok a s' => Q a s' | Err _ s' => E s' | _ => True end.

Lemma ht_bind {A B} (m : M A) (k : A -> M B) s Q1 Q E :
  ht m s Q1 E -> (forall a s1, Q1 a s1 -> ht (k a) s1 Q E) -> ht (bind m k) s Q E.
Proof. unfold ht, bind. intros H1 H2. destruct (m s) as [a s1|e s1|e|]; auto. apply H2, H1. Qed.
Lemma ht_ret {A} (a : A) s (Q : A -> State -> Prop) E : Q a s -> ht (ret a) s Q E.
Proof. auto. Qed.
Lemma ht_fail {A} e s (Q : A -> State -> Prop) (E : State -> Prop) : E s -> ht (fail e) s Q E.
Proof. auto. Qed.
Lemma ht_panic {A} e s (Q : A -> State -> Prop) E : ht (panic e) s Q E.
Proof. exact I. Qed.
Lemma ht_get {B} (k : State -> M B) s Q E : ht (k s) s Q E -> ht (bind get k) s Q E.
Proof. auto. Qed.
Lemma ht_modify g s (Q : unit -> State -> Prop) E : Q tt (g s) -> ht (modify g) s Q E.
Proof. auto. Qed.
Lemma ht_try {A} (m : M A) s (Q : option A -> State -> Prop) E :
  ht m s (fun a => Q (Some a)) (Q None) -> ht (try_ m) s Q E.
Proof. unfold ht, try_. destruct (m s); auto. Qed.
Lemma ht_conseq {A} (m : M A) s (Q Q' : A -> State -> Prop) (E E' : State -> Prop) :
  ht m s Q E -> (forall a s', Q a s' -> Q' a s') -> (forall s', E s' -> E' s') -> ht m s Q' E'.
Proof. unfold ht. destruct (m s); auto. Qed.
Lemma ht_and {A} (m : M A) s (Q1 Q2 : A -> State -> Prop) (E1 E2 : State -> Prop) :
  ht m s Q1 E1 -> ht m s Q2 E2 -> ht m s (fun a s' => Q1 a s' /\ Q2 a s') (fun s' => E1 s' /\ E2 s').
Proof. unfold ht. destruct (m s); auto. Qed.
Lemma ht_forM {A} (I : State -> Prop) (l : list A) (f : A -> M unit) :
  (forall a s, I s -> ht (f a) s (fun _ => I) I) -> forall s, I s -> ht (forM l f) s (fun _ => I) I.
Proof.
  intros Hf. induction l as [|x l IH]; intros s Hs; cbn [forM]; [exact Hs|].
  eapply ht_bind; [apply Hf, Hs|]. intros u s1 H1. apply IH, H1.
Qed.
(* a relation-preserving computation preserves every predicate closed under the relation *)
Lemma ht_mok {A} (R : State -> State -> Prop) (I : State -> Prop) (m : M A) s :
  mok R true m -> (forall s s', R s s' -> I s -> I s') -> I s -> ht m s (fun _ => I) I.
Proof. intros Hm Hc Hs. unfold ht. specialize (Hm s). destruct (m s); eauto. Qed.
Lemma mok_ht {A} (R : State -> State -> Prop) (m : M A) :
  (forall s, ht m s (fun _ => R s) (R s)) -> mok R true m.
Proof. intros H s. specialize (H s). unfold ht in H. destruct (m s); auto. Qed.

(** ** the invariants carried through a handler *)
(* [P c]: the slack is at least [c] *)
Definition P (c : Z) (s : State) : Prop := G s /\ c <= slack s.
(* [PW c1 c2 k]: ... at least [c1], and at least [c2] not counting what entry [k] owes *)
Definition PW (c1 c2 k : Z) (s : State) : Prop := G s /\ c1 <= slack s /\ c2 <= slack s + owes_at s k.
(* [U f e]: no entry owes more than [f] says, the escrow balance is at least [e] *)
Definition U (f : Z -> Z) (e : Z) (s : State) : Prop := G s /\ e <= esc s /\ forall k, owes_at s k <= f k.

(* [PO c om]: [P c] and the order table is [om] *)
Definition PO (c : Z) (om : gmap Z Order) (s : State) : Prop := P c s /\ orders s = om.
Lemma P_mono c c' s : c' <= c -> P c s -> P c' s.
Proof. intros H (Hg & Hs). split; [exact Hg|lia]. Qed.
Lemma P_RE s s' : P (slack s) s' -> RE s s'.
Proof. intros (Hg & Hs) _. auto. Qed.
Lemma P_init s : G s -> P (slack s) s.
Proof. intros Hg. split; [exact Hg|lia]. Qed.
Lemma P_RE_closed c s s' : RE s s' -> P c s -> P c s'.
Proof. intros H (Hg & Hs). destruct (H Hg) as (Hg' & Hs'). split; [exact Hg'|lia]. Qed.
Lemma P_RO_closed c s s' : RO s s' -> P c s -> P c s'.
Proof. intros H. apply P_RE_closed, RO_RE, H. Qed.
Lemma PW_RO_closed c1 c2 k s s' : RO s s' -> PW c1 c2 k s -> PW c1 c2 k s'.
Proof.
  intros H (Hg & Hs & Hw). destruct (RO_RE _ _ H Hg) as (Hg' & Hs'). destruct (H Hg) as (_ & _ & Ho).
  split; [exact Hg'|]. unfold owes_at. rewrite Ho. fold (owes_at s k). lia.
Qed.
Lemma PW_P c1 c2 k s : PW c1 c2 k s -> P c1 s.
Proof. intros (Hg & Hs & _). split; assumption. Qed.
Lemma P_PW c k s : P c s -> PW c (c + owes_at s k) k s.
Proof. intros (Hg & Hs). split; [exact Hg|lia]. Qed.
Lemma P_PW0 c k s : P c s -> PW c c k s.
Proof. intros (Hg & Hs). pose proof (owes_at_nonneg s k (proj1 Hg)). split; [exact Hg|lia]. Qed.
Lemma PW_mono c1 c2 d1 d2 k s : d1 <= c1 -> d2 <= c2 -> PW c1 c2 k s -> PW d1 d2 k s.
Proof. intros H1 H2 (Hg & Hs & Hw). split; [exact Hg|lia]. Qed.
Lemma U_RO_closed f e s s' : RO s s' -> U f e s -> U f e s'.
Proof.
  intros H (Hg & He & Ho). destruct (H Hg) as (Hg' & He' & Ho').
  split; [exact Hg'|]. split; [lia|]. intros k. unfold owes_at. rewrite Ho'. apply Ho.
Qed.
Lemma PO_RO_closed c om s s' : RO s s' -> PO c om s -> PO c om s'.
Proof.
  intros H (HP & Ho). split; [eapply P_RO_closed; eassumption|]. destruct (H (proj1 HP)) as (_ & _ & E). congruence.
Qed.
Lemma U_init s : G s -> U (owes_at s) (esc s) s.
Proof. intros Hg. split; [exact Hg|]. split; lia. Qed.

(* pointwise smaller entries give a smaller sum *)
Lemma sum_map_le {K} `{Countable K} {A} (f : A -> Z) (m : gmap K A) : forall m' : gmap K A,
  (forall k x, m !! k = Some x -> 0 <= f x) ->
  (forall k, at_key f m' k <= at_key f m k) -> sum_map f m' <= sum_map f m.
Proof.
  intros m'. revert m. induction m' as [|i x m' Hi IH] using map_ind; intros m Hn Hp.
  - rewrite sum_map_empty. apply sum_map_nonneg, Hn.
  - rewrite sum_map_insert_fresh by exact Hi.
    assert (E : sum_map f m = sum_map f (delete i m) + at_key f m i).
    { rewrite sum_map_delete. unfold at_key. lia. }
    rewrite E. pose proof (Hp i) as Hpi. unfold at_key in Hpi at 1. rewrite lookup_insert in Hpi.
    enough (sum_map f m' <= sum_map f (delete i m)) by lia.
    apply IH.
    + intros k y Hk. apply lookup_delete_Some in Hk as (_ & Hk). apply (Hn k y Hk).
    + intros k. unfold at_key. destruct (decide (k = i)) as [->|Hne].
      * rewrite lookup_delete, Hi. lia.
      * rewrite lookup_delete_ne by congruence. specialize (Hp k). unfold at_key in Hp.
        rewrite lookup_insert_ne in Hp by congruence. exact Hp.
Qed.

Lemma U_RE s s' : G s -> U (owes_at s) (esc s) s' -> RE s s'.
Proof.
  intros Hg (Hg' & He & Ho) _. split; [exact Hg'|]. unfold slack.
  enough (sum_map order_owes (orders s') <= sum_map order_owes (orders s)) by lia.
  apply sum_map_le; [|exact Ho]. intros k x Hk. apply order_owes_nonneg. destruct Hg as (Ha & _). apply (Ha k x Hk).
Qed.

(** ** writes to the order table *)
Lemma G_orders s (om : gmap Z Order) :
  G s -> (forall k o, om !! k = Some o -> 0 <= o_amount o /\ status_ok o) -> G (s <| orders := om |>).
Proof.
  intros (Ha & Hs & Hp & Hn) H. split; [intros k o Hk; apply (H k o Hk)|]. split; [intros k o Hk; apply (H k o Hk)|].
  split; [exact Hp|exact Hn].
Qed.
Lemma G_insert s k o : G s -> 0 <= o_amount o -> status_ok o -> G (s <| orders ::= <[k := o]> |>).
Proof.
  intros Hg H1 H2. apply G_orders; [exact Hg|]. intros j x Hj.
  destruct (decide (j = k)) as [->|Hne].
  - rewrite lookup_insert in Hj. injection Hj as <-. auto.
  - rewrite lookup_insert_ne in Hj by congruence. destruct Hg as (Ha & Hs & _). split; [apply (Ha j x Hj)|apply (Hs j x Hj)].
Qed.
Lemma G_delete s k : G s -> G (s <| orders ::= delete k |>).
Proof.
  intros Hg. apply G_orders; [exact Hg|]. intros j x Hj. apply lookup_delete_Some in Hj as (_ & Hj).
  destruct Hg as (Ha & Hs & _). split; [apply (Ha j x Hj)|apply (Hs j x Hj)].
Qed.
Lemma G_order s k o : G s -> orders s !! k = Some o -> 0 <= o_amount o /\ status_ok o.
Proof. intros (Ha & Hs & _) H. split; [apply (Ha k o H)|apply (Hs k o H)]. Qed.

Lemma slack_insert s k o :
  slack (s <| orders ::= <[k := o]> |>) = slack s + owes_at s k - order_owes o.
Proof. unfold slack, owes_at, at_key, esc, balance. cbn. rewrite sum_map_insert. destruct (orders s !! k); lia. Qed.
Lemma slack_delete s k : slack (s <| orders ::= delete k |>) = slack s + owes_at s k.
Proof. unfold slack, owes_at, at_key, esc, balance. cbn. rewrite sum_map_delete. destruct (orders s !! k); lia. Qed.
Lemma owes_at_insert s k o j :
  owes_at (s <| orders ::= <[k := o]> |>) j = if decide (j = k) then order_owes o else owes_at s j.
Proof.
  unfold owes_at, at_key. cbn. destruct (decide (j = k)) as [->|Hne]; [rewrite lookup_insert; reflexivity|].
  rewrite lookup_insert_ne by congruence. reflexivity.
Qed.
Lemma owes_at_delete s k j :
  owes_at (s <| orders ::= delete k |>) j = if decide (j = k) then 0 else owes_at s j.
Proof.
  unfold owes_at, at_key. cbn. destruct (decide (j = k)) as [->|Hne]; [rewrite lookup_delete; reflexivity|].
  rewrite lookup_delete_ne by congruence. reflexivity.
Qed.
Lemma owes_at_lookup s k o : orders s !! k = Some o -> owes_at s k = order_owes o.
Proof. unfold owes_at, at_key. intros ->. reflexivity. Qed.

(* writing an order that owes no more than the bound of its key *)
Lemma U_insert f e s k o : U f e s -> 0 <= o_amount o -> status_ok o -> order_owes o <= f k ->
  U f e (s <| orders ::= <[k := o]> |>).
Proof.
  intros (Hg & He & Ho) H1 H2 H3. split; [apply G_insert; assumption|]. split; [exact He|].
  intros j. rewrite owes_at_insert. destruct (decide (j = k)) as [->|_]; [exact H3|apply Ho].
Qed.
Lemma U_delete f e s k : U f e s -> 0 <= f k -> U f e (s <| orders ::= delete k |>).
Proof.
  intros (Hg & He & Ho) H0. split; [apply G_delete, Hg|]. split; [exact He|].
  intros j. rewrite owes_at_delete. destruct (decide (j = k)) as [->|_]; [exact H0|apply Ho].
Qed.
Lemma U_lookup f e s k o : U f e s -> orders s !! k = Some o -> order_owes o <= f k /\ 0 <= o_amount o /\ status_ok o.
Proof.
  intros (Hg & _ & Ho) H. specialize (Ho k). rewrite (owes_at_lookup _ _ _ H) in Ho.
  split; [exact Ho|apply (G_order s k o Hg H)].
Qed.

Lemma P_delete c s k : P c s -> P c (s <| orders ::= delete k |>).
Proof.
  intros (Hg & Hs). split; [apply G_delete, Hg|]. rewrite slack_delete.
  pose proof (owes_at_nonneg s k (proj1 Hg)). lia.
Qed.
Lemma PW_write c1 c2 k s o : PW c1 c2 k s -> 0 <= o_amount o -> status_ok o ->
  P (c2 - order_owes o) (s <| orders ::= <[k := o]> |>).
Proof. intros (Hg & Hs & Hw) H1 H2. split; [apply G_insert; assumption|]. rewrite slack_insert. lia. Qed.

(** ** stepping tactics *)
Lemma ht_bind_inv {A B} (I : State -> Prop) (m : M A) (k : A -> M B) s Q (E : State -> Prop) :
  ht m s (fun _ => I) I -> (forall s', I s' -> E s') -> (forall a s1, I s1 -> ht (k a) s1 Q E) -> ht (bind m k) s Q E.
Proof. intros H1 H2 H3. eapply ht_bind; [eapply ht_conseq; [exact H1|intros a s' H; exact H|exact H2]|exact H3]. Qed.
Lemma ht_bind_E {A B} (m : M A) (k : A -> M B) s Q1 (E1 : State -> Prop) Q (E : State -> Prop) :
  ht m s Q1 E1 -> (forall s', E1 s' -> E s') -> (forall a s1, Q1 a s1 -> ht (k a) s1 Q E) -> ht (bind m k) s Q E.
Proof. intros H1 H2 H3. eapply ht_bind; [eapply ht_conseq; [exact H1|intros a s' H; exact H|exact H2]|exact H3]. Qed.
Lemma ht_last_inv {A} (I : State -> Prop) (m : M A) s (Q : A -> State -> Prop) (E : State -> Prop) :
  ht m s (fun _ => I) I -> (forall a s', I s' -> Q a s') -> (forall s', I s' -> E s') -> ht m s Q E.
Proof. intros H1 H2 H3. eapply ht_conseq; [exact H1|exact H2|exact H3]. Qed.

Ltac ht_weak :=
  first [ intros ? ? ; assumption
        | intros; exact Logic.I
        | let H := fresh in intros ? H; eapply P_mono; [|exact H]; lia
        | let H := fresh in intros ? ? H; eapply P_mono; [|exact H]; lia
        | intros ? ? ? ; assumption ].
Ltac ro_closed := first [exact (P_RO_closed _) | exact (PW_RO_closed _ _ _) | exact (U_RO_closed _ _) | exact (PO_RO_closed _ _)].
Ltac ht_inv s k :=
  match goal with
  | H : P _ s |- _ => k H
  | H : PW _ _ _ s |- _ => k H
  | H : U _ _ s |- _ => k H
  | H : PO _ _ s |- _ => k H
  end.
(* over a call that leaves the order table alone *)
Ltac ht_call :=
  lazymatch goal with
  | |- ht (bind _ _) ?s _ _ =>
      ht_inv s ltac:(fun H =>
        match type of H with ?I s =>
          eapply (ht_bind_inv I); [eapply (ht_mok RO); [solve [ro_tac]|ro_closed|exact H]|ht_weak|cbv beta; intros ? ? ?] end)
  | |- ht _ ?s _ _ =>
      ht_inv s ltac:(fun H =>
        match type of H with ?I s =>
          eapply (ht_last_inv I); [eapply (ht_mok RO); [solve [ro_tac]|ro_closed|exact H]|ht_weak|ht_weak] end)
  end.
Ltac ht_fail := apply ht_fail; first [assumption | exact Logic.I | (eapply P_mono; [|eassumption]; lia)].

(** ** the escrow account pays and is paid *)
Lemma P_move_out c s t a : 0 <= a -> P c s -> P (c - a) (move ESC t a s).
Proof.
  intros H0 (Hg & Hs). split.
  - destruct Hg as (Ha & Hst & Hp & Hn). split; [exact Ha|]. split; [exact Hst|]. split; [exact Hp|exact Hn].
  - unfold slack in *. change (orders (move ESC t a s)) with (orders s).
    enough (esc s - a <= esc (move ESC t a s)) by lia. unfold esc.
    destruct (decide (t = ESC)) as [->|Hne]; [rewrite Money.move_self; lia|].
    rewrite Money.move_from by congruence. lia.
Qed.
Lemma P_move_in c s f a : f <> ESC -> P c s -> P (c + a) (move f ESC a s).
Proof.
  intros Hf (Hg & Hs). split.
  - destruct Hg as (Ha & Hst & Hp & Hn). split; [exact Ha|]. split; [exact Hst|]. split; [exact Hp|exact Hn].
  - unfold slack in *. change (orders (move f ESC a s)) with (orders s).
    unfold esc. rewrite Money.move_to by exact Hf. unfold esc in Hs. lia.
Qed.
Lemma owes_at_move f t a s k : owes_at (move f t a s) k = owes_at s k.
Proof. reflexivity. Qed.

Lemma send_out_ht c s t a :
  P c s -> ht (send_strict ESC t a) s (fun _ s' => P (c - a) s' /\ 0 < a /\ forall k, owes_at s' k = owes_at s k) (fun s' => s' = s).
Proof.
  intros HP. unfold ht, send_strict. destruct (a <=? 0) eqn:E1; [reflexivity|].
  destruct (balance s ESC <? a); [reflexivity|]. apply Z.leb_gt in E1.
  split; [apply P_move_out; [lia|exact HP]|]. split; [lia|]. intros k. apply owes_at_move.
Qed.

Lemma market_deposit_ht c s o :
  P c s -> ht (market_deposit o) s (fun _ s' => P (c - o_amount o) s' /\ 0 < o_amount o /\ forall k, owes_at s' k = owes_at s k) (P c).
Proof.
  intros HP. unfold market_deposit. destruct (o_amount o =? 0); [apply ht_fail, HP|].
  eapply ht_conseq; [apply send_out_ht, HP|auto|intros s' ->; exact HP].
Qed.

(** ** refund and cancel *)
Lemma cancel_order_ht cx oid c s :
  P c s -> (forall o, orders s !! oid = Some o -> o_status o <> OrderCompleted) ->
  ht (cancel_order cx oid) s (fun _ => P c) (P c).
Proof.
  intros HP Hopen. unfold ht. destruct (cancel_order cx oid s) as [[] s'|e s'|e|] eqn:E; auto.
  - destruct (orders s !! oid) as [o|] eqn:Eo.
    + apply (Money.cancel_order_inv _ _ _ _ o) in E; [|exact Eo].
      destruct E as (payer & s2 & Hp & Hpos & Hle & Hrb & ->).
      pose proof (P_move_out c s payer (o_amount o) ltac:(lia) HP) as H1.
      pose proof (rollback_meta_ro cx (o_data o) (move ESC payer (o_amount o) s)) as Hro.
      rewrite Hrb in Hro.
      pose proof (P_RO_closed _ _ _ Hro H1) as H2.
      destruct (Hro (proj1 H1)) as (_ & _ & Hk0).
      assert (Hk : owes_at s2 oid = owes_at (move ESC payer (o_amount o) s) oid) by (unfold owes_at; rewrite Hk0; reflexivity).
      rewrite owes_at_move in Hk.
      destruct HP as (Hg & Hs). destruct (G_order s oid o Hg Eo) as (Hamt & Hst).
      rewrite (owes_at_lookup _ _ _ Eo), (order_owes_open o Hst (Hopen o eq_refl)) in Hk.
      destruct H2 as (Hg2 & Hs2). split; [apply G_delete, Hg2|]. rewrite slack_delete. lia.
    + exfalso. assert (Hrf : refund_order oid s = Err "order not found" s).
      { unfold refund_order, bind, get. cbv beta. rewrite Eo. reflexivity. }
      unfold cancel_order, bind, get, try_ in E. cbv beta in E. rewrite Hrf in E. discriminate E.
  - apply Money.cancel_order_err in E as (_ & ->). exact HP.
Qed.

(** ** terminate *)
Lemma PW_move_out c1 c2 k s t a : 0 <= a -> PW c1 c2 k s -> PW (c1 - a) (c2 - a) k (move ESC t a s).
Proof.
  intros H0 (Hg & Hs & Hw). pose proof (P_move_out (slack s) s t a H0 (P_init s Hg)) as (Hg1 & Hs1).
  split; [exact Hg1|]. rewrite owes_at_move. lia.
Qed.
Lemma PW_move_in c1 c2 k s f a : f <> ESC -> PW c1 c2 k s -> PW (c1 + a) (c2 + a) k (move f ESC a s).
Proof.
  intros Hf (Hg & Hs & Hw). pose proof (P_move_in (slack s) s f a Hf (P_init s Hg)) as (Hg1 & Hs1).
  split; [exact Hg1|]. rewrite owes_at_move. lia.
Qed.

Lemma order_terminate_ht oid refund c1 c2 k s :
  PW c1 c2 k s -> 0 <= refund ->
  ht (order_terminate oid refund) s (fun _ => PW (c1 - refund) (c2 - refund) k) (PW c1 c2 k).
Proof.
  intros HP Hr. unfold order_terminate. apply ht_get.
  destruct (orders s !! oid) as [o|] eqn:Eo; [|apply ht_fail, HP].
  destruct (negb (o_status o =? OrderCompleted)) eqn:Est; [apply ht_fail, HP|].
  apply negb_false_iff, Z.eqb_eq in Est.
  assert (Hdel : forall s1, PW (c1 - refund) (c2 - refund) k s1 -> owes_at s1 oid = 0 ->
                            PW (c1 - refund) (c2 - refund) k (s1 <| orders ::= delete oid |>)).
  { intros s1 (Hg1 & Hs1 & Hw1) H0. split; [apply G_delete, Hg1|]. rewrite slack_delete, owes_at_delete, H0.
    destruct (decide (k = oid)) as [->|_]; lia. }
  assert (H0 : owes_at s oid = 0) by (rewrite (owes_at_lookup _ _ _ Eo); apply order_owes_completed, Est).
  assert (HPd : PW (c1 - refund) (c2 - refund) k s) by (eapply PW_mono; [| |exact HP]; lia).
  eapply ht_bind with (Q1 := fun _ s1 => PW (c1 - refund) (c2 - refund) k s1 /\ owes_at s1 oid = 0).
  - destruct (pay_addr s (o_owner o)) as [payer|].
    + destruct (refund =? 0); [apply ht_ret; auto|].
      unfold ht, send_strict. destruct (refund <=? 0); [exact HP|]. destruct (balance s ESC <? refund); [exact HP|].
      split; [apply PW_move_out; [exact Hr|exact HP]|rewrite owes_at_move; exact H0].
    + unfold ht, send_to_did_balances. destruct (refund =? 0); [cbn; auto|exact Logic.I].
  - intros [] s1 (H1 & H2). apply ht_modify. apply Hdel; assumption.
Qed.

Lemma dec_trunc_nonneg x : 0 <= x -> 0 <= dec_trunc x.
Proof. intros H. unfold dec_trunc. apply Z.quot_pos; [exact H|unfold P18; lia]. Qed.

Lemma market_withdraw_ht cx oid o c1 c2 k s :
  PW c1 c2 k s -> ht (market_withdraw cx oid o) s (fun coin s' => PW (c1 + coin) (c2 + coin) k s' /\ 0 <= coin) (PW c1 c2 k).
Proof.
  intros HP. unfold market_withdraw. destruct (o_amount o =? 0); [apply ht_fail, HP|]. cbv zeta.
  match goal with |- ht (?F ?l ?a) _ _ _ =>
    enough (HF : forall l' a' s', PW c1 c2 k s' ->
              ht (F l' a') s' (fun coin s'' => PW (c1 + coin) (c2 + coin) k s'' /\ 0 <= coin) (PW c1 c2 k))
      by (apply HF, HP) end.
  clear s HP. intros l. induction l as [|id l IH]; intros a s HP; fix_unfold.
  - destruct (a <? 0) eqn:Ea; [exact Logic.I|]. apply Z.ltb_ge in Ea. pose proof (dec_trunc_nonneg a Ea) as Hc.
    eapply ht_bind with (Q1 := fun _ s1 => PW (c1 + dec_trunc a) (c2 + dec_trunc a) k s1).
    + destruct (dec_trunc a =? 0) eqn:E0; [apply Z.eqb_eq in E0; apply ht_ret; rewrite E0; eapply PW_mono; [| |exact HP]; lia|].
      unfold ht, send_strict. destruct (_ <=? 0); [exact HP|]. destruct (_ <? _); [exact HP|].
      apply PW_move_in; [discriminate|exact HP].
    + intros [] s1 H1. apply ht_ret. auto.
  - apply ht_get. destruct (shards s !! id) as [sh|]; [|apply IH, HP].
    destruct (oid <? sh_order sh); [apply IH, HP|]. cbv zeta.
    destruct (_ && _).
    + eapply ht_bind_inv with (I := PW c1 c2 k);
        [eapply (ht_mok RO); [solve [auto with esc]|ro_closed|exact HP]|auto|]. intros [] s1 H1. apply IH, H1.
    + destruct (sh_status sh =? ShardWaiting); [apply IH, HP|]. destruct (_ && _); apply IH, HP.
Qed.

Lemma model_terminate_order_ht cx oid o c1 c2 k s :
  PW c1 c2 k s -> ht (model_terminate_order cx oid o) s (fun _ => PW c1 c2 k) (PW c1 c2 k).
Proof.
  intros HP. unfold model_terminate_order.
  eapply ht_bind; [apply market_withdraw_ht, HP|]. intros coin s1 (H1 & Hc).
  assert (Hw : forall s', PW (c1 + coin) (c2 + coin) k s' -> PW c1 c2 k s') by (intros s'; apply PW_mono; lia).
  eapply ht_bind_inv with (I := PW (c1 + coin) (c2 + coin) k); [|exact Hw|].
  - apply ht_forM; [|exact H1]. intros id s2 H2. apply ht_get.
    destruct (shards s2 !! id) as [sh|]; [|apply ht_ret, H2].
    destruct (_ && _); [|apply ht_ret, H2].
    eapply (ht_mok RO); [solve [auto with esc]|ro_closed|exact H2].
  - intros [] s2 H2. eapply ht_conseq; [apply order_terminate_ht; [exact H2|exact Hc]| |exact Hw].
    intros [] s'. apply PW_mono; lia.
Qed.

Ltac ht_weak ::=
  first [ intros ? ? ; assumption
        | intros; exact Logic.I
        | let H := fresh in intros ? H; eapply P_mono; [|exact H]; lia
        | let H := fresh in intros ? ? H; eapply P_mono; [|exact H]; lia
        | intros ? ? ? ; assumption
        | intros; eapply PW_P; eassumption ].
Ltac ht_fail ::=
  apply ht_fail; first [assumption | exact Logic.I | (eapply P_mono; [|eassumption]; lia) | (eapply PW_P; eassumption)].
(* a [modify] that leaves the order table alone *)
Ltac ht_modify_ro :=
  lazymatch goal with
  | |- ht (modify _) ?s _ _ =>
      apply ht_modify; ht_inv s ltac:(fun H =>
        first [ eapply P_RO_closed; [|exact H]; ro_side
              | eapply PW_RO_closed; [|exact H]; ro_side
              | eapply U_RO_closed; [|exact H]; ro_side
              | eapply PW_P, PW_RO_closed; [|exact H]; ro_side ])
  end.

Lemma mok_P {A} (m : M A) :
  (forall s, G s -> ht m s (fun _ => P (slack s)) (P (slack s))) -> mok RE true m.
Proof.
  intros H. apply mok_ht. intros s. specialize (H s). unfold ht in *.
  destruct (m s); auto; intros Hg; apply P_RE; auto.
Qed.
Lemma mok_U {A} (m : M A) :
  (forall s, G s -> ht m s (fun _ => U (owes_at s) (esc s)) (U (owes_at s) (esc s))) -> mok RE true m.
Proof.
  intros H. apply mok_ht. intros s. specialize (H s). unfold ht in *.
  destruct (m s); auto; intros Hg; apply U_RE; auto.
Qed.

Lemma force_push_loop_ht cx lc c1 c2 k : forall ro acc s,
  PW c1 c2 k s -> ht (force_push_loop cx ro lc acc) s (fun _ => PW c1 c2 k) (PW c1 c2 k).
Proof.
  induction ro as [|oid ro IH]; intros acc s HP; cbn [force_push_loop]; [apply ht_ret, HP|].
  apply ht_get. destruct (orders s !! oid) as [o|]; [|apply ht_fail, HP].
  destruct (negb _); [apply ht_ret, HP|].
  eapply ht_bind_inv with (I := PW c1 c2 k); [apply model_terminate_order_ht, HP|auto|].
  intros [] s1 H1. apply IH, H1.
Qed.

Lemma update_meta_ht cx oid o c1 c2 k s :
  PW c1 c2 k s -> ht (update_meta cx oid o) s (fun _ => PW c1 c2 k) (PW c1 c2 k).
Proof.
  intros HP. unfold update_meta. apply ht_get. destruct (negb _); [apply ht_fail, HP|].
  destruct (metas s !! o_data o) as [m|]; [|apply ht_fail, HP]. destruct (negb _); [apply ht_fail, HP|].
  eapply ht_bind_inv with (I := PW c1 c2 k); [|auto|intros m' s1 H1; ht_modify_ro].
  destruct (o_op o =? 1); [apply ht_ret, HP|]. destruct (o_op o =? 2).
  - destruct (last_opt (m_commits m)) as [lastv|]; [|exact Logic.I].
    eapply ht_bind_inv with (I := PW c1 c2 k); [apply force_push_loop_ht, HP|auto|].
    intros [rev_left sids] s1 H1. cbv beta iota zeta. ht_call. ht_call.
  - destruct (o_op o =? 3); [apply ht_ret, HP|apply ht_fail, HP].
Qed.

Lemma sao_terminate_re cx c p ow d sg : mok RE true (sao_terminate cx c p ow d sg).
Proof.
  apply mok_P. intros s Hg. pose proof (P_PW0 _ 0 _ (P_init s Hg)) as HP.
  unfold sao_terminate. apply ht_get. destruct (negb _); [ht_fail|].
  destruct (verify_sig s ow sg) as [sigdid|]; [|ht_fail].
  destruct (metas s !! d) as [meta|]; [|ht_fail]. destruct (negb _); [ht_fail|].
  eapply ht_bind_inv with (I := PW (slack s) (slack s) 0); [|ht_weak|].
  - match goal with |- ht (?F ?l ?a) _ _ _ =>
      enough (HF : forall l' a' s', PW (slack s) (slack s) 0 s' ->
                ht (F l' a') s' (fun _ => PW (slack s) (slack s) 0) (PW (slack s) (slack s) 0)) by (apply HF, HP) end.
    intros l. induction l as [|oid l IH]; intros a s1 H1; fix_unfold; [apply ht_ret, H1|].
    apply ht_get. destruct (orders s1 !! oid) as [o|]; [|apply IH, H1].
    eapply ht_bind_inv with (I := PW (slack s) (slack s) 0); [apply model_terminate_order_ht, H1|auto|].
    intros [] s2 H2. apply IH, H2.
  - intros sids s1 H1. ht_call. ht_call.
Qed.

Ltac ht_case :=
  lazymatch goal with
  | |- ht (match ?x with _ => _ end) _ _ _ => destruct x eqn:?
  | |- ht (bind (match ?x with _ => _ end) _) _ _ _ => destruct x eqn:?
  end.

(** ** store, ready *)
Lemma ht_val {A} (I : State -> Prop) (V : A -> Prop) (m : M A) s :
  ht m s (fun _ => I) I -> ht m s (fun a _ => V a) (fun _ => True) -> ht m s (fun a s' => I s' /\ V a) I.
Proof. unfold ht. destruct (m s); auto. Qed.

Lemma gen_shards_val oid sps : forall o s,
  ht (gen_shards oid o sps) s (fun o' _ => o_op o' = o_op o /\ o_amount o' = o_amount o /\ o_status o' = o_status o) (fun _ => True).
Proof.
  induction sps as [|sp sps IH]; intros o s; cbn [gen_shards]; [apply ht_ret; auto|].
  eapply ht_bind with (Q1 := fun _ _ => True); [unfold ht; destruct (new_shard_task oid o sp s); auto|].
  intros id s1 _. eapply ht_conseq; [apply IH|cbn; intros; tauto|auto].
Qed.
Lemma generate_shards_val oid o sps s :
  ht (generate_shards oid o sps) s
     (fun o' _ => o_op o' = o_op o /\ o_amount o' = o_amount o /\ (o_status o' = o_status o \/ o_status o' = OrderDataReady))
     (fun _ => True).
Proof.
  unfold generate_shards. destruct sps as [|sp sps]; [apply ht_ret; auto|].
  eapply ht_bind; [apply gen_shards_val|]. intros o' s1 (H1 & H2 & H3). apply ht_ret. cbn. auto.
Qed.

Lemma open_owes o : o_op o <> 3 -> (o_status o = OrderPending \/ o_status o = OrderDataReady) ->
  order_owes o = o_amount o /\ status_ok o.
Proof. intros H1 H2. assert (Hs : status_ok o) by (right; auto). split; [|exact Hs]. apply order_owes_open; [exact Hs|]. destruct H2 as [-> | ->]; discriminate. Qed.

Lemma new_order_ht cx o sps c s :
  P c s -> o_status o = OrderPending -> o_op o <> 3 -> 0 <= o_amount o ->
  ht (new_order cx o sps) s (fun _ => P (c - o_amount o)) (P (c - o_amount o)).
Proof.
  intros HP Hst Hop Ha. unfold new_order, append_order.
  destruct (open_owes o Hop (or_introl Hst)) as (Hw & Hok).
  set (id := order_count s).
  assert (H1 : PW (c - o_amount o) c id (s <| orders ::= <[id := o]> |> <| order_count := u64 (id + 1) |>)).
  { eapply PW_RO_closed with (s := s <| orders ::= <[id := o]> |>); [ro_side|].
    destruct HP as (Hg & Hs). pose proof (owes_at_nonneg s id (proj1 Hg)).
    split; [apply G_insert; assumption|]. rewrite slack_insert, owes_at_insert. rewrite decide_True by reflexivity. lia. }
  eapply ht_bind with (Q1 := fun i s1 => i = id /\ PW (c - o_amount o) c id s1).
  - apply ht_get. eapply ht_bind with (Q1 := fun _ s1 => PW (c - o_amount o) c id s1); [apply ht_modify, H1|].
    intros [] s1 H2. apply ht_ret. auto.
  - intros i s1 (-> & H2).
    eapply ht_bind_E; [apply (ht_val (PW (c - o_amount o) c id)); [eapply (ht_mok RO); [solve [ro_tac]|ro_closed|exact H2]|apply generate_shards_val]|apply PW_P|].
    cbv beta. intros o1 s2 (H3 & E1 & E2 & E3).
    assert (Hfin : P (c - o_amount o) (s2 <| orders ::= <[id := o1 <| o_created := cx_height cx |>]> |>)).
    { destruct (open_owes (o1 <| o_created := cx_height cx |>)) as (Hw2 & Hok2);
        [cbn; congruence|cbn; rewrite Hst in E3; tauto|].
      assert (Ha2 : o_amount (o1 <| o_created := cx_height cx |>) = o_amount o) by exact E2.
      assert (Hnn : 0 <= o_amount (o1 <| o_created := cx_height cx |>)) by (rewrite Ha2; exact Ha).
      pose proof (PW_write _ _ _ _ (o1 <| o_created := cx_height cx |>) H3 Hnn Hok2) as HH.
      assert (Heq : order_owes (o1 <| o_created := cx_height cx |>) = o_amount o) by (rewrite Hw2; exact Ha2).
      rewrite <- Heq. exact HH. }
    eapply ht_bind with (Q1 := fun _ => P (c - o_amount o)); [apply ht_modify, Hfin|].
    intros [] s3 H4. apply ht_ret, H4.
Qed.

(* transactions: only the normal return is kept *)
Definition tx_ok (m : M unit) : Prop := forall s, G s -> ht m s (fun _ => RE s) (fun _ => True).
Lemma mok_tx_ok m : mok RE true m -> tx_ok m.
Proof. intros H s _. specialize (H s). unfold ht. destruct (m s); auto. Qed.

Lemma ceil_coin_nonneg d : 0 <= d -> 0 <= ceil_coin d.
Proof.
  intros H. unfold ceil_coin, dec_split. pose proof (dec_trunc_nonneg d H).
  destruct (_ =? 0); lia.
Qed.

Lemma sao_store_tx cx m : tx_ok (sao_store cx m).
Proof.
  intros s Hg. eapply ht_conseq with (Q := fun _ => P (slack s)) (E := fun _ => True); [|intros; apply P_RE; assumption|auto].
  pose proof (P_init s Hg) as HP. set (c := slack s) in *.
  unfold sao_store. apply ht_get.
  destruct (verify_sig s (st_owner m) (st_sig m)) as [sigdid|]; [|ht_fail].
  destruct (String.eqb (st_commit m) ""); [ht_fail|].
  destruct (String.eqb (st_data m) ""); [ht_fail|].
  destruct ((st_op m <? 1) || (2 <? st_op m)) eqn:Eop; [ht_fail|].
  destruct (st_duration m <? 3600); [ht_fail|].
  destruct (negb (st_cid_ok m)); [ht_fail|].
  cbv zeta.
  match goal with |- ht (if ?c then _ else _) _ _ _ => destruct c; [ht_fail|] end.
  match goal with |- ht (if ?c then _ else _) _ _ _ => destruct c; [ht_fail|] end.
  eapply ht_bind with (Q1 := fun pay0 s1 => s1 = s /\ forall a, pay0 = Some a -> a <> ESC).
  { destruct (String.eqb (st_paydid m) ""); [apply ht_ret; split; [reflexivity|discriminate]|].
    destruct (negb _); [ht_fail|].
    destruct (pay_addr s (st_paydid m)) as [a|] eqn:Ea; [|ht_fail].
    destruct (String.eqb a (st_creator m)); [|ht_fail].
    apply ht_ret. split; [reflexivity|]. intros a' E. injection E as <-. destruct Hg as (_ & _ & Hp & _). apply (Hp _ _ Ea). }
  intros pay0 s1 (-> & Hpay0).
  destruct (nodes s !! st_pprovider m) as [pn|]; [|ht_fail].
  destruct (split_commit (st_commit m)) as [last_commit commit].
  destruct (st_timeout m =? 0); [ht_fail|].
  eapply ht_bind with (Q1 := fun _ s1 => s1 = s).
  { destruct pay0; [apply ht_ret; reflexivity|].
    destruct (creator_bound_s _ _ _ _); [apply ht_ret; reflexivity|].
    match goal with |- ht (if ?c then _ else _) _ _ _ => destruct c; [apply ht_ret; reflexivity|ht_fail] end. }
  intros isp s1 ->.
  eapply (ht_bind_inv (P c)); [|ht_weak|].
  { destruct isp; [|apply ht_ret, HP]. eapply (ht_mok RO); [solve [ro_tac]|ro_closed|exact HP]. }
  intros sps s1 H1.
  match goal with |- ht (if ?t <? 0 then _ else _) _ _ _ => destruct (t <? 0) eqn:Etot; [exact Logic.I|]; set (total := t) in * end.
  apply Z.ltb_ge in Etot. pose proof (ceil_coin_nonneg total Etot) as Hamt.
  apply ht_get.
  eapply ht_bind with (Q1 := fun payer s2 => s2 = s1 /\ payer <> ESC).
  { destruct pay0 as [a|]; [apply ht_ret; split; [reflexivity|apply Hpay0; reflexivity]|].
    destruct (pay_addr s1 (st_owner m)) as [a|] eqn:Ea; [|ht_fail].
    apply ht_ret. split; [reflexivity|]. destruct H1 as ((_ & _ & Hp & _) & _). apply (Hp _ _ Ea). }
  intros payer s2 (-> & Hpayer).
  destruct (balance s1 payer <? ceil_coin total); [ht_fail|].
  eapply ht_bind with (Q1 := fun _ => P (c + ceil_coin total)).
  { unfold ht, send_strict. destruct (ceil_coin total <=? 0); [exact Logic.I|].
    destruct (balance s1 payer <? ceil_coin total); [exact Logic.I|].
    apply P_move_in; assumption. }
  intros [] s2 H2.
  assert (Hop : st_op m <> 3).
  { apply orb_false_iff in Eop as (_ & Eop). apply Z.ltb_ge in Eop. lia. }
  eapply (ht_bind_inv (P c)).
  { eapply ht_conseq; [apply new_order_ht; [exact H2|reflexivity|exact Hop|exact Hamt]| |].
    - cbn. intros _ s'. apply P_mono. lia.
    - cbn. intros s'. apply P_mono. lia. }
  { ht_weak. }
  intros [oid o2] s3 H3.
  ht_call. apply ht_get.
  ht_case; [|ht_call].
  ht_case; [ht_fail|]. ht_case; [|ht_fail]. ht_case; [ht_fail|]. ht_case; [ht_fail|]. ht_call.
Qed.

Lemma sao_ready_re cx c p oid : mok RE true (sao_ready cx c p oid).
Proof.
  apply mok_U. intros s Hg. pose proof (U_init s Hg) as HU.
  unfold sao_ready. apply ht_get. destruct (orders s !! oid) as [o|] eqn:Eo; [|ht_fail].
  cbv zeta. destruct (negb _); [ht_fail|]. destruct (negb (o_status o =? OrderPending)) eqn:Est; [ht_fail|].
  apply negb_false_iff, Z.eqb_eq in Est.
  destruct (U_lookup _ _ _ _ _ HU Eo) as (Hle & Hamt & Hok).
  ht_call.
  eapply ht_bind_E; [apply (ht_val (U (owes_at s) (esc s))); [eapply (ht_mok RO); [solve [ro_tac]|ro_closed|eassumption]|apply generate_shards_val]|auto|].
  cbv beta. intros o' s2 (H2 & E1 & E2 & E3).
  assert (Hop : o_op o <> 3).
  { destruct Hok as [Hc|(Hop & _)]; [rewrite Est in Hc; discriminate|exact Hop]. }
  destruct (open_owes o Hop (or_introl Est)) as (Hw & _).
  destruct (open_owes o') as (Hw' & Hok'); [congruence|rewrite Est in E3; tauto|].
  eapply (ht_bind_inv (U (owes_at s) (esc s))); [|ht_weak|].
  { apply ht_modify. apply U_insert; [exact H2|lia|exact Hok'|lia]. }
  intros [] s3 H3. ht_call.
Qed.

(** ** renew *)
Lemma P_insert_zero c s k o : P c s -> 0 <= o_amount o -> status_ok o -> order_owes o = 0 ->
  P c (s <| orders ::= <[k := o]> |>).
Proof.
  intros HP H1 H2 H3. pose proof (PW_write _ _ k _ o (P_PW0 c k s HP) H1 H2) as H. rewrite H3 in H.
  eapply P_mono; [|exact H]. lia.
Qed.

Lemma renew_order_ht o c s :
  P c s -> o_op o = 3 -> o_status o = OrderCompleted -> 0 <= o_amount o ->
  ht (renew_order o) s (fun _ => P c) (P c).
Proof.
  intros HP Hop Hst Ha. unfold renew_order. apply ht_get.
  destruct (pay_addr s (o_owner o)) as [payer|] eqn:Ep; [|ht_fail].
  assert (Hne : payer <> ESC) by (destruct HP as ((_ & _ & Hp & _) & _); apply (Hp _ _ Ep)).
  ht_call. unfold append_order. apply ht_get.
  eapply (ht_bind_inv (P c)); [|ht_weak|intros [] s2 H2; apply ht_ret, H2].
  apply ht_modify.
  match goal with |- P c (?s1 <| orders ::= ?f |> <| order_count := ?n |>) =>
    eapply P_RO_closed with (s := s1 <| orders ::= f |>); [ro_side|] end.
  apply P_insert_zero; [assumption|exact Ha|left; exact Hst|apply order_owes_renewal, Hop].
Qed.

Lemma send_keeps_pledges f t a s (X : Prop) :
  ht (send_strict f t a) s (fun _ s' => pledges s' = pledges s) (fun s' => pledges s' = pledges s).
Proof. unfold ht, send_strict. destruct (a <=? 0); [reflexivity|]. destruct (_ <? a); reflexivity. Qed.

Lemma renew_one_re cx m sd d : mok RE true (renew_one cx m sd d).
Proof.
  apply mok_P. intros s Hg. pose proof (P_init s Hg) as HP. set (c := slack s) in *.
  unfold renew_one. apply ht_get.
  destruct (metas s !! d) as [meta|]; [|apply ht_ret, HP].
  destruct (negb _); [apply ht_ret, HP|]. destruct (negb _); [apply ht_ret, HP|].
  destruct (orders s !! m_order meta) as [o|] eqn:Eo; [|apply ht_ret, HP].
  destruct (mapM _ (o_shards o)) as [shs|]; [|apply ht_ret, HP].
  destruct (negb (o_status o =? OrderCompleted)) eqn:Est; [apply ht_ret, HP|].
  apply negb_false_iff, Z.eqb_eq in Est.
  destruct (_ <? cx_height cx); [apply ht_ret, HP|]. cbv zeta.
  match goal with |- ht (if ?t <? 0 then _ else _) _ _ _ => destruct (t <? 0) eqn:Etot; [exact Logic.I|]; set (total := t) in * end.
  apply Z.ltb_ge in Etot. pose proof (ceil_coin_nonneg total Etot) as Hamt.
  eapply (ht_bind_inv (P c)); [|ht_weak|].
  { apply ht_try. apply renew_order_ht; [exact HP|reflexivity|exact Est|exact Hamt]. }
  intros [nid|] s1 H1; [|apply ht_ret, H1].
  eapply (ht_bind_inv (P c)); [|ht_weak|].
  { match goal with |- ht (?F ?l ?a) _ _ _ =>
      enough (HF : forall l' a' s', P c s' -> ht (F l' a') s' (fun _ => P c) (P c)) by (apply HF, H1) end.
    intros l. induction l as [|[id sh] l IH]; intros a s2 H2; fix_unfold; [apply ht_ret, H2|].
    eapply (ht_bind_inv (P c)); [|ht_weak|intros a' s3 H3; apply IH, H3].
    destruct (sh_status sh =? ShardMigrating); [apply ht_ret, H2|]. cbv zeta.
    destruct (_ <? 0); [exact Logic.I|].
    eapply (ht_bind_inv (P c)); [|ht_weak|intros sh1 s3 H3; ht_call; apply ht_ret; assumption].
    destruct (sh_pledge sh <? _); [|apply ht_ret, H2].
    destruct (decide (sh_sp sh = ESC)) as [Hesc|Hne].
    - (* the escrow account has no pledge: the Coin.Add on the missing pledge panics *)
      apply ht_get.
      assert (Hnone : pledges s2 !! sh_sp sh = None) by (rewrite Hesc; destruct H2 as ((_ & _ & _ & Hn) & _); exact Hn).
      eapply ht_bind with (Q1 := fun _ s' => pledges s' !! sh_sp sh = None).
      + destruct (_ <=? _).
        * eapply ht_bind with (Q1 := fun _ s' => pledges s' !! sh_sp sh = None); [|intros; apply ht_ret; assumption].
          apply ht_try. eapply ht_conseq; [apply (send_keeps_pledges _ _ _ _ True)|cbn; intros _ s' ->; exact Hnone|cbn; intros s' ->; exact Hnone].
        * eapply ht_bind with (Q1 := fun _ s' => pledges s' !! sh_sp sh = None); [|intros; apply ht_modify; assumption].
          apply ht_try. eapply ht_conseq; [apply (send_keeps_pledges _ _ _ _ True)|cbn; intros _ s' ->; exact Hnone|cbn; intros s' ->; exact Hnone].
      + intros [] s3 H3. apply ht_get. rewrite H3. exact Logic.I.
    - apply ht_get. eapply (ht_mok RO); [solve [ro_tac]|ro_closed|exact H2]. }
  intros new_end s2 H2. ht_call.
  eapply (ht_bind_inv (P c)); [|ht_weak|intros r s4 H4; apply ht_ret, H4].
  apply ht_try. eapply ht_conseq; [apply update_meta_ht; apply (P_PW0 c 0); eassumption|cbv beta; intros; eapply PW_P; eassumption|cbv beta; intros; eapply PW_P; eassumption].
Qed.
Global Hint Resolve renew_one_re : esc.

Lemma sao_renew_re cx m : mok RE true (sao_renew cx m).
Proof. unfold sao_renew. ro_tac. Qed.

(** ** migrate *)
Lemma U_same f e s k o o' : U f e s -> orders s !! k = Some o ->
  o_op o' = o_op o -> o_status o' = o_status o -> o_amount o' = o_amount o ->
  forall s1, U f e s1 -> U f e (s1 <| orders ::= <[k := o']> |>).
Proof.
  intros HU Eo E1 E2 E3 s1 H1. destruct (U_lookup _ _ _ _ _ HU Eo) as (Hle & Hamt & Hok).
  apply U_insert; [exact H1|lia|eapply status_ok_same; eassumption|rewrite (order_owes_same o o'); assumption].
Qed.

Lemma migrate_one_re cx p d : mok RE true (migrate_one cx p d).
Proof.
  apply mok_U. intros s Hg. pose proof (U_init s Hg) as HU. set (f := owes_at s) in *. set (e := esc s) in *.
  unfold migrate_one. apply ht_get. destruct (metas s !! d) as [meta|]; [|apply ht_ret, HU].
  match goal with |- ht (?F ?l ?a) _ _ _ =>
    enough (HF : forall l' a' s', U f e s' -> ht (F l' a') s' (fun _ => U f e) (U f e)) by (apply HF, HU) end.
  intros l. induction l as [|oid l IH]; intros a s1 H1; fix_unfold; [apply ht_ret, H1|].
  apply ht_get. destruct (orders s1 !! oid) as [o|] eqn:Eo; [|apply IH, H1].
  destruct (in_list _ _); [apply IH, H1|]. cbv zeta.
  destruct (shard_by_sp s1 o p) as [[old_id old]|]; [|apply IH, H1].
  destruct (negb _); [apply IH, H1|]. destruct (existsb _ _); [apply IH, H1|].
  ht_call. ht_case; [apply IH; assumption|]. ht_call.
  eapply (ht_bind_inv (U f e)); [|ht_weak|intros [] s4 H4; apply IH, H4].
  apply ht_modify. eapply (U_same f e s1 oid o); [exact H1|exact Eo|reflexivity|reflexivity|reflexivity|assumption].
Qed.
Global Hint Resolve migrate_one_re : esc.
Lemma sao_migrate_re cx c p d : mok RE true (sao_migrate cx c p d).
Proof. unfold sao_migrate. ro_tac. Qed.

(** ** cancel *)
Lemma sao_cancel_re cx c p oid : mok RE true (sao_cancel cx c p oid).
Proof.
  apply mok_P. intros s Hg. pose proof (P_init s Hg) as HP. set (cc := slack s) in *.
  unfold sao_cancel. apply ht_get. destruct (orders s !! oid) as [o|] eqn:Eo; [|ht_fail]. cbv zeta.
  destruct (negb _); [ht_fail|]. destruct (o_status o =? OrderCompleted) eqn:Est; [ht_fail|].
  apply Z.eqb_neq in Est. destruct (negb _); [ht_fail|].
  assert (HPO : PO cc (orders s) s) by (split; [exact HP|reflexivity]).
  eapply (ht_bind_inv (PO cc (orders s))); [|intros s' (H & _); exact H|].
  - eapply (ht_mok RO); [solve [ro_tac]|ro_closed|exact HPO].
  - intros [] s1 (H1 & E1). apply cancel_order_ht; [exact H1|]. rewrite E1, Eo. intros o' E. injection E as <-. exact Est.
Qed.

(** ** the end blocker of x/sao *)
Lemma handle_expired_shard_re cx sid : mok RE true (handle_expired_shard cx sid).
Proof.
  apply mok_U. intros s Hg. pose proof (U_init s Hg) as HU. set (f := owes_at s) in *. set (e := esc s) in *.
  assert (Hf : forall k, 0 <= f k) by (intros k; apply owes_at_nonneg, Hg).
  unfold handle_expired_shard. apply ht_get. destruct (shards s !! sid) as [sh|]; [|apply ht_ret, HU].
  destruct (orders s !! sh_order sh) as [o|] eqn:Eo; [|apply ht_ret, HU].
  ht_call. ht_call.
  destruct (o_shards o) as [|x [|y l]].
  - apply ht_modify. eapply (U_same f e s _ o); [exact HU|exact Eo|reflexivity|reflexivity|reflexivity|assumption].
  - destruct (x =? sid); [|apply ht_ret; assumption]. apply ht_modify. apply U_delete; [assumption|apply Hf].
  - apply ht_modify. eapply (U_same f e s _ o); [exact HU|exact Eo|reflexivity|reflexivity|reflexivity|assumption].
Qed.
Global Hint Resolve handle_expired_shard_re : esc.

Lemma ht_guard {A} (m : M A) s : (G s -> ht m s (fun _ => RE s) (RE s)) -> ht m s (fun _ => RE s) (RE s).
Proof. intros H. unfold ht in *. destruct (m s); auto; intros Hg; apply H; exact Hg. Qed.
Lemma ht_P_branch {A} (m : M A) s s0 : ht m s (fun _ => P (slack s0)) (P (slack s0)) -> ht m s (fun _ => RE s0) (RE s0).
Proof. intros H. eapply ht_conseq; [exact H|intros; apply P_RE; assumption|intros; apply P_RE; assumption]. Qed.
Lemma ht_U_branch {A} (m : M A) s s0 : G s0 ->
  ht m s (fun _ => U (owes_at s0) (esc s0)) (U (owes_at s0) (esc s0)) -> ht m s (fun _ => RE s0) (RE s0).
Proof. intros Hg H. eapply ht_conseq; [exact H|intros; apply U_RE; assumption|intros; apply U_RE; assumption]. Qed.

Lemma handle_timeout_order_re cx oid : mok RE true (handle_timeout_order cx oid).
Proof.
  apply mok_ht. intros s. apply ht_guard. intros Hg.
  pose proof (P_init s Hg) as HP. pose proof (U_init s Hg) as HU.
  assert (HPO : PO (slack s) (orders s) s) by (split; [exact HP|reflexivity]).
  unfold handle_timeout_order. apply ht_get.
  destruct (orders s !! oid) as [o|] eqn:Eo; [|apply ht_ret; reflexivity].
  destruct (U_lookup _ _ _ _ _ HU Eo) as (Hle & Hamt & Hok).
  destruct (o_status o =? OrderPending) eqn:Epend.
  { apply Z.eqb_eq in Epend. apply ht_P_branch.
    eapply (ht_bind_inv (P (slack s))); [|ht_weak|intros r s1 H1; apply ht_ret, H1].
    apply ht_try. apply cancel_order_ht; [exact HP|]. rewrite Eo. intros o' E. injection E as <-. rewrite Epend. discriminate. }
  destruct (_ <=? _); [apply ht_ret; reflexivity|]. cbv zeta.
  match goal with |- ht (if ?t =? 0 then _ else _) _ _ _ => destruct (t =? 0) end.
  { apply ht_U_branch; [exact Hg|]. ht_call. ht_case; [apply ht_ret; assumption|].
    apply ht_modify. eapply (U_same _ _ s oid o); [exact HU|exact Eo|reflexivity|reflexivity|reflexivity|assumption]. }
  destruct (negb (o_status o =? OrderCompleted)) eqn:Ecomp.
  - (* an order not yet completed *)
    apply negb_true_iff, Z.eqb_neq in Ecomp.
    eapply ht_bind with (Q1 := fun _ s1 => PO (slack s) (orders s) s1 /\ U (owes_at s) (esc s) s1).
    { eapply ht_conseq; [apply ht_and; [eapply (ht_mok RO (PO (slack s) (orders s))); [solve [ro_tac]|exact (PO_RO_closed _ _)|exact HPO]
                                       |eapply (ht_mok RO (U (owes_at s) (esc s))); [solve [ro_tac]|exact (U_RO_closed _ _)|exact HU]]|auto|].
      cbv beta. intros s' ((H1 & _) & _). apply P_RE, H1. }
    intros rand s1 ((H1 & E1) & HU1). destruct rand as [|r0 rand].
    + destruct (_ <? _).
      * apply ht_P_branch.
        assert (HPO1 : PO (slack s) (orders s) s1) by (split; assumption).
        eapply (ht_bind_inv (PO (slack s) (orders s))); [|intros s' (H & _); exact H|].
        { eapply (ht_mok RO); [solve [ro_tac]|ro_closed|exact HPO1]. }
        intros [] s2 (H2 & E2).
        eapply (ht_bind_inv (P (slack s))); [|ht_weak|intros r s3 H3; apply ht_ret, H3].
        apply ht_try. apply cancel_order_ht; [exact H2|]. rewrite E2, Eo. intros o' E. injection E as <-. exact Ecomp.
      * apply ht_U_branch; [exact Hg|]. ht_call.
    + apply ht_U_branch; [exact Hg|].
      eapply ht_bind with (Q1 := fun o' s' => U (owes_at s) (esc s) s' /\ o_op o' = o_op o /\ o_status o' = o_status o /\ o_amount o' = o_amount o).
      { match goal with |- ht (?F ?l ?a) _ _ _ =>
          enough (HF : forall l' a' s', U (owes_at s) (esc s) s' ->
                   ht (F l' a') s' (fun o' s'' => U (owes_at s) (esc s) s'' /\ o_op o' = o_op a' /\ o_status o' = o_status a' /\ o_amount o' = o_amount a')
                      (U (owes_at s) (esc s))) by (apply HF, HU1) end.
        intros l. induction l as [|[newsp [sid sh]] l IH]; intros a s2 H2; fix_unfold; [apply ht_ret; auto|].
        ht_call. ht_call. eapply ht_conseq; [apply IH; assumption|cbn; intros o' s' HH; exact HH|auto]. }
      intros o' s2 (H2 & E1' & E2' & E3').
      eapply (ht_bind_inv (U (owes_at s) (esc s))); [|ht_weak|intros [] s3 H3; ht_call].
      apply ht_modify. eapply (U_same _ _ s oid o); [exact HU|exact Eo|exact E1'|exact E2'|exact E3'|exact H2].
  - (* a completed order *)
    apply negb_false_iff, Z.eqb_eq in Ecomp. apply ht_U_branch; [exact Hg|].
    ht_call. ht_case.
    + ht_case; [|ht_call].
      ht_call. cbv zeta. ht_case; [exact Logic.I|].
      eapply ht_bind with (Q1 := fun o2 s' => U (owes_at s) (esc s) s' /\ o_status o2 = OrderCompleted /\ 0 <= o_amount o2).
      { ht_case; [unfold ht, ret; split; [assumption|split; [exact Ecomp|exact Hamt]]|]. apply ht_get. ht_call.
        unfold coin_sub. match goal with |- ht (bind (if ?t <? 0 then _ else _) _) _ _ _ => destruct (t <? 0) eqn:Esub end; [exact Logic.I|].
        apply Z.ltb_ge in Esub. unfold ht, bind, ret. split; [assumption|]. split; [exact Ecomp|exact Esub]. }
      intros o2 s3 (H3 & E1' & E2'). apply ht_modify.
      apply U_insert; [exact H3|exact E2'|left; exact E1'|]. rewrite (order_owes_completed o2 E1'). apply owes_at_nonneg, Hg.
    + eapply ht_bind with (Q1 := fun o' s' => U (owes_at s) (esc s) s' /\ o_op o' = o_op o /\ o_status o' = o_status o /\ o_amount o' = o_amount o).
      { match goal with |- ht (?F ?l ?a) _ _ _ =>
          enough (HF : forall l' a' s', U (owes_at s) (esc s) s' ->
                   ht (F l' a') s' (fun o' s'' => U (owes_at s) (esc s) s'' /\ o_op o' = o_op a' /\ o_status o' = o_status a' /\ o_amount o' = o_amount a')
                      (U (owes_at s) (esc s))) by (apply HF; assumption) end.
        intros ll. induction ll as [|[newsp [sid sh]] ll IH]; intros a' s2 H2; fix_unfold; [apply ht_ret; auto|].
        ht_call. ht_call. eapply ht_conseq; [apply IH; assumption|cbn; intros o' s' HH; exact HH|auto]. }
      intros o' s2 (H2 & E1' & E2' & E3').
      eapply (ht_bind_inv (U (owes_at s) (esc s))); [|ht_weak|intros [] s3 H3; ht_call].
      apply ht_modify. eapply (U_same _ _ s oid o); [exact HU|exact Eo|exact E1'|exact E2'|exact E3'|exact H2].
Qed.
Global Hint Resolve handle_timeout_order_re : esc.

Lemma end_block_sao_re cx : mok RE true (end_block_sao cx).
Proof. unfold end_block_sao. ro_tac. Qed.

(** ** complete *)
Lemma complete_migration_ht cx oid o sid sh s0 s :
  G s0 -> orders s0 !! oid = Some o -> orders s = orders s0 -> U (owes_at s0) (esc s0) s0 -> U (owes_at s0) (esc s0) s ->
  ht (complete_migration cx oid o sid sh) s
     (fun r s' => U (owes_at s0) (esc s0) s' /\ o_op r.2 = o_op o /\ o_status r.2 = o_status o /\ o_amount r.2 = o_amount o)
     (fun _ => True).
Proof.
  intros Hg Eo Eos HU0 HU. set (f := owes_at s0) in *. set (e := esc s0) in *.
  assert (Hf : forall k, 0 <= f k) by (intros k; apply owes_at_nonneg, Hg).
  unfold complete_migration. destruct (String.eqb (sh_from sh) ""); [ht_fail|].
  apply ht_get. destruct (shard_by_sp s o (sh_from sh)) as [[old_id old]|]; [|exact Logic.I].
  ht_call. cbv zeta. ht_call. ht_call. ht_call.
  eapply (ht_bind_inv (U f e)); [|ht_weak|].
  { apply ht_modify. eapply (U_same f e s0 oid o); [exact HU0|exact Eo|reflexivity|reflexivity|reflexivity|assumption]. }
  intros [] s5 H5.
  eapply (ht_bind_inv (U f e)); [|ht_weak|intros [] s6 H6; apply ht_ret; cbn; auto].
  apply ht_forM; [|exact H5]. intros id s6 H6.
  destruct (orders s !! id) as [x|] eqn:Ex.
  - apply ht_modify. rewrite Eos in Ex.
    eapply (U_same f e s0 id x); [exact HU0|exact Ex|reflexivity|reflexivity|reflexivity|exact H6].
  - apply ht_modify. apply U_insert; [exact H6|cbn; lia|right; split; [discriminate|left; reflexivity]|apply Hf].
Qed.

Lemma sao_complete_tx cx c p oid cid sz ok : tx_ok (sao_complete cx c p oid cid sz ok).
Proof.
  intros s Hg. pose proof (P_init s Hg) as HP. pose proof (U_init s Hg) as HU.
  unfold sao_complete. destruct (sz =? 0); [ht_fail|]. apply ht_get.
  destruct (orders s !! oid) as [o|] eqn:Eo; [|ht_fail].
  destruct (U_lookup _ _ _ _ _ HU Eo) as (Hle & Hamt & Hok).
  destruct (negb _); [ht_fail|]. destruct (shard_by_sp s o p) as [[sid sh]|]; [|ht_fail].
  destruct (sh_status sh =? ShardCompleted); [ht_fail|].
  match goal with |- ht (if ?c then _ else _) _ _ _ => destruct c; [ht_fail|] end.
  destruct (negb _); [ht_fail|]. destruct (metas s !! o_data o) as [meta|]; [|ht_fail].
  match goal with |- ht (if ?c then _ else _) _ _ _ => destruct c; [ht_fail|] end.
  destruct (last_order_blocks s meta); [ht_fail|]. destruct (negb ok); [ht_fail|].
  (* the common tail, for an invariant closed under [RO] *)
  assert (Htail : forall (I : State -> Prop) (sh1 : Shard) (ip o' : Order) s1,
            (forall t t', RO t t' -> I t -> I t') -> I s1 ->
            (forall t, I t -> RE s (t <| orders ::= <[oid := o']> |>)) ->
            ht (let '(sh1, ip, o') := (sh1, ip, o') in
                let sh2 := sh1 <| sh_status := ShardCompleted |> <| sh_cid := cid |> in
                let end_ := u64 (sh_created sh2 + sh_duration sh2) in
                set_expired_shard_block sid end_ ;;;
                extend_meta_duration (o_data o) end_ ;;;
                shard_pledge sid sh2 (o_price ip) ;;;
                (if o_replica o' =? 0 then panic "division by zero" else ret tt) ;;;
                (if Z.quot (o_amount o') (o_replica o') <? 0 then panic "negative coin amount" else ret tt) ;;;
                try_ (increase_reputation p (i64 (Z.quot (o_amount o') (o_replica o')))) ;;;
                modify (fun s => s <| orders ::= <[oid := o']> |>)) s1 (fun _ => RE s) (fun _ => True)).
  { intros I sh1 ip o' s1 Hcl H1 Hfin. cbv beta iota zeta.
    assert (Hro : forall A (m : M A) t, mok RO true m -> I t -> ht m t (fun _ => I) (fun _ => True)).
    { intros A m t Hm Ht. eapply ht_conseq; [apply (ht_mok RO I m t Hm Hcl Ht)|auto|auto]. }
    eapply ht_bind; [apply Hro; [solve [ro_tac]|exact H1]|]. intros [] t1 T1.
    eapply ht_bind; [apply Hro; [solve [ro_tac]|exact T1]|]. intros [] t2 T2.
    eapply ht_bind; [apply Hro; [solve [ro_tac]|exact T2]|]. intros ? t3 T3.
    eapply ht_bind; [apply Hro; [solve [ro_tac]|exact T3]|]. intros [] t4 T4.
    eapply ht_bind; [apply Hro; [solve [ro_tac]|exact T4]|]. intros [] t5 T5.
    eapply ht_bind; [apply Hro; [solve [ro_tac]|exact T5]|]. intros ? t6 T6.
    apply ht_modify. apply Hfin, T6. }
  eapply ht_bind with (Q1 := fun r s1 => exists I : State -> Prop,
       (forall t t', RO t t' -> I t -> I t') /\ I s1 /\ (forall t, I t -> RE s (t <| orders ::= <[oid := r.2]> |>))).
  - destruct (sh_status sh =? ShardMigrating).
    + eapply ht_conseq; [apply (complete_migration_ht cx oid o sid sh s s Hg Eo eq_refl HU HU)| |auto].
      intros [[sh1 ip] o'] s1 (H1 & E1 & E2 & E3). cbn [snd] in *. exists (U (owes_at s) (esc s)).
      split; [exact (U_RO_closed _ _)|]. split; [exact H1|]. intros t Ht. apply U_RE; [exact Hg|].
      eapply (U_same _ _ s oid o); [exact HU|exact Eo|exact E1|exact E2|exact E3|exact Ht].
    + cbv zeta.
      destruct (negb (o_status o =? OrderCompleted)) eqn:Ecomp.
      * apply negb_true_iff, Z.eqb_neq in Ecomp.
        pose proof (order_owes_open o Hok Ecomp) as Hw.
        assert (HW : PW (slack s) (slack s + o_amount o) oid s).
        { pose proof (P_PW (slack s) oid s HP) as H. rewrite (owes_at_lookup _ _ _ Eo), Hw in H. exact H. }
        eapply (ht_bind_inv (PW (slack s) (slack s + o_amount o) oid));
          [eapply (ht_mok RO); [solve [ro_tac]|ro_closed|exact HW]|ht_weak|intros [] s1 H1].
        eapply ht_bind_E; [apply update_meta_ht; exact H1|auto|]. intros [] s2 H2.
        eapply ht_bind_E; [apply market_deposit_ht, (P_init s2 (proj1 H2))|auto|]. intros [] s3 (H3 & Hpos & Hsame).
        apply ht_ret. cbn [snd]. exists (PW (slack s - o_amount o) (slack s) oid).
        split; [exact (PW_RO_closed _ _ _)|]. split.
        { destruct H2 as (_ & Hs2 & Hw2). destruct H3 as (Hg3 & Hs3). split; [exact Hg3|]. rewrite Hsame. lia. }
        intros t Ht. apply P_RE.
        pose (oc := (o <| o_status := OrderCompleted |>) : Order).
        assert (Hc : o_status oc = OrderCompleted) by (cbn; reflexivity).
        assert (Hac : 0 <= o_amount oc) by exact Hamt.
        pose proof (PW_write _ _ _ _ oc Ht Hac (or_introl Hc)) as HH.
        pose proof (order_owes_completed _ Hc) as H0. eapply P_mono; [|exact HH]. lia.
      * apply negb_false_iff, Z.eqb_eq in Ecomp.
        eapply (ht_bind_inv (U (owes_at s) (esc s)));
          [eapply (ht_mok RO); [solve [ro_tac]|ro_closed|exact HU]|ht_weak|intros [] s1 H1].
        apply ht_ret. cbn [snd]. exists (U (owes_at s) (esc s)).
        split; [exact (U_RO_closed _ _)|]. split; [assumption|]. intros t Ht. apply U_RE; [exact Hg|].
        eapply (U_same _ _ s oid o); [exact HU|exact Eo|reflexivity|reflexivity|reflexivity|exact Ht].
  - intros [[sh1 ip] o'] s1 (I & Hcl & H1 & Hfin). cbn [snd] in Hfin. apply (Htail I sh1 ip o' s1 Hcl H1 Hfin).
Qed.

(** * 5. The operations that the escrow account itself cannot issue *)
Definition ev_ok (e : StEvent) : Prop := match e with EvBal a _ => a <> ESC | _ => True end.
Definition did_op_ok (o : DidOp) : Prop :=
  match o with
  | OpBinding _ m => forall c, parse_account_id (b_accid m) = Some c -> c_address c <> ESC
  | OpUpdatePay m => forall c, parse_account_id (p_accid m) = Some c -> c_address c <> ESC
  | OpUpdate _ _ => True
  end.
(* the order escrow is a module account: it signs no transaction, binds to no DID, and the
   staking module does not move its coins *)
Definition not_from_escrow (op : Op) : Prop :=
  match op with
  | OSend f _ _ => f <> ESC
  | OAddVstorage c _ => c <> ESC
  | OStaking evs | OEndBlock evs => Forall ev_ok evs
  | ODid o => did_op_ok o
  | _ => True
  end.

Lemma did_handle_pay chain o d d' :
  did_op_ok o -> did_handle chain o d = inr d' ->
  forall x a, d_pay d' !! x = Some a -> d_pay d !! x = Some a \/ a <> ESC.
Proof.
  intros Hok E x a Hx. destruct o as [now m|now m|m]; cbn [did_handle] in E.
  - apply did_binding_inv in E as (c & B). destruct (B_docver _ _ _ _ _ B) as [(_ & _ & _ & _ & Ep)|(_ & _ & _ & _ & _ & [Ep|(_ & _ & _ & Ep)])].
    + left. rewrite <- Ep. exact Hx.
    + left. rewrite <- Ep. exact Hx.
    + rewrite Ep in Hx. destruct (decide (x = b_pdid m)) as [->|Hne].
      * rewrite lookup_insert in Hx. injection Hx as <-. right. apply (Hok c), (B_parse _ _ _ _ _ B).
      * rewrite lookup_insert_ne in Hx by congruence. left. exact Hx.
  - apply did_update_inv in E as (accl & pay & rm & meth & pid & Uo). left. rewrite <- (U_pay' _ _ _ _ _ _ _ _ _ Uo). exact Hx.
  - apply did_update_pay_inv in E as (meth & pid & c & Po). rewrite (P_pay' _ _ _ _ _ _ _ Po) in Hx.
    destruct (decide (x = p_did m)) as [->|Hne].
    + rewrite lookup_insert in Hx. injection Hx as <-. right. apply (Hok c), (P_acc _ _ _ _ _ _ _ Po).
    + rewrite lookup_insert_ne in Hx by congruence. left. exact Hx.
Qed.

Lemma lift_did_ro cx o : did_op_ok o -> mok RO true (lift_did cx o).
Proof.
  intros Hok s. unfold lift_did. destruct (did_handle (cx_chain cx) o (did s)) as [e|d'] eqn:E; [reflexivity|].
  intros (Ha & Hs & Hp & Hn). split; [|split; [apply Z.le_refl|reflexivity]].
  split; [exact Ha|]. split; [exact Hs|]. split; [|exact Hn].
  intros x a Hx. unfold pay_addr in Hx. cbn in Hx.
  destruct (did_handle_pay _ _ _ _ Hok E x a Hx) as [H|H]; [apply (Hp x a H)|exact H].
Qed.

Lemma st_event_ro e : ev_ok e -> mok RO true (st_event e).
Proof.
  intros Hok. destruct e; cbn [st_event]; ro_tac.
  apply RO_frame; try reflexivity; [|auto].
  unfold esc, balance. cbn. rewrite lookup_insert_ne by (cbn in Hok; congruence). apply Z.le_refl.
Qed.
Lemma staking_tx_ro evs : Forall ev_ok evs -> mok RO true (staking_tx evs).
Proof.
  intros H. unfold staking_tx. induction H as [|e evs He _ IH]; cbn [forM]; [apply mok_ret; exact _|].
  apply mok_bind; [exact _|apply st_event_ro, He|intros _; exact IH].
Qed.

(** * 6. Every step *)
Lemma RE_with_pg s s' : RE s s' -> RE s (with_pg s (pg s')).
Proof. intros _ Hg. split; [exact Hg|apply Z.le_refl]. Qed.
Lemma RE_pg s p : RE s (with_pg s p).
Proof. intros Hg. split; [exact Hg|apply Z.le_refl]. Qed.

Lemma tx_RE cx op m : not_from_escrow op -> tx_of cx op = Some m -> tx_ok m.
Proof.
  intros Hop E. destruct op; cbn [tx_of] in E; try discriminate E; injection E as <-; cbn [not_from_escrow] in Hop.
  - apply mok_tx_ok, mok_RO_RE, lift_did_ro, Hop.
  - apply mok_tx_ok, mok_RO_RE, node_create_ro.
  - apply mok_tx_ok, mok_RO_RE, node_reset_ro.
  - apply mok_tx_ok, mok_RO_RE, add_vstorage_ro, Hop.
  - apply mok_tx_ok, mok_RO_RE, remove_vstorage_ro.
  - apply mok_tx_ok, mok_RO_RE. apply mok_bind; [exact _|apply claim_reward_ro|intros; apply mok_ret; exact _].
  - apply sao_store_tx.
  - apply mok_tx_ok, sao_ready_re.
  - apply sao_complete_tx.
  - apply mok_tx_ok, sao_cancel_re.
  - apply mok_tx_ok, sao_renew_re.
  - apply mok_tx_ok, sao_terminate_re.
  - apply mok_tx_ok, sao_migrate_re.
  - apply mok_tx_ok, mok_RO_RE, sao_update_permission_ro.
  - apply mok_tx_ok, mok_RO_RE, sao_report_faults_ro.
  - apply mok_tx_ok, mok_RO_RE, sao_recover_faults_ro.
  - apply mok_tx_ok, mok_RO_RE, send_strict_ro, Hop.
  - apply mok_tx_ok, mok_RO_RE, staking_tx_ro, Hop.
Qed.

Lemma end_block_re cx evs : Forall ev_ok evs -> mok RE true (end_block cx evs).
Proof.
  intros H. unfold end_block.
  apply mok_bind; [exact _|apply mok_RO_RE, staking_tx_ro, H|intros _].
  apply mok_bind; [exact _|apply end_block_sao_re|intros _].
  apply mok_bind; [exact _|apply mok_RO_RE, end_block_node_ro|intros _; apply mok_RO_RE, end_block_model_ro].
Qed.

Theorem step_RE : forall cx s op, not_from_escrow op -> RE s (fst (step cx s op)).
Proof.
  intros cx s op Hop. rewrite step_state.
  assert (Hblk : forall A (m : M A), mok RE true m -> RE s (block_phase m s).1.1).
  { intros A m Hm. rewrite block_phase_state. specialize (Hm s). destruct (m s); auto; reflexivity. }
  assert (Hdel : forall m, tx_of cx op = Some m -> RE s (deliver m s).1.1).
  { intros m Hm. rewrite deliver_state. intros Hg. pose proof (tx_RE cx op m Hop Hm s Hg) as H. unfold ht in H.
    destruct (m s); [apply H, Hg|apply RE_pg, Hg|split; [exact Hg|lia]|split; [exact Hg|lia]]. }
  destruct op; try (apply Hdel; reflexivity).
  - apply Hblk, mok_RO_RE, begin_block_ro.
  - apply Hblk, end_block_re, Hop.
  - destruct (staking_tx evs s); try reflexivity; apply RE_pg.
Qed.

(* the side conditions are themselves invariant *)
Theorem step_G : forall cx s op, not_from_escrow op -> G s -> G (fst (step cx s op)).
Proof. intros cx s op Hop Hg. apply (step_RE cx s op Hop Hg). Qed.

Theorem step_order_escrow_partial : forall cx s op,
  not_from_escrow op -> Inv_amounts s -> Inv_status s -> pay_not_escrow s -> no_escrow_pledge s ->
  Inv_order_escrow s -> Inv_order_escrow (fst (step cx s op)).
Proof.
  intros cx s op Hop H1 H2 H3 H4 Hinv. apply escrow_slack. apply escrow_slack in Hinv.
  destruct (step_RE cx s op Hop (conj H1 (conj H2 (conj H3 H4)))) as (_ & Hs). lia.
Qed.

Theorem step_amounts : forall cx s op,
  not_from_escrow op -> Inv_amounts s -> Inv_status s -> pay_not_escrow s -> no_escrow_pledge s ->
  Inv_amounts (fst (step cx s op)) /\ Inv_status (fst (step cx s op)) /\ pay_not_escrow (fst (step cx s op)) /\
  no_escrow_pledge (fst (step cx s op)).
Proof. intros cx s op Hop H1 H2 H3 H4. apply (step_G cx s op Hop (conj H1 (conj H2 (conj H3 H4)))). Qed.

(** lifted to runs *)
Definition trace_ok (tr : list (Ctx * Op)) : Prop := Forall (fun co => not_from_escrow co.2) tr.

Theorem run_order_escrow_partial : forall tr s,
  trace_ok tr -> G s -> Inv_order_escrow s -> G (run tr s) /\ Inv_order_escrow (run tr s).
Proof.
  intros tr. induction tr as [|[cx op] tr IH]; intros s Htr Hg Hinv; [split; assumption|].
  apply Forall_cons in Htr as (Hop & Htr). cbn in Hop. unfold run. cbn [fold_left]. apply IH; [exact Htr| |].
  - apply step_G; assumption.
  - destruct Hg as (H1 & H2 & H3 & H4). apply step_order_escrow_partial; assumption.
Qed.

(** * 7. A refund of an unsettled order cannot fail for lack of escrowed funds *)
Lemma owes_at_le_sum s k : Inv_amounts s -> owes_at s k <= sum_map order_owes (orders s).
Proof.
  intros Ha. unfold owes_at, at_key. destruct (orders s !! k) as [o|] eqn:E.
  - pose proof (sum_map_delete order_owes (orders s) k) as H. rewrite E in H.
    assert (0 <= sum_map order_owes (delete k (orders s))); [|lia].
    apply sum_map_nonneg. intros j x Hj. apply lookup_delete_Some in Hj as (_ & Hj). apply order_owes_nonneg, (Ha j x Hj).
  - apply sum_map_nonneg. intros j x Hj. apply order_owes_nonneg, (Ha j x Hj).
Qed.

Theorem refund_never_short : forall s oid o,
  Inv_amounts s -> Inv_order_escrow s -> orders s !! oid = Some o ->
  o_op o <> 3 -> (o_status o = OrderPending \/ o_status o = OrderDataReady) ->
  o_amount o <= balance s ESC /\
  refund_order oid s =
    match pay_addr s (Money.paydid_of o) with
    | None => Err "PayAddrNotSet" s
    | Some payer => if o_amount o <=? 0 then Err "invalid coins" s else Ok tt (move ESC payer (o_amount o) s)
    end.
Proof.
  intros s oid o Ha Hinv Eo Hop Hst.
  assert (Hle : o_amount o <= balance s ESC).
  { destruct (open_owes o Hop Hst) as (Hw & _). pose proof (owes_at_le_sum s oid Ha) as H.
    rewrite (owes_at_lookup _ _ _ Eo), Hw in H. unfold Inv_order_escrow in Hinv. lia. }
  split; [exact Hle|].
  unfold refund_order, bind, get. cbv beta. rewrite Eo. fold (Money.paydid_of o).
  destruct (pay_addr s (Money.paydid_of o)) as [payer|]; [|reflexivity].
  unfold send_strict. destruct (o_amount o <=? 0); [reflexivity|].
  destruct (balance s ESC <? o_amount o) eqn:E; [apply Z.ltb_lt in E; lia|reflexivity].
Qed.

Corollary refund_never_short_err : forall s oid o e s',
  Inv_amounts s -> Inv_order_escrow s -> orders s !! oid = Some o ->
  o_op o <> 3 -> (o_status o = OrderPending \/ o_status o = OrderDataReady) ->
  refund_order oid s = Err e s' -> e <> "insufficient funds".
Proof.
  intros s oid o e s' Ha Hinv Eo Hop Hst E.
  destruct (refund_never_short s oid o Ha Hinv Eo Hop Hst) as (_ & H). rewrite H in E.
  destruct (pay_addr s _); [destruct (_ <=? 0)|]; try discriminate E; injection E as <- _; discriminate.
Qed.

(** * 8. Non-vacuity and the need for the hypotheses *)
Lemma G_dec s :
  map_Forall (fun _ o => 0 <= o_amount o /\ status_ok o) (orders s) ->
  map_Forall (fun _ a => a <> ESC) (d_pay (did s)) -> pledges s !! ESC = None -> G s.
Proof.
  intros H1 H2 H3. split; [intros k o E; apply (H1 k o E)|]. split; [intros k o E; apply (H1 k o E)|].
  split; [intros x a E; apply (H2 x a E)|exact H3].
Qed.
Global Instance status_ok_dec o : Decision (status_ok o).
Proof. unfold status_ok. apply _. Defined.

Ltac decide_tac := apply (bool_decide_unpack _); vm_compute; exact Logic.I.

(* the state after a Store in the example of Money.v: one order in status DataReady that owes
   3600, one waiting shard, one pledge, 3600 in escrow *)
Example escrow_nonvacuous :
  G Money.ex_s1 /\ Inv_order_escrow Money.ex_s1 /\ slack Money.ex_s1 = 0 /\
  (exists o, orders Money.ex_s1 !! 1 = Some o /\ order_owes o = 3600 /\ o_status o = OrderDataReady) /\
  (exists sh, shards Money.ex_s1 !! 1 = Some sh) /\ (exists p, pledges Money.ex_s1 !! "S" = Some p) /\
  not_from_escrow (OStore Money.ex_msg) /\ not_from_escrow (OCancel "G" "G" 1) /\
  Inv_order_escrow Money.ex_s2.
Proof.
  split; [apply G_dec; [decide_tac|decide_tac|vm_compute; reflexivity]|].
  split; [unfold Inv_order_escrow; vm_compute; discriminate|].
  split; [vm_compute; reflexivity|].
  split; [eexists; split; [vm_compute; reflexivity|split; vm_compute; reflexivity]|].
  split; [eexists; vm_compute; reflexivity|]. split; [eexists; vm_compute; reflexivity|].
  split; [exact Logic.I|]. split; [exact Logic.I|]. unfold Inv_order_escrow. vm_compute. discriminate.
Qed.

(* (a) [not_from_escrow] is needed: in the model any address can be the sender of a bank
   transfer; a transfer out of the escrow account leaves the order unfunded. (On the chain a
   module account has no key and cannot sign.) *)
Theorem step_order_escrow_refuted_sender : exists cx s op,
  G s /\ Inv_order_escrow s /\ ~ not_from_escrow op /\ ~ Inv_order_escrow (fst (step cx s op)).
Proof.
  exists Money.ex_cx, Money.ex_s1, (OSend ESC "X" 100).
  split; [apply escrow_nonvacuous|]. split; [apply escrow_nonvacuous|].
  split; [intros H; apply H; reflexivity|]. unfold Inv_order_escrow. vm_compute. intros H. apply H. reflexivity.
Qed.

(* (b) [pay_not_escrow] is needed: a DID whose payment address is the escrow account pays
   itself, and the new order is not funded *)
Definition open_order (amt : Z) : Order :=
  mkOrder "G" "did:key:K1" "G" "cid" 3600 OrderPending 1 [] amt 1 1 0 100 "other" "c" PRICE "".
Definition exq_s0 : State := Money.ex_state ESC {[ 0 := open_order 10000 ]}.
Theorem step_order_escrow_refuted_payer : exists cx s op,
  not_from_escrow op /\ Inv_amounts s /\ Inv_status s /\ no_escrow_pledge s /\ ~ pay_not_escrow s /\
  Inv_order_escrow s /\ ~ Inv_order_escrow (fst (step cx s op)).
Proof.
  exists Money.ex_cx, exq_s0, (OStore Money.ex_msg).
  split; [exact Logic.I|].
  split; [intros k o E; assert (H : map_Forall (fun _ o => 0 <= o_amount o) (orders exq_s0)) by decide_tac; apply (H k o E)|].
  split; [intros k o E; assert (H : map_Forall (fun _ o => status_ok o) (orders exq_s0)) by decide_tac; apply (H k o E)|].
  split; [vm_compute; reflexivity|].
  split; [intros H; apply (H "did:key:K1" ESC); vm_compute; reflexivity|].
  split; [unfold Inv_order_escrow; vm_compute; discriminate|].
  unfold Inv_order_escrow. vm_compute. intros H. apply H. reflexivity.
Qed.

(* (c) [Inv_status] is needed: an order in a status the chain never stores (InProgress) is not
   counted as owing, yet its first completion moves its amount out of the escrow *)
Definition exst_s0 : State :=
  Money.ex_s1 <| orders ::= (fun om => <[0 := open_order 3600]>
     (match om !! 1 with Some o => <[1 := o <| o_status := OrderInProgress |>]> om | None => om end)) |>.
Theorem step_order_escrow_refuted_status : exists cx s op,
  not_from_escrow op /\ Inv_amounts s /\ ~ Inv_status s /\ pay_not_escrow s /\ no_escrow_pledge s /\
  Inv_order_escrow s /\ ~ Inv_order_escrow (fst (step cx s op)).
Proof.
  exists Money.ex_cx, exst_s0, (OComplete "S" "S" 1 "cid" 1000000 true).
  split; [exact Logic.I|].
  split; [intros k o E; assert (H : map_Forall (fun _ o => 0 <= o_amount o) (orders exst_s0)) by decide_tac; apply (H k o E)|].
  split.
  { intros H. assert (E : exists o, orders exst_s0 !! 1 = Some o /\ o_status o = OrderInProgress /\ o_op o = 1)
      by (eexists; split; [vm_compute; reflexivity|split; reflexivity]).
    destruct E as (o & E & E1 & E2). destruct (H 1 o E) as [Hc|(_ & [Hc|Hc])]; rewrite E1 in Hc; discriminate. }
  split; [intros x a E; assert (H : map_Forall (fun _ a => a <> ESC) (d_pay (did exst_s0))) by decide_tac; apply (H x a E)|].
  split; [vm_compute; reflexivity|].
  split; [unfold Inv_order_escrow; vm_compute; discriminate|].
  unfold Inv_order_escrow. vm_compute. intros H. apply H. reflexivity.
Qed.

(** * 9. C16: at most one unfinished storage order per data model -- refuted *)
(* The full statement
     forall cx s op, Inv_one_in_flight s -> Inv_one_in_flight (fst (step cx s op))
   and its lifting to runs from a state without orders are FALSE of the model (and of the
   code).  The Store handler accepts a new order for an existing model only when the order
   recorded in the metadata is completed -- but when the metadata expires (model end blocker,
   x/model/abic.go) it is deleted without regard to an order that is still waiting for its
   shards.  A later Store of the same data id finds no metadata, creates it afresh and
   opens a second order, while the first one is still unfinished (and still escrowed). *)
Definition fl_s0 : State := Money.ex_s0 <| nparams := mkNParams 0 0 0 1 1 0 "" 0 0 0 1000000 |>.
Definition cx_at (h : Z) : Ctx := {| cx_height := h; cx_chain := "c"; cx_time := 0; cx_seed := 7 |}.
Definition fl_tr : list (Ctx * Op) :=
  [(cx_at 5, OStore Money.ex_msg); (cx_at 3605, OEndBlock []); (cx_at 3606, OStore Money.ex_msg)].
Definition fl_s2 : State := run [(cx_at 5, OStore Money.ex_msg); (cx_at 3605, OEndBlock [])] fl_s0.
Definition fl_s3 : State := run fl_tr fl_s0.

Lemma fl_s3_two : ~ Inv_one_in_flight fl_s3.
Proof.
  intros H.
  assert (Em : exists m, metas fl_s3 !! Money.ex_data = Some m) by (eexists; vm_compute; reflexivity).
  assert (E1 : exists o, orders fl_s3 !! 1 = Some o /\ in_flight Money.ex_data o = true)
    by (eexists; split; vm_compute; reflexivity).
  assert (E2 : exists o, orders fl_s3 !! 2 = Some o /\ in_flight Money.ex_data o = true)
    by (eexists; split; vm_compute; reflexivity).
  destruct Em as (m & Em). destruct E1 as (o1 & E1 & F1). destruct E2 as (o2 & E2 & F2).
  pose proof (H _ _ Em 1 2 o1 o2 E1 E2 F1 F2) as Hc. discriminate Hc.
Qed.

Lemma fl_s0_good : G fl_s0 /\ Inv_ids fl_s0 /\ Inv_order_escrow fl_s0 /\ Inv_one_in_flight fl_s0 /\ orders fl_s0 = ∅.
Proof.
  split; [apply G_dec; [decide_tac|decide_tac|vm_compute; reflexivity]|].
  split; [split; intros id x Hx; cbn in Hx; rewrite lookup_empty in Hx; discriminate|].
  split; [unfold Inv_order_escrow; vm_compute; discriminate|].
  split; [|reflexivity]. intros d m Hm. cbn in Hm. rewrite lookup_empty in Hm. discriminate.
Qed.

Theorem run_one_in_flight_refuted : exists tr s,
  trace_ok tr /\ G s /\ Inv_ids s /\ orders s = ∅ /\ Inv_one_in_flight s /\ ~ Inv_one_in_flight (run tr s).
Proof.
  exists fl_tr, fl_s0. destruct fl_s0_good as (H1 & H2 & _ & H4 & H5).
  split; [repeat constructor|]. repeat (split; [assumption|]). exact fl_s3_two.
Qed.

Theorem step_one_in_flight_refuted : exists cx s op,
  not_from_escrow op /\ G s /\ Inv_order_escrow s /\ Inv_one_in_flight s /\ ~ Inv_one_in_flight (fst (step cx s op)).
Proof.
  exists (cx_at 3606), fl_s2, (OStore Money.ex_msg).
  split; [exact Logic.I|].
  destruct fl_s0_good as (H1 & _ & H3 & _ & _).
  destruct (run_order_escrow_partial [(cx_at 5, OStore Money.ex_msg); (cx_at 3605, OEndBlock [])] fl_s0) as (Hg & Hi);
    [repeat constructor|exact H1|exact H3|].
  split; [exact Hg|]. split; [exact Hi|]. split.
  - assert (E : metas fl_s2 = ∅) by (apply map_to_list_empty_iff; vm_compute; reflexivity).
    intros d m Hm. rewrite E, lookup_empty in Hm. discriminate.
  - exact fl_s3_two.
Qed.

(* the escrow, on the other hand, still covers both orders *)
Example fl_s3_escrow : Inv_order_escrow fl_s3 /\ balance fl_s3 ESC = 7200.
Proof.
  split; [|vm_compute; reflexivity].
  destruct fl_s0_good as (H1 & _ & H3 & _ & _). apply (run_order_escrow_partial fl_tr fl_s0); [repeat constructor|exact H1|exact H3].
Qed.

(* EXPORTED *)
Theorem Escrow_step_order_escrow_partial : forall cx s op,
  not_from_escrow op -> Inv_amounts s -> Inv_status s -> pay_not_escrow s -> no_escrow_pledge s ->
  Inv_order_escrow s -> Inv_order_escrow (fst (step cx s op)).
Proof. exact step_order_escrow_partial. Qed.
Theorem Escrow_step_side_conditions : forall cx s op,
  not_from_escrow op -> Inv_amounts s -> Inv_status s -> pay_not_escrow s -> no_escrow_pledge s ->
  Inv_amounts (fst (step cx s op)) /\ Inv_status (fst (step cx s op)) /\ pay_not_escrow (fst (step cx s op)) /\
  no_escrow_pledge (fst (step cx s op)).
Proof. exact step_amounts. Qed.
Theorem Escrow_run_order_escrow_partial : forall tr s,
  trace_ok tr -> G s -> Inv_order_escrow s -> G (run tr s) /\ Inv_order_escrow (run tr s).
Proof. exact run_order_escrow_partial. Qed.
Theorem Escrow_refund_never_short : forall s oid o,
  Inv_amounts s -> Inv_order_escrow s -> orders s !! oid = Some o ->
  o_op o <> 3 -> (o_status o = OrderPending \/ o_status o = OrderDataReady) ->
  o_amount o <= balance s ESC /\
  refund_order oid s =
    match pay_addr s (Money.paydid_of o) with
    | None => Err "PayAddrNotSet" s
    | Some payer => if o_amount o <=? 0 then Err "invalid coins" s else Ok tt (move ESC payer (o_amount o) s)
    end.
Proof. exact refund_never_short. Qed.
Theorem Escrow_refund_never_short_err : forall s oid o e s',
  Inv_amounts s -> Inv_order_escrow s -> orders s !! oid = Some o ->
  o_op o <> 3 -> (o_status o = OrderPending \/ o_status o = OrderDataReady) ->
  refund_order oid s = Err e s' -> e <> "insufficient funds".
Proof. exact refund_never_short_err. Qed.
Theorem Escrow_refuted_sender : exists cx s op,
  G s /\ Inv_order_escrow s /\ ~ not_from_escrow op /\ ~ Inv_order_escrow (fst (step cx s op)).
Proof. exact step_order_escrow_refuted_sender. Qed.
Theorem Escrow_refuted_payer : exists cx s op,
  not_from_escrow op /\ Inv_amounts s /\ Inv_status s /\ no_escrow_pledge s /\ ~ pay_not_escrow s /\
  Inv_order_escrow s /\ ~ Inv_order_escrow (fst (step cx s op)).
Proof. exact step_order_escrow_refuted_payer. Qed.
Theorem Escrow_refuted_status : exists cx s op,
  not_from_escrow op /\ Inv_amounts s /\ ~ Inv_status s /\ pay_not_escrow s /\ no_escrow_pledge s /\
  Inv_order_escrow s /\ ~ Inv_order_escrow (fst (step cx s op)).
Proof. exact step_order_escrow_refuted_status. Qed.
Theorem Escrow_run_one_in_flight_refuted : exists tr s,
  trace_ok tr /\ G s /\ Inv_ids s /\ orders s = ∅ /\ Inv_one_in_flight s /\ ~ Inv_one_in_flight (run tr s).
Proof. exact run_one_in_flight_refuted. Qed.
Theorem Escrow_step_one_in_flight_refuted : exists cx s op,
  not_from_escrow op /\ G s /\ Inv_order_escrow s /\ Inv_one_in_flight s /\ ~ Inv_one_in_flight (fst (step cx s op)).
Proof. exact step_one_in_flight_refuted. Qed.
Print Assumptions Escrow_step_order_escrow_partial.
Print Assumptions Escrow_step_side_conditions.
Print Assumptions Escrow_run_order_escrow_partial.
Print Assumptions Escrow_refund_never_short.
Print Assumptions Escrow_refund_never_short_err.
Print Assumptions escrow_nonvacuous.
Print Assumptions Escrow_refuted_sender.
Print Assumptions Escrow_refuted_payer.
Print Assumptions Escrow_refuted_status.
Print Assumptions Escrow_run_one_in_flight_refuted.
Print Assumptions Escrow_step_one_in_flight_refuted.
