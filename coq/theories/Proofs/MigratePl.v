(* Placement at the migration call site (C15): every shard a Migrate transaction creates is a Migrating shard
   handed over by the requesting provider to a provider that is eligible at that moment and differs from the
   provider of every other shard the order lists -- including shards the same transaction created earlier. *)
From SaoVerif Require Import Base.Prelude Base.Ints Base.Dec Model.Did Model.Types Model.Monad Model.Bank Model.Select
     Model.Node Model.Storage Model.Sao Proofs.Frame Proofs.SelectFacts Proofs.SelectApp Proofs.Hoare Proofs.Placement.
From RecordUpdate Require Import RecordUpdate.
Import RecordSetNotations.

Lemma random_sp_m_exact cx count ignore size t sps t1 :
  random_sp_m cx count ignore size t = Ok sps t1 -> exists r, t1 = t <| round := r |>.
Proof.
  unfold random_sp_m, bind, get. destruct (random_sp _ _ _ _ _ _ _) as [[c r]| |]; try discriminate.
  unfold modify, ret. intros H. injection H as _ <-. eexists; reflexivity.
Qed.

Section Migrate.
  Context (cx : Ctx) (provider : string) (s : State) (Hseed : 0 <= cx_seed cx).

  Definition good (t : State) (id : Z) (sh' : Shard) : Prop :=
    sh_status sh' = ShardMigrating /\ sh_from sh' = provider /\
    (exists o', orders t !! sh_order sh' = Some o' /\ In id (o_shards o') /\
       forall id0 sh0, In id0 (o_shards o') -> id0 <> id -> shards t !! id0 = Some sh0 -> sh_sp sh0 <> sh_sp sh') /\
    (exists n, nodes s !! sh_sp sh' = Some n /\ eligible (pledges s) (i64 (sh_size sh')) (mkCand (sh_sp sh') n) = true).

  (* the invariant of the loops, with a budget of [n] further shards before the 64-bit counter could wrap *)
  Definition J (n : nat) (t : State) : Prop :=
    nodes t = nodes s /\ pledges t = pledges s /\ metas t = metas s /\
    (forall id sh, shards s !! id = Some sh -> shards t !! id = Some sh) /\
    fresh_above t /\ 0 <= shard_count t /\ shard_count t + Z.of_nat n < two64 /\
    (forall oid o id, orders t !! oid = Some o -> In id (o_shards o) -> id < shard_count t) /\
    (forall id sh', shards t !! id = Some sh' -> shards s !! id = None -> good t id sh').

  Lemma J_weaken n m t : (m <= n)%nat -> J n t -> J m t.
  Proof. intros Hle (H1 & H2 & H3 & H4 & H5 & H6 & H7 & H8 & H9). refine (conj H1 (conj H2 (conj H3 (conj H4 (conj H5 (conj H6 (conj _ (conj H8 H9)))))))). lia. Qed.

  Definition go (meta_unused : unit) :=
    fix go (rev_orders : list Z) (commits : list string) : M unit :=
      match rev_orders with
      | [] => ret tt
      | oid :: rest =>
          s1 <- get ;;
          match orders s1 !! oid with
          | None => go rest commits
          | Some o =>
              if in_list (o_commit o) commits then go rest commits else
              let commits' := o_commit o :: commits in
              match shard_by_sp s1 o provider with
              | None => go rest commits'
              | Some (old_id, old) =>
                  if negb (sh_status old =? ShardCompleted) then go rest commits' else
                  let present := omap (fun id => shards s1 !! id) (o_shards o) in
                  if existsb (fun sh => String.eqb (sh_from sh) provider) present then go rest commits' else
                  sps <- random_sp_m cx 1 (map sh_sp present) (i64 (sh_size old)) ;;
                  match sps with
                  | [] => go rest commits'
                  | to :: _ =>
                      nid <- append_shard (mkShard oid ShardMigrating (sh_size old) (sh_cid old) 0 provider to 0 0 []) ;;
                      modify (fun s => s <| orders ::= <[oid := o <| o_shards := o_shards o ++ [nid] |>]> |>) ;;;
                      go rest commits'
                  end
              end
          end
      end.

  Lemma go_J : forall rest commits n,
    ht (J (n + length rest)) (go tt rest commits) (fun _ => J n) (J n).
  Proof.
    induction rest as [|oid rest IH]; intros commits n.
    { cbn [go]. apply ht_ret. intros t Ht. eapply J_weaken; [|exact Ht]. lia. }
    assert (Hskip : forall c, ht (J (n + length (oid :: rest))) (go tt rest c) (fun _ => J n) (J n)).
    { intros c. eapply ht_pre; [apply IH|]. intros t Ht. eapply J_weaken; [|exact Ht]. cbn [length]. lia. }
    cbn [go]. apply ht_bind_get. intros t Ht.
    assert (Hskip' : forall c, ht (eq t) (go tt rest c) (fun _ => J n) (J n)).
    { intros c. eapply ht_pre; [apply Hskip|]. intros ? <-. exact Ht. }
    destruct (orders t !! oid) as [o|] eqn:Eo; [|apply Hskip'].
    destruct (in_list _ _); [apply Hskip'|]. cbv zeta.
    destruct (shard_by_sp t o provider) as [[old_id old]|] eqn:Esp; [|apply Hskip'].
    destruct (negb _); [apply Hskip'|].
    set (present := omap (fun id => shards t !! id) (o_shards o)).
    destruct (existsb _ present) eqn:Efrom; [apply Hskip'|].
    intros t0 <-. unfold bind at 1.
    destruct (random_sp_m cx 1 (map sh_sp present) (i64 (sh_size old)) t) as [sps t1|e t1|e|] eqn:Er; try exact I.
    2:{ (* random_sp_m never returns an error *)
        unfold random_sp_m, bind, get in Er. destruct (random_sp _ _ _ _ _ _ _) as [[c r]| |]; discriminate. }
    destruct (random_sp_m_spec _ _ _ _ _ _ _ Hseed Er) as (_ & Hall & _).
    destruct (random_sp_m_exact _ _ _ _ _ _ _ Er) as (r & ->).
    assert (Ht1 : J (n + length (oid :: rest)) (t <| round := r |>)).
    { destruct Ht as (H1 & H2 & H3 & H4 & H5 & H6 & H7 & H8 & H9). exact (conj H1 (conj H2 (conj H3 (conj H4 (conj H5 (conj H6 (conj H7 (conj H8 H9)))))))). }
    destruct sps as [|to sps].
    { eapply (Hskip _ _ Ht1). }
    destruct (Hall to (or_introl eq_refl)) as (nd & Hnd & Hel & Hig).
    (* the append and the re-listing, as one state *)
    set (t1 := t <| round := r |>) in *.
    set (nid := shard_count t1).
    set (nsh := mkShard oid ShardMigrating (sh_size old) (sh_cid old) 0 provider to 0 0 []).
    set (t2 := t1 <| shards ::= <[nid := nsh]> |> <| shard_count := u64 (nid + 1) |>
                  <| orders ::= <[oid := o <| o_shards := o_shards o ++ [nid] |>]> |>).
    change (match go tt rest (o_commit o :: commits) t2 with Ok a t' => J n t' | Err _ t' => J n t' | _ => True end).
    apply (IH (o_commit o :: commits) n t2).
    destruct Ht as (H1 & H2 & H3 & H4 & H5 & H6 & H7 & H8 & H9).
    assert (Ecnt : shard_count t1 = shard_count t) by reflexivity.
    assert (Hnid : nid = shard_count t) by reflexivity.
    assert (Hu : u64 (nid + 1) = nid + 1).
    { unfold u64. rewrite Z.mod_small; [reflexivity|]. cbn [length] in H7. unfold two64 in *. lia. }
    assert (Hnone : shards t !! nid = None) by (apply H5; lia).
    assert (Ec2 : shard_count t2 = nid + 1) by (rewrite <- Hu; reflexivity).
    assert (Es2 : shards t2 = <[nid := nsh]> (shards t)) by reflexivity.
    assert (Eo2 : orders t2 = <[oid := o <| o_shards := o_shards o ++ [nid] |>]> (orders t)) by reflexivity.
    unfold J. rewrite Ec2, Es2, Eo2.
    split; [exact H1|]. split; [exact H2|]. split; [exact H3|].
    split.
    { intros id sh Hs. destruct (decide (id = nid)) as [->|Hne].
      + rewrite (H4 _ _ Hs) in Hnone. discriminate.
      + rewrite lookup_insert_ne by congruence. apply H4; exact Hs. }
    split.
    { intros id Hid. rewrite Ec2 in Hid. rewrite Es2. rewrite lookup_insert_ne by lia. apply H5. lia. }
    split; [lia|]. split; [cbn [length] in H7; lia|].
    split.
    { intros oid' o' id Ho' Hin.
      destruct (decide (oid' = oid)) as [->|Hne].
      + rewrite lookup_insert in Ho'. injection Ho' as <-. cbn in Hin. apply in_app_or in Hin as [Hin|[<-|[]]]; [|lia].
        specialize (H8 _ _ _ Eo Hin). lia.
      + rewrite lookup_insert_ne in Ho' by congruence. specialize (H8 _ _ _ Ho' Hin). lia. }
    intros id sh' Hsh Hold. unfold good. rewrite Es2, Eo2.
      destruct (decide (id = nid)) as [->|Hne].
    - rewrite lookup_insert in Hsh. injection Hsh as <-. cbn [sh_status sh_from sh_order sh_sp sh_size nsh].
        split; [reflexivity|]. split; [reflexivity|]. split.
        * exists (o <| o_shards := o_shards o ++ [nid] |>). rewrite lookup_insert. split; [reflexivity|].
          split; [cbn; apply in_or_app; right; left; reflexivity|].
          intros id0 sh0 Hin0 Hne0 Hs0. cbn in Hin0. apply in_app_or in Hin0 as [Hin0|[<-|[]]]; [|congruence].
          rewrite lookup_insert_ne in Hs0 by congruence.
          intros Heq. assert (Hig' : in_list to (map sh_sp present) = true).
          { apply In_in_list'. rewrite <- Heq. apply in_map. subst present. apply elem_of_list_In, elem_of_list_omap.
            exists id0. split; [apply elem_of_list_In; exact Hin0|exact Hs0]. }
          congruence.
        * exists nd. rewrite <- H1, <- H2. split; [exact Hnd|exact Hel].
    - rewrite lookup_insert_ne in Hsh by congruence.
        destruct (H9 _ _ Hsh Hold) as (G1 & G2 & (o1 & Go1 & Gin & Gd) & G4).
        split; [exact G1|]. split; [exact G2|]. split; [|exact G4]. cbn.
        destruct (decide (sh_order sh' = oid)) as [Eoid|Hoid].
        * (* the order already lists a shard handed over by this provider: the iteration would have skipped it *)
          exfalso. rewrite Eoid, Eo in Go1. injection Go1 as <-.
          assert (Hex : existsb (fun sh => String.eqb (sh_from sh) provider) present = true).
          { apply existsb_exists. exists sh'. split; [|rewrite G2; apply String.eqb_refl].
            subst present. apply elem_of_list_In, elem_of_list_omap. exists id. split; [apply elem_of_list_In; exact Gin|exact Hsh]. }
          congruence.
        * exists o1. rewrite lookup_insert_ne by congruence. split; [exact Go1|]. split; [exact Gin|].
          intros id0 sh0 Hin0 Hne0 Hs0.
          destruct (decide (id0 = nid)) as [->|Hne1].
          -- specialize (H8 _ _ _ Go1 Hin0). lia.
          -- rewrite lookup_insert_ne in Hs0 by congruence. eapply Gd; eauto.
  Qed.

  Definition budget (d : string) : nat := match metas s !! d with Some m => length (m_orders m) | None => O end.

  Lemma migrate_one_J d n : ht (J (n + budget d)) (migrate_one cx provider d) (fun _ => J n) (J n).
  Proof.
    unfold migrate_one. apply ht_bind_get. intros t Ht.
    assert (Em : metas t = metas s) by apply Ht. rewrite Em. unfold budget in Ht.
    destruct (metas s !! d) as [meta|].
    - change (ht (eq t) (go tt (rev (m_orders meta)) []) (fun _ => J n) (J n)).
      eapply ht_pre; [apply go_J|]. intros ? <-. rewrite rev_length. exact Ht.
    - apply ht_ret. intros ? <-. eapply J_weaken; [|exact Ht]. lia.
  Qed.

  Fixpoint budgets (data : list string) : nat := match data with [] => O | d :: r => (budget d + budgets r)%nat end.

  Lemma migrate_all_J : forall data n, ht (J (n + budgets data)) (forM data (migrate_one cx provider)) (fun _ => J n) (J n).
  Proof.
    induction data as [|d r IH]; intros n; cbn [forM budgets].
    - apply ht_ret. intros t Ht. eapply J_weaken; [|exact Ht]. lia.
    - eapply ht_bind.
      + eapply ht_conseq; [apply (migrate_one_J d (n + budgets r))| | |].
        * intros t Ht. eapply J_weaken; [|exact Ht]. lia.
        * intros a t Ht. exact Ht.
        * intros t Ht. eapply J_weaken; [|exact Ht]. lia.
      + intros []. apply IH.
  Qed.
End Migrate.

(* Every shard a Migrate transaction creates: Migrating, handed over by the requesting provider, listed by its
   order, on a provider eligible for its size and different from the provider of every other shard that order
   lists when the transaction ends. The side conditions hold in every reachable state: the shard counter is above
   every shard and every listed id ([fresh_above], Proofs/Ids.v) and far below 2^64. *)
Theorem migrate_new_shards_fresh : forall cx creator provider data s s',
  sao_migrate cx creator provider data s = Ok tt s' -> 0 <= cx_seed cx ->
  fresh_above s -> 0 <= shard_count s -> shard_count s + Z.of_nat (budgets s data) < two64 ->
  (forall oid o id, orders s !! oid = Some o -> In id (o_shards o) -> id < shard_count s) ->
  forall id sh', shards s' !! id = Some sh' -> shards s !! id = None -> good provider s s' id sh'.
Proof.
  intros cx creator provider data s s' H Hseed Hf H0 Hb Hl id sh' Hnew Hold.
  unfold sao_migrate, bind, get in H.
  destruct (negb _); [discriminate|].
  assert (HJ : J provider s (0 + budgets s data) s).
  { unfold J. refine (conj eq_refl (conj eq_refl (conj eq_refl (conj (fun _ _ H => H) (conj Hf (conj H0 (conj _ (conj Hl _)))))))); [lia|].
    intros i x Hx Hn. rewrite Hx in Hn. discriminate. }
  pose proof (migrate_all_J cx provider s Hseed data 0%nat s HJ) as Hm. rewrite H in Hm.
  destruct Hm as (_ & _ & _ & _ & _ & _ & _ & _ & H9). exact (H9 id sh' Hnew Hold).
Qed.
Print Assumptions migrate_new_shards_fresh.

(** ** non-vacuity: in the state of RefInt.W after "T" completed its shard, "T" asks to migrate the model; a new
    Migrating shard 2 goes to "S"; the side conditions of the theorem hold there *)
From SaoVerif Require Import Model.Inv Model.Monitors Proofs.RefInt.
Example migrate_nonvacuous :
  exists s', sao_migrate (W.cxh 7) "T" "T" [W.data] W.s2 = Ok tt s' /\ shards W.s2 !! 2 = None /\
    (exists sh', shards s' !! 2 = Some sh' /\ sh_sp sh' = "S" /\ sh_status sh' = ShardMigrating /\ good "T" W.s2 s' 2 sh') /\
    fresh_above W.s2 /\ shard_count W.s2 = 2 /\ budgets W.s2 [W.data] = 1%nat /\
    (forall oid o id, orders W.s2 !! oid = Some o -> In id (o_shards o) -> id < shard_count W.s2).
Proof.
  assert (Hf : fresh_above W.s2).
  { intros id Hid. change (shard_count W.s2) with 2 in Hid.
    destruct (shards W.s2 !! id) as [x|] eqn:E; [|reflexivity]. exfalso.
    assert (Hm : mon_ids W.s2 = true) by (vm_compute; reflexivity).
    unfold mon_ids in Hm. apply andb_prop in Hm as [_ Hm]. pose proof (all_z_spec _ _ Hm id x E) as Hb. cbn beta in Hb.
    apply andb_prop in Hb as [_ Hb]. apply Z.ltb_lt in Hb. change (shard_count W.s2) with 2 in Hb. lia. }
  assert (Hl : forall oid o id, orders W.s2 !! oid = Some o -> In id (o_shards o) -> id < shard_count W.s2).
  { intros oid o id Ho Hin.
    assert (Hm : all_z (orders W.s2) (fun _ o => forallb (fun id => id <? shard_count W.s2) (o_shards o)) = true) by (vm_compute; reflexivity).
    pose proof (all_z_spec _ _ Hm oid o Ho) as Hb. cbn beta in Hb. rewrite forallb_forall in Hb. apply Z.ltb_lt, Hb, Hin. }
  assert (Hrun : exists s', sao_migrate (W.cxh 7) "T" "T" [W.data] W.s2 = Ok tt s') by (eexists; vm_compute; reflexivity).
  destruct Hrun as (s' & Hrun). exists s'.
  assert (Hnone : shards W.s2 !! 2 = None) by (vm_compute; reflexivity).
  assert (Hb : budgets W.s2 [W.data] = 1%nat) by (vm_compute; reflexivity).
  split; [exact Hrun|]. split; [exact Hnone|]. split.
  - assert (Hsh : exists sh', shards s' !! 2 = Some sh' /\ sh_sp sh' = "S" /\ sh_status sh' = ShardMigrating).
    { revert Hrun. vm_compute. intros H. injection H as <-. eexists. split; [reflexivity|]. split; reflexivity. }
    destruct Hsh as (sh' & Hs & Hsp & Hst). exists sh'. split; [exact Hs|]. split; [exact Hsp|]. split; [exact Hst|].
    eapply (migrate_new_shards_fresh (W.cxh 7) "T" "T" [W.data] W.s2 s' Hrun); try assumption.
    + cbn. lia.
    + change (shard_count W.s2) with 2. lia.
    + rewrite Hb. change (shard_count W.s2) with 2. unfold two64. lia.
  - split; [exact Hf|]. split; [reflexivity|]. split; [exact Hb|exact Hl].
Qed.
