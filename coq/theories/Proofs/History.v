(* C16, version linearity at the history level: the committed history of a data model only
   grows, and everything but its latest entry is immutable -- each step of a model's history is
   "nothing", "append one version" or "replace the latest version" (force-push), so along any
   run during which the model exists its history is a single chain ([hist_le] is the reflexive-
   transitive closure of those three moves). A model that appears is created by a Store naming
   its data id and starts with the empty history; the owner of a model never changes.

   Proof structure: every function of the model that writes the metadata table is given a Hoare
   triple (Proofs/Hoare.v) from "the table equals that of the state the function started in" to
   the relation [Rnc]; functions that do not write the table are covered by the [keeps metas]
   lemmas of Proofs/Authz.v; handlers compose with [mok] because [Rnc] is a preorder. Store is
   the one handler that creates models and is treated separately. Error returns are covered
   (their writes are kept in block phases). *)
From SaoVerif Require Import Base.Prelude Base.Ints Base.Dec Model.Did Model.Types Model.Monad Model.Bank Model.Select
     Model.Node Model.Storage Model.Sao Model.Hooks Model.App Model.Spec Proofs.Frame Proofs.Authz Proofs.Hoare.
From RecordUpdate Require Import RecordUpdate.
Import RecordSetNotations.

(** * the chain order on histories *)
Definition hist_le (a b : list string) : Prop := (length a <= length b)%nat /\ removelast a `prefix_of` b.

Lemma removelast_length {A} (l : list A) : length (removelast l) = (length l - 1)%nat.
Proof. induction l as [|x [|y l] IH]; cbn in *; try lia. Qed.
Lemma removelast_prefix {A} (l : list A) : removelast l `prefix_of` l.
Proof.
  destruct l as [|x l]; [reflexivity|].
  exists [List.last (x :: l) x]. apply app_removelast_last. discriminate.
Qed.
Lemma removelast_prefix_mono {A} (a b : list A) : a `prefix_of` b -> removelast a `prefix_of` removelast b \/ a = b.
Proof.
  intros [k ->]. destruct k as [|y k]; [right; rewrite app_nil_r; reflexivity|left].
  rewrite removelast_app by discriminate. etransitivity; [apply removelast_prefix|]. apply prefix_app_r. reflexivity.
Qed.

Global Instance hist_le_po : PreOrder hist_le.
Proof.
  split.
  - intros a. split; [lia|apply removelast_prefix].
  - intros a b c [L1 P1] [L2 P2]. split; [lia|].
    destruct (decide (length a = 0%nat)) as [Ha|Ha].
    { destruct a; [|discriminate Ha]. cbn. apply prefix_nil. }
    (* removelast a is a prefix of b of length |a|-1 <= |b|-1, hence a prefix of removelast b *)
    assert (Hp : removelast a `prefix_of` removelast b).
    { destruct P1 as [k Hk]. destruct k as [|y k].
      - rewrite app_nil_r in Hk. subst b. rewrite removelast_length in L1. lia.
      - rewrite Hk. rewrite removelast_app by discriminate. apply prefix_app_r. reflexivity. }
    etransitivity; [exact Hp|exact P2].
Qed.

Lemma hist_le_app a v : hist_le a (a ++ [v]).
Proof. split; [rewrite app_length; cbn; lia|]. etransitivity; [apply removelast_prefix|]. apply prefix_app_r. reflexivity. Qed.
Lemma hist_le_replace a v : hist_le a (removelast a ++ [v]).
Proof. split; [rewrite app_length, removelast_length; cbn; lia|]. apply prefix_app_r. reflexivity. Qed.

(** * the relation every operation but Store respects *)
Definition same_model (a b : Meta) : Prop := m_owner b = m_owner a /\ hist_le (m_commits a) (m_commits b).
Global Instance same_model_po : PreOrder same_model.
Proof.
  split; [intros a; split; reflexivity|].
  intros a b c [O1 H1] [O2 H2]. split; [congruence|etransitivity; eassumption].
Qed.

(* every model present afterwards was present before, with the same owner and a history extended along the chain *)
Definition Rnc (s s' : State) : Prop :=
  forall d b, metas s' !! d = Some b -> exists a, metas s !! d = Some a /\ same_model a b.
Global Instance Rnc_po : PreOrder Rnc.
Proof.
  split.
  - intros s d b H. exists b. split; [exact H|reflexivity].
  - intros s1 s2 s3 H12 H23 d c Hc. destruct (H23 d c Hc) as (b & Hb & Hbc). destruct (H12 d b Hb) as (a & Ha & Hab).
    exists a. split; [exact Ha|etransitivity; eassumption].
Qed.

Definition Pm (b t : State) : Prop := metas t = metas b.

Lemma Rnc_eq b t : Pm b t -> Rnc b t.
Proof. intros E d x H. rewrite E in H. exists x. split; [exact H|reflexivity]. Qed.
Lemma Rnc_sub b t : (forall d x, metas t !! d = Some x -> metas b !! d = Some x) -> Rnc b t.
Proof. intros Hs d x H. exists x. split; [apply Hs, H|reflexivity]. Qed.
Lemma Rnc_ins b (mt : gmap string Meta) t d a m' :
  metas t = <[d := m']> mt -> mt = metas b -> metas b !! d = Some a -> same_model a m' -> Rnc b t.
Proof.
  intros E -> Ha Hs k x H. rewrite E in H. destruct (decide (k = d)) as [->|Hne].
  - rewrite lookup_insert in H. injection H as <-. exists a. split; assumption.
  - rewrite lookup_insert_ne in H by congruence. exists x. split; [exact H|reflexivity].
Qed.

Lemma keeps_Rnc {A} (m : M A) : keeps metas m -> mok Rnc true m.
Proof. intros H s. specialize (H s). destruct (m s); auto; apply Rnc_eq; exact H. Qed.

Lemma ht_km {A} b (m : M A) : keeps metas m -> ht (Pm b) m (fun _ t' => Pm b t') (Rnc b).
Proof.
  intros H. eapply ht_conseq; [apply (ht_keeps metas (fun x => x = metas b)), H| | |]; cbv beta; auto.
  intros t Ht. apply Rnc_eq. exact Ht.
Qed.

(** * the functions that write the metadata table *)
Ltac pm_of_eq := let t := fresh "t" in let E := fresh "E" in intros t E; subst t; first [assumption | reflexivity | (unfold Pm; congruence)].

(* after [s0 <- get] under [Pm b]: continue with the weaker precondition [Pm b], keeping [Pm b s0] in the context *)
Ltac h_get s0 H := apply ht_bind_get; intros s0 H; lazymatch type of H with Pm ?b _ => apply (ht_pre _ _ _ (Pm b)); [|pm_of_eq] end.
Ltac h_fail := apply ht_fail; intros ? ?; apply Rnc_eq; assumption.
Ltac h_km0 := eapply ht_bind; [apply ht_km; first [solve [kt_leaf] | solve [kt]] | ].
Ltac h_km := h_km0; intros ?.

Lemma extend_meta_duration_ht data e b :
  ht (Pm b) (extend_meta_duration data e) (fun _ t' => Rnc b t') (Rnc b).
Proof.
  unfold extend_meta_duration. h_get s0 Hs0.
  destruct (metas s0 !! data) as [m|] eqn:Em; [|apply ht_ret; intros; apply Rnc_eq; assumption].
  cbv zeta. destruct (_ <? _); [|apply ht_ret; intros; apply Rnc_eq; assumption].
  h_km. h_km. apply ht_modify. intros t Ht. unfold Pm in *.
  eapply Rnc_ins; [unfold set; cbn; reflexivity|exact Ht|rewrite <- Hs0; exact Em|]. split; reflexivity.
Qed.
Lemma extend_meta_duration_h data e : mok Rnc true (extend_meta_duration data e).
Proof. apply mok_ht. intros b. eapply ht_pre; [apply extend_meta_duration_ht|intros t <-; reflexivity]. Qed.

Lemma update_permission_h owner data ro rw : mok Rnc true (update_permission owner data ro rw).
Proof.
  apply mok_ht. intros b. apply (ht_pre _ _ _ (Pm b)); [|intros t <-; reflexivity].
  unfold update_permission. h_get s0 Hs0.
  destruct (metas s0 !! data) as [m|] eqn:Em; [|h_fail].
  destruct (negb _); [h_fail|].
  apply ht_modify. intros t Ht. unfold Pm in *.
  eapply Rnc_ins; [unfold set; cbn; reflexivity|exact Ht|rewrite <- Hs0; exact Em|]. split; reflexivity.
Qed.

Lemma delete_meta_h data : mok Rnc true (delete_meta data).
Proof.
  apply mok_ht. intros b. apply (ht_pre _ _ _ (Pm b)); [|intros t <-; reflexivity].
  unfold delete_meta. h_get s0 Hs0.
  destruct (metas s0 !! data) as [m|] eqn:Em; [|h_fail].
  eapply ht_bind with (Qm := fun _ t => Rnc b t).
  - apply ht_modify. intros t Ht. apply Rnc_sub. intros d x. unfold set; cbn. rewrite Ht.
    intros H. apply lookup_delete_Some in H. apply H.
  - intros []. apply (ht_mok Rnc true _ b). apply keeps_Rnc. kt_leaf.
Qed.

Lemma reset_meta_duration_ht cx d m b :
  ht (Pm b) (reset_meta_duration cx d m) (fun m' t => Pm b t /\ m_owner m' = m_owner m /\ m_commits m' = m_commits m) (Rnc b).
Proof.
  unfold reset_meta_duration. h_get s0 Hs0. cbv zeta.
  destruct (_ =? _); [apply ht_ret; intros t Ht; auto|].
  h_km. h_km. apply ht_ret. intros t Ht. auto.
Qed.

Lemma rollback_meta_h cx data : mok Rnc true (rollback_meta cx data).
Proof.
  apply mok_ht. intros b. apply (ht_pre _ _ _ (Pm b)); [|intros t <-; reflexivity].
  unfold rollback_meta. h_get s0 Hs0.
  destruct (metas s0 !! data) as [m|] eqn:Em; [|apply ht_ret; intros; apply Rnc_eq; assumption].
  destruct (last_opt (m_commits m)) as [lastv|].
  - destruct (last_opt (m_orders m)) as [lo|]; [|apply ht_panic].
    cbv zeta. eapply ht_bind; [apply reset_meta_duration_ht|]. intros m2.
    apply ht_modify. intros t (Ht & Ho & Hc). unfold Pm in *.
    eapply Rnc_ins; [unfold set; cbn; reflexivity|exact Ht|rewrite <- Hs0; exact Em|].
    split; [rewrite Ho; reflexivity|rewrite Hc; reflexivity].
  - eapply ht_bind with (Qm := fun _ t => Rnc b t).
    + apply ht_modify. intros t Ht. apply Rnc_sub. intros d x. unfold set; cbn. rewrite Ht.
      intros H. apply lookup_delete_Some in H. apply H.
    + intros []. apply (ht_mok Rnc true _ b). apply keeps_Rnc. kt_leaf.
Qed.

Lemma update_meta_h cx oid o : mok Rnc true (update_meta cx oid o).
Proof.
  apply mok_ht. intros b. apply (ht_pre _ _ _ (Pm b)); [|intros t <-; reflexivity].
  unfold update_meta. h_get s0 Hs0.
  destruct (negb _); [h_fail|].
  destruct (metas s0 !! o_data o) as [m|] eqn:Em; [|h_fail].
  destruct (negb _); [h_fail|].
  eapply ht_bind with (Qm := fun m' t => Pm b t /\ same_model m m').
  - destruct (o_op o =? 1).
    { apply ht_ret. intros t Ht. split; [exact Ht|]. split; [reflexivity|]. cbn. apply hist_le_app. }
    destruct (o_op o =? 2).
    { destruct (last_opt (m_commits m)) as [lastv|]; [|apply ht_panic].
      h_km0. intros [rev_left sids]. h_km. cbv zeta.
      eapply ht_conseq; [apply reset_meta_duration_ht| | |].
      - intros t Ht; exact Ht.
      - cbv beta. intros m' t (Ht & Ho & Hc). split; [exact Ht|]. split; [rewrite Ho; reflexivity|]. rewrite Hc. cbn. apply hist_le_replace.
      - intros t Ht; exact Ht. }
    destruct (o_op o =? 3).
    { apply ht_ret. intros t Ht. split; [exact Ht|]. split; reflexivity. }
    h_fail.
  - intros m'. apply ht_modify. intros t (Ht & Hs). unfold Pm in *.
    eapply Rnc_ins; [unfold set; cbn; reflexivity|exact Ht|rewrite <- Hs0; exact Em|].
    destruct Hs as [Ho Hc]. split; [exact Ho|exact Hc].
Qed.

(** * the handlers *)
Create HintDb hist discriminated.
Global Hint Resolve extend_meta_duration_h update_permission_h delete_meta_h rollback_meta_h update_meta_h : hist.

Ltac hm_leaf := first [ solve [auto with hist nocore] | solve [apply keeps_Rnc; first [kt_leaf | kt]] ].
Ltac hm1 :=
  cbv beta;
  lazymatch goal with
  | |- mok _ _ (let _ := _ in _) => cbv zeta
  | |- mok _ _ (bind _ _) => apply mok_bind; try exact _; [ | intros ?]
  | |- mok _ _ (ret _) => apply mok_ret; try exact _
  | |- mok _ _ (fail _) => apply mok_fail; try exact _
  | |- mok _ _ (panic _) => apply mok_panic
  | |- mok _ _ get => apply mok_get; try exact _
  | |- mok _ _ (gets _) => apply mok_gets; try exact _
  | |- mok _ _ (try_ _) => apply mok_try
  | |- mok _ _ (forM _ _) => apply mok_forM; try exact _; intros ?
  | |- mok _ _ (if ?c then _ else _) => destruct c
  | |- mok _ _ (match ?x with _ => _ end) => first [is_var x; destruct x | destruct x eqn:?]
  | |- mok _ _ _ => hm_leaf
  end.
Ltac hm := repeat hm1.

Lemma cancel_order_h cx oid : mok Rnc true (cancel_order cx oid).
Proof. unfold cancel_order. hm. Qed.
Global Hint Resolve cancel_order_h : hist.

Lemma sao_complete_h cx c p oid cid sz ok : mok Rnc true (sao_complete cx c p oid cid sz ok).
Proof. unfold sao_complete. hm. Qed.

Lemma sao_cancel_h cx c p oid : mok Rnc true (sao_cancel cx c p oid).
Proof. unfold sao_cancel. hm. Qed.

Lemma mt_renew_order o : keeps metas (renew_order o).
Proof. unfold renew_order. kt. Qed.
Global Hint Resolve mt_renew_order : mt.

Lemma renew_one_h cx m sd data : mok Rnc true (renew_one cx m sd data).
Proof.
  unfold renew_one. hm.
  (* the loop over the shards *)
  all: try (mok_loop; [hm | hm; apply IH]).
Qed.
Global Hint Resolve renew_one_h : hist.

Lemma sao_renew_h cx m : mok Rnc true (sao_renew cx m).
Proof. unfold sao_renew. hm. Qed.

Lemma sao_terminate_h cx c p owner data sg : mok Rnc true (sao_terminate cx c p owner data sg).
Proof.
  unfold sao_terminate. hm.
  all: try (mok_loop; [hm | hm; apply IH]).
Qed.

Lemma sao_update_permission_h cx c p owner data ro rw sg v : mok Rnc true (sao_update_permission cx c p owner data ro rw sg v).
Proof. unfold sao_update_permission. hm. Qed.


(** * the block phases *)
Lemma handle_timeout_order_h cx oid : mok Rnc true (handle_timeout_order cx oid).
Proof.
  unfold handle_timeout_order. hm.
  all: try (mok_loop; [hm | hm; apply IH]).
Qed.
Global Hint Resolve handle_timeout_order_h : hist.

Lemma handle_expired_shard_h cx sid : mok Rnc true (handle_expired_shard cx sid).
Proof. unfold handle_expired_shard. hm. Qed.
Global Hint Resolve handle_expired_shard_h : hist.

Lemma end_block_sao_h cx : mok Rnc true (end_block_sao cx).
Proof. unfold end_block_sao. hm. Qed.

Lemma end_block_model_h cx : mok Rnc true (end_block_model cx).
Proof. unfold end_block_model. hm. Qed.

Lemma mt_end_block_node cx : keeps metas (end_block_node cx).
Proof. unfold end_block_node, do_penalty. kt. Qed.

Lemma end_block_h cx evs : mok Rnc true (end_block cx evs).
Proof.
  unfold end_block. apply mok_bind; try exact _; [apply keeps_Rnc, mv_mt, mv_staking_tx|intros _].
  apply mok_bind; try exact _; [apply end_block_sao_h|intros _].
  apply mok_bind; try exact _; [apply keeps_Rnc, mt_end_block_node|intros _]. apply end_block_model_h.
Qed.

(** * Store: the one operation that creates models *)
Definition Rst (m : StoreMsg) (b t : State) : Prop :=
  forall k x, metas t !! k = Some x ->
    (exists a, metas b !! k = Some a /\ same_model a x) \/
    (metas b !! k = None /\ k = st_data m /\ m_commits x = [] /\ m_owner x = st_owner m).
Lemma Rst_Rnc m b t : Rnc b t -> Rst m b t.
Proof. intros H k x Hk. left. apply (H k x Hk). Qed.
Lemma Rst_eq m b t : Pm b t -> Rst m b t.
Proof. intros H. apply Rst_Rnc, Rnc_eq, H. Qed.

Lemma update_meta_status_commit_ht cx oid o b :
  ht (Pm b) (update_meta_status_commit cx oid o) (fun _ t' => Rnc b t') (Rnc b).
Proof.
  unfold update_meta_status_commit. h_get s0 Hs0.
  destruct (metas s0 !! o_data o) as [m|] eqn:Em; [|h_fail].
  destruct (negb _); [h_fail|]. cbv zeta. destruct (_ <? _); [h_fail|].
  eapply ht_bind with (Qm := fun m' t => Pm b t /\ same_model m m').
  - destruct (_ <? _).
    + h_km. h_km. apply ht_ret. intros t Ht. split; [exact Ht|split; reflexivity].
    + apply ht_ret. intros t Ht. split; [exact Ht|reflexivity].
  - intros m'. apply ht_modify. intros t (Ht & Ho & Hc). unfold Pm in *.
    eapply Rnc_ins; [unfold set; cbn; reflexivity|exact Ht|rewrite <- Hs0; exact Em|]. split; [exact Ho|exact Hc].
Qed.

Lemma new_meta_ht cx o (msg : StoreMsg) nm b :
  m_commits nm = [] -> m_owner nm = st_owner msg ->
  ht (Pm b) (new_meta cx o (st_data msg) nm) (fun _ t' => Rst msg b t') (Rst msg b).
Proof.
  intros Hc Ho. unfold new_meta. h_get s0 Hs0.
  destruct (negb _); [apply ht_fail; intros; apply Rst_eq; assumption|].
  destruct (bool_decide (is_Some (metas s0 !! st_data msg))) eqn:Ex; [apply ht_fail; intros; apply Rst_eq; assumption|].
  destruct (bool_decide (is_Some (models s0 !! meta_key nm))); [apply ht_fail; intros; apply Rst_eq; assumption|].
  apply bool_decide_eq_false in Ex. assert (Hn : metas b !! st_data msg = None).
  { rewrite <- Hs0. destruct (metas s0 !! st_data msg) eqn:E; [exfalso; apply Ex; eexists; reflexivity|reflexivity]. }
  eapply ht_bind with (Qm := fun _ t => Rst msg b t).
  - apply ht_modify. intros t Ht k x. unfold set; cbn. rewrite Ht. intros H.
    destruct (decide (k = st_data msg)) as [->|Hne].
    + rewrite lookup_insert in H. injection H as <-. right. auto.
    + rewrite lookup_insert_ne in H by congruence. left. exists x. split; [exact H|reflexivity].
  - intros []. intros t Ht. pose proof (mt_set_data_expire (st_data msg) (u64 (o_created o + o_duration o)) t) as K.
    destruct (set_data_expire _ _ t); auto; intros k x; rewrite K; apply Ht.
Qed.

Lemma ht_km_st {A} msg b (m : M A) : keeps metas m -> ht (Pm b) m (fun _ t' => Pm b t') (Rst msg b).
Proof.
  intros H. eapply ht_conseq; [apply (ht_km b), H| | |]; cbv beta.
  - intros t Ht; exact Ht.
  - intros a t Ht; exact Ht.
  - intros t Ht. apply Rst_Rnc, Ht.
Qed.
Ltac s_km tac := eapply ht_bind; [apply ht_km_st; tac|].

Ltac s_fail := apply ht_fail; intros ? ?; apply Rst_eq; assumption.
Ltac s_step :=
  cbv beta;
  lazymatch goal with
  | |- ht _ (let _ := _ in _) _ _ => cbv zeta
  | |- ht _ (let '(_, _) := ?x in _) _ _ => destruct x
  | |- ht _ (bind get _) _ _ => let s0 := fresh "s" in let H := fresh "Hs" in h_get s0 H
  | |- ht _ (fail _) _ _ => s_fail
  | |- ht _ (panic _) _ _ => apply ht_panic
  | |- ht _ (if ?c then _ else _) _ _ => destruct c eqn:?
  | |- ht _ (match ?x with _ => _ end) _ _ => first [is_var x; destruct x | destruct x eqn:?]
  end.

Lemma sao_store_ht cx m b :
  ht (Pm b) (sao_store cx m) (fun _ t' => Rst m b t') (Rst m b).
Proof.
  unfold sao_store. repeat s_step.
  (* pay0 *)
  s_km ltac:(kt); intros pay0.
  repeat s_step.
  s_km ltac:(kt); intros isp.
  s_km ltac:(destruct isp; kt); intros sps.
  repeat s_step.
  s_km ltac:(kt); intros payer.
  repeat s_step.
  s_km ltac:(kt); intros [].
  s_km ltac:(kt); intros [oid o2].
  s_km ltac:(destruct isp; kt); intros [].
  repeat s_step.
  - eapply ht_conseq; [apply (update_meta_status_commit_ht _ _ _ b)| | |]; cbv beta; auto; intros; apply Rst_Rnc; assumption.
  - apply new_meta_ht; reflexivity.
Qed.

(** * every operation *)
Lemma Rnc_with_pg s p : Rnc s (with_pg s p).
Proof. apply Rnc_eq. reflexivity. Qed.

Definition not_store (op : Op) : Prop := match op with OStore _ => False | _ => True end.

Theorem step_history_nostore : forall cx s op, not_store op -> Rnc s (fst (step cx s op)).
Proof.
  intros cx. apply (step_rel Rnc not_store cx).
  - intros s s' _. apply Rnc_with_pg.
  - intros evs _ s p. apply Rnc_with_pg.
  - intros _. apply keeps_Rnc, mv_mt, mv_begin_block.
  - intros evs _. apply end_block_h.
  - intros op m Hns Htx. destruct op; cbn in Hns, Htx; try contradiction; try discriminate; injection Htx as <-.
    + apply keeps_Rnc, mv_mt, mv_lift_did.
    + apply keeps_Rnc, mv_mt, mv_node_create.
    + apply keeps_Rnc, mv_mt, mv_node_reset.
    + apply keeps_Rnc, mv_mt, mv_add_vstorage.
    + apply keeps_Rnc, mv_mt, mv_remove_vstorage.
    + apply keeps_Rnc, mv_mt. apply keeps_bind; [apply mv_claim_reward|intros; apply keeps_ret].
    + apply keeps_Rnc, mv_mt, mv_sao_ready.
    + apply sao_complete_h.
    + apply sao_cancel_h.
    + apply sao_renew_h.
    + apply sao_terminate_h.
    + apply keeps_Rnc, mv_mt, mv_sao_migrate.
    + apply sao_update_permission_h.
    + apply keeps_Rnc, mv_mt, mv_report_faults.
    + apply keeps_Rnc, mv_mt, mv_recover_faults.
    + apply keeps_Rnc, mv_mt, mv_send_strict.
    + apply keeps_Rnc, mv_mt, mv_staking_tx.
Qed.

Theorem step_history_store : forall cx s m, Rst m s (fst (step cx s (OStore m))).
Proof.
  intros cx s m. rewrite step_state. cbn [tx_of]. rewrite deliver_state.
  pose proof (sao_store_ht cx m s s eq_refl) as H. destruct (sao_store cx m s); try exact H; apply Rst_eq; reflexivity.
Qed.

(* THE STEP THEOREM. Whatever the operation, a data model present afterwards either was present before --
   same owner, history extended by the chain order (unchanged, one version appended, or the latest
   version replaced) -- or is a new model created by a Store naming its data id, with the empty
   history and the owner named in the signed proposal. *)
Theorem step_history : forall cx s op k x, metas (fst (step cx s op)) !! k = Some x ->
  (exists a, metas s !! k = Some a /\ same_model a x) \/
  (exists m, op = OStore m /\ metas s !! k = None /\ k = st_data m /\ m_commits x = [] /\ m_owner x = st_owner m).
Proof.
  intros cx s op k x H. destruct op as [| | | | | | | |m| | | | | | | | | | | |].
  9: { destruct (step_history_store cx s m k x H) as [Ha|Hb]; [left; exact Ha|right; exists m; split; [reflexivity|exact Hb]]. }
  all: left; match type of H with metas (fst (step _ _ ?o)) !! _ = _ => apply (step_history_nostore cx s o I k x H) end.
Qed.
Print Assumptions step_history.

(** * runs *)
(* the data model [d] exists after every step of the run *)
Fixpoint alive_along (d : string) (tr : list (Ctx * Op)) (s : State) : Prop :=
  match tr with
  | [] => True
  | (cx, op) :: tr' => is_Some (metas (fst (step cx s op)) !! d) /\ alive_along d tr' (fst (step cx s op))
  end.

(* THE HISTORY THEOREM. Along any run during which the model exists, its owner never changes and its
   committed history is a single chain: at every later time the earlier history, except possibly for
   its then-latest entry, is a prefix of the later one, and it never gets shorter. *)
Theorem run_history : forall tr s d a x,
  metas s !! d = Some a -> alive_along d tr s -> metas (run tr s) !! d = Some x -> same_model a x.
Proof.
  induction tr as [|[cx op] tr IH]; intros s d a x Ha Hal Hx.
  - change (run [] s) with s in Hx. rewrite Ha in Hx. injection Hx as <-. reflexivity.
  - destruct Hal as [[y Hy] Hal]. change (run ((cx, op) :: tr) s) with (run tr (fst (step cx s op))) in Hx.
    destruct (step_history cx s op d y Hy) as [(a' & Ha' & Hs)|(m & _ & Hn & _)]; [|congruence].
    rewrite Ha in Ha'. injection Ha' as <-. etransitivity; [exact Hs|]. exact (IH _ d y x Hy Hal Hx).
Qed.
Print Assumptions run_history.

(* a committed version that is no longer the latest one is never altered or removed while the model exists *)
Corollary committed_prefix_stable : forall tr s d a x v rest,
  metas s !! d = Some a -> alive_along d tr s -> metas (run tr s) !! d = Some x ->
  m_commits a = rest ++ [v] -> rest `prefix_of` m_commits x.
Proof.
  intros tr s d a x v rest Ha Hal Hx Hc. destruct (run_history tr s d a x Ha Hal Hx) as [_ [_ Hp]].
  rewrite Hc in Hp. rewrite removelast_last in Hp. exact Hp.
Qed.

(** * an accepted update names (a substring of) the latest version, and no other update is in flight *)
(* [m_status] is MetaComplete exactly while no update of the model is in flight: an accepted update sets it
   to the operation code, completion and rollback set it back *)
Definition update_ok (b : State) (m : StoreMsg) : Prop :=
  forall em, metas b !! st_data m = Some em ->
    str_contains (m_commit em) (fst (split_commit (st_commit m))) = true /\ m_status em = MetaComplete.

Ltac u_step :=
  cbv beta;
  lazymatch goal with
  | |- ht _ (let _ := _ in _) _ _ => cbv zeta
  | |- ht _ (let '(_, _) := ?x in _) _ _ => destruct x eqn:?
  | |- ht _ (bind get _) _ _ => let s0 := fresh "s" in let H := fresh "Hs" in h_get s0 H
  | |- ht _ (fail _) _ _ => apply ht_fail; intros; exact I
  | |- ht _ (panic _) _ _ => apply ht_panic
  | |- ht _ (if ?c then _ else _) _ _ => destruct c eqn:?
  | |- ht _ (match ?x with _ => _ end) _ _ => first [is_var x; destruct x | destruct x eqn:?]
  end.
Lemma ht_km_u {A} b (m : M A) : keeps metas m -> ht (Pm b) m (fun _ t' => Pm b t') (fun _ => True).
Proof. intros H. eapply ht_conseq; [apply (ht_km b), H| | |]; cbv beta; auto. Qed.
Ltac u_km tac := eapply ht_bind; [apply ht_km_u; tac|].

Lemma umsc_status cx oid o t : forall em,
  metas t !! o_data o = Some em ->
  match update_meta_status_commit cx oid o t with Ok _ _ => m_status em = MetaComplete | _ => True end.
Proof.
  intros em Em. unfold update_meta_status_commit. unfold bind at 1. unfold get. rewrite Em.
  destruct (m_status em =? MetaComplete) eqn:E; [apply Z.eqb_eq in E|exact I].
  cbn [negb]. cbv iota. match goal with |- match ?c with _ => _ end => destruct c end; auto.
Qed.

Theorem store_update_linear : forall cx s m s' d,
  step cx s (OStore m) = (s', OutTx COk d) -> update_ok s m.
Proof.
  intros cx s m s' d H. cbn [step tx_of] in H. apply deliver_ok in H.
  assert (Ht : ht (Pm s) (sao_store cx m) (fun _ _ => update_ok s m) (fun _ => True)).
  { unfold sao_store. repeat u_step.
    u_km ltac:(kt); intros pay0. repeat u_step.
    u_km ltac:(kt); intros isp. u_km ltac:(destruct isp; kt); intros sps. repeat u_step.
    u_km ltac:(kt); intros payer. repeat u_step.
    u_km ltac:(kt); intros [].
    eapply ht_bind with (Qm := fun r t => Pm s t /\ o_data (snd r) = st_data m).
    { intros t Ht. pose proof (mv_mt _ (mv_new_order cx (set o_amount (fun _ => ceil_coin (dec_mul_int (dec_mul_int (dec_mul_int PRICE (i64 (if st_size m =? 0 then 1 else st_size m))) (i64 (st_replica m))) (i64 (st_duration m)))) (set o_price (fun _ => PRICE) (mkOrder (st_creator m) (st_owner m) (st_pprovider m) (st_cid m) (st_duration m) OrderPending (st_replica m) [] 0 (if st_size m =? 0 then 1 else st_size m) (st_op m) 0 (u64 (st_timeout m)) (st_data m) s3 0 (st_paydid m)))) sps) t) as K.
      match goal with |- match ?c with _ => _ end => destruct c as [[id o2] t'|e t'|e|] eqn:E end; auto.
      split; [unfold Pm in *; congruence|]. apply new_order_data in E. exact E. }
    intros [oid o2]. cbn [snd].
    eapply ht_bind with (Qm := fun _ t => Pm s t /\ o_data o2 = st_data m).
    { intros t [Ht Hd]. assert (K : keeps metas (if isp then set_timeout_block oid (u64 (o_created o2 + o_timeout o2)) else ret tt)) by (destruct isp; kt).
      specialize (K t). destruct (if isp then _ else _) eqn:E; auto. split; [unfold Pm in *; congruence|exact Hd]. }
    intros []. apply ht_bind_get. intros s5 [Hs5 Hd]. apply (ht_pre _ _ _ (Pm s)); [|intros t <-; exact Hs5].
    repeat u_step.
    - (* the model exists: the base test passed, and the status test is inside UpdateMetaStatusAndCommit *)
      intros t Ht. pose proof (umsc_status cx oid o2 t m0) as K. rewrite Hd in K.
      assert (Em : metas t !! st_data m = Some m0) by (unfold Pm in *; congruence). specialize (K Em).
      destruct (update_meta_status_commit cx oid o2 t); auto.
      intros em Hem. assert (em = m0) by (unfold Pm in *; congruence). subst em.
      split; [|exact K]. rewrite Heqp. cbn [fst]. apply negb_false_iff in Heqb11. exact Heqb11.
    - (* the model does not exist *)
      intros t Ht. destruct (new_meta _ _ _ _ t); auto. intros em Hem. unfold Pm in *. congruence. }
  specialize (Ht s eq_refl). rewrite H in Ht. exact Ht.
Qed.
Print Assumptions store_update_linear.

(** ** non-vacuity and the limits of the statements *)
From SaoVerif Require Import Model.Inv Model.Monitors Proofs.RefInt.

(* an update of the model of RefInt.W whose base is the single character "3" (finding D16), its completion,
   and a force-push on top of it *)
Definition upd1 : StoreMsg :=
  {| st_creator := "G"; st_provider := "G"; st_owner := "did:key:K1"; st_pprovider := "G"; st_group := "";
     st_duration := 3600; st_replica := 1; st_timeout := 100; st_alias := "a"; st_data := W.data;
     st_commit := "3|11111111-1111-1111-1111-111111111111";
     st_tags := []; st_cid := "cid"; st_rule := ""; st_ext := ""; st_size := 1000000; st_op := 1; st_ro := [];
     st_paydid := ""; st_sig := W.sig; st_cid_ok := true |}.
Definition upd2 : StoreMsg :=
  {| st_creator := "G"; st_provider := "G"; st_owner := "did:key:K1"; st_pprovider := "G"; st_group := "";
     st_duration := 3600; st_replica := 1; st_timeout := 100; st_alias := "a"; st_data := W.data;
     st_commit := "11111111-1111-1111-1111-111111111111|22222222-2222-2222-2222-222222222222";
     st_tags := []; st_cid := "cid"; st_rule := ""; st_ext := ""; st_size := 1000000; st_op := 2; st_ro := [];
     st_paydid := ""; st_sig := W.sig; st_cid_ok := true |}.
Definition hist_run : list (Ctx * Op) :=
  [ (W.cxh 7, OStore upd1); (W.cxh 8, OComplete "S" "S" 2 "cid" 1000000 true);
    (W.cxh 9, OStore upd2); (W.cxh 10, OComplete "S" "S" 3 "cid" 1000000 true) ].
Definition commits_of (s : State) : list string :=
  match metas s !! W.data with Some m => map commit_of_version (m_commits m) | None => [] end.

(* the run exists, keeps the model alive, appends one version and then replaces it: the chain theorem
   applies to it and is not vacuous *)
Example history_nonvacuous :
  (exists a, metas W.s2 !! W.data = Some a /\ map commit_of_version (m_commits a) = [W.data]) /\
  alive_along W.data hist_run W.s2 /\
  commits_of (run (firstn 2 hist_run) W.s2) = [W.data; "11111111-1111-1111-1111-111111111111"] /\
  commits_of (run hist_run W.s2) = [W.data; "22222222-2222-2222-2222-222222222222"].
Proof.
  split; [eexists; split; vm_compute; reflexivity|].
  split; [cbn [alive_along hist_run]; repeat split; vm_compute; eexists; reflexivity|].
  split; vm_compute; reflexivity.
Qed.

(* the stronger reading "the base IS the latest version" is false of the faithful model (finding D16):
   the first update above names the single character "3" as its base and is accepted *)
Theorem store_base_equality_refuted : exists cx s m s' d em,
  step cx s (OStore m) = (s', OutTx COk d) /\ metas s !! st_data m = Some em /\
  fst (split_commit (st_commit m)) <> m_commit em.
Proof.
  exists (W.cxh 7), W.s2, upd1. eexists. eexists. eexists.
  split; [vm_compute; reflexivity|]. split; [vm_compute; reflexivity|]. vm_compute. discriminate.
Qed.
