(* Facts about the provider selection kernels of Model/Select.v. *)
From SaoVerif Require Import Base.Prelude Base.Ints Base.Dec Model.Did Model.Types Model.Select.

(** * 1. RandomIndex *)

(** ** digits *)
Lemma digits_aux_stable f n :
  0 <= n < 10 ^ Z.of_nat f -> digits_aux (S f) n = digits_aux f n.
Proof.
  revert n. induction f as [|f IH]; intros n Hn.
  - change (10 ^ Z.of_nat 0) with 1 in Hn. assert (n = 0) as -> by lia. reflexivity.
  - change (digits_aux (S (S f)) n) with (if n <=? 0 then O else S (digits_aux (S f) (n / 10))).
    change (digits_aux (S f) n) with (if n <=? 0 then O else S (digits_aux f (n / 10))).
    destruct (n <=? 0) eqn:En; [reflexivity|].
    f_equal. apply IH.
    rewrite Nat2Z.inj_succ, Z.pow_succ_r in Hn by lia.
    split; [apply Z.div_pos; lia|].
    apply Z.div_lt_upper_bound; lia.
Qed.

Lemma digits_zero : digits 0 = O.
Proof. reflexivity. Qed.

Lemma digits_aux_step f n :
  0 < n < 10 ^ Z.of_nat (S f) -> digits_aux (S f) n = S (digits_aux (S f) (n / 10)).
Proof.
  intros Hn.
  rewrite (digits_aux_stable f (n / 10)).
  - change (digits_aux (S f) n) with (if n <=? 0 then O else S (digits_aux f (n / 10))).
    destruct (n <=? 0) eqn:En; [lia|reflexivity].
  - rewrite Nat2Z.inj_succ, Z.pow_succ_r in Hn by lia.
    split; [apply Z.div_pos; lia|].
    apply Z.div_lt_upper_bound; lia.
Qed.

Lemma of_nat_400 : Z.of_nat 400 = 400.
Proof. vm_compute. reflexivity. Qed.

Lemma digits_step n : 0 < n < 10 ^ 400 -> digits n = S (digits (n / 10)).
Proof.
  intros Hn. unfold digits. apply (digits_aux_step 399).
  rewrite of_nat_400. exact Hn.
Qed.

Lemma digits_div_le n : 0 <= n < 10 ^ 400 -> (digits (n / 10) <= digits n)%nat.
Proof.
  intros Hn. destruct (Z.eq_dec n 0) as [->|Hne].
  - change (0 / 10) with 0. lia.
  - rewrite (digits_step n) by lia. lia.
Qed.

Lemma div10_bound n : 0 <= n < 10 ^ 400 -> 0 <= n / 10 < 10 ^ 400.
Proof.
  intros Hn. split; [apply Z.div_pos; lia|].
  apply Z.div_lt_upper_bound; lia.
Qed.

(** ** first_free *)
Lemma inZ_true x l : inZ x l = true <-> x ∈ l.
Proof.
  unfold inZ. rewrite existsb_exists. split.
  - intros (y & Hy & Hxy). apply Z.eqb_eq in Hxy. subst y. apply elem_of_list_In. exact Hy.
  - intros Hx. exists x. split; [apply elem_of_list_In; exact Hx|apply Z.eqb_refl].
Qed.

Lemma inZ_false x l : inZ x l = false <-> x ∉ l.
Proof.
  rewrite <- inZ_true. destruct (inZ x l); split; congruence.
Qed.

Lemma first_free_aux_spec f k idx :
  k <= first_free_aux f k idx <= k + Z.of_nat f /\
  (forall j, k <= j < first_free_aux f k idx -> j ∈ idx) /\
  (first_free_aux f k idx < k + Z.of_nat f -> first_free_aux f k idx ∉ idx).
Proof.
  revert k. induction f as [|f IH]; intros k.
  - cbn [first_free_aux]. split; [lia|]. split; intros; lia.
  - cbn [first_free_aux]. destruct (inZ k idx) eqn:Ek.
    + destruct (IH (k + 1)) as (Hr & Hin & Hout).
      split; [lia|]. split.
      * intros j Hj. destruct (Z.eq_dec j k) as [->|Hne].
        -- apply inZ_true. exact Ek.
        -- apply Hin. lia.
      * intros Hlt. apply Hout. lia.
    + split; [lia|]. split.
      * intros j Hj. lia.
      * intros _. apply inZ_false. exact Ek.
Qed.

Lemma first_free_spec idx :
  0 <= first_free idx <= Z.of_nat (length idx) /\ first_free idx ∉ idx.
Proof.
  unfold first_free.
  destruct (first_free_aux_spec (S (length idx)) 0 idx) as (Hr & Hin & Hout).
  set (r := first_free_aux (S (length idx)) 0 idx) in *.
  assert (Hlt : r < 0 + Z.of_nat (S (length idx))).
  { destruct (Z_lt_dec r (0 + Z.of_nat (S (length idx)))) as [Hlt|Hge]; [exact Hlt|].
    assert (Hr' : r = Z.of_nat (S (length idx))) by lia.
    assert (Hsub : seqZ 0 (Z.of_nat (S (length idx))) ⊆+ idx).
    { apply NoDup_submseteq; [apply NoDup_seqZ|].
      intros x Hx. apply elem_of_seqZ in Hx. apply Hin. lia. }
    apply submseteq_length in Hsub. rewrite seqZ_length in Hsub. lia. }
  split; [lia|]. apply Hout. exact Hlt.
Qed.

(** ** the loop *)
Definition in_range (total : Z) (i : Z) : Prop := 0 <= i < total.

Lemma NoDup_snoc_Z (l : list Z) x : NoDup l -> x ∉ l -> NoDup (l ++ [x]).
Proof.
  intros Hnd Hx. apply NoDup_app. split; [exact Hnd|]. split.
  - intros y Hy Hy'. apply elem_of_list_singleton in Hy'. subst y. contradiction.
  - apply NoDup_singleton.
Qed.

Lemma random_index_loop_spec fuel : forall seed md total count idx res,
  0 < total ->
  NoDup idx -> Forall (fun i => 0 <= i < total) idx ->
  Z.of_nat (length idx) + Z.of_nat count < total ->
  random_index_loop fuel seed md total count idx = SelOk res ->
  NoDup res /\ Forall (fun i => 0 <= i < total) res /\
  length res = (length idx + count)%nat.
Proof.
  induction fuel as [|fuel IH]; intros seed md total count idx res Htot Hnd Hrg Hlen Hres.
  - destruct count as [|c]; cbn [random_index_loop] in Hres; [|discriminate].
    injection Hres as <-. split; [exact Hnd|]. split; [exact Hrg|]. lia.
  - destruct count as [|c]; cbn [random_index_loop] in Hres.
    { injection Hres as <-. split; [exact Hnd|]. split; [exact Hrg|]. lia. }
    cbv zeta in Hres.
    assert (Hrs : 0 <= (seed mod md) mod total < total) by (apply Z.mod_pos_bound; exact Htot).
    destruct (inZ ((seed mod md) mod total) idx) eqn:Ein.
    + destruct (seed / 10 =? 0) eqn:Ez.
      * destruct (first_free_spec idx) as (Hff & Hnotin).
        apply IH in Hres.
        -- rewrite app_length in Hres. cbn [length] in Hres.
           destruct Hres as (H1 & H2 & H3). split; [exact H1|]. split; [exact H2|]. lia.
        -- exact Htot.
        -- apply NoDup_snoc_Z; assumption.
        -- apply Forall_app. split; [exact Hrg|]. apply Forall_singleton. lia.
        -- rewrite app_length. cbn [length]. lia.
      * apply IH in Hres; assumption.
    + apply inZ_false in Ein.
      apply IH in Hres.
      * rewrite app_length in Hres. cbn [length] in Hres.
        destruct Hres as (H1 & H2 & H3). split; [exact H1|]. split; [exact H2|]. lia.
      * exact Htot.
      * apply NoDup_snoc_Z; assumption.
      * apply Forall_app. split; [exact Hrg|]. apply Forall_singleton. exact Hrs.
      * rewrite app_length. cbn [length]. lia.
Qed.

Lemma random_index_loop_terminates fuel : forall seed md total count idx,
  0 <= seed < 10 ^ 400 ->
  (digits seed + count <= fuel)%nat ->
  random_index_loop fuel seed md total count idx <> SelHang /\
  random_index_loop fuel seed md total count idx <> SelPanic.
Proof.
  induction fuel as [|fuel IH]; intros seed md total count idx Hseed Hfuel.
  - destruct count as [|c]; [|lia]. cbn [random_index_loop]. split; discriminate.
  - destruct count as [|c]; cbn [random_index_loop]; [split; discriminate|].
    cbv zeta.
    pose proof (div10_bound seed Hseed) as Hseed'.
    pose proof (digits_div_le seed Hseed) as Hdle.
    destruct (inZ ((seed mod md) mod total) idx) eqn:Ein.
    + destruct (seed / 10 =? 0) eqn:Ez.
      * apply IH; [exact Hseed'|lia].
      * apply Z.eqb_neq in Ez.
        assert (Hpos : 0 < seed).
        { destruct (Z.eq_dec seed 0) as [->|Hne]; [|lia]. exfalso. apply Ez. reflexivity. }
        apply IH; [exact Hseed'|].
        rewrite (digits_step seed) in Hfuel by lia. lia.
    + apply IH; [exact Hseed'|lia].
Qed.

(** ** main theorems *)
(* The fuel [digits seed] saturates at 400 decimal digits, so the unrestricted statement
   is false (see [random_index_terminates_refuted]); it holds for seed < 10^400. *)
Theorem random_index_terminates_partial : forall seed total count,
  0 <= seed -> seed < 10 ^ 400 ->
  random_index seed total count <> SelHang /\ random_index seed total count <> SelPanic.
Proof.
  intros seed total count Hs0 Hs1. unfold random_index.
  destruct (total <=? count) eqn:E1; [split; discriminate|].
  destruct (count <=? 0) eqn:E2; [split; discriminate|].
  apply random_index_loop_terminates; [lia|lia].
Qed.
Print Assumptions random_index_terminates_partial.

Theorem random_index_terminates_refuted :
  exists seed total count, 0 <= seed /\ random_index seed total count = SelHang.
Proof.
  exists (10 ^ 404), 3, 2. split; [apply Z.pow_nonneg; lia|]. vm_compute. reflexivity.
Qed.
Print Assumptions random_index_terminates_refuted.

Theorem random_index_spec : forall seed total count idx,
  0 <= seed -> random_index seed total count = SelOk idx ->
  NoDup idx /\ Forall (fun i => 0 <= i < total) idx /\
  (0 < count < total -> Z.of_nat (length idx) = count) /\
  (~ (0 < count < total) -> idx = []).
Proof.
  intros seed total count idx _ Hres. unfold random_index in Hres.
  destruct (total <=? count) eqn:E1.
  { injection Hres as <-. split; [apply NoDup_nil_2|]. split; [apply Forall_nil_2|].
    split; [intros Hc; lia|reflexivity]. }
  destruct (count <=? 0) eqn:E2.
  { injection Hres as <-. split; [apply NoDup_nil_2|]. split; [apply Forall_nil_2|].
    split; [intros Hc; lia|reflexivity]. }
  apply random_index_loop_spec in Hres.
  - destruct Hres as (H1 & H2 & H3). split; [exact H1|]. split; [exact H2|].
    split; [intros _; rewrite H3; cbn [length]; lia|intros Hn; lia].
  - lia.
  - apply NoDup_nil_2.
  - apply Forall_nil_2.
  - cbn [length]. lia.
Qed.
Print Assumptions random_index_spec.

(** * 2. SelectNodes *)
Lemma insert_Permutation_cons {A} (l : list A) j b x :
  l !! j = Some b -> b :: <[j:=x]> l ≡ₚ x :: l.
Proof.
  intros Hj.
  assert (Hlt : (j < length l)%nat) by (eapply lookup_lt_Some; exact Hj).
  rewrite insert_take_drop by exact Hlt.
  rewrite <- (take_drop_middle l j b Hj) at 3.
  rewrite <- !Permutation_middle. apply perm_swap.
Qed.

Lemma swap_Permutation {A} (l : list A) i j : swap l i j ≡ₚ l.
Proof.
  unfold swap.
  destruct (l !! i) as [a|] eqn:Hi; [|reflexivity].
  destruct (l !! j) as [b|] eqn:Hj; [|reflexivity].
  assert (Hlti : (i < length l)%nat) by (eapply lookup_lt_Some; exact Hi).
  assert (Hj1 : <[i:=b]> l !! j = Some b).
  { destruct (decide (i = j)) as [->|Hne].
    - apply list_lookup_insert. exact Hlti.
    - rewrite list_lookup_insert_ne by exact Hne. exact Hj. }
  apply (Permutation_cons_inv (a := b)).
  rewrite (insert_Permutation_cons _ j b a Hj1).
  apply insert_Permutation_cons. exact Hi.
Qed.

Lemma heap_cmp_Permutation l index c : heap_cmp l index c ≡ₚ l.
Proof.
  unfold heap_cmp.
  destruct (l !! c) as [nc|]; [|reflexivity].
  destruct (l !! index) as [ni|]; [|reflexivity].
  destruct (n_alive (c_node nc) >=? n_alive (c_node ni)); [|reflexivity].
  destruct (n_alive (c_node nc) =? n_alive (c_node ni)); [|apply swap_Permutation].
  destruct (n_rep (c_node nc) >? n_rep (c_node ni)); [apply swap_Permutation|reflexivity].
Qed.

Lemma heapify_Permutation p l : heapify p l ≡ₚ l.
Proof.
  unfold heapify.
  destruct (Nat.leb (length l) p); [reflexivity|].
  cbv zeta.
  assert (H1 : (if Nat.ltb (2 * p + 1) (length l) then heap_cmp l p (2 * p + 1) else l) ≡ₚ l).
  { destruct (Nat.ltb (2 * p + 1) (length l)); [apply heap_cmp_Permutation|reflexivity]. }
  destruct (Nat.ltb (2 * p + 2) (length l)).
  - rewrite heap_cmp_Permutation. exact H1.
  - exact H1.
Qed.

Lemma build_heap_from_Permutation k : forall l, build_heap_from k l ≡ₚ l.
Proof.
  induction k as [|k IH]; intros l; cbn [build_heap_from]; [reflexivity|].
  rewrite IH. apply heapify_Permutation.
Qed.

Lemma build_heap_Permutation l : build_heap l ≡ₚ l.
Proof. unfold build_heap. apply build_heap_from_Permutation. Qed.

Lemma build_heap_suffix_Permutation i l : build_heap_suffix i l ≡ₚ l.
Proof.
  unfold build_heap_suffix. rewrite build_heap_Permutation. rewrite take_drop. reflexivity.
Qed.

Lemma select_passes_Permutation n : forall i l, select_passes i n l ≡ₚ l.
Proof.
  induction n as [|n IH]; intros i l; cbn [select_passes]; [reflexivity|].
  rewrite IH. apply build_heap_suffix_Permutation.
Qed.

Theorem select_nodes_sub : forall k l, exists rest, Permutation (select_nodes k l ++ rest) l.
Proof.
  intros k l. unfold select_nodes. cbv zeta.
  exists (drop (Nat.min k (length l)) (select_passes 0 (S (Nat.min k (length l))) l)).
  rewrite take_drop. apply select_passes_Permutation.
Qed.
Print Assumptions select_nodes_sub.

Theorem select_nodes_length : forall k l, length (select_nodes k l) = Nat.min k (length l).
Proof.
  intros k l. unfold select_nodes. cbv zeta.
  rewrite take_length.
  rewrite (Permutation_length (select_passes_Permutation _ _ _)). lia.
Qed.
Print Assumptions select_nodes_length.

Lemma select_nodes_submseteq k l : select_nodes k l ⊆+ l.
Proof.
  destruct (select_nodes_sub k l) as (rest & Hp).
  transitivity (select_nodes k l ++ rest).
  - apply submseteq_inserts_r. reflexivity.
  - apply Permutation_submseteq. exact Hp.
Qed.

(** * 3. GetNextSuperNodes *)
Lemma next_super_loop_no_hang fuel : forall snodes pledges ignore size round0 i,
  next_super_loop fuel snodes pledges ignore size round0 i <> SelHang.
Proof.
  induction fuel as [|fuel IH]; intros snodes pledges ignore size round0 i;
    cbn [next_super_loop]; [discriminate|].
  cbv zeta.
  destruct (snodes !! Z.to_nat (if u8 (Z.of_nat (length snodes)) <=? i then 0 else i)) as [c|];
    [|discriminate].
  destruct (negb (in_list (c_addr c) ignore || negb (free_ok pledges (c_addr c) size)) &&
            has_status STATUS_SERVE (n_status (c_node c)) && (REP_FLOOR <=? n_rep (c_node c)));
    [discriminate|].
  match goal with |- (if ?b then _ else _) <> _ => destruct b end; [discriminate|].
  apply IH.
Qed.

Theorem next_super_terminates : forall nodes pledges round0 ignore size,
  next_super nodes pledges round0 ignore size <> SelHang.
Proof.
  intros nodes pledges round0 ignore size. unfold next_super. cbv zeta.
  apply next_super_loop_no_hang.
Qed.
Print Assumptions next_super_terminates.

Lemma next_super_loop_spec fuel : forall snodes pledges ignore size round0 i c r,
  next_super_loop fuel snodes pledges ignore size round0 i = SelOk (Some (c, r)) ->
  In c snodes /\ in_list (c_addr c) ignore = false /\ eligible pledges size c = true /\
  0 <= r < 256.
Proof.
  induction fuel as [|fuel IH]; intros snodes pledges ignore size round0 i c r Hres;
    cbn [next_super_loop] in Hres; [discriminate|].
  cbv zeta in Hres.
  set (i' := if u8 (Z.of_nat (length snodes)) <=? i then 0 else i) in *.
  destruct (snodes !! Z.to_nat i') as [c0|] eqn:Hlk; [|discriminate].
  destruct (negb (in_list (c_addr c0) ignore || negb (free_ok pledges (c_addr c0) size)) &&
            has_status STATUS_SERVE (n_status (c_node c0)) && (REP_FLOOR <=? n_rep (c_node c0)))
    eqn:Hok.
  - injection Hres as Hc Hr. subst c0.
    apply andb_prop in Hok. destruct Hok as [Hok Hrep].
    apply andb_prop in Hok. destruct Hok as [Hign Hst].
    apply negb_true_iff in Hign. apply orb_false_iff in Hign. destruct Hign as [Hign Hfree].
    apply negb_false_iff in Hfree.
    split.
    { apply elem_of_list_In. eapply elem_of_list_lookup_2. exact Hlk. }
    split; [exact Hign|].
    split.
    { unfold eligible. rewrite Hfree, Hst, Hrep. reflexivity. }
    pose proof (u8_range (i' + 1)) as Hu.
    destruct (Z.of_nat (length snodes) <=? u8 (i' + 1)); lia.
  - match type of Hres with (if ?b then _ else _) = _ => destruct b end; [discriminate|].
    eapply IH. exact Hres.
Qed.

Theorem next_super_spec : forall nodes pledges round0 ignore size c r,
  next_super nodes pledges round0 ignore size = SelOk (Some (c, r)) ->
  In c (super_cands nodes) /\ in_list (c_addr c) ignore = false /\
  eligible pledges size c = true /\ 0 <= r < 256.
Proof.
  intros nodes pledges round0 ignore size c r Hres. unfold next_super in Hres. cbv zeta in Hres.
  eapply next_super_loop_spec. exact Hres.
Qed.
Print Assumptions next_super_spec.

(** * 4. RandomSP *)

(** ** generic list facts *)
Lemma map_is_fmap {A B} (f : A -> B) (l : list A) : map f l = f <$> l.
Proof. induction l as [|x l IH]; [reflexivity|]. cbn. rewrite IH. reflexivity. Qed.

Lemma submseteq_NoDup {A} (l1 l2 : list A) : l1 ⊆+ l2 -> NoDup l2 -> NoDup l1.
Proof.
  intros Hsub Hnd. apply submseteq_Permutation in Hsub. destruct Hsub as (k & Hk).
  rewrite Hk in Hnd. apply NoDup_app in Hnd. destruct Hnd as (H1 & _). exact H1.
Qed.

Lemma filter_sublist {A} (P : A -> Prop) `{forall x, Decision (P x)} (l : list A) :
  filter P l `sublist_of` l.
Proof.
  induction l as [|x l IH]; [constructor|].
  rewrite filter_cons. destruct (decide (P x)).
  - apply sublist_skip. exact IH.
  - apply sublist_cons. exact IH.
Qed.

Lemma in_list_true x l : in_list x l = true <-> x ∈ l.
Proof.
  unfold in_list. rewrite existsb_exists. split.
  - intros (y & Hy & Hxy). apply String.eqb_eq in Hxy. subst y. apply elem_of_list_In. exact Hy.
  - intros Hx. exists x. split; [apply elem_of_list_In; exact Hx|apply String.eqb_refl].
Qed.

Lemma in_list_false x l : in_list x l = false <-> x ∉ l.
Proof. rewrite <- in_list_true. destruct (in_list x l); split; congruence. Qed.

(** ** the candidate lists *)
Lemma all_cands_addrs nodes : c_addr <$> all_cands nodes = (sorted_items nodes).*1.
Proof.
  unfold all_cands. rewrite (map_is_fmap _ (sorted_items nodes)). rewrite <- list_fmap_compose.
  apply list_fmap_ext. intros i [k v] _. reflexivity.
Qed.

Lemma all_cands_NoDup (nodes : gmap string Node) : NoDup (c_addr <$> all_cands nodes).
Proof.
  rewrite all_cands_addrs. unfold sorted_items.
  rewrite merge_sort_Permutation. apply NoDup_fst_map_to_list.
Qed.

Lemma all_cands_lookup (nodes : gmap string Node) c :
  c ∈ all_cands nodes -> nodes !! c_addr c = Some (c_node c).
Proof.
  unfold all_cands. rewrite (map_is_fmap _ (sorted_items nodes)). intros Hc.
  apply elem_of_list_fmap in Hc. destruct Hc as ([k v] & -> & Hkv).
  unfold sorted_items in Hkv. rewrite merge_sort_Permutation in Hkv.
  apply elem_of_map_to_list in Hkv. exact Hkv.
Qed.

Lemma normal_cands_sublist nodes pledges size :
  normal_cands nodes pledges size `sublist_of` all_cands nodes.
Proof. unfold normal_cands. apply filter_sublist. Qed.

Lemma normal_cands_elem nodes pledges size c :
  c ∈ normal_cands nodes pledges size ->
  c ∈ all_cands nodes /\ eligible pledges size c = true /\ n_role (c_node c) = 0.
Proof.
  unfold normal_cands. intros Hc. apply elem_of_list_filter in Hc. destruct Hc as (HP & Hin).
  apply Is_true_eq_true in HP. apply andb_prop in HP. destruct HP as (He & Hr).
  apply Z.eqb_eq in Hr. split; [exact Hin|]. split; [exact He|exact Hr].
Qed.

Lemma super_cands_elem nodes c :
  c ∈ super_cands nodes -> c ∈ all_cands nodes /\ n_role (c_node c) = 1.
Proof.
  unfold super_cands. intros Hc. apply elem_of_list_filter in Hc. destruct Hc as (HP & Hin).
  apply Is_true_eq_true in HP. apply Z.eqb_eq in HP. split; [exact Hin|exact HP].
Qed.

(** ** remove_cand *)
Lemma remove_cand_sublist s l : remove_cand s l `sublist_of` l.
Proof.
  induction l as [|c l IH]; cbn [remove_cand]; [constructor|].
  destruct (String.eqb s (c_addr c)).
  - apply sublist_cons. reflexivity.
  - apply sublist_skip. exact IH.
Qed.

Lemma remove_cand_notin s l : NoDup (c_addr <$> l) -> s ∉ c_addr <$> remove_cand s l.
Proof.
  induction l as [|c l IH]; cbn [remove_cand]; intros Hnd.
  - apply not_elem_of_nil.
  - rewrite fmap_cons in Hnd. apply NoDup_cons in Hnd. destruct Hnd as (Hc & Hnd).
    destruct (String.eqb s (c_addr c)) eqn:Es.
    + apply String.eqb_eq in Es. subst s. exact Hc.
    + apply String.eqb_neq in Es. rewrite fmap_cons. apply not_elem_of_cons.
      split; [exact Es|]. apply IH. exact Hnd.
Qed.

Lemma remove_all_spec ignore : forall l,
  NoDup (c_addr <$> l) ->
  fold_left (fun l s => remove_cand s l) ignore l `sublist_of` l /\
  (forall s, s ∈ ignore -> s ∉ c_addr <$> fold_left (fun l s => remove_cand s l) ignore l).
Proof.
  induction ignore as [|s0 ignore IH]; intros l Hnd; cbn [fold_left].
  - split; [reflexivity|]. intros s Hs. apply elem_of_nil in Hs. contradiction.
  - pose proof (remove_cand_sublist s0 l) as Hsub0.
    assert (Hnd0 : NoDup (c_addr <$> remove_cand s0 l)).
    { eapply submseteq_NoDup; [|exact Hnd]. apply fmap_submseteq. apply sublist_submseteq. exact Hsub0. }
    destruct (IH _ Hnd0) as (Hsub & Hnot).
    split; [etransitivity; [exact Hsub|exact Hsub0]|].
    intros s Hs. apply elem_of_cons in Hs. destruct Hs as [->|Hs].
    + intros Hin. apply (remove_cand_notin s0 l Hnd).
      eapply elem_of_submseteq; [exact Hin|]. apply fmap_submseteq. apply sublist_submseteq. exact Hsub.
    + apply Hnot. exact Hs.
Qed.

(** ** picking by distinct indices *)
Lemma omap_lookup_elem {A} (sel : list A) (idx : list Z) c :
  c ∈ omap (fun i => sel !! Z.to_nat i) idx -> c ∈ sel.
Proof.
  intros Hc. apply elem_of_list_omap in Hc. destruct Hc as (i & _ & Hi).
  eapply elem_of_list_lookup_2. exact Hi.
Qed.

Lemma omap_length_le {A B} (f : A -> option B) (l : list A) : (length (omap f l) <= length l)%nat.
Proof.
  induction l as [|x l IH]; cbn; [lia|]. destruct (f x); cbn; lia.
Qed.

Lemma omap_lookup_NoDup (sel : list Cand) (idx : list Z) :
  NoDup (c_addr <$> sel) -> NoDup idx -> Forall (fun i => 0 <= i) idx ->
  NoDup (c_addr <$> omap (fun i => sel !! Z.to_nat i) idx).
Proof.
  intros Hsel. induction idx as [|i idx IH]; intros Hnd Hpos.
  - cbn. apply NoDup_nil_2.
  - apply NoDup_cons in Hnd. destruct Hnd as (Hi & Hnd).
    apply Forall_cons in Hpos. destruct Hpos as (Hi0 & Hpos).
    cbn [omap list_omap]. change (list_omap ?f ?l) with (omap f l).
    destruct (sel !! Z.to_nat i) as [c|] eqn:Hlk; [|apply IH; assumption].
    rewrite fmap_cons. apply NoDup_cons. split; [|apply IH; assumption].
    intros Hin. apply elem_of_list_fmap in Hin. destruct Hin as (c' & Haddr & Hc').
    apply elem_of_list_omap in Hc'. destruct Hc' as (i' & Hi' & Hlk').
    assert (Hi'0 : 0 <= i').
    { rewrite Forall_forall in Hpos. apply Hpos. exact Hi'. }
    assert (Heq : Z.to_nat i = Z.to_nat i').
    { eapply (NoDup_lookup (c_addr <$> sel) _ _ (c_addr c) Hsel).
      - rewrite list_lookup_fmap, Hlk. reflexivity.
      - rewrite list_lookup_fmap, Hlk'. cbn. rewrite Haddr. reflexivity. }
    assert (i = i') by lia. subst i'. contradiction.
Qed.

(** ** the body of RandomSP after the super node has been chosen *)
Definition sp_cands (nodes : gmap string Node) (pledges : gmap string Pledge)
           (ignore : list string) (size : Z) : list Cand :=
  fold_left (fun l s => remove_cand s l) ignore (normal_cands nodes pledges size).

Definition sp_tail (nodes : gmap string Node) (pledges : gmap string Pledge) (seed count : Z)
           (ignore : list string) (size : Z) (supn : Z) (newround : option Z) (supl : list Cand)
  : sel (list Cand * option Z) :=
  if (supn =? 1) && (count =? 1) then SelOk (supl, newround) else
  let cands := sp_cands nodes pledges ignore size in
  if supn + Z.of_nat (length cands) <=? count then SelOk (supl ++ cands, newround) else
  let count' := count - supn in
  if count' <? 0 then SelPanic else
  let maxc := if count' * 2 <? Z.of_nat (length cands) then count' * 2 else Z.of_nat (length cands) in
  let sel := select_nodes (Z.to_nat maxc) cands in
  match random_index seed maxc count' with
  | SelHang => SelHang
  | SelPanic => SelPanic
  | SelOk idx => SelOk (supl ++ omap (fun i => sel !! Z.to_nat i) idx, newround)
  end.

Lemma random_sp_unfold nodes pledges round0 seed count ignore size :
  random_sp nodes pledges round0 seed count ignore size =
  match next_super nodes pledges round0 ignore size with
  | SelHang => SelHang
  | SelPanic => SelPanic
  | SelOk sup =>
      sp_tail nodes pledges seed count ignore size
        (match sup with Some _ => 1 | None => 0 end)
        (match sup with Some (_, r) => Some r | None => None end)
        (match sup with Some (c, _) => [c] | None => [] end)
  end.
Proof. reflexivity. Qed.

Lemma sp_cands_spec nodes pledges ignore size :
  NoDup (c_addr <$> sp_cands nodes pledges ignore size) /\
  (forall c, c ∈ sp_cands nodes pledges ignore size ->
             c ∈ normal_cands nodes pledges size /\ in_list (c_addr c) ignore = false).
Proof.
  unfold sp_cands.
  assert (Hnd : NoDup (c_addr <$> normal_cands nodes pledges size)).
  { eapply submseteq_NoDup; [|apply (all_cands_NoDup nodes)].
    apply fmap_submseteq. apply sublist_submseteq. apply normal_cands_sublist. }
  destruct (remove_all_spec ignore _ Hnd) as (Hsub & Hnot).
  split.
  - eapply submseteq_NoDup; [|exact Hnd].
    apply fmap_submseteq. apply sublist_submseteq. exact Hsub.
  - intros c Hc. split.
    + eapply elem_of_submseteq; [exact Hc|]. apply sublist_submseteq. exact Hsub.
    + apply in_list_false. intros Hin. apply (Hnot _ Hin).
      apply elem_of_list_fmap. exists c. split; [reflexivity|exact Hc].
Qed.

Definition sup_ok (nodes : gmap string Node) (pledges : gmap string Pledge)
           (ignore : list string) (size : Z) (c : Cand) : Prop :=
  c ∈ all_cands nodes /\ n_role (c_node c) = 1 /\ eligible pledges size c = true /\
  in_list (c_addr c) ignore = false.

Definition pick_ok (nodes : gmap string Node) (pledges : gmap string Pledge)
           (ignore : list string) (size : Z) (c : Cand) : Prop :=
  c ∈ normal_cands nodes pledges size /\ in_list (c_addr c) ignore = false.

Lemma sp_assemble nodes pledges ignore size supl picks :
  NoDup (c_addr <$> supl) ->
  (forall c, c ∈ supl -> sup_ok nodes pledges ignore size c) ->
  NoDup (c_addr <$> picks) ->
  (forall c, c ∈ picks -> pick_ok nodes pledges ignore size c) ->
  NoDup (map c_addr (supl ++ picks)) /\
  (forall c, In c (supl ++ picks) ->
     nodes !! c_addr c = Some (c_node c) /\ eligible pledges size c = true /\
     in_list (c_addr c) ignore = false).
Proof.
  intros Hnd1 Hsup Hnd2 Hpick. split.
  - rewrite (map_is_fmap c_addr (supl ++ picks)). rewrite fmap_app. apply NoDup_app.
    split; [exact Hnd1|]. split; [|exact Hnd2].
    intros a Ha1 Ha2.
    apply elem_of_list_fmap in Ha1. destruct Ha1 as (c1 & Ha1 & Hc1).
    apply elem_of_list_fmap in Ha2. destruct Ha2 as (c2 & Ha2 & Hc2).
    destruct (Hsup c1 Hc1) as (Hall1 & Hrole1 & _).
    destruct (Hpick c2 Hc2) as (Hn2 & _).
    apply normal_cands_elem in Hn2. destruct Hn2 as (Hall2 & _ & Hrole2).
    apply all_cands_lookup in Hall1. apply all_cands_lookup in Hall2.
    rewrite <- Ha1 in Hall1. rewrite <- Ha2 in Hall2. rewrite Hall1 in Hall2.
    injection Hall2 as Heq. rewrite Heq in Hrole1. lia.
  - intros c Hc. apply elem_of_list_In in Hc. apply elem_of_app in Hc. destruct Hc as [Hc|Hc].
    + destruct (Hsup c Hc) as (Hall & _ & Hel & Hign).
      split; [apply all_cands_lookup; exact Hall|]. split; [exact Hel|exact Hign].
    + destruct (Hpick c Hc) as (Hn & Hign).
      apply normal_cands_elem in Hn. destruct Hn as (Hall & Hel & _).
      split; [apply all_cands_lookup; exact Hall|]. split; [exact Hel|exact Hign].
Qed.

Lemma sp_tail_spec nodes pledges seed count ignore size supn newround supl sps r :
  supn = Z.of_nat (length supl) ->
  NoDup (c_addr <$> supl) ->
  (forall c, c ∈ supl -> sup_ok nodes pledges ignore size c) ->
  sp_tail nodes pledges seed count ignore size supn newround supl = SelOk (sps, r) ->
  NoDup (map c_addr sps) /\
  (forall c, In c sps ->
     nodes !! c_addr c = Some (c_node c) /\ eligible pledges size c = true /\
     in_list (c_addr c) ignore = false) /\
  Z.of_nat (length sps) <= Z.max 0 count.
Proof.
  intros Hsupn Hnd1 Hsup Hres. unfold sp_tail in Hres.
  destruct (sp_cands_spec nodes pledges ignore size) as (Hcnd & Hcok).
  set (cands := sp_cands nodes pledges ignore size) in *.
  destruct ((supn =? 1) && (count =? 1)) eqn:E1.
  { injection Hres as <- <-.
    apply andb_prop in E1. destruct E1 as (E1a & E1b).
    apply Z.eqb_eq in E1a. apply Z.eqb_eq in E1b.
    destruct (sp_assemble nodes pledges ignore size supl [] Hnd1 Hsup) as (HA & HB).
    { apply NoDup_nil_2. }
    { intros c Hc. apply elem_of_nil in Hc. contradiction. }
    rewrite app_nil_r in HA, HB.
    split; [exact HA|]. split; [exact HB|]. lia. }
  cbv zeta in Hres.
  destruct (supn + Z.of_nat (length cands) <=? count) eqn:E2.
  { injection Hres as <- <-.
    destruct (sp_assemble nodes pledges ignore size supl cands Hnd1 Hsup Hcnd Hcok) as (HA & HB).
    split; [exact HA|]. split; [exact HB|].
    rewrite app_length. lia. }
  destruct (count - supn <? 0) eqn:E3; [discriminate|].
  set (maxc := if (count - supn) * 2 <? Z.of_nat (length cands)
               then (count - supn) * 2 else Z.of_nat (length cands)) in *.
  destruct (random_index seed maxc (count - supn)) as [idx| |] eqn:Hri; [|discriminate|discriminate].
  injection Hres as <- <-.
  (* the index list; the seed sign is irrelevant for [random_index_spec] *)
  assert (Hidx : NoDup idx /\ Forall (fun i => 0 <= i < maxc) idx /\
                 Z.of_nat (length idx) <= count - supn).
  { unfold random_index in Hri.
    destruct (maxc <=? count - supn) eqn:F1.
    { injection Hri as <-. split; [apply NoDup_nil_2|]. split; [apply Forall_nil_2|]. cbn [length]. lia. }
    destruct (count - supn <=? 0) eqn:F2.
    { injection Hri as <-. split; [apply NoDup_nil_2|]. split; [apply Forall_nil_2|]. cbn [length]. lia. }
    apply random_index_loop_spec in Hri.
    - destruct Hri as (H1 & H2 & H3). split; [exact H1|]. split; [exact H2|].
      rewrite H3. cbn [length]. lia.
    - lia.
    - apply NoDup_nil_2.
    - apply Forall_nil_2.
    - cbn [length]. lia. }
  destruct Hidx as (Hinodup & Hirange & Hilen).
  set (sel := select_nodes (Z.to_nat maxc) cands) in *.
  pose proof (select_nodes_submseteq (Z.to_nat maxc) cands) as Hselsub. fold sel in Hselsub.
  assert (Hselnd : NoDup (c_addr <$> sel)).
  { eapply submseteq_NoDup; [|exact Hcnd]. apply fmap_submseteq. exact Hselsub. }
  set (picks := omap (fun i => sel !! Z.to_nat i) idx) in *.
  assert (Hpnd : NoDup (c_addr <$> picks)).
  { apply omap_lookup_NoDup; [exact Hselnd|exact Hinodup|].
    eapply Forall_impl; [exact Hirange|]. intros i Hi. cbv beta in Hi. lia. }
  assert (Hpok : forall c, c ∈ picks -> pick_ok nodes pledges ignore size c).
  { intros c Hc. apply Hcok. eapply elem_of_submseteq; [|exact Hselsub].
    eapply omap_lookup_elem. exact Hc. }
  destruct (sp_assemble nodes pledges ignore size supl picks Hnd1 Hsup Hpnd Hpok) as (HA & HB).
  split; [exact HA|]. split; [exact HB|].
  rewrite app_length.
  pose proof (omap_length_le (fun i => sel !! Z.to_nat i) idx) as Hle. fold picks in Hle.
  apply Z.ltb_ge in E3. lia.
Qed.

Lemma sp_tail_terminates nodes pledges seed count ignore size supn newround supl :
  0 <= seed -> seed < 10 ^ 400 ->
  sp_tail nodes pledges seed count ignore size supn newround supl <> SelHang.
Proof.
  intros Hs0 Hs1. unfold sp_tail.
  destruct ((supn =? 1) && (count =? 1)); [discriminate|].
  cbv zeta.
  destruct (supn + Z.of_nat (length (sp_cands nodes pledges ignore size)) <=? count); [discriminate|].
  destruct (count - supn <? 0); [discriminate|].
  match goal with |- match random_index ?s ?m ?c with _ => _ end <> _ =>
    pose proof (random_index_terminates_partial s m c Hs0 Hs1) as (Hh & Hp);
    destruct (random_index s m c) end.
  - discriminate.
  - contradiction.
  - discriminate.
Qed.

(** ** main theorems *)
Theorem random_sp_spec : forall nodes pledges round0 seed count ignore size sps r,
  0 <= seed ->
  random_sp nodes pledges round0 seed count ignore size = SelOk (sps, r) ->
  NoDup (map c_addr sps) /\
  (forall c, In c sps ->
     nodes !! c_addr c = Some (c_node c) /\ eligible pledges size c = true /\
     in_list (c_addr c) ignore = false) /\
  Z.of_nat (length sps) <= Z.max 0 count.
Proof.
  intros nodes pledges round0 seed count ignore size sps r _ Hres.
  rewrite random_sp_unfold in Hres.
  destruct (next_super nodes pledges round0 ignore size) as [sup| |] eqn:Hns;
    [|discriminate|discriminate].
  destruct sup as [[c0 r0]|].
  - apply next_super_spec in Hns. destruct Hns as (Hin & Hign & Hel & _).
    apply elem_of_list_In in Hin. apply super_cands_elem in Hin. destruct Hin as (Hall & Hrole).
    eapply sp_tail_spec; [| | |exact Hres].
    + reflexivity.
    + cbn. apply NoDup_singleton.
    + intros c Hc. apply elem_of_list_singleton in Hc. subst c.
      split; [exact Hall|]. split; [exact Hrole|]. split; [exact Hel|exact Hign].
  - eapply sp_tail_spec; [| | |exact Hres].
    + reflexivity.
    + cbn. apply NoDup_nil_2.
    + intros c Hc. apply elem_of_nil in Hc. contradiction.
Qed.
Print Assumptions random_sp_spec.

(* needs the same bound on the seed as [random_index_terminates_partial] *)
Theorem random_sp_terminates_partial : forall nodes pledges round0 seed count ignore size,
  0 <= seed -> seed < 10 ^ 400 ->
  random_sp nodes pledges round0 seed count ignore size <> SelHang.
Proof.
  intros nodes pledges round0 seed count ignore size Hs0 Hs1.
  rewrite random_sp_unfold.
  pose proof (next_super_terminates nodes pledges round0 ignore size) as Hns.
  destruct (next_super nodes pledges round0 ignore size) as [sup| |]; [|contradiction|discriminate].
  apply sp_tail_terminates; assumption.
Qed.
Print Assumptions random_sp_terminates_partial.

(** ** the requested names, with the additional hypothesis [seed < 10 ^ 400] *)
Theorem random_index_terminates : forall seed total count,
  0 <= seed -> seed < 10 ^ 400 ->
  random_index seed total count <> SelHang /\ random_index seed total count <> SelPanic.
Proof. exact random_index_terminates_partial. Qed.
Print Assumptions random_index_terminates.

Theorem random_sp_terminates : forall nodes pledges round0 seed count ignore size,
  0 <= seed -> seed < 10 ^ 400 ->
  random_sp nodes pledges round0 seed count ignore size <> SelHang.
Proof. exact random_sp_terminates_partial. Qed.
Print Assumptions random_sp_terminates.

(** * Examples *)
Module SelectExamples.
  Example ri_ex1 : random_index 0 3 2 = SelOk [0; 1].
  Proof. vm_compute. reflexivity. Qed.
  Example ri_ex2 : random_index 12345 10 3 = SelOk [5; 4; 3].
  Proof. vm_compute. reflexivity. Qed.
  (* duplicate draws, then the seed runs out and the smallest free indices are taken *)
  Example ri_ex3 : random_index 999 5 4 = SelOk [4; 0; 1; 2].
  Proof. vm_compute. reflexivity. Qed.
  Example ri_ex4 : random_index 1111 11 3 = SelOk [0; 1; 2].
  Proof. vm_compute. reflexivity. Qed.
  (* count >= total: nothing is drawn *)
  Example ri_ex5 : random_index 7 3 5 = SelOk [].
  Proof. vm_compute. reflexivity. Qed.
  (* the saturating fuel: a seed of 405 digits with count 2 of 3 *)
  Example ri_ex6 : random_index (10 ^ 404) 3 2 = SelHang.
  Proof. vm_compute. reflexivity. Qed.
  Example ri_ex7 : random_index (10 ^ 403) 3 2 = SelOk [0; 1].
  Proof. vm_compute. reflexivity. Qed.

  Definition ex_super : Node := mkNode "peer-s" 9000 13 50 [] 1 "".
  Definition ex_a : Node := mkNode "peer-a" 8500 13 70 [] 0 "".
  Definition ex_b : Node := mkNode "peer-b" 9500 13 70 [] 0 "".
  Definition ex_c : Node := mkNode "peer-c" 9100 13 90 [] 0 "".
  Definition ex_pl : Pledge := mkPledge 0 0 0 0 1000 0.
  Definition ex_nodes : gmap string Node :=
    list_to_map [("s", ex_super); ("a", ex_a); ("b", ex_b)].
  Definition ex_nodes3 : gmap string Node :=
    list_to_map [("a", ex_a); ("b", ex_b); ("c", ex_c)].
  Definition ex_pledges : gmap string Pledge :=
    list_to_map [("s", ex_pl); ("a", ex_pl); ("b", ex_pl); ("c", ex_pl)].

  Example sn_ex1 : map c_addr (select_nodes 2 (all_cands ex_nodes3)) = ["c"; "b"].
  Proof. vm_compute. reflexivity. Qed.

  Example ns_ex1 : next_super ex_nodes ex_pledges 0 [] 10 = SelOk (Some (mkCand "s" ex_super, 0)).
  Proof. vm_compute. reflexivity. Qed.

  (* one super node and one of two normal nodes drawn by index *)
  Example sp_ex1 : random_sp ex_nodes ex_pledges 0 7 2 [] 10 =
                   SelOk ([mkCand "s" ex_super; mkCand "a" ex_a], Some 0).
  Proof. vm_compute. reflexivity. Qed.
  (* not more candidates than requested: all of them *)
  Example sp_ex2 : random_sp ex_nodes ex_pledges 0 7 3 [] 10 =
                   SelOk ([mkCand "s" ex_super; mkCand "a" ex_a; mkCand "b" ex_b], Some 0).
  Proof. vm_compute. reflexivity. Qed.
  (* an ignored provider is not placed *)
  Example sp_ex3 : random_sp ex_nodes ex_pledges 0 7 2 ["b"] 10 =
                   SelOk ([mkCand "s" ex_super; mkCand "a" ex_a], Some 0).
  Proof. vm_compute. reflexivity. Qed.
  (* no super node: heap selection then index draw *)
  Example sp_ex4 : random_sp ex_nodes3 ex_pledges 0 7 2 [] 10 =
                   SelOk ([mkCand "b" ex_b; mkCand "c" ex_c], None).
  Proof. vm_compute. reflexivity. Qed.

  (* the placement theorem applied to a concrete run *)
  Example sp_ex1_facts :
    NoDup (map c_addr [mkCand "s" ex_super; mkCand "a" ex_a]) /\
    (forall c, In c [mkCand "s" ex_super; mkCand "a" ex_a] ->
       ex_nodes !! c_addr c = Some (c_node c) /\ eligible ex_pledges 10 c = true /\
       in_list (c_addr c) [] = false) /\
    Z.of_nat (length [mkCand "s" ex_super; mkCand "a" ex_a]) <= Z.max 0 2.
  Proof. apply (random_sp_spec ex_nodes ex_pledges 0 7 2 [] 10 _ (Some 0)); [lia|exact sp_ex1]. Qed.
End SelectExamples.

(* RandomSP inherits the hang of RandomIndex for seeds of more than 400 digits *)
Theorem random_sp_terminates_refuted :
  exists nodes pledges round0 seed count ignore size,
    0 <= seed /\ random_sp nodes pledges round0 seed count ignore size = SelHang.
Proof.
  exists SelectExamples.ex_nodes3, SelectExamples.ex_pledges, 0, (10 ^ 404), 2, [], 10.
  split; [apply Z.pow_nonneg; lia|]. vm_compute. reflexivity.
Qed.
Print Assumptions random_sp_terminates_refuted.
