(* C07: what the chain takes as collateral for a shard is what it records for it. [shard_pledge] (ShardPledge, called
   when a shard is reported stored) takes from the provider exactly the amount it writes into the shard's pledge field
   and adds to the provider's recorded shard collateral -- or, for a migrated shard with queued renewals whose provider
   cannot pay, takes what the provider has and records the rest as debt. Together with [Money.shard_release_pays_owner]
   (the release returns the recorded amount less exactly the reduction of the recorded debt): the amount returned for a
   shard equals the amount taken for it, less only recorded debt. *)
From SaoVerif Require Import Base.Prelude Base.Ints Base.Dec Model.Did Model.Types Model.Monad Model.Bank Model.Select
     Model.Node Model.Storage Proofs.Money.
From RecordUpdate Require Import RecordUpdate.
Import RecordSetNotations.

Theorem shard_pledge_takes : forall id sh price s sh' s' p,
  shard_pledge id sh price s = Ok sh' s' -> pledges s !! sh_sp sh = Some p -> sh_sp sh <> macc NODE ->
  exists taken p',
    0 <= taken /\ taken <= sh_pledge sh' /\
    balance s' (sh_sp sh) = balance s (sh_sp sh) - taken /\
    balance s' (macc NODE) = balance s (macc NODE) + taken /\
    default 0 (debts s' !! sh_sp sh) = default 0 (debts s !! sh_sp sh) + (sh_pledge sh' - taken) /\
    (sh_renew sh = [] -> taken = sh_pledge sh') /\
    (forall a, a <> sh_sp sh -> a <> macc NODE -> bal s' !! a = bal s !! a) /\
    (forall k, k <> sh_sp sh -> debts s' !! k = debts s !! k) /\
    pledges s' !! sh_sp sh = Some p' /\ pl_shpledged p' = pl_shpledged p + sh_pledge sh' /\
    pl_total p' = pl_total p /\ pl_spledged p' = pl_spledged p /\
    (forall k, k <> sh_sp sh -> pledges s' !! k = pledges s !! k) /\
    shards s' !! id = Some sh' /\ sh' = sh <| sh_pledge := sh_pledge sh' |>.
Proof.
  intros id sh price s sh' s' p H Hp Hne. unfold shard_pledge in H.
  apply bind_ok in H as (s0 & s0' & Hg & H). inversion Hg; subst s0 s0'; clear Hg.
  rewrite Hp in H. destruct (pool s) as [po|]; [|discriminate].
  destruct (u64 _ <? sh_size sh); [discriminate|].
  destruct (dec_trunc _ <? 0); [discriminate|].
  set (spl := fold_left _ (sh_renew sh) _) in H.
  destruct (settle_fields (po_accreward po) p) as (F1 & F2 & F3 & _).
  apply bind_ok in H as ([] & s1 & Hsend & H).
  apply bind_ok in H as ([] & s2 & Hm & H). unfold modify in Hm. inversion Hm; subst s2; clear Hm.
  unfold ret in H. inversion H; subst sh' s'; clear H.
  (* the two ways the collateral is taken *)
  assert (Hcases :
    (exists taken, 0 <= taken /\ taken <= spl /\
       balance s1 (sh_sp sh) = balance s (sh_sp sh) - taken /\ balance s1 (macc NODE) = balance s (macc NODE) + taken /\
       default 0 (debts s1 !! sh_sp sh) = default 0 (debts s !! sh_sp sh) + (spl - taken) /\
       (sh_renew sh = [] -> taken = spl) /\
       (forall a, a <> sh_sp sh -> a <> macc NODE -> bal s1 !! a = bal s !! a) /\
       (forall k, k <> sh_sp sh -> debts s1 !! k = debts s !! k) /\ pledges s1 = pledges s)).
  { assert (Hlen : forall t t', send_lenient (sh_sp sh) (macc NODE) spl t = Ok tt t' ->
              0 <= spl /\ balance t' (sh_sp sh) = balance t (sh_sp sh) - spl /\ balance t' (macc NODE) = balance t (macc NODE) + spl /\
              (forall a, a <> sh_sp sh -> a <> macc NODE -> bal t' !! a = bal t !! a) /\ debts t' = debts t /\ pledges t' = pledges t).
    { intros t t' Hs. apply send_lenient_post in Hs as (L1 & L2 & L3 & L4 & L5).
      destruct (L3 Hne) as [L3a L3b]. rewrite L5. cbn. repeat split; try assumption. }
    destruct (sh_renew sh) as [|ri rs] eqn:Er.
    - destruct (Hlen _ _ Hsend) as (L1 & L2 & L3 & L4 & L5 & L6).
      exists spl. rewrite L5. repeat split; try assumption; try lia; try (intros; reflexivity).
    - destruct (spl <=? balance s (sh_sp sh)) eqn:Eb.
      + destruct (Hlen _ _ Hsend) as (L1 & L2 & L3 & L4 & L5 & L6).
        exists spl. rewrite L5. repeat split; try assumption; try lia; try discriminate; try (intros; reflexivity).
      + zb. apply bind_ok in Hsend as ([] & t1 & Hm & Hsend). unfold modify in Hm. inversion Hm; subst t1; clear Hm.
        apply send_strict_post in Hsend as (S1 & S2 & S3 & S4 & S5 & S6).
        destruct (S3 Hne) as [S3a S3b].
        set (b := balance s (sh_sp sh)) in *.
        assert (Eb1 : balance (s <| debts ::= <[sh_sp sh := default 0 (debts s !! sh_sp sh) + (spl - b)]> |>) (sh_sp sh) = b) by reflexivity.
        assert (Eb2 : balance (s <| debts ::= <[sh_sp sh := default 0 (debts s !! sh_sp sh) + (spl - b)]> |>) (macc NODE) = balance s (macc NODE)) by reflexivity.
        exists b.
        split; [lia|]. split; [lia|]. split; [rewrite S3a, Eb1; lia|]. split; [rewrite S3b, Eb2; reflexivity|].
        rewrite S6.
        split; [cbn; rewrite lookup_insert; cbn; lia|]. split; [discriminate|].
        split; [intros a Ha1 Ha2; cbn; rewrite (S5 a Ha1 Ha2); reflexivity|].
        split; [intros k Hk; cbn; rewrite lookup_insert_ne by congruence; reflexivity|reflexivity]. }
  destruct Hcases as (taken & T1 & T2 & T3 & T4 & T5 & T6 & T7 & T8 & T9).
  exists taken. eexists. cbn.
  split; [exact T1|]. split; [exact T2|]. split; [exact T3|]. split; [exact T4|]. split; [exact T5|]. split; [exact T6|].
  split; [exact T7|]. split; [exact T8|].
  split; [apply lookup_insert|]. cbn. rewrite F1, F2, F3.
  split; [reflexivity|]. split; [reflexivity|]. split; [reflexivity|].
  split; [intros k Hk; rewrite lookup_insert_ne by congruence; rewrite T9; reflexivity|].
  split; [apply lookup_insert|reflexivity].
Qed.
Print Assumptions shard_pledge_takes.

(** ** non-vacuity: the completion in RefInt.W takes the shard's collateral from its provider "T" into the node escrow *)
From SaoVerif Require Import Model.Sao Model.Hooks Model.App Proofs.RefInt.
Example collateral_nonvacuous :
  exists sh, shards W.s2 !! 1 = Some sh /\ 0 < sh_pledge sh /\
    balance W.s2 "T" = balance W.s1 "T" - sh_pledge sh /\
    balance W.s2 (macc NODE) = balance W.s1 (macc NODE) + sh_pledge sh.
Proof. eexists. split; [vm_compute; reflexivity|]. split; [vm_compute; reflexivity|]. split; vm_compute; reflexivity. Qed.
