(* Proofs about the DID registry model (property C17): the invariant [Inv_did] holds
   initially and is preserved by every operation, and the per-operation statements. *)
From SaoVerif Require Import Base.Prelude Base.Ints Model.Did Model.DidSpec.
From RecordUpdate Require Import RecordUpdate.
Import RecordSetNotations.

(** * Strings *)
Lemma sid_inj a b : "did:sid:" +:+ a = "did:sid:" +:+ b -> a = b.
Proof. intros H. cbv [String.append] in H. congruence. Qed.

Lemma is_sid_app x : is_sid ("did:sid:" +:+ x) = true.
Proof. reflexivity. Qed.

Lemma str_prefix_spec p s : str_prefix p s = true -> exists r, s = p +:+ r.
Proof.
  revert s. induction p as [|a p IH]; intros s H.
  - exists s. reflexivity.
  - destruct s as [|b s]; simpl in H; [discriminate|].
    destruct (Ascii.eqb a b) eqn:E; [|discriminate].
    apply Ascii.eqb_eq in E. subst b. destruct (IH _ H) as [r ->]. exists r. reflexivity.
Qed.

Lemma sid_not_key d : is_sid d = true -> is_keydid d = true -> False.
Proof.
  intros H1 H2. apply str_prefix_spec in H1. destruct H1 as [r ->]. discriminate H2.
Qed.

Lemma andb3_eq a b c x y z :
  String.eqb a x && String.eqb b y && String.eqb c z = true <-> a = x /\ b = y /\ c = z.
Proof. rewrite !andb_true_iff, !String.eqb_eq. tauto. Qed.

(** * Lists *)
Lemma in_list_In x l : in_list x l = true <-> In x l.
Proof.
  unfold in_list. rewrite existsb_exists. split.
  - intros [y [Hy E]]. apply String.eqb_eq in E. subst y. exact Hy.
  - intros H. exists x. split; [exact H|apply String.eqb_refl].
Qed.

Lemma in_list_not_In x l : in_list x l = false <-> ~ In x l.
Proof. rewrite <- in_list_In. destruct (in_list x l); split; congruence. Qed.

Lemma in_update_list_In d (l : list (string * (string * string))) :
  in_update_list d l = true <-> In d (map fst l).
Proof.
  unfold in_update_list. rewrite existsb_exists, in_map_iff. split.
  - intros [e [He E]]. apply String.eqb_eq in E. exists e. auto.
  - intros [e [E He]]. exists e. split; [exact He|]. apply String.eqb_eq. exact E.
Qed.

Lemma remove_first_In a x l : In a (remove_first x l) -> In a l.
Proof.
  induction l as [|y l IH]; simpl; [tauto|].
  destruct (String.eqb x y); simpl; tauto.
Qed.

Lemma remove_first_NoDup x l : NoDup l -> NoDup (remove_first x l).
Proof.
  induction l as [|y l IH]; simpl; intros ND; [exact ND|].
  apply NoDup_cons in ND. destruct ND as [Hy ND]. rewrite elem_of_list_In in Hy.
  destruct (String.eqb x y); [exact ND|].
  apply NoDup_cons. rewrite elem_of_list_In. split; [|auto].
  intros H. apply Hy. eapply remove_first_In, H.
Qed.

Lemma remove_first_In_iff a x l : NoDup l -> In a (remove_first x l) <-> In a l /\ a <> x.
Proof.
  induction l as [|y l IH]; simpl; intros ND; [tauto|].
  apply NoDup_cons in ND. destruct ND as [Hy ND]. rewrite elem_of_list_In in Hy.
  destruct (String.eqb x y) eqn:E.
  - apply String.eqb_eq in E. subst y. split.
    + intros H. split; [auto|]. intros ->. auto.
    + intros [[H|H] Hne]; [congruence|exact H].
  - apply String.eqb_neq in E. simpl. rewrite (IH ND). split.
    + intros [H|[H Hne]]; [subst a|]; split; auto.
    + intros [[H|H] Hne]; auto.
Qed.

Definition remove_all (R l : list string) : list string :=
  fold_left (fun l ad => remove_first ad l) R l.

Lemma remove_all_NoDup R l : NoDup l -> NoDup (remove_all R l).
Proof.
  unfold remove_all. revert l. induction R as [|x R IH]; simpl; intros l ND; [exact ND|].
  apply IH, remove_first_NoDup, ND.
Qed.

Lemma remove_all_In_iff a R l : NoDup l -> In a (remove_all R l) <-> In a l /\ ~ In a R.
Proof.
  unfold remove_all. revert l. induction R as [|x R IH]; simpl; intros l ND; [tauto|].
  rewrite (IH _ (remove_first_NoDup x l ND)), (remove_first_In_iff a x l ND).
  split.
  - intros [[H1 H2] H3]. split; [exact H1|]. intros [H|H]; [congruence|tauto].
  - intros [H1 H2]. repeat split; auto.
Qed.

(* The counting argument: a duplicate-free list covered by a list of the same length is
   a permutation of it. *)
Lemma counting (accl RU : list string) :
  NoDup accl -> length accl = length RU -> (forall a, In a accl -> In a RU) ->
  NoDup RU /\ (forall a, In a RU <-> In a accl).
Proof.
  intros ND Hlen Hsub.
  assert (Hsm : accl ⊆+ RU).
  { apply NoDup_submseteq; [exact ND|]. intros x Hx.
    apply elem_of_list_In, Hsub, elem_of_list_In, Hx. }
  assert (Hp : accl ≡ₚ RU).
  { apply submseteq_Permutation_length_eq; [symmetry; exact Hlen|exact Hsm]. }
  split.
  - rewrite <- Hp. exact ND.
  - intros a. rewrite <- !elem_of_list_In. rewrite Hp. tauto.
Qed.

(** * Maps: deleting / inserting a list of keys *)
Definition del_keys {A} (l : list string) (m : gmap string A) : gmap string A :=
  fold_left (fun m k => delete k m) l m.
Definition ins_auths {A} (l : list (string * A)) (m : gmap string A) : gmap string A :=
  fold_left (fun m a => <[fst a := snd a]> m) l m.

Lemma del_keys_Some {A} l (m : gmap string A) k v :
  del_keys l m !! k = Some v <-> ~ In k l /\ m !! k = Some v.
Proof.
  unfold del_keys. revert m. induction l as [|x l IH]; simpl; intros m; [tauto|].
  rewrite IH, lookup_delete_Some. split.
  - intros [H1 [H2 H3]]. split; [|exact H3]. intros [H|H]; auto.
  - intros [H1 H2]. repeat split; auto.
Qed.

Lemma del_keys_in {A} l (m : gmap string A) k : In k l -> del_keys l m !! k = None.
Proof.
  intros H. apply eq_None_not_Some. intros [v Hv]. apply del_keys_Some in Hv. tauto.
Qed.

Lemma del_keys_notin {A} l (m : gmap string A) k : ~ In k l -> del_keys l m !! k = m !! k.
Proof.
  intros H. apply option_eq. intros v. rewrite del_keys_Some. tauto.
Qed.

Lemma ins_auths_is_Some {A} (l : list (string * A)) m k :
  is_Some (ins_auths l m !! k) <-> In k (map fst l) \/ is_Some (m !! k).
Proof.
  unfold ins_auths. revert m. induction l as [|x l IH]; simpl; intros m; [tauto|].
  rewrite IH, lookup_insert_is_Some.
  destruct (decide (fst x = k)) as [E|E]; tauto.
Qed.

(** * The folds over the state, as single-field updates *)
Lemma fold_del_did l s :
  fold_left (fun st aid => st <| d_did ::= delete aid |>) l s = s <| d_did ::= del_keys l |>.
Proof.
  revert s. induction l as [|x l IH]; intros s; simpl.
  - destruct s; reflexivity.
  - rewrite IH. destruct s; reflexivity.
Qed.

Lemma fold_del_accid l s :
  fold_left (fun st ad => st <| d_accid ::= delete ad |>) l s = s <| d_accid ::= del_keys l |>.
Proof.
  revert s. induction l as [|x l IH]; intros s; simpl.
  - destruct s; reflexivity.
  - rewrite IH. destruct s; reflexivity.
Qed.

Lemma fold_del_auth l s :
  fold_left (fun st ad => st <| d_auth ::= delete ad |>) l s = s <| d_auth ::= del_keys l |>.
Proof.
  revert s. induction l as [|x l IH]; intros s; simpl.
  - destruct s; reflexivity.
  - rewrite IH. destruct s; reflexivity.
Qed.

Lemma fold_ins_auth (l : list (string * (string * string))) s :
  fold_left (fun st a => st <| d_auth ::= <[fst a := snd a]> |>) l s = s <| d_auth ::= ins_auths l |>.
Proof.
  revert s. induction l as [|x l IH]; intros s; simpl.
  - destruct s; reflexivity.
  - rewrite IH. destruct s; reflexivity.
Qed.

(** * check_remove *)
Definition rm_ok (chain : string) (s : DidState) (pay a id : string) : Prop :=
  d_accid s !! a = Some id /\
  exists c, parse_account_id id = Some c /\
            ~ (c_network c = "cosmos" /\ c_chainid c = chain /\ c_address c = pay).

Lemma check_remove_spec chain s pay l ids :
  check_remove chain s pay l = inr ids -> Forall2 (rm_ok chain s pay) l ids.
Proof.
  revert ids. induction l as [|a l IH]; intros ids H; cbn [check_remove] in H.
  - injection H as <-. constructor.
  - destruct (d_accid s !! a) as [aid|] eqn:E1; [|discriminate].
    destruct (parse_account_id aid) as [c|] eqn:E2; [|discriminate].
    destruct (String.eqb (c_network c) "cosmos" && String.eqb (c_chainid c) chain
              && String.eqb (c_address c) pay) eqn:E3; [discriminate|].
    destruct (check_remove chain s pay l) as [e|ids'] eqn:E4; [discriminate|].
    injection H as <-. constructor; [|apply IH; reflexivity].
    split; [exact E1|]. exists c. split; [exact E2|].
    intros H3. apply andb3_eq in H3. congruence.
Qed.

Lemma Forall2_In_l {A B} (P : A -> B -> Prop) l k a :
  Forall2 P l k -> In a l -> exists b, In b k /\ P a b.
Proof.
  induction 1 as [|x y l k Hxy HF IH]; simpl; [tauto|].
  intros [<-|H]; [exists y; auto|]. destruct (IH H) as [b [Hb Pb]]. exists b. auto.
Qed.

Lemma Forall2_In_r {A B} (P : A -> B -> Prop) l k b :
  Forall2 P l k -> In b k -> exists a, In a l /\ P a b.
Proof.
  induction 1 as [|x y l k Hxy HF IH]; simpl; [tauto|].
  intros [<-|H]; [exists x; auto|]. destruct (IH H) as [a [Ha Pa]]. exists a. auto.
Qed.

Lemma creator_bound_true chain s creator did :
  creator_bound chain s creator did = true <-> d_did s !! cosmos_id chain creator = Some did.
Proof.
  unfold creator_bound, cosmos_id.
  destruct (d_did s !! ("cosmos:" +:+ chain +:+ ":" +:+ creator)) as [d|].
  - rewrite String.eqb_eq. split; congruence.
  - split; discriminate.
Qed.

(** * What an accepted Update checked and did *)
Record UpdateOk (chain : string) (m : UpdateMsg) (s s' : DidState)
    (accl : list string) (pay : string) (rm_ids : list string) (meth pid : string) : Prop := {
  U_creator : d_did s !! cosmos_id chain (u_creator m) = Some (u_did m);
  U_accl : d_acclist s !! u_did m = Some accl;
  U_len : length accl = (length (u_remove m) + length (u_update m))%nat;
  U_cover : forall a, In a accl -> In a (u_remove m) \/ In a (map fst (u_update m));
  U_pay : d_pay s !! u_did m = Some pay;
  U_check : Forall2 (rm_ok chain s pay) (u_remove m) rm_ids;
  U_parse : u_parse m = Some (meth, pid);
  U_newver : ~ In (u_newdoc m) (default [] (d_ver s !! pid));
  U_newdoc : d_doc s !! u_newdoc m = None;
  U_auth' : d_auth s' = del_keys (u_remove m) (ins_auths (u_update m) (d_auth s));
  U_accid' : d_accid s' = del_keys (u_remove m) (d_accid s);
  U_acclist' : d_acclist s' = <[u_did m := remove_all (u_remove m) accl]> (d_acclist s);
  U_did' : d_did s' = del_keys rm_ids (d_did s);
  U_bal' : d_bal s' = d_bal s;
  U_kid' : d_kid s' = d_kid s;
  U_seeds' : d_seeds s' = <[u_did m := default [] (d_seeds s !! u_did m) ++ [u_seed m]]> (d_seeds s);
  U_pay' : d_pay s' = d_pay s;
  U_doc' : d_doc s' = <[u_newdoc m := u_keys m]> (d_doc s);
  U_ver' : d_ver s' = <[match d_ver s !! pid with Some _ => pid | None => "" end
                        := default [] (d_ver s !! pid) ++ [u_newdoc m]]> (d_ver s);
}.

Lemma did_update_inv chain now m s s' :
  did_update chain now m s = inr s' ->
  exists accl pay rm_ids meth pid, UpdateOk chain m s s' accl pay rm_ids meth pid.
Proof.
  unfold did_update. cbv zeta. intros H.
  destruct (creator_bound chain s (u_creator m) (u_did m)) eqn:Ecb; cbn [negb] in H; [|discriminate].
  destruct (u64 (u_ts m + EXPIRE_DURATION) <? u64 now) eqn:Ets; [discriminate|].
  destruct (Nat.eqb (length (u_remove m)) 0) eqn:Er0; [discriminate|].
  destruct (Nat.eqb (length (u_update m)) 0) eqn:Eu0; [discriminate|].
  destruct (d_acclist s !! u_did m) as [accl|] eqn:Eaccl; [|discriminate].
  destruct (Nat.eqb (length accl) (length (u_remove m) + length (u_update m))) eqn:Elen;
    cbn [negb] in H; [|discriminate].
  destruct (forallb (fun a => in_list a (u_remove m) || in_update_list a (u_update m)) accl) eqn:Ecov;
    cbn [negb] in H; [|discriminate].
  destruct (match d_seeds s !! u_did m with Some l => in_list (u_seed m) l | None => false end)
    eqn:Eseed; [discriminate|].
  destruct (d_pay s !! u_did m) as [pay|] eqn:Epay; [|discriminate].
  destruct (check_remove chain s pay (u_remove m)) as [e|rm_ids] eqn:Echk; [discriminate|].
  destruct (u_parse m) as [[meth pid]|] eqn:Eparse; [|discriminate].
  destruct (in_list (u_newdoc m) (default [] (d_ver s !! pid))) eqn:Ever; [discriminate|].
  destruct (bool_decide (is_Some (d_doc s !! u_newdoc m))) eqn:Edoc; [discriminate|].
  destruct (u_calc m) as [cal|] eqn:Ecalc; [|discriminate].
  destruct (String.eqb (u_newdoc m) cal) eqn:Ecal; cbn [negb] in H; [|discriminate].
  injection H as <-.
  rewrite fold_del_did, fold_del_accid, fold_ins_auth, fold_del_auth.
  exists accl, pay, rm_ids, meth, pid. constructor; try reflexivity; try assumption.
  - apply creator_bound_true, Ecb.
  - apply Nat.eqb_eq, Elen.
  - intros a Ha. rewrite forallb_forall in Ecov. specialize (Ecov a Ha).
    apply orb_true_iff in Ecov. rewrite in_list_In, in_update_list_In in Ecov. exact Ecov.
  - apply check_remove_spec, Echk.
  - apply in_list_not_In, Ever.
  - apply bool_decide_eq_false in Edoc. apply eq_None_not_Some. exact Edoc.
  - cbn. destruct (d_seeds s !! u_did m); reflexivity.
Qed.

(** * What an accepted Binding checked and did *)
Record BindOk (chain : string) (m : BindingMsg) (s s' : DidState) (c : Caip10) : Prop := {
  B_did : b_pdid m = "did:sid:" +:+ b_root m;
  B_parse : parse_account_id (b_accid m) = Some c;
  B_notin : ~ In (b_accdid m) (default [] (d_acclist s !! b_pdid m));
  B_noauth : d_auth s !! b_accdid m = None;
  B_stored : d_accid s !! b_accdid m = None \/ d_accid s !! b_accdid m = Some (b_accid m);
  B_unbound : d_did s !! b_accid m = None;
  B_proof : proof_ok chain c m = true;
  B_auth' : d_auth s' = <[b_accdid m := b_auth m]> (d_auth s);
  B_accid' : d_accid s' = <[b_accdid m := b_accid m]> (d_accid s);
  B_acclist' : d_acclist s' =
     <[b_pdid m := default [] (d_acclist s !! b_pdid m) ++ [b_accdid m]]> (d_acclist s);
  B_did' : d_did s' = <[b_accid m := b_pdid m]> (d_did s);
  B_bal' : d_bal s' = d_bal s;
  B_kid' : d_kid s' = d_kid s;
  B_seeds' : d_seeds s' = d_seeds s;
  B_docver :
    (is_Some (d_ver s !! b_root m) /\
     d_did s !! cosmos_id chain (b_creator m) = Some (b_pdid m) /\
     d_doc s' = d_doc s /\ d_ver s' = d_ver s /\ d_pay s' = d_pay s)
    \/
    (d_ver s !! b_root m = None /\ b_calc m = Some (b_root m) /\ d_doc s !! b_root m = None /\
     d_doc s' = <[b_root m := b_keys m]> (d_doc s) /\
     d_ver s' = <[b_root m := [b_root m]]> (d_ver s) /\
     (d_pay s' = d_pay s \/
      (d_pay s !! b_pdid m = None /\ c_network c = "cosmos" /\ c_chainid c = chain /\
       d_pay s' = <[b_pdid m := c_address c]> (d_pay s))));
}.

Lemma did_binding_inv chain now m s s' :
  did_binding chain now m s = inr s' -> exists c, BindOk chain m s s' c.
Proof.
  unfold did_binding. cbv zeta. intros H.
  destruct (String.eqb ("did:sid:" +:+ b_root m) (b_pdid m)) eqn:Edid; cbn [negb] in H; [|discriminate].
  apply String.eqb_eq in Edid.
  destruct (u64 (b_pts m + EXPIRE_DURATION) <? u64 now) eqn:Ets; [discriminate|].
  destruct (parse_account_id (b_accid m)) as [c|] eqn:Eparse; [|discriminate].
  destruct (match d_acclist s !! b_pdid m with Some l => in_list (b_accdid m) l | None => false end)
    eqn:Ein; [discriminate|].
  destruct (bool_decide (is_Some (d_auth s !! b_accdid m))) eqn:Eauth; [discriminate|].
  destruct (match d_accid s !! b_accdid m with
            | Some a => negb (String.eqb a (b_accid m)) | None => false end) eqn:Est; [discriminate|].
  destruct (bool_decide (is_Some (d_did s !! b_accid m))) eqn:Ebound; [discriminate|].
  destruct (proof_ok chain c m) eqn:Eproof; cbn [negb] in H; [|discriminate].
  assert (Hnotin : ~ In (b_accdid m) (default [] (d_acclist s !! b_pdid m))).
  { destruct (d_acclist s !! b_pdid m) as [l|]; cbn; [|tauto]. apply in_list_not_In, Ein. }
  assert (Hnoauth : d_auth s !! b_accdid m = None).
  { apply bool_decide_eq_false in Eauth. apply eq_None_not_Some. exact Eauth. }
  assert (Hstored : d_accid s !! b_accdid m = None \/ d_accid s !! b_accdid m = Some (b_accid m)).
  { destruct (d_accid s !! b_accdid m) as [a|]; [|left; reflexivity].
    right. apply negb_false_iff, String.eqb_eq in Est. congruence. }
  assert (Hunbound : d_did s !! b_accid m = None).
  { apply bool_decide_eq_false in Ebound. apply eq_None_not_Some. exact Ebound. }
  assert (Hlist : forall o : option (list string),
            match o with Some l => l ++ [b_accdid m] | None => [b_accdid m] end
            = default [] o ++ [b_accdid m]) by (intros [l|]; reflexivity).
  exists c.
  destruct (d_ver s !! b_root m) as [vl|] eqn:Ever.
  - destruct (creator_bound chain s (b_creator m) (b_pdid m)) eqn:Ecb; [|discriminate].
    injection H as <-. rewrite Hlist.
    constructor; try assumption; try (symmetry; exact Edid);
      try (destruct (d_accid s !! b_accdid m); reflexivity).
    + destruct Hstored as [E|E]; rewrite E; cbn; [reflexivity|].
      symmetry. apply insert_id. exact E.
    + left. apply creator_bound_true in Ecb.
      repeat split; try (destruct (d_accid s !! b_accdid m); reflexivity); eauto.
  - destruct (b_calc m) as [newdoc|] eqn:Ecalc; [|discriminate].
    destruct (String.eqb newdoc (b_root m)) eqn:Enew; cbn [negb orb] in H; [|discriminate].
    apply String.eqb_eq in Enew. subst newdoc.
    destruct (String.eqb (b_pdid m) ("did:sid:" +:+ b_root m)) eqn:Edid2; cbn [negb] in H; [|discriminate].
    destruct (bool_decide (is_Some (d_doc s !! b_root m))) eqn:Edoc; [discriminate|].
    assert (Hnodoc : d_doc s !! b_root m = None).
    { apply bool_decide_eq_false in Edoc. apply eq_None_not_Some. exact Edoc. }
    cbn [d_pay set] in H.
    destruct (String.eqb (c_network c) "cosmos" && String.eqb (c_chainid c) chain) eqn:Ecos.
    + apply andb_true_iff in Ecos. rewrite !String.eqb_eq in Ecos. destruct Ecos as [Enet Ech].
      destruct (d_pay s !! b_pdid m) as [old|] eqn:Epay.
      * injection H as <-. rewrite Hlist.
        constructor; try assumption; try (symmetry; exact Edid);
          try (destruct (d_accid s !! b_accdid m); reflexivity).
        -- destruct Hstored as [E|E]; rewrite E; cbn; [reflexivity|].
           symmetry. apply insert_id. exact E.
        -- right. repeat split; try assumption;
             try (destruct (d_accid s !! b_accdid m); reflexivity).
           left. destruct (d_accid s !! b_accdid m); reflexivity.
      * injection H as <-. rewrite Hlist.
        constructor; try assumption; try (symmetry; exact Edid);
          try (destruct (d_accid s !! b_accdid m); reflexivity).
        -- destruct Hstored as [E|E]; rewrite E; cbn; [reflexivity|].
           symmetry. apply insert_id. exact E.
        -- right. repeat split; try assumption;
             try (destruct (d_accid s !! b_accdid m); reflexivity).
           right. repeat split; try assumption.
           destruct (d_accid s !! b_accdid m); reflexivity.
    + injection H as <-. rewrite Hlist.
      constructor; try assumption; try (symmetry; exact Edid);
        try (destruct (d_accid s !! b_accdid m); reflexivity).
      * destruct Hstored as [E|E]; rewrite E; cbn; [reflexivity|].
        symmetry. apply insert_id. exact E.
      * right. repeat split; try assumption;
          try (destruct (d_accid s !! b_accdid m); reflexivity).
        left. destruct (d_accid s !! b_accdid m); reflexivity.
Qed.

(** * What an accepted UpdatePaymentAddress checked and did *)
Record PayOk (chain : string) (m : PayMsg) (s s' : DidState) (meth pid : string) (c : Caip10)
  : Prop := {
  P_parse : p_parse m = Some (meth, pid);
  P_acc : parse_account_id (p_accid m) = Some c;
  P_net : c_network c = "cosmos";
  P_chain : c_chainid c = chain;
  P_pay' : d_pay s' = <[p_did m := c_address c]> (d_pay s);
  P_case :
    (meth = "sid" /\ d_did s !! p_accid m = Some (p_did m) /\ d_kid s' = d_kid s)
    \/
    (meth = "key" /\ d_pay s !! p_did m = None /\ c_address c = p_creator m /\
     d_kid s !! c_address c = None /\ d_kid s' = <[c_address c := p_did m]> (d_kid s));
  P_auth' : d_auth s' = d_auth s;
  P_accid' : d_accid s' = d_accid s;
  P_acclist' : d_acclist s' = d_acclist s;
  P_did' : d_did s' = d_did s;
  P_bal' : d_bal s' = d_bal s;
  P_seeds' : d_seeds s' = d_seeds s;
  P_doc' : d_doc s' = d_doc s;
  P_ver' : d_ver s' = d_ver s;
}.

Lemma did_update_pay_inv chain m s s' :
  did_update_pay chain m s = inr s' -> exists meth pid c, PayOk chain m s s' meth pid c.
Proof.
  unfold did_update_pay. intros H.
  destruct (p_parse m) as [[meth pid]|] eqn:Eparse; [|discriminate].
  destruct (parse_account_id (p_accid m)) as [c|] eqn:Eacc; [|discriminate].
  cbv zeta in H.
  destruct (match d_pay s !! p_did m with Some _ => String.eqb meth "key" | None => false end)
    eqn:E1; [discriminate|].
  destruct (match d_pay s !! p_did m with Some a => String.eqb a (c_address c) | None => false end)
    eqn:E2; [discriminate|].
  destruct (negb (creator_bound chain s (p_creator m) (p_did m)) && negb (String.eqb meth "key"))
    eqn:E3; [discriminate|].
  destruct (String.eqb (c_network c) "cosmos" && String.eqb (c_chainid c) chain) eqn:Ecos;
    [|discriminate].
  apply andb_true_iff in Ecos. rewrite !String.eqb_eq in Ecos. destruct Ecos as [Enet Ech].
  exists meth, pid, c.
  destruct (String.eqb meth "sid") eqn:Esid.
  - destruct (d_did s !! p_accid m) as [stored|] eqn:Est; [|discriminate].
    destruct (String.eqb (p_did m) stored) eqn:Eeq; cbn [negb] in H; [|discriminate].
    apply String.eqb_eq in Eeq. subst stored. apply String.eqb_eq in Esid.
    injection H as <-. constructor; try assumption; try reflexivity.
    left. repeat split; assumption.
  - destruct (String.eqb meth "key") eqn:Ekey; [|discriminate].
    destruct (String.eqb (c_address c) (p_creator m)) eqn:Ecr; cbn [negb] in H; [|discriminate].
    destruct (bool_decide (is_Some (d_kid s !! c_address c))) eqn:Ekid; [discriminate|].
    apply String.eqb_eq in Ekey, Ecr.
    injection H as <-. constructor; try assumption; try reflexivity.
    right. repeat split; try assumption.
    + destruct (d_pay s !! p_did m); [discriminate E1|reflexivity].
    + apply bool_decide_eq_false in Ekid. apply eq_None_not_Some. exact Ekid.
Qed.

Lemma NoDup_snoc (l : list string) x : NoDup l -> ~ In x l -> NoDup (l ++ [x]).
Proof.
  intros ND Hx. apply NoDup_app. split; [exact ND|]. split.
  - intros y Hy Hy'. apply elem_of_list_singleton in Hy'. subst y.
    apply Hx, elem_of_list_In, Hy.
  - apply NoDup_singleton.
Qed.

(** * The initial state *)
Theorem did_empty_inv chain : Inv_did chain did_empty.
Proof.
  constructor; cbn; intros; try (rewrite lookup_empty in *; discriminate).
  split; intros [x Hx]; rewrite lookup_empty in Hx; discriminate.
Qed.
Print Assumptions did_empty_inv.

(** * Update preserves the invariant *)
Section UpdateFacts.
Context (chain : string) (m : UpdateMsg) (s s' : DidState)
        (accl : list string) (pay : string) (rm_ids : list string) (meth pid : string).
Hypothesis Hinv : Inv_did chain s.
Hypothesis HU : UpdateOk chain m s s' accl pay rm_ids meth pid.

Lemma upd_nodup_accl : NoDup accl.
Proof. eapply I_list_nodup; [exact Hinv|exact (U_accl _ _ _ _ _ _ _ _ _ HU)]. Qed.

Lemma upd_counting :
  NoDup (u_remove m ++ map fst (u_update m)) /\
  (forall a, In a (u_remove m ++ map fst (u_update m)) <-> In a accl).
Proof.
  apply counting.
  - exact upd_nodup_accl.
  - rewrite app_length, map_length. exact (U_len _ _ _ _ _ _ _ _ _ HU).
  - intros a Ha. apply in_or_app. exact (U_cover _ _ _ _ _ _ _ _ _ HU a Ha).
Qed.

Lemma upd_R_accl a : In a (u_remove m) -> In a accl.
Proof. intros H. apply upd_counting, in_or_app. left. exact H. Qed.

Lemma upd_U_accl a : In a (map fst (u_update m)) -> In a accl.
Proof. intros H. apply upd_counting, in_or_app. right. exact H. Qed.

Lemma upd_accl_bound a :
  In a accl -> exists id, d_accid s !! a = Some id /\ d_did s !! id = Some (u_did m).
Proof.
  intros H. eapply I_list_sound; [exact Hinv| |exact H]. exact (U_accl _ _ _ _ _ _ _ _ _ HU).
Qed.

(* an account DID is on the remove list iff its account id is deleted *)
Lemma upd_rm_iff a id : d_accid s !! a = Some id -> (In a (u_remove m) <-> In id rm_ids).
Proof.
  intros Ha. pose proof (U_check _ _ _ _ _ _ _ _ _ HU) as HF. split; intros H.
  - destruct (Forall2_In_l _ _ _ _ HF H) as [id' [Hid' [Hacc _]]]. congruence.
  - destruct (Forall2_In_r _ _ _ _ HF H) as [a' [Ha' [Hacc _]]].
    rewrite (I_accid_inj _ _ Hinv a a' id Ha Hacc). exact Ha'.
Qed.

Lemma upd_R_did a id : In a (u_remove m) -> d_accid s !! a = Some id -> d_did s !! id = Some (u_did m).
Proof.
  intros HR Ha. destruct (upd_accl_bound a (upd_R_accl a HR)) as [id' [Ha' Hd]]. congruence.
Qed.

Lemma upd_keep a id d :
  d_accid s !! a = Some id -> d_did s !! id = Some d -> ~ In a (u_remove m) ->
  d_accid s' !! a = Some id /\ d_did s' !! id = Some d.
Proof.
  intros Ha Hd HnR. split.
  - rewrite (U_accid' _ _ _ _ _ _ _ _ _ HU). apply del_keys_Some. auto.
  - rewrite (U_did' _ _ _ _ _ _ _ _ _ HU). apply del_keys_Some. split; [|exact Hd].
    intros Hin. apply HnR. apply (upd_rm_iff a id Ha). exact Hin.
Qed.

Lemma upd_accid'_Some a id :
  d_accid s' !! a = Some id <-> ~ In a (u_remove m) /\ d_accid s !! a = Some id.
Proof. rewrite (U_accid' _ _ _ _ _ _ _ _ _ HU). apply del_keys_Some. Qed.

Lemma upd_did'_Some id d :
  d_did s' !! id = Some d <-> ~ In id rm_ids /\ d_did s !! id = Some d.
Proof. rewrite (U_did' _ _ _ _ _ _ _ _ _ HU). apply del_keys_Some. Qed.

Hypothesis Hsane : forall meth id, u_parse m = Some (meth, id) -> is_sid (u_did m) = true ->
                                   u_did m = "did:sid:" +:+ id.

Lemma upd_did_pid : u_did m = "did:sid:" +:+ pid /\ exists versions, d_ver s !! pid = Some versions.
Proof.
  destruct (I_bound_ver _ _ Hinv _ _ (U_creator _ _ _ _ _ _ _ _ _ HU)) as [r [Hr [vs Hvs]]].
  assert (Hp : u_did m = "did:sid:" +:+ pid).
  { apply (Hsane meth pid (U_parse _ _ _ _ _ _ _ _ _ HU)). rewrite Hr. apply is_sid_app. }
  split; [exact Hp|]. exists vs. rewrite Hp in Hr. apply sid_inj in Hr. subst r. exact Hvs.
Qed.

Lemma update_preserves : Inv_did chain s'.
Proof.
  destruct upd_did_pid as [Hdid [versions Hver]].
  pose proof (U_ver' _ _ _ _ _ _ _ _ _ HU) as Ever'. rewrite Hver in Ever'. cbn [default from_option id] in Ever'.
  pose proof (U_newver _ _ _ _ _ _ _ _ _ HU) as Hnewver. rewrite Hver in Hnewver. cbn [default from_option id] in Hnewver.
  pose proof (U_acclist' _ _ _ _ _ _ _ _ _ HU) as Eacclist'.
  pose proof (U_accl _ _ _ _ _ _ _ _ _ HU) as Eaccl.
  pose proof (U_doc' _ _ _ _ _ _ _ _ _ HU) as Edoc'.
  pose proof (U_seeds' _ _ _ _ _ _ _ _ _ HU) as Eseeds'.
  pose proof (U_pay' _ _ _ _ _ _ _ _ _ HU) as Epay'.
  pose proof (U_kid' _ _ _ _ _ _ _ _ _ HU) as Ekid'.
  pose proof upd_nodup_accl as HND.
  constructor.
  - (* I_list_sound *)
    intros d l a Hl Ha. rewrite Eacclist' in Hl. apply lookup_insert_Some in Hl.
    destruct Hl as [[<- <-]|[Hne Hl]].
    + apply (remove_all_In_iff a _ _ HND) in Ha. destruct Ha as [Ha HnR].
      destruct (upd_accl_bound a Ha) as [id [Hacc Hd]]. exists id.
      apply upd_keep; assumption.
    + destruct (I_list_sound _ _ Hinv d l a Hl Ha) as [id [Hacc Hd]]. exists id.
      apply upd_keep; try assumption. intros HR.
      pose proof (upd_R_did a id HR Hacc) as Hd'. congruence.
  - (* I_list_complete *)
    intros a id d Ha Hd. apply upd_accid'_Some in Ha. destruct Ha as [HnR Ha].
    apply upd_did'_Some in Hd. destruct Hd as [Hnrm Hd].
    destruct (I_list_complete _ _ Hinv a id d Ha Hd) as [l [Hl Hin]].
    rewrite Eacclist'. destruct (decide (u_did m = d)) as [E|E].
    + subst d. rewrite Eaccl in Hl. injection Hl as <-.
      exists (remove_all (u_remove m) accl). split; [apply lookup_insert|].
      apply remove_all_In_iff; auto.
    + exists l. split; [|exact Hin]. rewrite lookup_insert_ne; assumption.
  - (* I_list_nodup *)
    intros d l Hl. rewrite Eacclist' in Hl. apply lookup_insert_Some in Hl.
    destruct Hl as [[<- <-]|[Hne Hl]].
    + apply remove_all_NoDup, HND.
    + eapply I_list_nodup; [exact Hinv|exact Hl].
  - (* I_did_has_acc *)
    intros id d Hd. apply upd_did'_Some in Hd. destruct Hd as [Hnrm Hd].
    destruct (I_did_has_acc _ _ Hinv id d Hd) as [a Ha]. exists a.
    apply upd_accid'_Some. split; [|exact Ha]. intros HR. apply Hnrm.
    apply (upd_rm_iff a id Ha). exact HR.
  - (* I_accid_inj *)
    intros a a' id Ha Ha'. apply upd_accid'_Some in Ha, Ha'.
    destruct Ha as [_ Ha]. destruct Ha' as [_ Ha']. exact (I_accid_inj _ _ Hinv a a' id Ha Ha').
  - (* I_accid_bound *)
    intros a id Ha. apply upd_accid'_Some in Ha. destruct Ha as [HnR Ha].
    destruct (I_accid_bound _ _ Hinv a id Ha) as [d Hd]. exists d.
    apply (upd_keep a id d Ha Hd HnR).
  - (* I_auth_dom *)
    intros a. rewrite (U_auth' _ _ _ _ _ _ _ _ _ HU), (U_accid' _ _ _ _ _ _ _ _ _ HU).
    destruct (in_dec string_dec a (u_remove m)) as [HR|HnR].
    + rewrite !del_keys_in by exact HR. split; intros [x Hx]; discriminate.
    + rewrite !del_keys_notin by exact HnR. rewrite ins_auths_is_Some.
      rewrite (I_auth_dom _ _ Hinv a). split; [|auto].
      intros [HUp|H]; [|exact H].
      destruct (upd_accl_bound a (upd_U_accl a HUp)) as [id [Hacc _]]. eauto.
  - (* I_bound_sid *)
    intros id d Hd. apply upd_did'_Some in Hd. destruct Hd as [_ Hd].
    exact (I_bound_sid _ _ Hinv id d Hd).
  - (* I_pay_sid *)
    intros d p Hsid Hp. rewrite Epay' in Hp.
    destruct (I_pay_sid _ _ Hinv d p Hsid Hp) as [id [c [Hd [Hparse [Hnet [Hch Haddr]]]]]].
    exists id, c. split; [|auto]. apply upd_did'_Some. split; [|exact Hd].
    intros Hin.
    destruct (Forall2_In_r _ _ _ _ (U_check _ _ _ _ _ _ _ _ _ HU) Hin)
      as [a [HR [Hacc [c' [Hparse' Hnot]]]]].
    pose proof (upd_R_did a id HR Hacc) as Hd'.
    assert (d = u_did m) by congruence. subst d.
    rewrite (U_pay _ _ _ _ _ _ _ _ _ HU) in Hp. injection Hp as <-.
    apply Hnot. rewrite Hparse in Hparse'. injection Hparse' as <-. auto.
  - (* I_kid_pay *)
    intros a d Hk. rewrite Ekid' in Hk. rewrite Epay'. exact (I_kid_pay _ _ Hinv a d Hk).
  - (* I_pay_key *)
    intros d p Hk Hp. rewrite Epay' in Hp. rewrite Ekid'. exact (I_pay_key _ _ Hinv d p Hk Hp).
  - (* I_pay_kind *)
    intros d p Hp. rewrite Epay' in Hp. exact (I_pay_kind _ _ Hinv d p Hp).
  - (* I_ver_root *)
    intros r l Hl. rewrite Ever' in Hl. apply lookup_insert_Some in Hl.
    destruct Hl as [[<- <-]|[Hne Hl]].
    + destruct (I_ver_root _ _ Hinv pid versions Hver) as [tl ->].
      exists (tl ++ [u_newdoc m]). reflexivity.
    + exact (I_ver_root _ _ Hinv r l Hl).
  - (* I_ver_nodup *)
    intros r l Hl. rewrite Ever' in Hl. apply lookup_insert_Some in Hl.
    destruct Hl as [[<- <-]|[Hne Hl]].
    + apply NoDup_snoc; [|exact Hnewver]. exact (I_ver_nodup _ _ Hinv pid versions Hver).
    + exact (I_ver_nodup _ _ Hinv r l Hl).
  - (* I_ver_doc *)
    intros r l v Hl Hv. rewrite Edoc'. apply lookup_insert_is_Some'.
    rewrite Ever' in Hl. apply lookup_insert_Some in Hl.
    destruct Hl as [[<- <-]|[Hne Hl]].
    + apply in_app_or in Hv. destruct Hv as [Hv|[Hv|[]]]; [|left; exact Hv].
      right. exact (I_ver_doc _ _ Hinv pid versions v Hver Hv).
    + right. exact (I_ver_doc _ _ Hinv r l v Hl Hv).
  - (* I_ver_seeds *)
    intros r l Hl. rewrite Ever' in Hl. apply lookup_insert_Some in Hl. rewrite Eseeds'.
    destruct Hl as [[<- <-]|[Hne Hl]].
    + rewrite <- Hdid, lookup_insert. cbn [default from_option id]. rewrite !app_length. cbn [length].
      pose proof (I_ver_seeds _ _ Hinv pid versions Hver) as Hs. rewrite <- Hdid in Hs. lia.
    + rewrite lookup_insert_ne.
      * exact (I_ver_seeds _ _ Hinv r l Hl).
      * rewrite Hdid. intros E. apply sid_inj in E. congruence.
  - (* I_seeds_ver *)
    intros d sd Hsd. rewrite Eseeds' in Hsd. apply lookup_insert_Some in Hsd.
    destruct Hsd as [[<- _]|[Hne Hsd]].
    + exists pid. split; [exact Hdid|]. rewrite Ever', lookup_insert. eauto.
    + destruct (I_seeds_ver _ _ Hinv d sd Hsd) as [r [Hr Hv]]. exists r. split; [exact Hr|].
      rewrite Ever'. apply lookup_insert_is_Some'. right. exact Hv.
  - (* I_bound_ver *)
    intros id d Hd. apply upd_did'_Some in Hd. destruct Hd as [_ Hd].
    destruct (I_bound_ver _ _ Hinv id d Hd) as [r [Hr Hv]]. exists r. split; [exact Hr|].
    rewrite Ever'. apply lookup_insert_is_Some'. right. exact Hv.
Qed.
End UpdateFacts.

(** * Binding preserves the invariant *)
Section BindingFacts.
Context (chain : string) (m : BindingMsg) (s s' : DidState) (c : Caip10).
Hypothesis Hinv : Inv_did chain s.
Hypothesis HB : BindOk chain m s s' c.

Lemma bind_noaccid : d_accid s !! b_accdid m = None.
Proof.
  apply eq_None_not_Some. intros H. apply (I_auth_dom _ _ Hinv) in H.
  rewrite (B_noauth _ _ _ _ _ HB) in H. destruct H as [x Hx]. discriminate.
Qed.

Lemma bind_fresh_id a : d_accid s !! a = Some (b_accid m) -> False.
Proof.
  intros H. destruct (I_accid_bound _ _ Hinv _ _ H) as [d Hd].
  rewrite (B_unbound _ _ _ _ _ HB) in Hd. discriminate.
Qed.

Lemma bind_accid'_Some a id :
  d_accid s' !! a = Some id <->
  (a = b_accdid m /\ id = b_accid m) \/ (a <> b_accdid m /\ d_accid s !! a = Some id).
Proof.
  rewrite (B_accid' _ _ _ _ _ HB), lookup_insert_Some. split.
  - intros [[<- <-]|[Hne H]]; auto.
  - intros [[-> ->]|[Hne H]]; auto.
Qed.

Lemma bind_did'_Some id d :
  d_did s' !! id = Some d <->
  (id = b_accid m /\ d = b_pdid m) \/ (id <> b_accid m /\ d_did s !! id = Some d).
Proof.
  rewrite (B_did' _ _ _ _ _ HB), lookup_insert_Some. split.
  - intros [[<- <-]|[Hne H]]; auto.
  - intros [[-> ->]|[Hne H]]; auto.
Qed.

Lemma bind_keep a id d :
  d_accid s !! a = Some id -> d_did s !! id = Some d ->
  d_accid s' !! a = Some id /\ d_did s' !! id = Some d.
Proof.
  intros Ha Hd. split.
  - apply bind_accid'_Some. right. split; [|exact Ha]. intros ->.
    rewrite bind_noaccid in Ha. discriminate.
  - apply bind_did'_Some. right. split; [|exact Hd]. intros ->.
    rewrite (B_unbound _ _ _ _ _ HB) in Hd. discriminate.
Qed.

Lemma bind_did_keep id d : d_did s !! id = Some d -> d_did s' !! id = Some d.
Proof.
  intros Hd. apply bind_did'_Some. right. split; [|exact Hd]. intros ->.
  rewrite (B_unbound _ _ _ _ _ HB) in Hd. discriminate.
Qed.

Lemma bind_pay' d p :
  d_pay s' !! d = Some p ->
  d_pay s !! d = Some p \/
  (d = b_pdid m /\ p = c_address c /\ c_network c = "cosmos" /\ c_chainid c = chain).
Proof.
  intros H. destruct (B_docver _ _ _ _ _ HB) as [(_ & _ & _ & _ & E)|(_ & _ & _ & _ & _ & [E|E])].
  - rewrite E in H. auto.
  - rewrite E in H. auto.
  - destruct E as (Hnone & Hnet & Hch & E). rewrite E in H. apply lookup_insert_Some in H.
    destruct H as [[<- <-]|[_ H]]; auto.
Qed.

Lemma bind_pay_mono d p : d_pay s !! d = Some p -> d_pay s' !! d = Some p.
Proof.
  intros H. destruct (B_docver _ _ _ _ _ HB) as [(_ & _ & _ & _ & E)|(_ & _ & _ & _ & _ & [E|E])].
  - rewrite E. exact H.
  - rewrite E. exact H.
  - destruct E as (Hnone & Hnet & Hch & E). rewrite E. rewrite lookup_insert_ne; [exact H|].
    intros <-. rewrite Hnone in H. discriminate.
Qed.

Lemma bind_ver' r l :
  d_ver s' !! r = Some l ->
  d_ver s !! r = Some l \/
  (r = b_root m /\ l = [b_root m] /\ d_ver s !! b_root m = None /\
   d_doc s' = <[b_root m := b_keys m]> (d_doc s)).
Proof.
  intros H. destruct (B_docver _ _ _ _ _ HB) as [(_ & _ & _ & E & _)|(Hn & _ & _ & Ed & E & _)].
  - rewrite E in H. auto.
  - rewrite E in H. apply lookup_insert_Some in H. destruct H as [[<- <-]|[_ H]]; [|left; exact H].
    right. repeat split; assumption || reflexivity.
Qed.

Lemma bind_ver_mono r : is_Some (d_ver s !! r) -> is_Some (d_ver s' !! r).
Proof.
  intros H. destruct (B_docver _ _ _ _ _ HB) as [(_ & _ & _ & E & _)|(Hn & _ & _ & Ed & E & _)].
  - rewrite E. exact H.
  - rewrite E. apply lookup_insert_is_Some'. auto.
Qed.

Lemma bind_doc_mono v : is_Some (d_doc s !! v) -> is_Some (d_doc s' !! v).
Proof.
  intros H. destruct (B_docver _ _ _ _ _ HB) as [(_ & _ & E & _ & _)|(Hn & _ & _ & E & _ & _)].
  - rewrite E. exact H.
  - rewrite E. apply lookup_insert_is_Some'. auto.
Qed.

Lemma bind_root_ver : is_Some (d_ver s' !! b_root m).
Proof.
  destruct (B_docver _ _ _ _ _ HB) as [(H & _ & _ & E & _)|(Hn & _ & _ & Ed & E & _)].
  - rewrite E. exact H.
  - rewrite E, lookup_insert. eauto.
Qed.

Lemma binding_preserves : Inv_did chain s'.
Proof.
  pose proof (B_did _ _ _ _ _ HB) as Hdid.
  pose proof (B_acclist' _ _ _ _ _ HB) as Eacclist'.
  pose proof (B_notin _ _ _ _ _ HB) as Hnotin.
  pose proof (B_unbound _ _ _ _ _ HB) as Hunbound.
  pose proof bind_noaccid as Hnoacc.
  constructor.
  - (* I_list_sound *)
    intros d l a Hl Ha. rewrite Eacclist' in Hl. apply lookup_insert_Some in Hl.
    destruct Hl as [[<- <-]|[Hne Hl]].
    + apply in_app_or in Ha. destruct Ha as [Ha|[<-|[]]].
      * destruct (d_acclist s !! b_pdid m) as [l|] eqn:El; [|destruct Ha].
        cbn [default from_option id] in Ha.
        destruct (I_list_sound _ _ Hinv _ _ _ El Ha) as [id [Hacc Hd]]. exists id.
        apply bind_keep; assumption.
      * exists (b_accid m). split.
        -- apply bind_accid'_Some. auto.
        -- apply bind_did'_Some. auto.
    + destruct (I_list_sound _ _ Hinv _ _ _ Hl Ha) as [id [Hacc Hd]]. exists id.
      apply bind_keep; assumption.
  - (* I_list_complete *)
    intros a id d Ha Hd. rewrite Eacclist'.
    apply bind_accid'_Some in Ha. destruct Ha as [[-> ->]|[Hne Ha]].
    + apply bind_did'_Some in Hd. destruct Hd as [[_ ->]|[Hne _]]; [|congruence].
      eexists. split; [apply lookup_insert|]. apply in_or_app. right. left. reflexivity.
    + apply bind_did'_Some in Hd. destruct Hd as [[-> _]|[Hne' Hd]].
      { destruct (bind_fresh_id a Ha). }
      destruct (I_list_complete _ _ Hinv a id d Ha Hd) as [l [Hl Hin]].
      destruct (decide (b_pdid m = d)) as [E|E].
      * subst d. rewrite Hl. eexists. split; [apply lookup_insert|].
        apply in_or_app. left. exact Hin.
      * exists l. split; [|exact Hin]. rewrite lookup_insert_ne; assumption.
  - (* I_list_nodup *)
    intros d l Hl. rewrite Eacclist' in Hl. apply lookup_insert_Some in Hl.
    destruct Hl as [[<- <-]|[Hne Hl]].
    + apply NoDup_snoc; [|exact Hnotin].
      destruct (d_acclist s !! b_pdid m) as [l|] eqn:El; [|apply NoDup_nil_2].
      exact (I_list_nodup _ _ Hinv _ _ El).
    + exact (I_list_nodup _ _ Hinv _ _ Hl).
  - (* I_did_has_acc *)
    intros id d Hd. apply bind_did'_Some in Hd. destruct Hd as [[-> ->]|[Hne Hd]].
    + exists (b_accdid m). apply bind_accid'_Some. auto.
    + destruct (I_did_has_acc _ _ Hinv id d Hd) as [a Ha]. exists a.
      apply (bind_keep a id d Ha Hd).
  - (* I_accid_inj *)
    intros a a' id Ha Ha'. apply bind_accid'_Some in Ha, Ha'.
    destruct Ha as [[-> ->]|[Hne Ha]]; destruct Ha' as [[-> E]|[Hne' Ha']].
    + reflexivity.
    + destruct (bind_fresh_id a' Ha').
    + subst id. destruct (bind_fresh_id a Ha).
    + exact (I_accid_inj _ _ Hinv a a' id Ha Ha').
  - (* I_accid_bound *)
    intros a id Ha. apply bind_accid'_Some in Ha. destruct Ha as [[-> ->]|[Hne Ha]].
    + exists (b_pdid m). apply bind_did'_Some. auto.
    + destruct (I_accid_bound _ _ Hinv a id Ha) as [d Hd]. exists d. apply bind_did_keep, Hd.
  - (* I_auth_dom *)
    intros a. rewrite (B_auth' _ _ _ _ _ HB), (B_accid' _ _ _ _ _ HB).
    rewrite !lookup_insert_is_Some'. rewrite (I_auth_dom _ _ Hinv a). tauto.
  - (* I_bound_sid *)
    intros id d Hd. apply bind_did'_Some in Hd. destruct Hd as [[-> ->]|[Hne Hd]].
    + rewrite Hdid. apply is_sid_app.
    + exact (I_bound_sid _ _ Hinv id d Hd).
  - (* I_pay_sid *)
    intros d p Hsid Hp. apply bind_pay' in Hp. destruct Hp as [Hp|(-> & -> & Hnet & Hch)].
    + destruct (I_pay_sid _ _ Hinv d p Hsid Hp) as [id [c0 [Hd H]]].
      exists id, c0. split; [|exact H]. apply bind_did_keep, Hd.
    + exists (b_accid m), c. split; [apply bind_did'_Some; auto|].
      split; [exact (B_parse _ _ _ _ _ HB)|]. auto.
  - (* I_kid_pay *)
    intros a d Hk. rewrite (B_kid' _ _ _ _ _ HB) in Hk.
    destruct (I_kid_pay _ _ Hinv a d Hk) as [Hp Hkey]. split; [|exact Hkey].
    apply bind_pay_mono, Hp.
  - (* I_pay_key *)
    intros d p Hkey Hp. rewrite (B_kid' _ _ _ _ _ HB).
    apply bind_pay' in Hp. destruct Hp as [Hp|(-> & _)].
    + exact (I_pay_key _ _ Hinv d p Hkey Hp).
    + exfalso. apply (sid_not_key (b_pdid m)); [|exact Hkey]. rewrite Hdid. apply is_sid_app.
  - (* I_pay_kind *)
    intros d p Hp. apply bind_pay' in Hp. destruct Hp as [Hp|(-> & _)].
    + exact (I_pay_kind _ _ Hinv d p Hp).
    + left. rewrite Hdid. apply is_sid_app.
  - (* I_ver_root *)
    intros r l Hl. apply bind_ver' in Hl. destruct Hl as [Hl|(-> & -> & _)].
    + exact (I_ver_root _ _ Hinv r l Hl).
    + exists []. reflexivity.
  - (* I_ver_nodup *)
    intros r l Hl. apply bind_ver' in Hl. destruct Hl as [Hl|(-> & -> & _)].
    + exact (I_ver_nodup _ _ Hinv r l Hl).
    + apply NoDup_singleton.
  - (* I_ver_doc *)
    intros r l v Hl Hv. apply bind_ver' in Hl. destruct Hl as [Hl|(-> & -> & _ & Ed)].
    + apply bind_doc_mono. exact (I_ver_doc _ _ Hinv r l v Hl Hv).
    + destruct Hv as [<-|[]]. rewrite Ed, lookup_insert. eauto.
  - (* I_ver_seeds *)
    intros r l Hl. rewrite (B_seeds' _ _ _ _ _ HB).
    apply bind_ver' in Hl. destruct Hl as [Hl|(-> & -> & Hn & _)].
    + exact (I_ver_seeds _ _ Hinv r l Hl).
    + destruct (d_seeds s !! ("did:sid:" +:+ b_root m)) as [sd|] eqn:Es; [|reflexivity].
      destruct (I_seeds_ver _ _ Hinv _ _ Es) as [r [Hr Hv]].
      apply sid_inj in Hr. subst r. rewrite Hn in Hv. destruct Hv as [x Hx]. discriminate.
  - (* I_seeds_ver *)
    intros d sd Hsd. rewrite (B_seeds' _ _ _ _ _ HB) in Hsd.
    destruct (I_seeds_ver _ _ Hinv d sd Hsd) as [r [Hr Hv]]. exists r. split; [exact Hr|].
    apply bind_ver_mono, Hv.
  - (* I_bound_ver *)
    intros id d Hd. apply bind_did'_Some in Hd. destruct Hd as [[-> ->]|[Hne Hd]].
    + exists (b_root m). split; [exact Hdid|apply bind_root_ver].
    + destruct (I_bound_ver _ _ Hinv id d Hd) as [r [Hr Hv]]. exists r. split; [exact Hr|].
      apply bind_ver_mono, Hv.
Qed.
End BindingFacts.

(** * UpdatePaymentAddress preserves the invariant *)
Section PayFacts.
Context (chain : string) (m : PayMsg) (s s' : DidState) (meth pid : string) (c : Caip10).
Hypothesis HP : PayOk chain m s s' meth pid c.
Hypothesis Hsane : parse_sane (p_did m) (p_parse m).

Lemma pay_meth :
  (meth = "sid" -> is_sid (p_did m) = true) /\ (meth = "key" -> is_keydid (p_did m) = true).
Proof. unfold parse_sane in Hsane. rewrite (P_parse _ _ _ _ _ _ _ HP) in Hsane. exact Hsane. Qed.

(* the payment table changes at a key DID only from "unset" to the sender's own address *)
Lemma pay_keydid_change d :
  is_keydid d = true -> d_pay s !! d <> d_pay s' !! d ->
  d_pay s !! d = None /\ d_pay s' !! d = Some (p_creator m).
Proof.
  intros Hkey Hne. rewrite (P_pay' _ _ _ _ _ _ _ HP) in *.
  destruct (decide (p_did m = d)) as [E|E].
  - subst d. rewrite lookup_insert in *.
    destruct (P_case _ _ _ _ _ _ _ HP) as [(Hm & _)|(Hm & Hnone & Hcr & _)].
    + exfalso. apply (sid_not_key (p_did m)); [|exact Hkey]. apply pay_meth, Hm.
    + split; [exact Hnone|]. congruence.
  - rewrite lookup_insert_ne in Hne by exact E. congruence.
Qed.

Lemma pay_keydid_keep d p :
  is_keydid d = true -> d_pay s !! d = Some p -> d_pay s' !! d = Some p.
Proof.
  intros Hkey Hp. destruct (option_eq_dec (d_pay s !! d) (d_pay s' !! d)) as [E|E].
  - congruence.
  - destruct (pay_keydid_change d Hkey E) as [Hn _]. congruence.
Qed.

Hypothesis Hinv : Inv_did chain s.

Lemma pay_preserves : Inv_did chain s'.
Proof.
  pose proof (P_pay' _ _ _ _ _ _ _ HP) as Epay'.
  pose proof pay_meth as [Hmsid Hmkey].
  constructor.
  - intros d l a. rewrite (P_acclist' _ _ _ _ _ _ _ HP), (P_accid' _ _ _ _ _ _ _ HP),
      (P_did' _ _ _ _ _ _ _ HP). apply (I_list_sound _ _ Hinv).
  - intros a id d. rewrite (P_acclist' _ _ _ _ _ _ _ HP), (P_accid' _ _ _ _ _ _ _ HP),
      (P_did' _ _ _ _ _ _ _ HP). apply (I_list_complete _ _ Hinv).
  - intros d l. rewrite (P_acclist' _ _ _ _ _ _ _ HP). apply (I_list_nodup _ _ Hinv).
  - intros id d. rewrite (P_accid' _ _ _ _ _ _ _ HP), (P_did' _ _ _ _ _ _ _ HP).
    apply (I_did_has_acc _ _ Hinv).
  - intros a a' id. rewrite (P_accid' _ _ _ _ _ _ _ HP). apply (I_accid_inj _ _ Hinv).
  - intros a id. rewrite (P_accid' _ _ _ _ _ _ _ HP), (P_did' _ _ _ _ _ _ _ HP).
    apply (I_accid_bound _ _ Hinv).
  - intros a. rewrite (P_auth' _ _ _ _ _ _ _ HP), (P_accid' _ _ _ _ _ _ _ HP).
    apply (I_auth_dom _ _ Hinv).
  - intros id d. rewrite (P_did' _ _ _ _ _ _ _ HP). apply (I_bound_sid _ _ Hinv).
  - (* I_pay_sid *)
    intros d p Hsid Hp. rewrite (P_did' _ _ _ _ _ _ _ HP).
    rewrite Epay' in Hp. apply lookup_insert_Some in Hp. destruct Hp as [[<- <-]|[Hne Hp]].
    + destruct (P_case _ _ _ _ _ _ _ HP) as [(Hm & Hd & _)|(Hm & _)].
      * exists (p_accid m), c. split; [exact Hd|]. split; [exact (P_acc _ _ _ _ _ _ _ HP)|].
        split; [exact (P_net _ _ _ _ _ _ _ HP)|]. split; [exact (P_chain _ _ _ _ _ _ _ HP)|reflexivity].
      * exfalso. apply (sid_not_key (p_did m)); auto.
    + exact (I_pay_sid _ _ Hinv d p Hsid Hp).
  - (* I_kid_pay *)
    intros a d Hk. rewrite Epay'.
    destruct (P_case _ _ _ _ _ _ _ HP) as [(Hm & _ & Ek)|(Hm & Hnone & _ & Hnk & Ek)]; rewrite Ek in Hk.
    + destruct (I_kid_pay _ _ Hinv a d Hk) as [Hp Hkey]. split; [|exact Hkey].
      rewrite lookup_insert_ne; [exact Hp|]. intros <-.
      apply (sid_not_key (p_did m)); auto.
    + apply lookup_insert_Some in Hk. destruct Hk as [[<- <-]|[Hne Hk]].
      * split; [apply lookup_insert|auto].
      * destruct (I_kid_pay _ _ Hinv a d Hk) as [Hp Hkey]. split; [|exact Hkey].
        rewrite lookup_insert_ne; [exact Hp|]. intros <-. congruence.
  - (* I_pay_key *)
    intros d p Hkey Hp. rewrite Epay' in Hp. apply lookup_insert_Some in Hp.
    destruct (P_case _ _ _ _ _ _ _ HP) as [(Hm & _ & Ek)|(Hm & Hnone & _ & Hnk & Ek)]; rewrite Ek.
    + destruct Hp as [[<- <-]|[Hne Hp]].
      * exfalso. apply (sid_not_key (p_did m)); auto.
      * exact (I_pay_key _ _ Hinv d p Hkey Hp).
    + destruct Hp as [[<- <-]|[Hne Hp]]; [apply lookup_insert|].
      pose proof (I_pay_key _ _ Hinv d p Hkey Hp) as Hk.
      rewrite lookup_insert_ne; [exact Hk|]. intros <-. congruence.
  - (* I_pay_kind *)
    intros d p Hp. rewrite Epay' in Hp. apply lookup_insert_Some in Hp.
    destruct Hp as [[<- <-]|[Hne Hp]]; [|exact (I_pay_kind _ _ Hinv d p Hp)].
    destruct (P_case _ _ _ _ _ _ _ HP) as [(Hm & _)|(Hm & _)]; auto.
  - intros r l. rewrite (P_ver' _ _ _ _ _ _ _ HP). apply (I_ver_root _ _ Hinv).
  - intros r l. rewrite (P_ver' _ _ _ _ _ _ _ HP). apply (I_ver_nodup _ _ Hinv).
  - intros r l v. rewrite (P_ver' _ _ _ _ _ _ _ HP), (P_doc' _ _ _ _ _ _ _ HP).
    apply (I_ver_doc _ _ Hinv).
  - intros r l. rewrite (P_ver' _ _ _ _ _ _ _ HP), (P_seeds' _ _ _ _ _ _ _ HP).
    apply (I_ver_seeds _ _ Hinv).
  - intros d sd. rewrite (P_ver' _ _ _ _ _ _ _ HP), (P_seeds' _ _ _ _ _ _ _ HP).
    apply (I_seeds_ver _ _ Hinv).
  - intros id d. rewrite (P_ver' _ _ _ _ _ _ _ HP), (P_did' _ _ _ _ _ _ _ HP).
    apply (I_bound_ver _ _ Hinv).
Qed.
End PayFacts.

(** * Main theorems *)
Theorem did_step_inv chain s op :
  Inv_did chain s -> op_sane op -> Inv_did chain (did_step chain s op).
Proof.
  intros Hinv Hsane. unfold did_step. destruct op as [now m|now m|m]; cbn [did_handle].
  - destruct (did_binding chain now m s) as [e|s'] eqn:E; [exact Hinv|].
    destruct (did_binding_inv _ _ _ _ _ E) as [c HB].
    exact (binding_preserves chain m s s' c Hinv HB).
  - destruct (did_update chain now m s) as [e|s'] eqn:E; [exact Hinv|].
    destruct (did_update_inv _ _ _ _ _ E) as (accl & pay & rm_ids & meth & pid & HU).
    exact (update_preserves chain m s s' accl pay rm_ids meth pid Hinv HU Hsane).
  - destruct (did_update_pay chain m s) as [e|s'] eqn:E; [exact Hinv|].
    destruct (did_update_pay_inv _ _ _ _ E) as (meth & pid & c & HP).
    exact (pay_preserves chain m s s' meth pid c HP Hsane Hinv).
Qed.
Print Assumptions did_step_inv.

Theorem did_run_inv chain ops s :
  Inv_did chain s -> Forall op_sane ops -> Inv_did chain (did_run chain ops s).
Proof.
  unfold did_run. revert s. induction ops as [|op ops IH]; intros s Hinv Hs; cbn [fold_left].
  - exact Hinv.
  - inversion Hs as [|? ? Hop Hops]; subst. apply IH; [|exact Hops].
    apply did_step_inv; assumption.
Qed.
Print Assumptions did_run_inv.

(* what an accepted Binding establishes *)
Theorem binding_accepted_authentic chain now m s s' :
  did_binding chain now m s = inr s' -> binding_authentic chain s m.
Proof.
  intros E. destruct (did_binding_inv _ _ _ _ _ E) as [c HB].
  exists c. split; [exact (B_parse _ _ _ _ _ HB)|]. split.
  { pose proof (B_proof _ _ _ _ _ HB) as Hp. unfold proof_ok in Hp.
    destruct (String.eqb (c_network c) "cosmos" && String.eqb (c_chainid c) chain) eqn:Ec.
    - left. apply andb_true_iff in Ec. rewrite !String.eqb_eq in Ec. destruct Ec as [Hn Hc].
      destruct (b_cosmos_signer m) as [a|]; [|discriminate].
      apply String.eqb_eq in Hp. subst a. auto.
    - right. destruct (String.eqb (c_network c) "eip155") eqn:Ee; [|discriminate].
      apply String.eqb_eq in Ee.
      destruct (b_eth_signer m) as [a|]; [|discriminate].
      apply String.eqb_eq in Hp. subst a. split; [exact Ee|]. split; [|reflexivity].
      intros [Hn _]. rewrite Ee in Hn. discriminate. }
  split; [exact (B_unbound _ _ _ _ _ HB)|]. split.
  - intros Hs. destruct (B_docver _ _ _ _ _ HB) as [(_ & H & _)|(Hn & _)]; [exact H|].
    rewrite Hn in Hs. destruct Hs as [x Hx]. discriminate.
  - intros Hn. destruct (B_docver _ _ _ _ _ HB) as [(Hs & _)|(_ & H & _)]; [|exact H].
    rewrite Hn in Hs. destruct Hs as [x Hx]. discriminate.
Qed.
Print Assumptions binding_accepted_authentic.

(* Update: the counting argument. If accepted, remove list and update list together are
   exactly the stored account list *)
Theorem update_lists_exact chain now m s s' accl :
  Inv_did chain s -> did_update chain now m s = inr s' -> d_acclist s !! u_did m = Some accl ->
  NoDup (u_remove m ++ map fst (u_update m)) /\
  (forall a, In a (u_remove m ++ map fst (u_update m)) <-> In a accl).
Proof.
  intros Hinv E Hl.
  destruct (did_update_inv _ _ _ _ _ E) as (accl0 & pay & rm_ids & meth & pid & HU).
  pose proof (U_accl _ _ _ _ _ _ _ _ _ HU) as Hl0. rewrite Hl in Hl0. injection Hl0 as <-.
  exact (upd_counting chain m s s' accl pay rm_ids meth pid Hinv HU).
Qed.
Print Assumptions update_lists_exact.

(* Update is accepted only from an account bound to the DID, and never touches the
   payment table *)
Theorem update_requires_bound_creator chain now m s s' :
  did_update chain now m s = inr s' -> d_did s !! cosmos_id chain (u_creator m) = Some (u_did m).
Proof.
  intros E. destruct (did_update_inv _ _ _ _ _ E) as (accl & pay & rm_ids & meth & pid & HU).
  exact (U_creator _ _ _ _ _ _ _ _ _ HU).
Qed.
Print Assumptions update_requires_bound_creator.

Theorem update_keeps_payment chain now m s s' :
  did_update chain now m s = inr s' -> d_pay s' = d_pay s.
Proof.
  intros E. destruct (did_update_inv _ _ _ _ _ E) as (accl & pay & rm_ids & meth & pid & HU).
  exact (U_pay' _ _ _ _ _ _ _ _ _ HU).
Qed.
Print Assumptions update_keeps_payment.

(* ... and the account that owns the payment address cannot be unbound by an Update *)
Theorem update_keeps_payment_account chain now m s s' :
  Inv_did chain s -> op_sane (OpUpdate now m) -> did_update chain now m s = inr s' ->
  exists pay id c, d_pay s' !! u_did m = Some pay /\ d_did s' !! id = Some (u_did m) /\
                   parse_account_id id = Some c /\ c_network c = "cosmos" /\
                   c_chainid c = chain /\ c_address c = pay.
Proof.
  intros Hinv Hsane E.
  destruct (did_update_inv _ _ _ _ _ E) as (accl & pay & rm_ids & meth & pid & HU).
  pose proof (update_preserves chain m s s' accl pay rm_ids meth pid Hinv HU Hsane) as Hinv'.
  assert (Hp : d_pay s' !! u_did m = Some pay).
  { rewrite (U_pay' _ _ _ _ _ _ _ _ _ HU). exact (U_pay _ _ _ _ _ _ _ _ _ HU). }
  assert (Hsid : is_sid (u_did m) = true).
  { exact (I_bound_sid _ _ Hinv _ _ (U_creator _ _ _ _ _ _ _ _ _ HU)). }
  destruct (I_pay_sid _ _ Hinv' _ _ Hsid Hp) as (id & c & H).
  exists pay, id, c. split; [exact Hp|exact H].
Qed.
Print Assumptions update_keeps_payment_account.

(* key DIDs: the payment address is set only by that address itself, and never changes
   afterwards *)
Theorem keydid_pay_self_set chain m s s' d :
  is_keydid d = true -> op_sane (OpUpdatePay m) ->
  did_update_pay chain m s = inr s' -> d_pay s !! d <> d_pay s' !! d ->
  d_pay s !! d = None /\ d_pay s' !! d = Some (p_creator m).
Proof.
  intros Hkey Hsane E Hne.
  destruct (did_update_pay_inv _ _ _ _ E) as (meth & pid & c & HP).
  exact (pay_keydid_change chain m s s' meth pid c HP Hsane d Hkey Hne).
Qed.
Print Assumptions keydid_pay_self_set.

Theorem keydid_pay_immutable chain s op d p :
  Inv_did chain s -> op_sane op -> is_keydid d = true ->
  d_pay s !! d = Some p -> d_pay (did_step chain s op) !! d = Some p.
Proof.
  intros Hinv Hsane Hkey Hp. unfold did_step. destruct op as [now m|now m|m]; cbn [did_handle].
  - destruct (did_binding chain now m s) as [e|s'] eqn:E; [exact Hp|].
    destruct (did_binding_inv _ _ _ _ _ E) as [c HB].
    exact (bind_pay_mono chain m s s' c HB d p Hp).
  - destruct (did_update chain now m s) as [e|s'] eqn:E; [exact Hp|].
    rewrite (update_keeps_payment _ _ _ _ _ E). exact Hp.
  - destruct (did_update_pay chain m s) as [e|s'] eqn:E; [exact Hp|].
    destruct (did_update_pay_inv _ _ _ _ E) as (meth & pid & c & HP).
    exact (pay_keydid_keep chain m s s' meth pid c HP Hsane d p Hkey Hp).
Qed.
Print Assumptions keydid_pay_immutable.

(** * Non-vacuity: the theorems exercised on a concrete run *)
Definition ex_bind1 : BindingMsg :=
  {| b_creator := "alice"; b_accid := "cosmos:sao:alice"; b_root := "r1";
     b_keys := [("k", "v")]; b_accdid := "did:key:acc1"; b_auth := ("seed", "enc");
     b_pdid := "did:sid:r1"; b_pts := 100; b_message := "bind did";
     b_cosmos_signer := Some "alice"; b_eth_signer := None; b_calc := Some "r1" |}.
Definition ex_bind2 : BindingMsg :=
  {| b_creator := "alice"; b_accid := "eip155:1:0xabc"; b_root := "r1";
     b_keys := [("k", "v")]; b_accdid := "did:key:acc2"; b_auth := ("seed2", "enc2");
     b_pdid := "did:sid:r1"; b_pts := 100; b_message := "bind did";
     b_cosmos_signer := None; b_eth_signer := Some "0xabc"; b_calc := None |}.
Definition ex_pay : PayMsg :=
  {| p_creator := "bob"; p_accid := "cosmos:sao:bob"; p_did := "did:key:bob1";
     p_parse := Some ("key", "bob1") |}.
Definition ex_update : UpdateMsg :=
  {| u_creator := "alice"; u_did := "did:sid:r1"; u_newdoc := "r2"; u_keys := [("k", "v2")];
     u_ts := 200; u_update := [("did:key:acc1", ("seed3", "enc3"))];
     u_remove := ["did:key:acc2"]; u_seed := "seed";
     u_parse := Some ("sid", "r1"); u_calc := Some "r2" |}.

Definition ex_ops : list DidOp := [OpBinding 100 ex_bind1; OpBinding 150 ex_bind2; OpUpdatePay ex_pay].
Definition ex_ops2 : list DidOp := ex_ops ++ [OpUpdate 250 ex_update].

Example ex_ops_sane : Forall op_sane ex_ops2.
Proof.
  unfold ex_ops2, ex_ops. cbn [app].
  apply Forall_cons_2; [exact I|]. apply Forall_cons_2; [exact I|].
  apply Forall_cons_2.
  { cbn. split; [intros H; discriminate H|intros _; reflexivity]. }
  apply Forall_cons_2; [|apply Forall_nil_2].
  cbn. intros meth id H _. injection H as <- <-. reflexivity.
Qed.

Example ex_ops_sane1 : Forall op_sane ex_ops.
Proof.
  pose proof ex_ops_sane as H. unfold ex_ops2 in H. apply Forall_app in H. exact (proj1 H).
Qed.

(* after the two Bindings and the UpdatePaymentAddress: two bound accounts, one sid DID
   with two account DIDs, two payment addresses (one sid, one key DID) *)
Example ex_run_state :
  let s := did_run "sao" ex_ops did_empty in
  size (d_did s) = 2%nat /\
  d_did s !! "cosmos:sao:alice" = Some "did:sid:r1" /\
  d_did s !! "eip155:1:0xabc" = Some "did:sid:r1" /\
  d_acclist s !! "did:sid:r1" = Some ["did:key:acc1"; "did:key:acc2"] /\
  size (d_auth s) = 2%nat /\ size (d_accid s) = 2%nat /\
  d_pay s !! "did:sid:r1" = Some "alice" /\
  d_pay s !! "did:key:bob1" = Some "bob" /\
  d_kid s !! "bob" = Some "did:key:bob1" /\
  d_ver s !! "r1" = Some ["r1"] /\ size (d_doc s) = 1%nat.
Proof. vm_compute. repeat split; reflexivity. Qed.
Print Assumptions ex_run_state.

(* ... and after the Update that rotates the keys and unbinds the second account *)
Example ex_run_state2 :
  let s := did_run "sao" ex_ops2 did_empty in
  size (d_did s) = 1%nat /\
  d_did s !! "cosmos:sao:alice" = Some "did:sid:r1" /\
  d_did s !! "eip155:1:0xabc" = None /\
  d_acclist s !! "did:sid:r1" = Some ["did:key:acc1"] /\
  d_auth s !! "did:key:acc1" = Some ("seed3", "enc3") /\
  size (d_auth s) = 1%nat /\ size (d_accid s) = 1%nat /\
  d_pay s !! "did:sid:r1" = Some "alice" /\
  d_seeds s !! "did:sid:r1" = Some ["seed"] /\
  d_ver s !! "r1" = Some ["r1"; "r2"] /\ size (d_doc s) = 2%nat.
Proof. vm_compute. repeat split; reflexivity. Qed.
Print Assumptions ex_run_state2.

Example ex_run_inv : Inv_did "sao" (did_run "sao" ex_ops did_empty).
Proof. apply did_run_inv; [apply did_empty_inv|exact ex_ops_sane1]. Qed.
Print Assumptions ex_run_inv.

Example ex_run_inv2 : Inv_did "sao" (did_run "sao" ex_ops2 did_empty).
Proof. apply did_run_inv; [apply did_empty_inv|exact ex_ops_sane]. Qed.
Print Assumptions ex_run_inv2.

(* the accepted operations of the run satisfy the per-operation statements *)
Example ex_binding_authentic : binding_authentic "sao" did_empty ex_bind1.
Proof.
  destruct (did_binding "sao" 100 ex_bind1 did_empty) as [e|s'] eqn:E.
  - vm_compute in E. discriminate E.
  - exact (binding_accepted_authentic _ _ _ _ _ E).
Qed.
Print Assumptions ex_binding_authentic.
