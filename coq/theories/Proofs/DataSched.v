(* C05 / C11 / C02: the data-expiry schedule holds nothing stale and no duplicates, in every reachable state; hence
   the re-slicing loop of removeDataExpireBlock never runs out of bounds (it panics exactly on a duplicate). *)
From SaoVerif Require Import Base.Prelude Base.Ints Base.Dec Model.Did Model.Types Model.Monad Model.Bank Model.Select
     Model.Node Model.Storage Model.Sao Model.Hooks Model.App Model.Spec Proofs.Frame Proofs.Authz Proofs.Hoare Proofs.History Proofs.MetaSched.
From RecordUpdate Require Import RecordUpdate.
Import RecordSetNotations.

(** * the slice machine on a duplicate-free list *)
(* no element equal to [data] at any position the loop will still read *)
Lemma rm_loop_nohit data : forall n idx arr len,
  (forall j, (idx <= j)%nat -> arr !! j <> Some data) ->
  rm_expire_loop n idx arr len data = Some (arr, len).
Proof.
  induction n as [|n IH]; intros idx arr len H; cbn [rm_expire_loop]; [reflexivity|].
  destruct (arr !! idx) as [id|] eqn:E; [|reflexivity].
  destruct (String.eqb id data) eqn:Eq; [apply String.eqb_eq in Eq; subst id; exfalso; apply (H idx); [lia|exact E]|].
  apply IH. intros j Hj. apply H. lia.
Qed.

Lemma rm_loop_nodup data : forall n idx arr len,
  (len <= length arr)%nat -> NoDup (take len arr) -> (length arr <= idx + n)%nat ->
  (forall j, (idx <= j)%nat -> (len <= j)%nat -> arr !! j <> Some data) ->
  exists arr' len', rm_expire_loop n idx arr len data = Some (arr', len') /\ (len' <= length arr')%nat /\
    ((arr' = arr /\ len' = len /\ forall j, (idx <= j)%nat -> arr !! j <> Some data) \/
     (exists i, (idx <= i < len)%nat /\ arr !! i = Some data /\ len' = (len - 1)%nat /\
                take len' arr' = take i arr ++ drop (i + 1) (take len arr))).
Proof.
  induction n as [|n IH]; intros idx arr len Hl Hnd Hn Hst; cbn [rm_expire_loop].
  - exists arr, len. split; [reflexivity|]. split; [exact Hl|]. left. split; [reflexivity|]. split; [reflexivity|].
    intros j Hj. rewrite lookup_ge_None_2 by lia. discriminate.
  - destruct (arr !! idx) as [id|] eqn:E.
    2:{ exists arr, len. split; [reflexivity|]. split; [exact Hl|]. left. split; [reflexivity|]. split; [reflexivity|].
        intros j Hj. apply lookup_ge_None in E. rewrite lookup_ge_None_2 by lia. discriminate. }
    destruct (String.eqb id data) eqn:Eq.
    + apply String.eqb_eq in Eq. subst id.
      assert (Hidx : (idx < len)%nat).
      { destruct (le_lt_dec len idx) as [Hge|Hlt]; [|exact Hlt]. exfalso. apply (Hst idx); [lia|exact Hge|exact E]. }
      destruct (Nat.ltb len (idx + 1)) eqn:El; [apply Nat.ltb_lt in El; lia|].
      set (arr' := take idx arr ++ drop (idx + 1) (take len arr) ++ drop (len - 1) arr).
      assert (Hlen' : length arr' = length arr).
      { unfold arr'. rewrite !app_length, take_length, !drop_length, take_length. lia. }
      assert (Htk : take (len - 1) arr' = take idx arr ++ drop (idx + 1) (take len arr)).
      { unfold arr'. rewrite app_assoc. rewrite take_app_le; [|rewrite app_length, take_length, drop_length, take_length; lia].
        apply take_ge. rewrite app_length, take_length, drop_length, take_length. lia. }
      (* after the hit nothing the loop still reads equals [data] *)
      rewrite (rm_loop_nohit data n (S idx) arr' (len - 1)).
      * exists arr', (len - 1)%nat. split; [reflexivity|]. split; [lia|]. right. exists idx.
        split; [lia|]. split; [exact E|]. split; [reflexivity|exact Htk].
      * intros j Hj Ej.
        destruct (le_lt_dec (len - 1) j) as [Hge|Hlt].
        -- (* stale zone of arr': position j >= len-1 holds arr[j] for j >= len, and arr[len-1] at len-1 *)
           unfold arr' in Ej. rewrite app_assoc in Ej. rewrite lookup_app_r in Ej; [|rewrite app_length, take_length, drop_length, take_length; lia].
           rewrite app_length, take_length, drop_length, take_length in Ej. rewrite lookup_drop in Ej.
           replace (len - 1 + (j - (idx `min` length arr + (len `min` length arr - (idx + 1)))))%nat with j in Ej by lia.
           destruct (le_lt_dec len j) as [Hjl|Hjl]; [apply (Hst j); [lia|exact Hjl|exact Ej]|].
           (* j = len - 1 > idx: a second occurrence in the live part *)
           assert (j = (len - 1)%nat) by lia. subst j.
           assert (Hi : take len arr !! idx = Some data) by (rewrite lookup_take by lia; exact E).
           assert (Hj' : take len arr !! (len - 1)%nat = Some data) by (rewrite lookup_take by lia; exact Ej).
           pose proof (NoDup_lookup _ _ _ _ Hnd Hi Hj'). lia.
        -- (* live part of arr' after the hit: old live elements behind idx *)
           assert (Ej' : take (len - 1) arr' !! j = Some data) by (rewrite lookup_take by lia; exact Ej).
           rewrite Htk in Ej'. rewrite lookup_app_r in Ej' by (rewrite take_length; lia).
           rewrite take_length, lookup_drop, lookup_take in Ej' by lia.
           assert (Hi : take len arr !! idx = Some data) by (rewrite lookup_take by lia; exact E).
           assert (Hj' : take len arr !! (idx + 1 + (j - idx `min` length arr))%nat = Some data) by (rewrite lookup_take by lia; exact Ej').
           pose proof (NoDup_lookup _ _ _ _ Hnd Hi Hj'). lia.
    + destruct (IH (S idx) arr len Hl Hnd) as (arr' & len' & E1 & E2 & E3).
      { lia. } { intros j Hj. apply Hst. lia. }
      exists arr', len'. split; [exact E1|]. split; [exact E2|].
      destruct E3 as [(Ea & Eb & Ec)|(i & Hi & E3)]; [left|right; exists i; split; [lia|exact E3]].
      split; [exact Ea|]. split; [exact Eb|]. intros j Hj. destruct (decide (j = idx)) as [->|Hne].
      * rewrite E. intros Hc. injection Hc as ->. rewrite String.eqb_refl in Eq. discriminate.
      * apply Ec. lia.
Qed.

Lemma remove_nth_nodup (l : list string) i d : NoDup l -> l !! i = Some d ->
  NoDup (take i l ++ drop (i + 1) l) /\ ~ In d (take i l ++ drop (i + 1) l) /\
  forall x, x <> d -> (In x (take i l ++ drop (i + 1) l) <-> In x l).
Proof.
  intros Hnd Hi. pose proof (take_drop_middle l i d Hi) as E. rewrite <- Nat.add_1_r in E.
  rewrite <- E in Hnd. apply NoDup_app in Hnd as (H1 & H2 & H3). apply NoDup_cons in H3 as [H4 H5].
  split; [|split].
  - apply NoDup_app. split; [exact H1|]. split; [|exact H5].
    intros x Hx Hx'. apply (H2 x Hx). right. exact Hx'.
  - intros Hin. apply in_app_iff in Hin as [Hin|Hin].
    + apply (H2 d); [apply elem_of_list_In, Hin|left].
    + apply H4, elem_of_list_In, Hin.
  - intros x Hx. rewrite <- E at 3. rewrite !in_app_iff. cbn [In]. split; [tauto|].
    intros [H|[H|H]]; [tauto|congruence|tauto].
Qed.

(* RemoveDataExpireBlock on a duplicate-free list: never panics, removes exactly [data] from the list at [h] *)
Lemma remove_data_expire_nodup data h t :
  (forall l, expdata t !! h = Some l -> NoDup l) ->
  exists t', remove_data_expire data h t = Ok tt t' /\ metas t' = metas t /\
    (forall h', h' <> h -> expdata t' !! h' = expdata t !! h') /\
    (forall l', expdata t' !! h = Some l' -> NoDup l' /\ l' <> []) /\
    ~ In data (default [] (expdata t' !! h)) /\
    (forall x, x <> data -> (In x (default [] (expdata t' !! h)) <-> In x (default [] (expdata t !! h)))).
Proof.
  intros Hnd. unfold remove_data_expire, bind, get.
  destruct (expdata t !! h) as [l|] eqn:El.
  2:{ exists t. cbn. rewrite El. repeat split; auto; try discriminate; tauto. }
  specialize (Hnd l eq_refl).
  destruct (rm_loop_nodup data (length l) 0 l (length l)) as (arr' & len' & E1 & E2 & E3).
  { lia. } { rewrite take_ge by lia. exact Hnd. } { lia. } { intros j _ Hj. rewrite lookup_ge_None_2 by lia. discriminate. }
  rewrite E1.
  assert (Hres : NoDup (take len' arr') /\ ~ In data (take len' arr') /\ forall x, x <> data -> (In x (take len' arr') <-> In x l)).
  { destruct E3 as [(-> & -> & Hno)|(i & Hi & Ei & -> & Etk)].
    - rewrite take_ge by lia. split; [exact Hnd|]. split; [|tauto].
      intros Hin. apply elem_of_list_In, elem_of_list_lookup in Hin as [j Hj]. apply (Hno j); [lia|exact Hj].
    - rewrite Etk. rewrite (take_ge l (length l)) by lia. apply remove_nth_nodup; assumption. }
  destruct Hres as (R1 & R2 & R3).
  destruct (take len' arr') as [|y l'] eqn:Et; unfold modify, set; cbn.
  - eexists. split; [reflexivity|]. cbn. split; [reflexivity|]. split; [intros h' Hh; apply lookup_delete_ne; congruence|].
    rewrite lookup_delete. split; [discriminate|]. split; [tauto|]. cbn. intros x Hx. rewrite <- (R3 x Hx). tauto.
  - eexists. split; [reflexivity|]. cbn. split; [reflexivity|]. split; [intros h' Hh; apply lookup_insert_ne; congruence|].
    rewrite lookup_insert. split; [intros l0 E; injection E as <-; split; [exact R1|discriminate]|]. cbn [default].
    split; [exact R2|exact R3].
Qed.

(** * the invariant: nothing stale, no duplicates -- together with Inv_msched: every model is listed exactly once, where its lifetime ends *)
Definition Inv_xd (s : State) : Prop :=
  forall h l, expdata s !! h = Some l -> NoDup l /\ forall d, In d l -> exists m, metas s !! d = Some m /\ expiry m = h.
Definition Inv_ds (s : State) : Prop := Inv_msched s /\ Inv_xd s.

Definition Rds (s s' : State) : Prop := Inv_ds s -> Inv_ds s'.
Global Instance Rds_po : PreOrder Rds.
Proof. split; [intros s H; exact H|intros a b c H1 H2 H; auto]. Qed.

Lemma inv_ds_of_mx b t : Inv_ds b -> mx t = mx b -> Inv_ds t.
Proof.
  intros [H1 H2] E. unfold mx in E. injection E as Em Ee. split.
  - intros d m Hd. unfold listed. rewrite Ee. apply H1. rewrite <- Em. exact Hd.
  - intros h l Hl. rewrite Ee in Hl. destruct (H2 h l Hl) as [Hn Hs]. split; [exact Hn|].
    intros d Hd. rewrite Em. apply Hs, Hd.
Qed.
Lemma keeps_Rds {A} (m : M A) : keeps mx m -> mok Rds true m.
Proof. intros H s. specialize (H s). destruct (m s); auto; intros Hi; apply (inv_ds_of_mx s); assumption. Qed.

(* while the model [d] is being rewritten: the table is that of [b]; every list is duplicate-free; [d] is listed exactly
   at [w] (or nowhere); every other entry and every other model are as the invariant of [b] says *)
Definition XO (b : State) (d : string) (w : option Z) (t : State) : Prop :=
  metas t = metas b /\
  (forall h l, expdata t !! h = Some l -> NoDup l /\
     forall d', In d' l -> (d' = d /\ w = Some h) \/ (d' <> d /\ exists m, metas b !! d' = Some m /\ expiry m = h)) /\
  (forall d' m', d' <> d -> metas b !! d' = Some m' -> listed t (expiry m') d') /\
  match w with Some h => listed t h d | None => True end.

Lemma XO_init b d : Inv_ds b -> XO b d (match metas b !! d with Some m => Some (expiry m) | None => None end) b.
Proof.
  intros [H1 H2]. split; [reflexivity|]. split; [|split].
  - intros h l Hl. destruct (H2 h l Hl) as [Hn Hs]. split; [exact Hn|]. intros d' Hd'.
    destruct (Hs d' Hd') as (m & Hm & Hx). destruct (decide (d' = d)) as [->|Hne].
    + left. split; [reflexivity|]. rewrite Hm, Hx. reflexivity.
    + right. split; [exact Hne|]. exists m. split; assumption.
  - intros d' m' _ Hm'. apply (H1 d' m' Hm').
  - destruct (metas b !! d) as [m|] eqn:Em; [apply (H1 d m Em)|exact I].
Qed.

Lemma ht_xo_keeps {A} b d w (m : M A) : keeps mx m -> ht (XO b d w) m (fun _ => XO b d w) (XO b d w).
Proof.
  intros H t (Hm & Hl & Ho & Hw). specialize (H t). unfold mx in H.
  destruct (m t) as [a t'|e t'|e|]; auto; injection H as Em Ee;
    (split; [congruence|]; split; [intros h l E; rewrite Ee in E; apply (Hl h l E)|];
     split; [intros d' m' Hd Hb; unfold listed; rewrite Ee; apply (Ho d' m' Hd Hb)|];
     destruct w; [unfold listed; rewrite Ee; exact Hw|exact I]).
Qed.

Lemma ht_xo_remove b d w E : ht (XO b d (Some w)) (remove_data_expire d w) (fun _ => XO b d None) E.
Proof.
  intros t (Hm & Hl & Ho & Hw).
  destruct (remove_data_expire_nodup d w t) as (t' & E1 & Em & Eo & El & Enot & Eiff).
  { intros l E0. apply (Hl w l E0). }
  rewrite E1. split; [congruence|]. split; [|split; [|exact I]].
  - intros h l E0. destruct (decide (h = w)) as [->|Hne].
    + destruct (El l E0) as [Hn _]. split; [exact Hn|]. intros d' Hd'.
      assert (Hd'' : In d' (default [] (expdata t' !! w))) by (rewrite E0; exact Hd').
      destruct (decide (d' = d)) as [->|Hnd]; [contradiction|].
      apply (Eiff d' Hnd) in Hd''. destruct (expdata t !! w) as [l0|] eqn:E00; [|destruct Hd''].
      destruct (Hl w l0 E00) as [_ Hs]. destruct (Hs d' Hd'') as [[-> _]|R]; [contradiction|right; exact R].
    + rewrite (Eo h Hne) in E0. destruct (Hl h l E0) as [Hn Hs]. split; [exact Hn|]. intros d' Hd'.
      destruct (Hs d' Hd') as [[-> Hw']|R]; [congruence|right; exact R].
  - intros d' m' Hd Hb. pose proof (Ho d' m' Hd Hb) as Hli. unfold listed in *.
    destruct (decide (expiry m' = w)) as [Ew|Hne]; [rewrite Ew in *; apply (Eiff d' Hd), Hli|rewrite (Eo _ Hne); exact Hli].
Qed.

Lemma ht_xo_remove_none b d h E : ht (XO b d None) (remove_data_expire d h) (fun _ => XO b d None) E.
Proof.
  intros t (Hm & Hl & Ho & _).
  destruct (remove_data_expire_nodup d h t) as (t' & E1 & Em & Eo & El & Enot & Eiff).
  { intros l E0. apply (Hl h l E0). }
  rewrite E1. split; [congruence|]. split; [|split; [|exact I]].
  - intros h' l E0. destruct (decide (h' = h)) as [->|Hne].
    + destruct (El l E0) as [Hn _]. split; [exact Hn|]. intros d' Hd'.
      assert (Hd'' : In d' (default [] (expdata t' !! h))) by (rewrite E0; exact Hd').
      destruct (decide (d' = d)) as [->|Hnd]; [contradiction|].
      apply (Eiff d' Hnd) in Hd''. destruct (expdata t !! h) as [l0|] eqn:E00; [|destruct Hd''].
      destruct (Hl h l0 E00) as [_ Hs]. destruct (Hs d' Hd'') as [[_ Hc]|R]; [discriminate|right; exact R].
    + rewrite (Eo h' Hne) in E0. apply (Hl h' l E0).
  - intros d' m' Hd Hb. pose proof (Ho d' m' Hd Hb) as Hli. unfold listed in *.
    destruct (decide (expiry m' = h)) as [Ew|Hne]; [rewrite Ew in *; apply (Eiff d' Hd), Hli|rewrite (Eo _ Hne); exact Hli].
Qed.

Lemma ht_xo_set b d h E : ht (XO b d None) (set_data_expire d h) (fun _ => XO b d (Some h)) E.
Proof.
  intros t (Hm & Hl & Ho & _). unfold set_data_expire, modify. split; [exact Hm|]. unfold set; cbn. split; [|split].
  - intros h' l E0. destruct (decide (h' = h)) as [->|Hne].
    + rewrite lookup_insert in E0. injection E0 as <-.
      destruct (expdata t !! h) as [l0|] eqn:E00; cbn [default].
      * destruct (Hl h l0 E00) as [Hn Hs]. split.
        -- apply NoDup_app. split; [exact Hn|]. split; [|apply NoDup_singleton].
           intros x Hx Hx'. apply elem_of_list_singleton in Hx'. subst x. apply elem_of_list_In in Hx.
           destruct (Hs d Hx) as [[_ Hc]|[Hc _]]; [discriminate|congruence].
        -- intros d' Hd'. apply in_app_iff in Hd' as [Hd'|[<-|[]]]; [|left; split; reflexivity].
           destruct (Hs d' Hd') as [[_ Hc]|R]; [discriminate|right; exact R].
      * split; [apply NoDup_singleton|]. intros d' [<-|[]]. left. split; reflexivity.
    + rewrite lookup_insert_ne in E0 by congruence. destruct (Hl h' l E0) as [Hn Hs]. split; [exact Hn|].
      intros d' Hd'. destruct (Hs d' Hd') as [[_ Hc]|R]; [discriminate|right; exact R].
  - intros d' m' Hd Hb. pose proof (Ho d' m' Hd Hb) as Hli. unfold listed in *; cbn.
    destruct (decide (expiry m' = h)) as [Ew|Hne]; [rewrite Ew in *; rewrite lookup_insert; cbn; apply in_app_iff; left; exact Hli|rewrite lookup_insert_ne by congruence; exact Hli].
  - unfold listed; cbn. rewrite lookup_insert. cbn. apply in_app_iff. right. left. reflexivity.
Qed.

(* closing: the record goes (back) into the table with the lifetime it is listed for / the model is removed *)
Lemma inv_of_xo_insert b d h t t' m' :
  XO b d (Some h) t -> metas t' = <[d := m']> (metas t) -> expdata t' = expdata t -> expiry m' = h -> Inv_ds t'.
Proof.
  intros (Hm & Hl & Ho & Hw) Em Ee Hx. split.
  - intros k x Hk. unfold listed. rewrite Ee. rewrite Em in Hk. destruct (decide (k = d)) as [->|Hne].
    + rewrite lookup_insert in Hk. injection Hk as <-. rewrite Hx. exact Hw.
    + rewrite lookup_insert_ne in Hk by congruence. rewrite Hm in Hk. apply (Ho k x Hne Hk).
  - intros h' l E0. rewrite Ee in E0. destruct (Hl h' l E0) as [Hn Hs]. split; [exact Hn|]. intros d' Hd'. rewrite Em.
    destruct (Hs d' Hd') as [[-> Hw']|(Hne & m & Hb & Hxm)].
    + injection Hw' as <-. exists m'. split; [apply lookup_insert|exact Hx].
    + exists m. split; [rewrite lookup_insert_ne by congruence; rewrite Hm; exact Hb|exact Hxm].
Qed.
Lemma inv_of_xo_delete b d t t' :
  XO b d None t -> metas t' = delete d (metas t) -> expdata t' = expdata t -> Inv_ds t'.
Proof.
  intros (Hm & Hl & Ho & _) Em Ee. split.
  - intros k x Hk. unfold listed. rewrite Ee. rewrite Em in Hk. apply lookup_delete_Some in Hk as [Hne Hk].
    rewrite Hm in Hk. apply (Ho k x ltac:(congruence) Hk).
  - intros h' l E0. rewrite Ee in E0. destruct (Hl h' l E0) as [Hn Hs]. split; [exact Hn|]. intros d' Hd'. rewrite Em.
    destruct (Hs d' Hd') as [[_ Hc]|(Hne & m & Hb & Hxm)]; [discriminate|].
    exists m. split; [rewrite lookup_delete_ne by congruence; rewrite Hm; exact Hb|exact Hxm].
Qed.

(** * the functions that write the table or the schedule *)
Lemma mok_inv_ds {A} (m : M A) :
  (forall b, Inv_ds b -> ht (eq b) m (fun _ => Inv_ds) Inv_ds) -> mok Rds true m.
Proof.
  intros H s. destruct (m s) as [a s'|e s'|e|] eqn:E; auto; intros Hi; specialize (H s Hi s eq_refl); rewrite E in H; exact H.
Qed.
Ltac start_ds b Hi := apply mok_inv_ds; intros b Hi.

Lemma xo_of_mx b d t m : Inv_ds b -> mx t = mx b -> metas b !! d = Some m -> XO b d (Some (expiry m)) t.
Proof.
  intros Hi E Hm. pose proof (XO_init b d Hi) as X. rewrite Hm in X. destruct X as (X1 & X2 & X3 & X4).
  unfold mx in E. injection E as Em Ee. split; [exact Em|]. split; [intros h l E0; rewrite Ee in E0; apply (X2 h l E0)|].
  split; [intros d' m' Hd Hb; unfold listed; rewrite Ee; apply (X3 d' m' Hd Hb)|unfold listed; rewrite Ee; exact X4].
Qed.

Lemma extend_meta_duration_ds data e : u64 e = e -> mok Rds true (extend_meta_duration data e).
Proof.
  intros He. start_ds b Hi. unfold extend_meta_duration.
  apply ht_bind_get; intros s0 <-.
  destruct (metas b !! data) as [m|] eqn:Em; [|apply ht_ret; intros t <-; exact Hi].
  cbv zeta. destruct (_ <? _); [|apply ht_ret; intros t <-; exact Hi].
  apply (ht_pre _ _ _ (XO b data (Some (expiry m)))); [|intros t <-; apply (xo_of_mx b data b m Hi eq_refl Em)].
  eapply ht_bind; [apply ht_xo_remove|intros []].
  eapply ht_bind; [apply ht_xo_set|intros []].
  apply ht_modify. intros t Ht. eapply inv_of_xo_insert; [exact Ht|unfold set; cbn; reflexivity|reflexivity|].
  unfold expiry; cbn. rewrite u64_add_sub. exact He.
Qed.

Lemma reset_meta_duration_ds cx d m b E : height_ok cx ->
  ht (XO b d (Some (expiry m))) (reset_meta_duration cx d m)
     (fun m' t => m_created m' = m_created m /\ XO b d (Some (expiry m')) t) E.
Proof.
  intros Hh. unfold reset_meta_duration. apply ht_bind_get; intros s0 Hs0. cbv zeta.
  destruct (_ =? _) eqn:Ed.
  { apply ht_ret. intros t <-. split; [reflexivity|exact Hs0]. }
  apply (ht_pre _ _ _ (XO b d (Some (expiry m)))); [|intros t <-; exact Hs0].
  eapply ht_bind; [apply ht_xo_remove|intros []].
  eapply ht_bind; [apply ht_xo_set|intros []].
  apply ht_ret. intros t Ht. split; [reflexivity|].
  unfold expiry at 1; cbn. rewrite u64_add_sub.
  match goal with |- XO _ _ (Some (u64 ?e)) _ => assert (He : u64 e = e) end.
  { destruct (_ <=? _); [|apply reset_expired_height_u64].
    destruct Hh as [H1 H2]. rewrite (u64_id (cx_height cx)) by (unfold two63, two64 in *; lia).
    apply u64_id. unfold two63, two64 in *. lia. }
  rewrite He. exact Ht.
Qed.

Lemma delete_meta_ds data : mok Rds true (delete_meta data).
Proof.
  start_ds b Hi. unfold delete_meta. apply ht_bind_get; intros s0 <-.
  destruct (metas b !! data) as [m|] eqn:Em; [|apply ht_fail; intros t <-; exact Hi].
  (* first the table entry goes, then the schedule entry: in between [data] is listed but absent *)
  eapply ht_bind with (Qm := fun _ t => metas t = delete data (metas b) /\ expdata t = expdata b).
  - apply ht_modify. intros t <-. unfold set; cbn. split; reflexivity.
  - intros []. intros t [Hm He].
    destruct (remove_data_expire_nodup data (u64 (m_created m + m_duration m)) t) as (t' & E1 & Em' & Eo & El & Enot & Eiff).
    { intros l E0. rewrite He in E0. apply (proj2 Hi _ l E0). }
    rewrite E1. destruct Hi as [H1 H2]. split.
    + intros k x Hk. rewrite Em', Hm in Hk. apply lookup_delete_Some in Hk as [Hne Hk].
      pose proof (H1 k x Hk) as Hli. unfold listed in *.
      destruct (decide (expiry x = u64 (m_created m + m_duration m))) as [Ew|Hnw].
      * rewrite Ew in *. apply (Eiff k ltac:(congruence)). rewrite He. exact Hli.
      * rewrite (Eo _ Hnw), He. exact Hli.
    + intros h l E0. assert (Hsub : forall d', In d' l -> In d' (default [] (expdata b !! h)) /\ (h = u64 (m_created m + m_duration m) -> d' <> data)).
      { intros d' Hd'. destruct (decide (h = u64 (m_created m + m_duration m))) as [->|Hnh].
        - assert (Hd'' : In d' (default [] (expdata t' !! u64 (m_created m + m_duration m)))) by (rewrite E0; exact Hd').
          assert (Hnd : d' <> data) by (intros ->; contradiction).
          split; [|intros _; exact Hnd]. apply (Eiff d' Hnd) in Hd''. rewrite He in Hd''. exact Hd''.
        - split; [|intros Hc; contradiction]. rewrite (Eo h Hnh), He in E0. rewrite E0. exact Hd'. }
      split.
      * destruct (decide (h = u64 (m_created m + m_duration m))) as [->|Hnh]; [apply (El l E0)|].
        rewrite (Eo h Hnh), He in E0. apply (H2 h l E0).
      * intros d' Hd'. destruct (Hsub d' Hd') as [Hin Hne].
        destruct (expdata b !! h) as [l0|] eqn:E00; [|destruct Hin]. destruct (proj2 (H2 h l0 E00) d' Hin) as (m' & Hm' & Hx).
        exists m'. split; [|exact Hx]. rewrite Em', Hm. rewrite lookup_delete_ne; [exact Hm'|].
        intros <-. rewrite Em in Hm'. injection Hm' as <-. apply Hne; [|reflexivity]. symmetry. exact Hx.
Qed.

Lemma inv_ds_insert_same b d m m' t' :
  Inv_ds b -> metas b !! d = Some m -> expiry m' = expiry m ->
  metas t' = <[d := m']> (metas b) -> expdata t' = expdata b -> Inv_ds t'.
Proof.
  intros Hi Hd Hx Em Ee. eapply (inv_of_xo_insert b d (expiry m) b); [apply (xo_of_mx b d b m Hi eq_refl Hd)|exact Em|exact Ee|exact Hx].
Qed.

Lemma update_permission_ds owner data ro rw : mok Rds true (update_permission owner data ro rw).
Proof.
  start_ds b Hi. unfold update_permission. apply ht_bind_get; intros s0 <-.
  destruct (metas b !! data) as [m|] eqn:Em; [|apply ht_fail; intros t <-; exact Hi].
  destruct (negb _); [apply ht_fail; intros t <-; exact Hi|].
  apply ht_modify. intros t <-. eapply (inv_ds_insert_same b data m); [exact Hi|exact Em| |unfold set; cbn; reflexivity|reflexivity].
  reflexivity.
Qed.

Lemma rollback_meta_ds cx data : height_ok cx -> mok Rds true (rollback_meta cx data).
Proof.
  intros Hh. start_ds b Hi. unfold rollback_meta. apply ht_bind_get; intros s0 <-.
  destruct (metas b !! data) as [m|] eqn:Em; [|apply ht_ret; intros t <-; exact Hi].
  destruct (last_opt (m_commits m)) as [lastv|].
  - destruct (last_opt (m_orders m)) as [lo|]; [|apply ht_panic]. cbv zeta.
    eapply ht_bind; [eapply ht_pre; [apply (reset_meta_duration_ds cx data _ b _ Hh)|intros t <-; exact (xo_of_mx b data b m Hi eq_refl Em)]|]. intros m2.
    apply ht_modify. intros t (_ & Ht).
    eapply inv_of_xo_insert; [exact Ht|unfold set; cbn; reflexivity|reflexivity|reflexivity].
  - (* no committed version: the model goes, table entry first -- the body of DeleteMeta *)
    pose proof (delete_meta_ds data b) as Hd. unfold delete_meta in Hd. unfold bind at 1 in Hd. unfold get in Hd. rewrite Em in Hd.
    intros t <-.
    match goal with |- match ?c with _ => _ end => destruct c eqn:E end; auto; apply Hd, Hi.
Qed.

Lemma ht_mx_ds {A} b (m : M A) : Inv_ds b -> keeps mx m -> ht (eq b) m (fun _ t => mx t = mx b) Inv_ds.
Proof.
  intros Hi H t <-. specialize (H b). destruct (m b) as [a t'|e t'|e|]; auto. apply (inv_ds_of_mx b); assumption.
Qed.

Lemma update_meta_ds cx oid o : height_ok cx -> mok Rds true (update_meta cx oid o).
Proof.
  intros Hh. start_ds b Hi. unfold update_meta. apply ht_bind_get; intros s0 <-.
  destruct (negb _); [apply ht_fail; intros t <-; exact Hi|].
  destruct (metas b !! o_data o) as [m|] eqn:Em; [|apply ht_fail; intros t <-; exact Hi].
  destruct (negb _); [apply ht_fail; intros t <-; exact Hi|].
  eapply ht_bind with (Qm := fun m' t => XO b (o_data o) (Some (expiry m')) t).
  - destruct (o_op o =? 1).
    { apply ht_ret. intros t <-. apply (xo_of_mx b (o_data o) b m Hi eq_refl Em). }
    destruct (o_op o =? 2).
    { destruct (last_opt (m_commits m)) as [lastv|]; [|apply ht_panic].
      eapply ht_bind; [apply (ht_mx_ds b _ Hi); kx|]. intros [rev_left sids].
      eapply ht_bind with (Qm := fun _ t => mx t = mx b).
      { intros t Ht. pose proof (mx_remove_shards (dedupZ sids) t) as K. destruct (remove_shards _ t); auto; try congruence.
        apply (inv_ds_of_mx b); [exact Hi|congruence]. }
      intros []. cbv zeta.
      eapply ht_conseq; [apply (reset_meta_duration_ds cx (o_data o) _ b Inv_ds Hh)| | |]; cbv beta;
        [intros t Ht; exact (xo_of_mx b (o_data o) t m Hi Ht Em)|intros m' t (_ & Ht); exact Ht|auto]. }
    destruct (o_op o =? 3).
    { apply ht_ret. intros t <-. apply (xo_of_mx b (o_data o) b m Hi eq_refl Em). }
    apply ht_fail. intros t <-. exact Hi.
  - intros m'. apply ht_modify. intros t Ht.
    eapply inv_of_xo_insert; [exact Ht|unfold set; cbn; reflexivity|reflexivity|reflexivity].
Qed.

Lemma update_meta_status_commit_ds cx oid o : mok Rds true (update_meta_status_commit cx oid o).
Proof.
  start_ds b Hi. unfold update_meta_status_commit. apply ht_bind_get; intros s0 <-.
  destruct (metas b !! o_data o) as [m|] eqn:Em; [|apply ht_fail; intros t <-; exact Hi].
  destruct (negb _); [apply ht_fail; intros t <-; exact Hi|]. cbv zeta.
  destruct (_ <? _); [apply ht_fail; intros t <-; exact Hi|].
  eapply ht_bind with (Qm := fun m' t => XO b (o_data o) (Some (expiry m')) t).
  - destruct (_ <? _).
    + apply (ht_pre _ _ _ (XO b (o_data o) (Some (expiry m)))); [|intros t <-; apply (xo_of_mx b (o_data o) b m Hi eq_refl Em)].
      eapply ht_bind; [apply ht_xo_remove|intros []].
      eapply ht_bind; [apply ht_xo_set|intros []].
      apply ht_ret. intros t Ht. unfold expiry; cbn. rewrite u64_add_sub, u64_idem. exact Ht.
    + apply ht_ret. intros t <-. apply (xo_of_mx b (o_data o) b m Hi eq_refl Em).
  - intros m'. apply ht_modify. intros t Ht.
    eapply inv_of_xo_insert; [exact Ht|unfold set; cbn; reflexivity|reflexivity|reflexivity].
Qed.

Lemma new_meta_ds cx o data nm : expiry nm = u64 (o_created o + o_duration o) -> mok Rds true (new_meta cx o data nm).
Proof.
  intros Hx. start_ds b Hi. unfold new_meta. apply ht_bind_get; intros s0 <-.
  destruct (negb _); [apply ht_fail; intros t <-; exact Hi|].
  destruct (bool_decide (is_Some (metas b !! data))) eqn:Ex; [apply ht_fail; intros t <-; exact Hi|].
  destruct (bool_decide (is_Some (models b !! meta_key nm))); [apply ht_fail; intros t <-; exact Hi|].
  apply bool_decide_eq_false in Ex. assert (Hn : metas b !! data = None).
  { destruct (metas b !! data) eqn:E; [exfalso; apply Ex; eexists; reflexivity|reflexivity]. }
  pose proof (XO_init b data Hi) as X. rewrite Hn in X.
  (* the table entry is written first: the assertion about the OTHER models and the lists refers to [b] only *)
  eapply ht_bind with (Qm := fun _ t => metas t = <[data := nm]> (metas b) /\ expdata t = expdata b).
  - apply ht_modify. intros t <-. unfold set; cbn. split; reflexivity.
  - intros []. intros t [Hm He].
    assert (Xt : XO b data None (t <| metas := metas b |>)).
    { destruct X as (X1 & X2 & X3 & _). split; [reflexivity|]. unfold set; cbn. split; [intros h l E0; rewrite He in E0; apply (X2 h l E0)|].
      split; [intros d' m' Hd Hb; unfold listed; cbn; rewrite He; apply (X3 d' m' Hd Hb)|exact I]. }
    pose proof (ht_xo_set b data (u64 (o_created o + o_duration o)) (fun _ => True) _ Xt) as Hs.
    unfold set_data_expire, modify in *. unfold set in Hs; cbn in Hs.
    eapply (inv_of_xo_insert b data _ _ _ nm); [exact Hs| |reflexivity|exact Hx].
    unfold set; cbn. exact Hm.
Qed.

(** ** the model end blocker *)
Definition K (h : Z) (rem : list string) (t : State) : Prop :=
  Inv_ds t /\ forall d m, metas t !! d = Some m -> expiry m = h -> In d rem.

Lemma delete_meta_K h d0 rem : ht (K h (d0 :: rem)) (delete_meta d0) (fun _ => K h rem) (K h rem).
Proof.
  intros t [Hi Hk]. pose proof (delete_meta_ds d0 t) as Hd.
  assert (Hmetas : match delete_meta d0 t with Ok _ t' | Err _ t' => forall d m, metas t' !! d = Some m -> d <> d0 /\ metas t !! d = Some m | _ => True end).
  { unfold delete_meta. unfold bind at 1. unfold get. destruct (metas t !! d0) as [m0|] eqn:Em.
    - unfold bind, modify.
      match goal with |- match remove_data_expire ?a ?hh ?s1 with _ => _ end =>
        pose proof (mt_remove_data_expire a hh s1) as Kk; destruct (remove_data_expire a hh s1) end; auto;
        intros d m Hdm; rewrite Kk in Hdm; unfold set in Hdm; cbn in Hdm; apply lookup_delete_Some in Hdm; destruct Hdm as [Hn1 Hn2]; (split; [congruence|exact Hn2]).
    - intros d m Hdm. split; [intros ->; congruence|exact Hdm]. }
  destruct (delete_meta d0 t) as [a t'|e t'|e|]; auto.
  - split; [apply Hd, Hi|]. intros d m Hdm Hx. destruct (Hmetas d m Hdm) as [Hne Hdm']. destruct (Hk d m Hdm' Hx) as [->|Hin]; [congruence|exact Hin].
  - split; [apply Hd, Hi|]. intros d m Hdm Hx. destruct (Hmetas d m Hdm) as [Hne Hdm']. destruct (Hk d m Hdm' Hx) as [->|Hin]; [congruence|exact Hin].
Qed.

Lemma end_block_model_ds cx : mok Rds true (end_block_model cx).
Proof.
  start_ds b Hi. unfold end_block_model. apply ht_bind_get; intros s0 <-.
  destruct (expdata b !! cx_height cx) as [l|] eqn:El; [|apply ht_ret; intros t <-; exact Hi].
  eapply ht_bind with (Qm := fun _ t => K (cx_height cx) [] t).
  - apply (ht_conseq _ _ _ (K (cx_height cx) l) (fun _ t => K (cx_height cx) [] t) (K (cx_height cx) [])).
    + clear El. induction l as [|d0 rem IH]; cbn [forM]; [apply ht_ret; auto|].
      apply (ht_bind _ _ _ _ _ (fun _ t => K (cx_height cx) rem t)); [|intros []; exact IH].
      apply (ht_bind _ _ _ _ _ (fun _ t => K (cx_height cx) rem t)); [apply ht_try, delete_meta_K|].
      intros r. apply ht_ret. auto.
    + intros t <-. split; [exact Hi|]. intros d m Hd Hx. pose proof (proj1 Hi d m Hd) as Hl. unfold listed in Hl. rewrite Hx, El in Hl. exact Hl.
    + auto.
    + intros t [Ht _]. exact Ht.
  - intros []. apply ht_modify. intros t [[H1 H2] Hk]. unfold set; cbn. split.
    + intros d m Hd. cbn in Hd. pose proof (H1 d m Hd) as Hl. unfold listed in *; cbn.
      destruct (decide (expiry m = cx_height cx)) as [Hx|Hx]; [destruct (Hk d m Hd Hx)|]. rewrite lookup_delete_ne by congruence. exact Hl.
    + intros h l0 E0. cbn in E0. apply lookup_delete_Some in E0 as [Hne E0]. cbn. apply (H2 h l0 E0).
Qed.

(** * the handlers *)
Create HintDb dsdb discriminated.
Global Hint Resolve delete_meta_ds update_permission_ds update_meta_status_commit_ds end_block_model_ds : dsdb.
Global Hint Extern 1 (mok Rds true (extend_meta_duration _ (u64 _))) => apply extend_meta_duration_ds, u64_idem : dsdb.

Section Handlers.
  Context (cx : Ctx) (Hh : height_ok cx).

  Ltac dm_leaf := first [ solve [auto with dsdb nocore] | solve [apply rollback_meta_ds; assumption] | solve [apply update_meta_ds; assumption]
                        | solve [apply keeps_Rds; first [kx_leaf | kx]] ].
  Ltac dm1 :=
    cbv beta;
    lazymatch goal with
    | |- mok _ _ (let _ := _ in _) => cbv zeta
    | |- mok _ _ (bind _ _) => apply mok_bind; try exact _; [ | intros ?]
    | |- mok _ _ (ret _) => apply mok_ret; try exact _
    | |- mok _ _ (fail _) => apply mok_fail; try exact _
    | |- mok _ _ (panic _) => apply mok_panic
    | |- mok _ _ get => apply mok_get; try exact _
    | |- mok _ _ (gets _) => apply mok_gets; try exact _
    | |- mok _ _ (try_ _) => apply mok_try
    | |- mok _ _ (forM _ _) => apply mok_forM; try exact _; intros ?
    | |- mok _ _ (if ?c then _ else _) => destruct c
    | |- mok _ _ (match ?x with _ => _ end) => first [is_var x; destruct x | destruct x eqn:?]
    | |- mok _ _ _ => dm_leaf
    end.
  Ltac dm := repeat dm1.
  Ltac dmv := repeat (lazymatch goal with
                      | |- mok _ _ (bind ((fix go l acc {struct l} := _) _ _) _) => fail
                      | |- mok _ _ (bind (new_order _ _ _) _) => fail
                      | |- _ => dm1 end).

  Lemma cancel_order_ds oid : mok Rds true (cancel_order cx oid).
  Proof. unfold cancel_order. dm. Qed.
  Hint Resolve cancel_order_ds : dsdb.
  Lemma sao_complete_ds c p oid cid sz ok : mok Rds true (sao_complete cx c p oid cid sz ok).
  Proof. unfold sao_complete. dm. Qed.
  Lemma sao_cancel_ds c p oid : mok Rds true (sao_cancel cx c p oid).
  Proof. unfold sao_cancel. dm. Qed.
  Lemma sao_terminate_ds c p owner data sg : mok Rds true (sao_terminate cx c p owner data sg).
  Proof. unfold sao_terminate. dm. all: try (mok_loop; [dm | dm; apply IH]). Qed.
  Lemma sao_update_permission_ds c p owner data ro rw sg v : mok Rds true (sao_update_permission cx c p owner data ro rw sg v).
  Proof. unfold sao_update_permission. dm. Qed.
  Lemma handle_timeout_order_ds oid : mok Rds true (handle_timeout_order cx oid).
  Proof. unfold handle_timeout_order. dm. all: try (mok_loop; [dm | dm; apply IH]). Qed.
  Hint Resolve handle_timeout_order_ds : dsdb.
  Lemma handle_expired_shard_ds sid : mok Rds true (handle_expired_shard cx sid).
  Proof. unfold handle_expired_shard. dm. Qed.
  Hint Resolve handle_expired_shard_ds : dsdb.
  Lemma end_block_sao_ds : mok Rds true (end_block_sao cx).
  Proof. unfold end_block_sao. dm. Qed.

  Lemma renew_one_ds m sd data : mok Rds true (renew_one cx m sd data).
  Proof.
    unfold renew_one. dmv.
    eapply (mok_bind_v Rds (fun e => u64 e = e)).
    - mok_loop; [dm | dm; apply IH].
    - match goal with |- vok _ (?F ?l0 0) => assert (Hg : forall l' acc, u64 acc = acc -> vok (fun e => u64 e = e) (F l' acc)) end.
      { induction l' as [|[id sh] r IH]; intros acc Ha; fix_unfold; [apply vok_ret, Ha|].
        intros s. unfold bind at 1.
        match goal with |- match (match ?c with _ => _ end) with _ => _ end => destruct c as [a1 s1|e s1|e|] eqn:Ec end; auto.
        assert (Ha1 : u64 a1 = a1).
        { revert Ec. destruct (sh_status sh =? ShardMigrating); [intros E; injection E as <- _; exact Ha|].
          cbv zeta. destruct (_ <? 0); [discriminate|].
          unfold bind at 1. match goal with |- match ?c with _ => _ end = _ -> _ => destruct c as [sh1 s2|?|?|] end; try discriminate.
          unfold bind, modify, ret. intros E. injection E as <- _.
          destruct (_ <? _); [apply shard_end_all_u64|exact Ha]. }
        apply (IH a1 Ha1 s1). }
      apply Hg. reflexivity.
    - intros e He. dm. apply extend_meta_duration_ds, He.
  Qed.

  Lemma sao_renew_ds m : mok Rds true (sao_renew cx m).
  Proof. unfold sao_renew. dm. apply renew_one_ds. Qed.

  Lemma end_block_ds evs : mok Rds true (end_block cx evs).
  Proof.
    unfold end_block. apply mok_bind; try exact _; [apply keeps_Rds, mv_mx, mv_staking_tx|intros _].
    apply mok_bind; try exact _; [apply end_block_sao_ds|intros _].
    apply mok_bind; try exact _; [|intros _; apply end_block_model_ds].
    apply keeps_Rds. unfold end_block_node, do_penalty. kx.
  Qed.

  Lemma sao_store_ds m : mok Rds true (sao_store cx m).
  Proof.
    unfold sao_store. dmv.
    eapply (mok_bind_v Rds); [apply keeps_Rds; kx|apply new_order_v|]. intros [oid o2] [Hc Hd]; cbn [snd] in Hc, Hd.
    dm. apply new_meta_ds. unfold expiry; cbn. rewrite Hc, Hd. reflexivity.
  Qed.
End Handlers.

(** * every operation, every run *)
Theorem step_data_schedule : forall cx s op, height_ok cx -> Inv_ds s -> Inv_ds (fst (step cx s op)).
Proof.
  intros cx s op Hh. revert s op.
  assert (H : forall s op, True -> Rds s (fst (step cx s op))).
  { apply (step_rel Rds (fun _ => True) cx).
    - intros s s' _ Hi. apply (inv_ds_of_mx s); [exact Hi|reflexivity].
    - intros evs _ s p Hi. apply (inv_ds_of_mx s); [exact Hi|reflexivity].
    - intros _. apply keeps_Rds, mv_mx, mv_begin_block.
    - intros evs _. first [apply end_block_ds, Hh | apply end_block_ds].
    - intros op m _ Htx. destruct op; cbn in Htx; try discriminate; injection Htx as <-.
      + apply keeps_Rds, mv_mx, mv_lift_did.
      + apply keeps_Rds, mv_mx, mv_node_create.
      + apply keeps_Rds, mv_mx, mv_node_reset.
      + apply keeps_Rds, mv_mx, mv_add_vstorage.
      + apply keeps_Rds, mv_mx, mv_remove_vstorage.
      + apply keeps_Rds, mv_mx. apply keeps_bind; [apply mv_claim_reward|intros; apply keeps_ret].
      + first [apply sao_store_ds, Hh | apply sao_store_ds].
      + apply keeps_Rds, mv_mx, mv_sao_ready.
      + first [apply sao_complete_ds, Hh | apply sao_complete_ds].
      + first [apply sao_cancel_ds, Hh | apply sao_cancel_ds].
      + first [apply sao_renew_ds, Hh | apply sao_renew_ds].
      + first [apply sao_terminate_ds, Hh | apply sao_terminate_ds].
      + apply keeps_Rds, mv_mx, mv_sao_migrate.
      + apply sao_update_permission_ds.
      + apply keeps_Rds, mv_mx, mv_report_faults.
      + apply keeps_Rds, mv_mx, mv_recover_faults.
      + apply keeps_Rds, mv_mx, mv_send_strict.
      + apply keeps_Rds, mv_mx, mv_staking_tx. }
  intros s op. apply (H s op I).
Qed.
Print Assumptions step_data_schedule.

(* THE HISTORY THEOREM: in every reachable state every data model is listed exactly once, at the height its lifetime
   ends, and the schedule lists nothing else -- no stale entry, no duplicate *)
Theorem run_data_schedule : forall tr s,
  Forall (fun co : Ctx * Op => height_ok co.1) tr -> Inv_ds s -> Inv_ds (run tr s).
Proof.
  induction tr as [|[cx op] tr IH]; intros s Hf Hi; [exact Hi|].
  apply Forall_cons in Hf as [Hh Hf]. change (run ((cx, op) :: tr) s) with (run tr (fst (step cx s op))).
  apply IH; [exact Hf|]. apply step_data_schedule; [exact Hh|exact Hi].
Qed.
Print Assumptions run_data_schedule.

(* C02: in a reachable state the re-slicing loop of removeDataExpireBlock never runs out of bounds *)
Corollary remove_data_expire_never_panics : forall tr s data h e,
  Forall (fun co : Ctx * Op => height_ok co.1) tr -> Inv_ds s -> remove_data_expire data h (run tr s) <> Panic e.
Proof.
  intros tr s data h e Hf Hi. destruct (run_data_schedule tr s Hf Hi) as [_ H2].
  destruct (remove_data_expire_nodup data h (run tr s)) as (t' & E & _); [intros l El; apply (H2 h l El)|].
  rewrite E. discriminate.
Qed.

(* C05 / C11: nothing stale -- an entry of the schedule always names an existing model whose lifetime ends there *)
Corollary scheduled_entry_is_live : forall tr s h l d,
  Forall (fun co : Ctx * Op => height_ok co.1) tr -> Inv_ds s ->
  expdata (run tr s) !! h = Some l -> In d l -> exists m, metas (run tr s) !! d = Some m /\ expiry m = h.
Proof. intros tr s h l d Hf Hi El Hd. destruct (run_data_schedule tr s Hf Hi) as [_ H2]. apply (proj2 (H2 h l El) d Hd). Qed.

(** ** non-vacuity *)
From SaoVerif Require Import Model.Inv Model.Monitors Proofs.RefInt.
Lemma nodup_strb_NoDup l : nodup_strb l = true -> NoDup l.
Proof.
  induction l as [|x l IH]; cbn; intros H; [constructor|]. apply andb_prop in H as [H1 H2].
  constructor; [|apply IH, H2]. intros Hin. apply elem_of_list_In, In_in_list in Hin. rewrite Hin in H1. discriminate.
Qed.
Lemma mon_expdata_live_sound s : mon_expdata_live s = true -> Inv_xd s.
Proof.
  intros H h l Hl. pose proof (all_z_spec _ _ H h l Hl) as Hb. cbn beta in Hb. apply andb_prop in Hb as [H1 H2].
  split; [apply nodup_strb_NoDup, H1|]. intros d Hd. rewrite forallb_forall in H2. specialize (H2 d Hd).
  destruct (metas s !! d) as [m|]; [|discriminate]. exists m. split; [reflexivity|]. apply Z.eqb_eq in H2. exact H2.
Qed.

Example data_schedule_nonvacuous :
  Inv_ds W.s2 /\ expdata W.s2 !! 3606 = Some [W.data] /\
  Forall (fun co : Ctx * Op => height_ok co.1) History.hist_run /\
  map_to_list (expdata (run History.hist_run W.s2)) = [(3610, [W.data])].
Proof.
  split; [split; [apply mon_meta_scheduled_sound|apply mon_expdata_live_sound]; vm_compute; reflexivity|].
  split; [vm_compute; reflexivity|].
  split; [unfold History.hist_run; repeat (apply List.Forall_cons; [split; vm_compute; congruence|]); apply List.Forall_nil|].
  vm_compute. reflexivity.
Qed.
