(* C09 / C10 -- authorisation: only owner- or grantee-signed requests change a data
   model, actors act only for themselves, who pays for an order. Proved of the model
   ([Model/Sao.v], tied to x/sao by the step-wise correspondence check) against the
   handler-independent vocabulary of [Model/Spec.v]. *)
From SaoVerif Require Import Base.Prelude Base.Ints Base.Dec Model.Did Model.Types Model.Monad Model.Bank Model.Select
     Model.Node Model.Storage Model.Sao Model.Hooks Model.App Model.Spec.
From RecordUpdate Require Import RecordUpdate.
Import RecordSetNotations.

(** * A. verification is sound *)
Lemma in_list_In x l : in_list x l = true -> In x l.
Proof.
  unfold in_list. intros H. apply existsb_exists in H. destruct H as [y [Hy He]].
  apply String.eqb_eq in He. subst. exact Hy.
Qed.

Lemma In_in_list x l : In x l -> in_list x l = true.
Proof.
  unfold in_list. intros H. apply existsb_exists. exists x. split; [exact H|apply String.eqb_refl].
Qed.

Theorem verify_sig_sound : forall s owner so d,
  sig_sane owner so -> verify_sig s owner so = Some d -> d = owner /\ signed_by s owner so.
Proof.
  intros s owner so d Hsane H. unfold verify_sig in H.
  destruct (so_owner so) as [[om oid]|] eqn:Eo; [|discriminate].
  destruct (so_kid so) as [[[km kid] kq]|] eqn:Ek; [|discriminate].
  destruct (String.eqb ("did:" +:+ km +:+ ":" +:+ kid) owner) eqn:Eown; simpl in H; [|discriminate].
  apply String.eqb_eq in Eown.
  destruct (String.eqb om "key") eqn:Eom.
  - destruct (String.eqb km "key") eqn:Ekm; simpl in H; [|discriminate].
    destruct (in_list kid (so_keys so)) eqn:Ein; [|discriminate].
    inversion H; subst d. split; [exact Eown|].
    split; [exists km, kid, kq; split; [exact Ek|exact Eown]|].
    exists kid. split; [apply in_list_In; exact Ein|].
    left. apply String.eqb_eq in Ekm. subst km. rewrite <- Eown. reflexivity.
  - destruct (String.eqb om "sid") eqn:Eos; [|discriminate].
    destruct (String.eqb km "sid") eqn:Ekm; simpl in H; [|discriminate].
    destruct (version_info kq) as [v|] eqn:Ev; [|discriminate].
    destruct (is_version_of (did s) oid v) eqn:Eiv; simpl in H; [|discriminate].
    destruct (d_doc (did s) !! v) as [keys|] eqn:Edoc; [|discriminate].
    destruct (existsb (fun k : string * string => in_list k.2 (so_keys so)) keys) eqn:Eex; [|discriminate].
    inversion H; subst d. split; [exact Eown|].
    split; [exists km, kid, kq; split; [exact Ek|exact Eown]|].
    apply existsb_exists in Eex. destruct Eex as [[nm k] [Hin Hk]]. simpl in Hk.
    exists k. split; [apply in_list_In; exact Hk|].
    right. exists oid, v, keys, nm.
    apply String.eqb_eq in Eos. subst om.
    split; [exact (Hsane _ _ Eo)|]. split; [exact Eiv|]. split; [exact Edoc|exact Hin].
Qed.
Print Assumptions verify_sig_sound.

(* for did:key owners the parser assumption is not needed *)
Theorem verify_sig_sound_key : forall s owner so d oid,
  so_owner so = Some ("key", oid) -> verify_sig s owner so = Some d -> d = owner /\ signed_by s owner so.
Proof.
  intros s owner so d oid Eo H. unfold verify_sig in H. rewrite Eo in H.
  destruct (so_kid so) as [[[km kid] kq]|] eqn:Ek; [|discriminate].
  destruct (String.eqb ("did:" +:+ km +:+ ":" +:+ kid) owner) eqn:Eown; simpl in H; [|discriminate].
  apply String.eqb_eq in Eown.
  destruct (String.eqb km "key") eqn:Ekm; simpl in H; [|discriminate].
  destruct (in_list kid (so_keys so)) eqn:Ein; [|discriminate].
  inversion H; subst d. split; [exact Eown|].
  split; [exists km, kid, kq; split; [exact Ek|exact Eown]|].
  exists kid. split; [apply in_list_In; exact Ein|].
  left. apply String.eqb_eq in Ekm. subst km. rewrite <- Eown. reflexivity.
Qed.
Print Assumptions verify_sig_sound_key.

Lemma may_update_write em d : may_update em d = true -> may_write em d.
Proof.
  unfold may_update, may_write. intros H. apply orb_true_iff in H. destruct H as [H|H].
  - left. apply String.eqb_eq. exact H.
  - right. apply in_list_In. exact H.
Qed.

(** * frame infrastructure *)
Section Keeps.
  Context {B : Type} (f : State -> B).

  Definition keeps {A} (m : M A) : Prop :=
    forall s, match m s with Ok _ s' | Err _ s' => f s' = f s | _ => True end.

  Lemma keeps_ret {A} (a : A) : keeps (ret a).
  Proof. intros s. reflexivity. Qed.
  Lemma keeps_fail {A} e : keeps (@fail A e).
  Proof. intros s. reflexivity. Qed.
  Lemma keeps_panic {A} e : keeps (@panic A e).
  Proof. intros s. exact I. Qed.
  Lemma keeps_hang {A} : keeps (fun _ : State => @Hang A).
  Proof. intros s. exact I. Qed.
  Lemma keeps_get : keeps get.
  Proof. intros s. reflexivity. Qed.
  Lemma keeps_gets {A} (g : State -> A) : keeps (gets g).
  Proof. intros s. reflexivity. Qed.
  Lemma keeps_modify g : (forall s, f (g s) = f s) -> keeps (modify g).
  Proof. intros H s. simpl. apply H. Qed.
  Lemma keeps_bind {A C} (m : M A) (k : A -> M C) : keeps m -> (forall a, keeps (k a)) -> keeps (bind m k).
  Proof.
    intros Hm Hk s. unfold bind. specialize (Hm s). destruct (m s) as [a s1|e s1| |]; auto.
    specialize (Hk a s1). destruct (k a s1); auto; congruence.
  Qed.
  Lemma keeps_try {A} (m : M A) : keeps m -> keeps (try_ m).
  Proof. intros Hm s. unfold try_. specialize (Hm s). destruct (m s); auto. Qed.
  Lemma keeps_forM {A} (l : list A) (g : A -> M unit) : (forall x, keeps (g x)) -> keeps (forM l g).
  Proof.
    intros H. induction l as [|x r IH]; simpl.
    - apply keeps_ret.
    - apply keeps_bind; [apply H|intros _; exact IH].
  Qed.
  Lemma keeps_coin_sub a b : keeps (coin_sub a b).
  Proof. unfold coin_sub. destruct (_ <? _); [apply keeps_panic|apply keeps_ret]. Qed.

  (* consequences *)
  Lemma keeps_ok {A} (m : M A) s a s' : keeps m -> m s = Ok a s' -> f s' = f s.
  Proof. intros H E. specialize (H s). rewrite E in H. exact H. Qed.
  Lemma keeps_err {A} (m : M A) s e s' : keeps m -> m s = Err e s' -> f s' = f s.
  Proof. intros H E. specialize (H s). rewrite E in H. exact H. Qed.
End Keeps.

(** * B. C09 *)
Theorem rejected_tx_unchanged : forall cx s op s' c d,
  is_tx op = true -> step cx s op = (s', OutTx c d) -> c <> COk -> model_view s' = model_view s.
Proof.
  intros cx s op s' c d Htx H Hc.
  assert (G : forall m : M unit, (let '(s1, c1, d1) := deliver m s in (s1, OutTx c1 d1)) = (s', OutTx c d) ->
                                 model_view s' = model_view s).
  { intros m Hm. unfold deliver in Hm. destruct (m s) as [a s1|e s1|e|]; inversion Hm; subst; try reflexivity.
    congruence. }
  destruct op; simpl in Htx; try discriminate; simpl in H; try (eapply G; exact H).
Qed.
Print Assumptions rejected_tx_unchanged.

(** ** walking through a handler *)
Lemma bind_ok {A C} (m : M A) (k : A -> M C) s c s' :
  bind m k s = Ok c s' -> exists a s1, m s = Ok a s1 /\ k a s1 = Ok c s'.
Proof. unfold bind. destruct (m s) as [a s1|e s1|e|]; try discriminate. intros H. exists a, s1. auto. Qed.
Lemma bind_get_eq {C} (k : State -> M C) s : bind get k s = k s s.
Proof. reflexivity. Qed.
Lemma bind_ret_eq {A C} (a : A) (k : A -> M C) s : bind (ret a) k s = k a s.
Proof. reflexivity. Qed.

Lemma deliver_ok (m : M unit) s s' d :
  (let '(s1, c1, d1) := deliver m s in (s1, OutTx c1 d1)) = (s', OutTx COk d) -> m s = Ok tt s'.
Proof.
  unfold deliver. destruct (m s) as [[] s1|e s1|e|]; intros H; inversion H. reflexivity.
Qed.

(* one step along the control flow of [H : prog s = Ok _ _]; failing branches die *)
Ltac dead H := solve [unfold fail, panic in H; discriminate H].
Ltac walk1 H :=
  cbv beta zeta in H;
  lazymatch type of H with
  | bind get _ _ = _ => rewrite bind_get_eq in H
  | bind (ret _) _ _ = _ => rewrite bind_ret_eq in H
  | (if ?c then _ else _) _ = _ => let E := fresh "E" in destruct c eqn:E; try dead H
  | (match ?c with _ => _ end) _ = _ => let E := fresh "E" in destruct c eqn:E; try dead H
  end.
Ltac walk H := repeat walk1 H.

Theorem store_authorized : forall cx s m s' d,
  sig_sane (st_owner m) (st_sig m) -> step cx s (OStore m) = (s', OutTx COk d) ->
  signed_by s (st_owner m) (st_sig m) /\ (forall em, metas s !! st_data m = Some em -> may_write em (st_owner m)).
Proof.
  intros cx s m s' d Hsane H. simpl in H. apply deliver_ok in H. unfold sao_store in H.
  walk1 H. walk1 H.
  match goal with Hx : verify_sig _ _ _ = Some _ |- _ => destruct (verify_sig_sound _ _ _ _ Hsane Hx) as [-> Hs] end.
  split; [exact Hs|].
  do 7 walk1 H.
  intros em Hem.
  match goal with Hx : context[may_update] |- _ =>
    rewrite Hem in Hx; apply negb_false_iff in Hx; apply may_update_write; exact Hx end.
Qed.
Print Assumptions store_authorized.

Theorem terminate_authorized : forall cx s c p owner data sg s' d,
  sig_sane owner sg -> step cx s (OTerminate c p owner data sg) = (s', OutTx COk d) ->
  signed_by s owner sg /\ exists em, metas s !! data = Some em /\ may_write em owner.
Proof.
  intros cx s c p owner data sg s' d Hsane H. simpl in H. apply deliver_ok in H. unfold sao_terminate in H.
  walk1 H. walk1 H. walk1 H.
  match goal with Hx : verify_sig _ _ _ = Some _ |- _ => destruct (verify_sig_sound _ _ _ _ Hsane Hx) as [-> Hs] end.
  split; [exact Hs|].
  walk1 H. walk1 H.
  match goal with Hx : negb (may_update ?mm _) = false |- _ =>
    exists mm; split; [reflexivity|]; apply negb_false_iff in Hx; apply may_update_write; exact Hx end.
Qed.
Print Assumptions terminate_authorized.

Theorem permission_authorized : forall cx s c p owner data ro rw sg v s' d,
  sig_sane owner sg -> step cx s (OUpdatePermission c p owner data ro rw sg v) = (s', OutTx COk d) ->
  signed_by s owner sg /\ exists em, metas s !! data = Some em /\ may_admin em owner /\
  (forall k, k <> data -> metas s' !! k = metas s !! k).
Proof.
  intros cx s c p owner data ro rw sg v s' d Hsane H. simpl in H. apply deliver_ok in H.
  unfold sao_update_permission in H.
  walk1 H. walk1 H. walk1 H.
  match goal with Hx : verify_sig _ _ _ = Some _ |- _ => destruct (verify_sig_sound _ _ _ _ Hsane Hx) as [_ Hs] end.
  split; [exact Hs|].
  walk1 H. unfold update_permission in H. walk1 H. walk1 H. walk1 H.
  match goal with Hx : negb (String.eqb owner (m_owner ?mm)) = false |- _ =>
    apply negb_false_iff in Hx; apply String.eqb_eq in Hx; rename Hx into Eown; exists mm end.
  split; [reflexivity|]. split.
  - unfold may_admin. congruence.
  - intros k Hk. unfold modify in H. inversion H; subst s'. unfold set; simpl.
    apply lookup_insert_ne. congruence.
Qed.
Print Assumptions permission_authorized.

(** * C. C10 *)
Lemma shard_by_sp_sp s o sp sid sh : shard_by_sp s o sp = Some (sid, sh) -> sh_sp sh = sp.
Proof.
  unfold shard_by_sp. intros H.
  assert (Hin : (sid, sh) ∈ omap (fun id => match shards s !! id with
                               | Some sh => if String.eqb (sh_sp sh) sp then Some (id, sh) else None
                               | None => None end) (o_shards o)).
  { destruct (omap _ (o_shards o)) as [|x l]; simpl in H; [discriminate|]. inversion H; subst. left. }
  apply elem_of_list_omap in Hin. destruct Hin as [id [_ Hid]].
  destruct (shards s !! id) as [sh0|]; [|discriminate].
  destruct (String.eqb (sh_sp sh0) sp) eqn:E; [|discriminate].
  inversion Hid; subst. apply String.eqb_eq. exact E.
Qed.

Theorem complete_actor : forall cx s c p oid cid sz ok s' d,
  step cx s (OComplete c p oid cid sz ok) = (s', OutTx COk d) ->
  acts_for s c p = true /\ exists o sid sh, orders s !! oid = Some o /\ shard_by_sp s o p = Some (sid, sh) /\ sh_sp sh = p.
Proof.
  intros cx s c p oid cid sz ok s' d H. simpl in H. apply deliver_ok in H. unfold sao_complete in H.
  do 5 walk1 H.
  split; [apply negb_false_iff; assumption|].
  match goal with Hx : shard_by_sp s ?oo p = Some ?pp |- _ => destruct pp as [sid sh]; exists oo, sid, sh end.
  split; [reflexivity|]. split; [assumption|]. eapply shard_by_sp_sp; eassumption.
Qed.
Print Assumptions complete_actor.

Theorem cancel_actor : forall cx s c p oid s' d,
  step cx s (OCancel c p oid) = (s', OutTx COk d) ->
  exists o, orders s !! oid = Some o /\ o_status o <> OrderCompleted /\ acts_for s c p = true /\
    (o_creator o = c \/ (p = o_provider o /\ exists n, nodes s !! o_provider o = Some n /\ In (o_creator o) (n_tx n))).
Proof.
  intros cx s c p oid s' d H. simpl in H. apply deliver_ok in H. unfold sao_cancel in H.
  do 5 walk1 H.
  match goal with |- context[Some ?oo = Some _] => exists oo end.
  split; [reflexivity|]. split; [apply Z.eqb_neq; assumption|].
  split; [apply negb_false_iff; assumption|].
  match goal with Hx : negb (_ || _) = false |- _ => rename Hx into E0 end.
  apply negb_false_iff in E0. apply orb_true_iff in E0. destruct E0 as [E0|E0].
  - left. apply String.eqb_eq. exact E0.
  - right. apply andb_true_iff in E0. destruct E0 as [Ep En]. apply String.eqb_eq in Ep. split; [exact Ep|].
    match type of En with context[nodes s !! ?pp] => destruct (nodes s !! pp) as [n|]; [|discriminate] end.
    exists n. split; [reflexivity|apply in_list_In; exact En].
Qed.
Print Assumptions cancel_actor.

(** * functions that do not write the model tables *)
Create HintDb mv.
Ltac kp_leaf := first [ solve [eauto 3 with mv nocore] | solve [apply keeps_modify; intros; reflexivity] ].
Ltac kp1 :=
  cbv beta;
  lazymatch goal with
  | |- keeps _ (let _ := _ in _) => cbv zeta
  | |- keeps _ (bind _ _) => apply keeps_bind; [|intros ?]
  | |- keeps _ (ret _) => apply keeps_ret
  | |- keeps _ (fail _) => apply keeps_fail
  | |- keeps _ (panic _) => apply keeps_panic
  | |- keeps _ get => apply keeps_get
  | |- keeps _ (gets _) => apply keeps_gets
  | |- keeps _ (try_ _) => apply keeps_try
  | |- keeps _ (forM _ _) => apply keeps_forM; intros ?
  | |- keeps _ (coin_sub _ _) => apply keeps_coin_sub
  | |- keeps _ (fun _ => Hang) => apply keeps_hang
  | |- keeps _ (if ?c then _ else _) => destruct c
  | |- keeps _ (match ?c with _ => _ end) => destruct c
  | |- _ => kp_leaf
  end.
Ltac kp := repeat kp1.

Lemma mv_send_strict a b n : keeps model_view (send_strict a b n).
Proof. intros s. unfold send_strict. destruct (_ <=? _); [reflexivity|]. destruct (_ <? _); reflexivity. Qed.
Global Hint Resolve mv_send_strict : mv.
Lemma mv_send_lenient a b n : keeps model_view (send_lenient a b n).
Proof. intros s. unfold send_lenient. destruct (_ =? _); [reflexivity|]. apply mv_send_strict. Qed.
Global Hint Resolve mv_send_lenient : mv.
Lemma mv_mint a n : keeps model_view (mint a n).
Proof. intros s. unfold mint. destruct (_ <=? _); reflexivity. Qed.
Global Hint Resolve mv_mint : mv.

Lemma mv_lift_did cx o : keeps model_view (lift_did cx o).
Proof. intros s. unfold lift_did. destruct (did_handle _ _ _); reflexivity. Qed.
Global Hint Resolve mv_lift_did : mv.

Lemma mv_node_create cx c : keeps model_view (node_create cx c).
Proof. unfold node_create. kp. Qed.
Lemma mv_node_reset cx m : keeps model_view (node_reset cx m).
Proof. unfold node_reset. kp. Qed.
Lemma mv_add_vstorage c sz : keeps model_view (add_vstorage c sz).
Proof. unfold add_vstorage. kp. Qed.
Lemma mv_remove_vstorage c sz : keeps model_view (remove_vstorage c sz).
Proof. unfold remove_vstorage. kp. Qed.
Lemma mv_repay_debt sp rw : keeps model_view (repay_debt sp rw).
Proof. unfold repay_debt. kp. Qed.
Global Hint Resolve mv_repay_debt : mv.
Lemma mv_shard_release sp sh : keeps model_view (shard_release sp sh).
Proof. unfold shard_release. kp. Qed.
Global Hint Resolve mv_shard_release : mv.
Lemma mv_shard_pledge id sh pr : keeps model_view (shard_pledge id sh pr).
Proof. unfold shard_pledge. kp. Qed.
Global Hint Resolve mv_shard_pledge : mv.
Lemma mv_market_claim cx sp : keeps model_view (market_claim cx sp).
Proof. unfold market_claim. kp. Qed.
Global Hint Resolve mv_market_claim : mv.
Lemma mv_claim_reward cx c : keeps model_view (claim_reward cx c).
Proof. unfold claim_reward. kp. Qed.
Lemma mv_increase_reputation n v : keeps model_view (increase_reputation n v).
Proof. unfold increase_reputation. kp. Qed.
Global Hint Resolve mv_increase_reputation : mv.
Lemma mv_random_sp_m cx c ig sz : keeps model_view (random_sp_m cx c ig sz).
Proof. unfold random_sp_m. kp. Qed.
Global Hint Resolve mv_random_sp_m : mv.
Lemma mv_get_sps cx o data : keeps model_view (get_sps cx o data).
Proof. unfold get_sps. kp. Qed.
Global Hint Resolve mv_get_sps : mv.
Lemma mv_append_shard sh : keeps model_view (append_shard sh).
Proof. unfold append_shard. kp. Qed.
Global Hint Resolve mv_append_shard : mv.
Lemma mv_append_order o : keeps model_view (append_order o).
Proof. unfold append_order. kp. Qed.
Global Hint Resolve mv_append_order : mv.
Lemma mv_gen_shards oid sps : forall o, keeps model_view (gen_shards oid o sps).
Proof. induction sps as [|sp r IH]; intros o; simpl; [kp|]. unfold new_shard_task. kp. Qed.
Global Hint Resolve mv_gen_shards : mv.
Lemma mv_generate_shards oid o sps : keeps model_view (generate_shards oid o sps).
Proof. unfold generate_shards. kp. Qed.
Global Hint Resolve mv_generate_shards : mv.
Lemma mv_new_order cx o sps : keeps model_view (new_order cx o sps).
Proof. unfold new_order. kp. Qed.
Global Hint Resolve mv_new_order : mv.
Lemma mv_set_timeout_block oid h : keeps model_view (set_timeout_block oid h).
Proof. unfold set_timeout_block. kp. Qed.
Global Hint Resolve mv_set_timeout_block : mv.
Lemma mv_set_expired_shard_block sid h : keeps model_view (set_expired_shard_block sid h).
Proof. unfold set_expired_shard_block. kp. Qed.
Global Hint Resolve mv_set_expired_shard_block : mv.
Lemma mv_sao_ready cx c p oid : keeps model_view (sao_ready cx c p oid).
Proof. unfold sao_ready. kp. Qed.

Lemma mv_migrate_one cx p data : keeps model_view (migrate_one cx p data).
Proof.
  unfold migrate_one. apply keeps_bind; [apply keeps_get|intros s0]. cbv beta.
  destruct (metas s0 !! data) as [m|]; [|kp].
  generalize (@nil string). generalize (rev (m_orders m)).
  induction l as [|oid rest IH]; intros commits; [kp|].
  kp; try apply IH.
Qed.
Lemma mv_sao_migrate cx c p data : keeps model_view (sao_migrate cx c p data).
Proof. unfold sao_migrate. kp. apply mv_migrate_one. Qed.

Lemma mv_set_fault k f : keeps model_view (set_fault k f).
Proof. unfold set_fault. kp. Qed.
Global Hint Resolve mv_set_fault : mv.
Lemma mv_report_faults cx c p fl : keeps model_view (sao_report_faults cx c p fl).
Proof. unfold sao_report_faults. kp. Qed.
Lemma mv_recover_faults cx c p fl : keeps model_view (sao_recover_faults cx c p fl).
Proof. unfold sao_recover_faults. kp. Qed.

Lemma mv_set_role c r v : keeps model_view (set_role c r v).
Proof. unfold set_role. apply keeps_modify. intros s. destruct (nodes s !! c); reflexivity. Qed.
Global Hint Resolve mv_set_role : mv.
Lemma mv_verify_super v a b : keeps model_view (verify_super v a b).
Proof.
  unfold verify_super. kp.
  all: apply keeps_modify; intros s0; destruct (pg s0 =? 0); reflexivity.
Qed.
Global Hint Resolve mv_verify_super : mv.
Lemma mv_st_event e : keeps model_view (st_event e).
Proof. destruct e; simpl; kp. Qed.
Lemma mv_staking_tx evs : keeps model_view (staking_tx evs).
Proof. unfold staking_tx. kp. apply mv_st_event. Qed.
Global Hint Resolve mv_staking_tx : mv.

Lemma mv_begin_block cx : keeps model_view (begin_block cx).
Proof. unfold begin_block, reward_age. kp. Qed.

Lemma deliver_keeps {B} (f : State -> B) (m : M unit) s :
  keeps f m -> (forall s1 g, f (mkState (did s1) (nodes s1) (pledges s1) (debts s1) (pool s1) (round s1) (faults s1)
                                  (fault_idx s1) (fishing s1) (nparams s1) (orders s1) (order_count s1) (shards s1)
                                  (shard_count s1) (metas s1) (models s1) (expdata s1) (timeouts s1) (expshards s1)
                                  (workers s1) (bal s1) (supply s1) (vals s1) (dels s1) g) = f s1) ->
  f (fst (let '(s1, c1, d1) := deliver m s in (s1, OutTx c1 d1))) = f s.
Proof.
  intros Hk Hpg. unfold deliver. specialize (Hk s). destruct (m s) as [a s1|e s1|e|]; simpl; auto.
Qed.

Theorem model_frame : forall cx s op, touches_models op = false -> model_view (fst (step cx s op)) = model_view s.
Proof.
  intros cx s op Ht.
  destruct op; simpl in Ht; try discriminate; simpl;
    try (apply deliver_keeps; [|intros; reflexivity]).
  - pose proof (mv_begin_block cx s) as H. unfold block_phase. destruct (begin_block cx s); simpl; auto.
  - apply mv_lift_did.
  - apply mv_node_create.
  - apply mv_node_reset.
  - apply mv_add_vstorage.
  - apply mv_remove_vstorage.
  - apply keeps_bind; [apply mv_claim_reward|intros; apply keeps_ret].
  - apply mv_sao_ready.
  - apply mv_sao_migrate.
  - apply mv_report_faults.
  - apply mv_recover_faults.
  - apply mv_send_strict.
  - apply mv_staking_tx.
  - destruct (staking_tx evs s); reflexivity.
Qed.
Print Assumptions model_frame.

Create HintDb bd.
Definition bd (s : State) := (bal s, did s).
Ltac kb_leaf := first [ solve [eauto 3 with bd nocore] | solve [apply keeps_modify; intros; reflexivity] ].
Ltac kb1 :=
  cbv beta;
  lazymatch goal with
  | |- keeps _ (let _ := _ in _) => cbv zeta
  | |- keeps _ (bind _ _) => apply keeps_bind; [|intros ?]
  | |- keeps _ (ret _) => apply keeps_ret
  | |- keeps _ (fail _) => apply keeps_fail
  | |- keeps _ (panic _) => apply keeps_panic
  | |- keeps _ get => apply keeps_get
  | |- keeps _ (gets _) => apply keeps_gets
  | |- keeps _ (try_ _) => apply keeps_try
  | |- keeps _ (forM _ _) => apply keeps_forM; intros ?
  | |- keeps _ (coin_sub _ _) => apply keeps_coin_sub
  | |- keeps _ (fun _ => Hang) => apply keeps_hang
  | |- keeps _ (if ?c then _ else _) => destruct c
  | |- keeps _ (match ?c with _ => _ end) => destruct c
  | |- _ => kb_leaf
  end.
Ltac kb := repeat kb1.

Lemma bd_random_sp_m cx c ig sz : keeps bd (random_sp_m cx c ig sz).
Proof. unfold random_sp_m. kb. Qed.
Global Hint Resolve bd_random_sp_m : bd.
Lemma bd_get_sps cx o data : keeps bd (get_sps cx o data).
Proof. unfold get_sps. kb. Qed.
Global Hint Resolve bd_get_sps : bd.
Lemma bd_append_shard sh : keeps bd (append_shard sh).
Proof. unfold append_shard. kb. Qed.
Global Hint Resolve bd_append_shard : bd.
Lemma bd_append_order o : keeps bd (append_order o).
Proof. unfold append_order. kb. Qed.
Global Hint Resolve bd_append_order : bd.
Lemma bd_gen_shards oid sps : forall o, keeps bd (gen_shards oid o sps).
Proof. induction sps as [|sp r IH]; intros o; simpl; [kb|]. unfold new_shard_task. kb. Qed.
Global Hint Resolve bd_gen_shards : bd.
Lemma bd_generate_shards oid o sps : keeps bd (generate_shards oid o sps).
Proof. unfold generate_shards. kb. Qed.
Global Hint Resolve bd_generate_shards : bd.
Lemma bd_new_order cx o sps : keeps bd (new_order cx o sps).
Proof. unfold new_order. kb. Qed.
Global Hint Resolve bd_new_order : bd.
Lemma bd_set_timeout_block oid h : keeps bd (set_timeout_block oid h).
Proof. unfold set_timeout_block. kb. Qed.
Global Hint Resolve bd_set_timeout_block : bd.
Lemma bd_set_data_expire d h : keeps bd (set_data_expire d h).
Proof. unfold set_data_expire. kb. Qed.
Global Hint Resolve bd_set_data_expire : bd.
Lemma bd_remove_data_expire d h : keeps bd (remove_data_expire d h).
Proof. unfold remove_data_expire. kb. Qed.
Global Hint Resolve bd_remove_data_expire : bd.
Lemma bd_new_meta cx o d m : keeps bd (new_meta cx o d m).
Proof. unfold new_meta. kb. Qed.
Global Hint Resolve bd_new_meta : bd.
Lemma bd_update_meta_status_commit cx oid o : keeps bd (update_meta_status_commit cx oid o).
Proof. unfold update_meta_status_commit. kb. Qed.
Global Hint Resolve bd_update_meta_status_commit : bd.


Lemma move_lower from to amt s a : 0 <= amt -> balance (move from to amt s) a < balance s a -> a = from.
Proof.
  intros Ha H. destruct (decide (a = from)) as [|Hn]; [assumption|exfalso].
  unfold move, balance in H. unfold set in H; simpl in H.
  destruct (decide (a = to)) as [->|Hn2].
  - rewrite lookup_insert in H. rewrite lookup_insert_ne in H by congruence. simpl in H.
    destruct (bal s !! to); simpl in H; lia.
  - rewrite !lookup_insert_ne in H by congruence. lia.
Qed.

Ltac retinv H := unfold ret in H; inversion H; subst; clear H.

Theorem store_payer : forall cx s m s' d a, step cx s (OStore m) = (s', OutTx COk d) -> balance s' a < balance s a ->
  (st_paydid m = "" /\ pay_addr s (st_owner m) = Some a /\
     (creator_bound_s cx s (st_creator m) (st_owner m) = true \/
      (st_pprovider m = st_creator m /\ st_provider m = st_creator m) \/
      (st_pprovider m = st_provider m /\ exists n, nodes s !! st_provider m = Some n /\ In (st_creator m) (n_tx n)))) \/
  (st_paydid m <> "" /\ pay_addr s (st_paydid m) = Some a /\ a = st_creator m).
Proof.
  intros cx s m s' d a H Hlt. simpl in H. apply deliver_ok in H. unfold sao_store in H.
  do 9 walk1 H.
  apply bind_ok in H. destruct H as (pay0 & sA & Hp & H).
  walk1 H. walk1 H. walk1 H.
  apply bind_ok in H. destruct H as (isp & sB & Hisp & H).
  apply bind_ok in H. destruct H as (sps & sC & Hsps & H).
  walk1 H. walk1 H.
  apply bind_ok in H. destruct H as (payer & sD & Hpayer & H).
  walk1 H.
  apply bind_ok in H. destruct H as ([] & sE & Hsend & H).
  assert (HE : bd s' = bd sE).
  { refine (keeps_ok bd _ _ _ _ _ H). kb. }
  assert (HC : bd sC = bd sB).
  { refine (keeps_ok bd _ _ _ _ _ Hsps). kb. }
  clear H Hsps.
  match type of Hsend with send_strict _ _ ?x _ = _ => set (amt := x) in * end.
  unfold send_strict in Hsend.
  destruct (amt <=? 0) eqn:Eamt in Hsend; [discriminate|]. apply Z.leb_gt in Eamt.
  destruct (_ <? _) in Hsend; [discriminate|]. inversion Hsend as [HsE]; clear Hsend.
  assert (Hbal : forall x y, bd x = bd y -> balance x a = balance y a).
  { intros x y Hxy. unfold bd in Hxy. unfold balance. congruence. }
  assert (Hpa : forall x y dd, bd x = bd y -> pay_addr x dd = pay_addr y dd).
  { intros x y dd Hxy. unfold bd in Hxy. unfold pay_addr. congruence. }
  rewrite (Hbal _ _ HE) in Hlt. rewrite <- HsE in Hlt.
  assert (HsA : sA = s /\ (pay0 = None /\ st_paydid m = "" \/
                           st_paydid m <> "" /\ pay0 = Some (st_creator m) /\ pay_addr s (st_paydid m) = Some (st_creator m))).
  { walk Hp.
    - retinv Hp. split; [reflexivity|]. left. split; [reflexivity|]. apply String.eqb_eq. assumption.
    - retinv Hp. split; [reflexivity|]. right.
      match goal with Hx : String.eqb _ (st_creator m) = true |- _ => apply String.eqb_eq in Hx; subst end.
      split; [|split; reflexivity].
      intros Hq. match goal with Hx : String.eqb (st_paydid m) "" = false |- _ => rewrite Hq in Hx; discriminate Hx end. }
  destruct HsA as [-> Hpay0]. clear Hp.
  destruct Hpay0 as [[-> Hpd]|[Hpd [-> Hpp]]].
  - (* the owner pays *)
    left. split; [exact Hpd|].
    assert (HsB : sB = s /\ (creator_bound_s cx s (st_creator m) (st_owner m) = true \/
      (st_pprovider m = st_creator m /\ st_provider m = st_creator m) \/
      (st_pprovider m = st_provider m /\ exists n, nodes s !! st_provider m = Some n /\ In (st_creator m) (n_tx n)))).
    { walk Hisp.
      - retinv Hisp. split; [reflexivity|]. left. first [assumption|reflexivity].
      - retinv Hisp. split; [reflexivity|]. right.
        match goal with Hx : orb _ _ = true |- _ => apply orb_true_iff in Hx; destruct Hx as [Hx|Hx]; apply andb_true_iff in Hx; destruct Hx as [Hx1 Hx2] end.
        + left. split; apply String.eqb_eq; assumption.
        + right. split; [apply String.eqb_eq; assumption|].
          match goal with |- context[nodes ?x !! st_provider m] => destruct (nodes x !! st_provider m) as [n1|]; [|discriminate] end.
          exists n1. split; [reflexivity|apply in_list_In; assumption]. }
    destruct HsB as [-> Hwho]. split; [|exact Hwho].
    pose proof (Hbal _ _ HC) as Hb. pose proof (Hpa _ _ (st_owner m) HC) as Hp'. clear HC Hbal Hpa HE.
    walk Hpayer. retinv Hpayer. rewrite <- Hb in Hlt.
    apply move_lower in Hlt; [|lia]. subst a.
    symmetry. exact Hp'.
  - right. split; [exact Hpd|].
    cbv beta iota in Hisp, Hpayer. retinv Hisp.
    pose proof (Hbal _ _ HC) as Hb. clear HC Hbal Hpa HE. retinv Hpayer. rewrite <- Hb in Hlt.
    apply move_lower in Hlt; [|lia]. subst a. split; [assumption|reflexivity].
Qed.
Print Assumptions store_payer.

(** ** node messages are keyed by the signer *)
Definition node_op_signer (op : Op) : option string :=
  match op with ONodeCreate c => Some c | ONodeReset m => Some (rs_creator m) | OAddVstorage c _ => Some c
              | ORemoveVstorage c _ => Some c | OClaimReward c => Some c | _ => None end.

Definition npk (k : string) (s : State) := (nodes s !! k, pledges s !! k).
Definition balk (k : string) (s : State) := bal s !! k.

Lemma balk_send_strict k from to amt : k <> from -> k <> to -> keeps (balk k) (send_strict from to amt).
Proof.
  intros H1 H2 s. unfold send_strict. destruct (_ <=? _); [reflexivity|]. destruct (_ <? _); [reflexivity|].
  unfold balk, move, set; simpl. rewrite !lookup_insert_ne by congruence. reflexivity.
Qed.
Lemma npk_send_strict k from to amt : keeps (npk k) (send_strict from to amt).
Proof. intros s. unfold send_strict. destruct (_ <=? _); [reflexivity|]. destruct (_ <? _); reflexivity. Qed.

Ltac kn_leaf :=
  first [ assumption
        | apply npk_send_strict
        | apply balk_send_strict; congruence
        | solve [apply keeps_modify; intros; unfold npk, balk, set; simpl; rewrite ?lookup_insert_ne by congruence; reflexivity] ].
Ltac kn1 :=
  cbv beta;
  lazymatch goal with
  | |- keeps _ (let _ := _ in _) => cbv zeta
  | |- keeps _ (bind _ _) => apply keeps_bind; [|intros ?]
  | |- keeps _ (ret _) => apply keeps_ret
  | |- keeps _ (fail _) => apply keeps_fail
  | |- keeps _ (panic _) => apply keeps_panic
  | |- keeps _ get => apply keeps_get
  | |- keeps _ (try_ _) => apply keeps_try
  | |- keeps _ (forM _ _) => apply keeps_forM; intros ?
  | |- keeps _ (coin_sub _ _) => apply keeps_coin_sub
  | |- keeps _ (if ?c then _ else _) => destruct c
  | |- keeps _ (match ?c with _ => _ end) => destruct c
  | |- _ => kn_leaf
  end.
Ltac kn := repeat kn1.

Section NodeFrame.
  Context (k c : string) (Hk : k <> c).

  Lemma npk_node_op cx op : node_op_signer op = Some c -> forall m, tx_of cx op = Some m -> keeps (npk k) m.
  Proof.
    intros Hs m Hm. destruct op; simpl in Hs; try discriminate; inversion Hs; subst; simpl in Hm; inversion Hm; subst; clear Hm Hs.
    - unfold node_create. kn.
    - unfold node_reset. kn.
    - unfold add_vstorage. kn.
    - unfold remove_vstorage. kn.
    - unfold claim_reward, shard_release, repay_debt, market_claim. kn.
  Qed.

  Context (Hn : k <> macc NODE) (Hm : k <> macc MARKET).
  Lemma balk_node_op cx op : node_op_signer op = Some c -> forall m, tx_of cx op = Some m -> keeps (balk k) m.
  Proof.
    intros Hs m Hm'. destruct op; simpl in Hs; try discriminate; inversion Hs; subst; simpl in Hm'; inversion Hm'; subst; clear Hm' Hs.
    - unfold node_create. kn.
    - unfold node_reset. kn.
    - unfold add_vstorage. kn.
    - unfold remove_vstorage. kn.
    - unfold claim_reward, shard_release, repay_debt, market_claim. kn.
  Qed.
End NodeFrame.

Theorem node_msgs_frame : forall cx s op c k, node_op_signer op = Some c -> k <> c ->
  nodes (fst (step cx s op)) !! k = nodes s !! k /\ pledges (fst (step cx s op)) !! k = pledges s !! k /\
  (k <> macc NODE -> k <> macc MARKET -> bal (fst (step cx s op)) !! k = bal s !! k).
Proof.
  intros cx s op c k Hs Hk.
  assert (Hst : exists m, tx_of cx op = Some m /\ step cx s op = (let '(s1, c1, d1) := deliver m s in (s1, OutTx c1 d1))).
  { destruct op; simpl in Hs; try discriminate; eexists; (split; [reflexivity|]); reflexivity. }
  destruct Hst as (m & Hm & ->).
  pose proof (deliver_keeps (npk k) m s (npk_node_op k c Hk cx op Hs m Hm) ltac:(intros; reflexivity)) as H1.
  unfold npk in H1. inversion H1 as [[Hn Hp]]. rewrite Hn, Hp. split; [reflexivity|]. split; [reflexivity|].
  intros Hkn Hkm.
  exact (deliver_keeps (balk k) m s (balk_node_op k c Hk Hkn Hkm cx op Hs m Hm) ltac:(intros; reflexivity)).
Qed.
Print Assumptions node_msgs_frame.

(** ** functions that do not write the metadata table; functions that write one key of it *)
Lemma mv_mt {A} (m : M A) : keeps model_view m -> keeps metas m.
Proof. intros H s. specialize (H s). unfold model_view in H. destruct (m s); auto; congruence. Qed.

Create HintDb mt.
Ltac kt_leaf := first [ solve [eauto 3 with mt nocore] | solve [apply mv_mt; eauto 3 with mv nocore]
                      | solve [apply keeps_modify; intros; reflexivity] ].
Ltac kt1 :=
  cbv beta;
  lazymatch goal with
  | |- keeps _ (let _ := _ in _) => cbv zeta
  | |- keeps _ (bind _ _) => apply keeps_bind; [|intros ?]
  | |- keeps _ (ret _) => apply keeps_ret
  | |- keeps _ (fail _) => apply keeps_fail
  | |- keeps _ (panic _) => apply keeps_panic
  | |- keeps _ get => apply keeps_get
  | |- keeps _ (try_ _) => apply keeps_try
  | |- keeps _ (forM _ _) => apply keeps_forM; intros ?
  | |- keeps _ (coin_sub _ _) => apply keeps_coin_sub
  | |- keeps _ (if ?c then _ else _) => destruct c
  | |- keeps _ (match ?c with _ => _ end) => destruct c
  | |- _ => kt_leaf
  end.
Ltac kt := repeat kt1.

Lemma mt_set_data_expire d h : keeps metas (set_data_expire d h).
Proof. unfold set_data_expire. kt. Qed.
Global Hint Resolve mt_set_data_expire : mt.
Lemma mt_remove_data_expire d h : keeps metas (remove_data_expire d h).
Proof. unfold remove_data_expire. kt. Qed.
Global Hint Resolve mt_remove_data_expire : mt.
Lemma mt_worker_release cx o sh : keeps metas (worker_release cx o sh).
Proof. unfold worker_release. kt. Qed.
Global Hint Resolve mt_worker_release : mt.
Lemma mt_worker_append cx o sh : keeps metas (worker_append cx o sh).
Proof. unfold worker_append. kt. Qed.
Global Hint Resolve mt_worker_append : mt.
Lemma mt_market_deposit o : keeps metas (market_deposit o).
Proof. unfold market_deposit. kt. Qed.
Global Hint Resolve mt_market_deposit : mt.
Lemma mt_market_withdraw cx oid o : keeps metas (market_withdraw cx oid o).
Proof.
  unfold market_withdraw. destruct (_ =? _); [kt|]. cbv zeta.
  match goal with |- keeps _ (_ _ ?b) => generalize b end.
  generalize (o_shards o). induction l as [|id rest IH]; intros refund; [kt|].
  kt; apply IH.
Qed.
Global Hint Resolve mt_market_withdraw : mt.
Lemma mt_send_to_did_balances md d n : keeps metas (send_to_did_balances md d n).
Proof. unfold send_to_did_balances. kt. Qed.
Global Hint Resolve mt_send_to_did_balances : mt.
Lemma mt_order_terminate oid r : keeps metas (order_terminate oid r).
Proof. unfold order_terminate. kt. Qed.
Global Hint Resolve mt_order_terminate : mt.
Lemma mt_model_terminate_order cx oid o : keeps metas (model_terminate_order cx oid o).
Proof. unfold model_terminate_order. kt. Qed.
Global Hint Resolve mt_model_terminate_order : mt.
Lemma mt_remove_shards ids : keeps metas (remove_shards ids).
Proof. unfold remove_shards. kt. Qed.
Global Hint Resolve mt_remove_shards : mt.
Lemma mt_force_push_loop cx lc : forall ro acc, keeps metas (force_push_loop cx ro lc acc).
Proof. induction ro as [|oid rest IH]; intros acc; simpl; kt. Qed.
Global Hint Resolve mt_force_push_loop : mt.
Lemma mt_reset_meta_duration cx d m : keeps metas (reset_meta_duration cx d m).
Proof. unfold reset_meta_duration. kt. Qed.
Global Hint Resolve mt_reset_meta_duration : mt.
Lemma mt_refund_order oid : keeps metas (refund_order oid).
Proof. unfold refund_order. kt. Qed.
Global Hint Resolve mt_refund_order : mt.
Lemma mt_complete_migration cx oid o sid sh : keeps metas (complete_migration cx oid o sid sh).
Proof. unfold complete_migration. kt. Qed.
Global Hint Resolve mt_complete_migration : mt.

Definition mk (k : string) (s : State) : option Meta := metas s !! k.
Lemma mt_mk k {A} (m : M A) : keeps metas m -> keeps (mk k) m.
Proof. intros H s. specialize (H s). unfold mk. destruct (m s); auto; congruence. Qed.

Ltac km_leaf :=
  first [ assumption
        | solve [apply mt_mk; kt_leaf]
        | solve [apply keeps_modify; intros; unfold mk, set; simpl;
                 rewrite ?lookup_insert_ne, ?lookup_delete_ne by congruence; reflexivity] ].
Ltac km1 :=
  cbv beta;
  lazymatch goal with
  | |- keeps _ (let _ := _ in _) => cbv zeta
  | |- keeps _ (bind _ _) => apply keeps_bind; [|intros ?]
  | |- keeps _ (ret _) => apply keeps_ret
  | |- keeps _ (fail _) => apply keeps_fail
  | |- keeps _ (panic _) => apply keeps_panic
  | |- keeps _ get => apply keeps_get
  | |- keeps _ (try_ _) => apply keeps_try
  | |- keeps _ (forM _ _) => apply keeps_forM; intros ?
  | |- keeps _ (coin_sub _ _) => apply keeps_coin_sub
  | |- keeps _ (if ?c then _ else _) => destruct c
  | |- keeps _ (match ?c with _ => _ end) => destruct c
  | |- _ => km_leaf
  end.
Ltac km := repeat km1.

Section OneKey.
  Context (k : string).
  Lemma mk_new_meta cx o data nm : k <> data -> keeps (mk k) (new_meta cx o data nm).
  Proof. intros Hk. unfold new_meta. km. Qed.
  Lemma mk_umsc cx oid o : k <> o_data o -> keeps (mk k) (update_meta_status_commit cx oid o).
  Proof. intros Hk. unfold update_meta_status_commit. km. Qed.
  Lemma mk_extend_meta_duration data e : k <> data -> keeps (mk k) (extend_meta_duration data e).
  Proof. intros Hk. unfold extend_meta_duration. km. Qed.
  Lemma mk_update_meta cx oid o : k <> o_data o -> keeps (mk k) (update_meta cx oid o).
  Proof. intros Hk. unfold update_meta. km. Qed.
  Lemma mk_rollback_meta cx data : k <> data -> keeps (mk k) (rollback_meta cx data).
  Proof. intros Hk. unfold rollback_meta. km. Qed.
End OneKey.

Lemma gen_shards_data oid sps : forall o s o' s', gen_shards oid o sps s = Ok o' s' -> o_data o' = o_data o.
Proof.
  induction sps as [|sp r IH]; intros o s o' s' H; simpl in H.
  - inversion H. reflexivity.
  - apply bind_ok in H. destruct H as (id & s1 & _ & H). apply IH in H. exact H.
Qed.
Lemma new_order_data cx o sps s id o2 s' : new_order cx o sps s = Ok (id, o2) s' -> o_data o2 = o_data o.
Proof.
  unfold new_order. intros H.
  apply bind_ok in H. destruct H as (id0 & s1 & _ & H).
  apply bind_ok in H. destruct H as (o1 & s2 & Hg & H).
  apply bind_ok in H. destruct H as ([] & s3 & _ & H). inversion H; subst. unfold set; simpl.
  unfold generate_shards in Hg. destruct sps as [|sp r].
  - inversion Hg. reflexivity.
  - apply bind_ok in Hg. destruct Hg as (o' & s4 & Hg & Hr). inversion Hr; subst. unfold set; simpl.
    eapply gen_shards_data. exact Hg.
Qed.

Theorem store_touches_only_its_model : forall cx s m s' d k,
  step cx s (OStore m) = (s', OutTx COk d) -> k <> st_data m -> metas s' !! k = metas s !! k.
Proof.
  intros cx s m s' d k H Hk. simpl in H. apply deliver_ok in H. unfold sao_store in H.
  do 9 walk1 H.
  apply bind_ok in H. destruct H as (pay0 & sA & Hp & H).
  walk1 H. walk1 H. walk1 H.
  apply bind_ok in H. destruct H as (isp & sB & Hisp & H).
  apply bind_ok in H. destruct H as (sps & sC & Hsps & H).
  walk1 H. walk1 H.
  apply bind_ok in H. destruct H as (payer & sD & Hpayer & H).
  walk1 H.
  apply bind_ok in H. destruct H as ([] & sE & Hsend & H).
  apply bind_ok in H. destruct H as ([oid o2] & sF & Hno & H).
  pose proof (new_order_data _ _ _ _ _ _ _ Hno) as Hdata. simpl in Hdata.
  assert (HA : model_view sA = model_view s). { refine (keeps_ok model_view _ _ _ _ _ Hp). kp. }
  assert (HB : model_view sB = model_view sA). { refine (keeps_ok model_view _ _ _ _ _ Hisp). kp. }
  assert (HC : model_view sC = model_view sB). { refine (keeps_ok model_view _ _ _ _ _ Hsps). kp. }
  assert (HD : model_view sD = model_view sC). { refine (keeps_ok model_view _ _ _ _ _ Hpayer). kp. }
  assert (HE : model_view sE = model_view sD). { refine (keeps_ok model_view _ _ _ _ _ Hsend). kp. }
  assert (HF : model_view sF = model_view sE). { refine (keeps_ok model_view _ _ _ _ _ Hno). kp. }
  assert (HG : mk k s' = mk k sF).
  { refine (keeps_ok (mk k) _ _ _ _ _ H).
    pose proof (mk_new_meta k) as L1. pose proof (mk_umsc k) as L2.
    km; first [apply L1; assumption | apply L2; congruence]. }
  unfold mk in HG. rewrite HG. unfold model_view in *. congruence.
Qed.
Print Assumptions store_touches_only_its_model.

Theorem complete_touches_only_order_model : forall cx s c p oid cid sz ok s' d o k,
  step cx s (OComplete c p oid cid sz ok) = (s', OutTx COk d) ->
  orders s !! oid = Some o -> k <> o_data o -> metas s' !! k = metas s !! k.
Proof.
  intros cx s c p oid cid sz ok s' d o k H Ho Hk. simpl in H. apply deliver_ok in H. unfold sao_complete in H.
  walk1 H. walk1 H. rewrite Ho in H. cbv beta iota in H.
  change (mk k s' = mk k s).
  refine (keeps_ok (mk k) _ _ _ _ _ H).
  pose proof (mk_update_meta k cx oid o Hk) as L1. pose proof (fun e => mk_extend_meta_duration k (o_data o) e Hk) as L2.
  km; first [apply L1 | apply L2].
Qed.
Print Assumptions complete_touches_only_order_model.

Definition om (s : State) := (orders s, metas s).
Lemma om_shard_release sp sh : keeps om (shard_release sp sh).
Proof.
  assert (Hs : forall a b n, keeps om (send_strict a b n)).
  { intros a b n s. unfold send_strict. destruct (_ <=? _); [reflexivity|]. destruct (_ <? _); reflexivity. }
  unfold shard_release, repay_debt. kt; apply Hs.
Qed.

Theorem cancel_touches_only_order_model : forall cx s c p oid s' d o k,
  step cx s (OCancel c p oid) = (s', OutTx COk d) ->
  orders s !! oid = Some o -> k <> o_data o -> metas s' !! k = metas s !! k.
Proof.
  intros cx s c p oid s' d o k H Ho Hk. simpl in H. apply deliver_ok in H. unfold sao_cancel in H.
  walk1 H. rewrite Ho in H. cbv beta iota in H. do 3 walk1 H.
  apply bind_ok in H. destruct H as ([] & sA & Hloop & H).
  assert (HA : om sA = om s).
  { refine (keeps_ok om _ _ _ _ _ Hloop). pose proof om_shard_release as L. kt; apply L. }
  unfold om in HA. inversion HA as [[HAo HAm]].
  unfold cancel_order in H. walk1 H. rewrite HAo, Ho in H.
  assert (HB : mk k s' = mk k sA).
  { refine (keeps_ok (mk k) _ _ _ _ _ H).
    pose proof (mk_rollback_meta k cx (o_data o) Hk) as L1. km. }
  unfold mk in HB. rewrite HB, HAm. reflexivity.
Qed.
Print Assumptions cancel_touches_only_order_model.

(** ** Renew *)
(* what Renew needs of the state for the authorisation statement: a model's latest order
   names that model. (On states that violate it the statement is false:
   [renew_authorized_refuted].) *)
Definition meta_order_link (s : State) : Prop :=
  forall d meta o, metas s !! d = Some meta -> orders s !! m_order meta = Some o -> o_data o = d.

Definition meta_step (d : string) (P : Meta -> Meta -> Prop) (s s' : State) : Prop :=
  orders s' = orders s /\ order_count s' = order_count s /\
  (forall k, k <> d -> metas s' !! k = metas s !! k) /\
  (forall m', metas s' !! d = Some m' -> exists m0, metas s !! d = Some m0 /\ P m0 m').

Definition pi3 (s : State) := (metas s, orders s, order_count s).
Lemma pi3_send_strict a b n : keeps pi3 (send_strict a b n).
Proof. intros s. unfold send_strict. destruct (_ <=? _); [reflexivity|]. destruct (_ <? _); reflexivity. Qed.
Lemma pi3_remove_data_expire d h : keeps pi3 (remove_data_expire d h).
Proof. unfold remove_data_expire. kt. Qed.
Lemma pi3_set_data_expire d h : keeps pi3 (set_data_expire d h).
Proof. unfold set_data_expire. kt. Qed.

Lemma extend_meta_step d e s s' :
  extend_meta_duration d e s = Ok tt s' -> meta_step d (fun m0 m' => m_order m' = m_order m0 /\ m_owner m' = m_owner m0) s s'.
Proof.
  unfold extend_meta_duration. intros H. walk1 H. walk1 H.
  2:{ inversion H; subst. repeat split; auto. intros m' Hm'. rewrite Hm' in E. discriminate. }
  walk1 H.
  2:{ inversion H; subst. repeat split; auto. intros m' Hm'. exists m. split; [assumption|]. split; congruence. }
  apply bind_ok in H. destruct H as ([] & s1 & H1 & H).
  apply bind_ok in H. destruct H as ([] & s2 & H2 & H).
  apply (keeps_ok pi3 _ _ _ _ (pi3_remove_data_expire _ _)) in H1.
  apply (keeps_ok pi3 _ _ _ _ (pi3_set_data_expire _ _)) in H2.
  unfold pi3 in H1, H2. inversion H1. inversion H2. unfold modify in H. inversion H; subst s'. clear H H1 H2.
  unfold meta_step, set; simpl. split; [congruence|]. split; [congruence|]. split.
  - intros k Hk. rewrite lookup_insert_ne by congruence. congruence.
  - intros m'. rewrite lookup_insert. intros Hm'. inversion Hm'; subst m'. exists m. split; [assumption|split; reflexivity].
Qed.

Lemma update_meta_op3_step cx oid o s r s' :
  o_op o = 3 -> try_ (update_meta cx oid o) s = Ok r s' ->
  meta_step (o_data o) (fun m0 m' => (m_order m' = m_order m0 \/ m_order m' = oid) /\ m_owner m' = m_owner m0) s s'.
Proof.
  intros H3 H.
  assert (Hsame : s' = s -> meta_step (o_data o) (fun m0 m' => (m_order m' = m_order m0 \/ m_order m' = oid) /\ m_owner m' = m_owner m0) s s').
  { intros ->. repeat split; auto. intros m' Hm'. exists m'. auto. }
  unfold try_, update_meta in H. rewrite bind_get_eq in H. cbv beta in H.
  destruct (negb _); [unfold fail in H; inversion H; subst; auto|].
  destruct (metas s !! o_data o) as [m0|] eqn:Em; [|unfold fail in H; inversion H; subst; auto].
  destruct (negb _); [unfold fail in H; inversion H; subst; auto|].
  rewrite H3 in H. change (3 =? 1) with false in H. change (3 =? 2) with false in H. change (3 =? 3) with true in H.
  cbv beta iota in H. rewrite bind_ret_eq in H. unfold modify in H. inversion H; subst s'. clear H.
  unfold meta_step, set; simpl. split; [reflexivity|]. split; [reflexivity|]. split.
  - intros k Hk. rewrite lookup_insert_ne by congruence. reflexivity.
  - intros m'. rewrite lookup_insert. intros Hm'. inversion Hm'; subst m'. exists m0. split; [assumption|]. split; [right|]; reflexivity.
Qed.

Lemma renew_order_eff no s r s1 :
  try_ (renew_order no) s = Ok r s1 ->
  match r with
  | None => s1 = s
  | Some nid => nid = order_count s /\ metas s1 = metas s /\ orders s1 = <[nid := no]> (orders s) /\
                order_count s1 = u64 (nid + 1)
  end.
Proof.
  unfold try_, renew_order. rewrite bind_get_eq. cbv beta.
  destruct (pay_addr s (o_owner no)) as [payer|]; [|unfold fail; intros H; inversion H; reflexivity].
  unfold bind, send_strict.
  destruct (_ <=? _); [intros H; inversion H; reflexivity|].
  destruct (_ <? _); [intros H; inversion H; reflexivity|].
  unfold append_order, bind, get, modify, ret. intros H. inversion H; subst. unfold set, move; simpl. auto.
Qed.


(* the effect of one iteration on the metadata and order tables: the listed model [d] is
   extended, the model named by its latest order gets the new order; no owner changes *)
Definition renew_eff (sigdid d : string) (s s' : State) : Prop :=
  s' = s \/
  exists meta o nid no,
    metas s !! d = Some meta /\ m_owner meta = sigdid /\ orders s !! m_order meta = Some o /\
    o_data no = o_data o /\ orders s' = <[nid := no]> (orders s) /\
    (forall k, k <> d -> k <> o_data o -> metas s' !! k = metas s !! k) /\
    (forall k m', metas s' !! k = Some m' ->
       exists m0, metas s !! k = Some m0 /\ m_owner m' = m_owner m0 /\
                  (m_order m' = m_order m0 \/ m_order m' = nid)).

Lemma renew_one_eff cx m sigdid d s s' : renew_one cx m sigdid d s = Ok tt s' -> renew_eff sigdid d s s'.
Proof.
  intros H. unfold renew_one in H.
  walk1 H.
  walk1 H; [|inversion H; subst; left; reflexivity].
  walk1 H; [inversion H; subst; left; reflexivity|].
  walk1 H; [inversion H; subst; left; reflexivity|].
  walk1 H; [|inversion H; subst; left; reflexivity].
  walk1 H; [|inversion H; subst; left; reflexivity].
  walk1 H; [inversion H; subst; left; reflexivity|].
  walk1 H; [inversion H; subst; left; reflexivity|].
  walk1 H.
  match goal with Hx : metas s !! d = Some ?mm |- _ => rename Hx into Emeta; rename mm into meta end.
  match goal with Hx : orders s !! m_order meta = Some ?oo |- _ => rename Hx into Eord; rename oo into o end.
  match goal with Hx : negb (String.eqb (m_owner meta) sigdid) = false |- _ =>
    apply negb_false_iff in Hx; apply String.eqb_eq in Hx; rename Hx into Eown end.
  apply bind_ok in H. destruct H as (r & s1 & Hr & H).
  apply renew_order_eff in Hr.
  destruct r as [nid|]; [|unfold ret in H; inversion H; subst; left; reflexivity].
  destruct Hr as (Hnid & Hm1 & Ho1 & Hc).
  apply bind_ok in H. destruct H as (new_end & s2 & Hgo & H).
  assert (H2 : pi3 s2 = pi3 s1).
  { refine (keeps_ok pi3 _ _ _ _ _ Hgo).
    generalize 0 at 3.
    match goal with |- forall z, keeps _ (_ ?l z) => generalize l end.
    intros l'. induction l' as [|x rest IH]; intros acc.
    - apply keeps_ret.
    - pose proof pi3_send_strict as L. kt; first [apply L | apply IH]. }
  clear Hgo.
  apply bind_ok in H. destruct H as ([] & s3 & Hext & H).
  apply extend_meta_step in Hext.
  apply bind_ok in H. destruct H as (r' & s4 & Hupd & H).
  apply update_meta_op3_step in Hupd; [|reflexivity]. simpl in Hupd.
  unfold ret in H. inversion H; subst s4. clear H.
  unfold pi3 in H2. inversion H2 as [[Hm2 Ho2 Hc2]]. clear H2.
  destruct Hext as (Ho3 & Hc3 & Hk3 & Hd3). destruct Hupd as (Ho4 & Hc4 & Hk4 & Hd4).
  right. exists meta, o, nid. eexists.
  split; [exact Emeta|]. split; [exact Eown|]. split; [exact Eord|].
  split; [|split; [rewrite Ho4, Ho3, Ho2; exact Ho1|]]; [reflexivity|]. split.
  - intros k Hk1 Hk2. rewrite Hk4, Hk3 by assumption. congruence.
  - intros k m' Hm'.
    assert (H3 : forall m1, metas s3 !! k = Some m1 ->
                   exists m0, metas s !! k = Some m0 /\ m_owner m1 = m_owner m0 /\ m_order m1 = m_order m0).
    { intros m1 Hm1'. destruct (decide (k = d)) as [->|Hne].
      - destruct (Hd3 _ Hm1') as (m0' & Hm0' & He & Hw0). exists m0'. split; [congruence|]. split; assumption.
      - rewrite (Hk3 _ Hne) in Hm1'. exists m1. split; [congruence|]. split; reflexivity. }
    destruct (decide (k = o_data o)) as [->|Hne].
    + destruct (Hd4 _ Hm') as (m1 & Hm1' & Hor & Hw1). destruct (H3 _ Hm1') as (m0' & Hm0' & Hw0 & He).
      exists m0'. split; [exact Hm0'|]. split; [congruence|].
      destruct Hor as [Hor|Hor]; [left; congruence|right; assumption].
    + rewrite (Hk4 _ Hne) in Hm'. destruct (H3 _ Hm') as (m0' & Hm0' & Hw0 & He).
      exists m0'. split; [exact Hm0'|]. split; [exact Hw0|]. left. exact He.
Qed.

Section RenewInv.
  Context (s0 : State) (sigdid : string) (L : list string) (Hlink : meta_order_link s0).

  (* data ids the signer may renew: listed, and owned by the signer when the request arrived *)
  Definition rauth (x : string) : Prop :=
    exists em, metas s0 !! x = Some em /\ m_owner em = sigdid /\ In x L.

  Definition RInv (s : State) : Prop :=
    (forall x em, metas s0 !! x = Some em -> metas s !! x = Some em \/ rauth x) /\
    (forall id o, orders s !! id = Some o -> orders s0 !! id = Some o \/ rauth (o_data o)) /\
    (forall x mm, metas s !! x = Some mm ->
       exists em0, metas s0 !! x = Some em0 /\ m_owner mm = m_owner em0 /\
                   (m_order mm = m_order em0 \/ forall o, orders s !! m_order mm = Some o -> rauth (o_data o))).

  Lemma RInv_init : RInv s0.
  Proof.
    split; [|split].
    - intros x em H. left. exact H.
    - intros id o H. left. exact H.
    - intros x mm H. exists mm. split; [exact H|]. split; [reflexivity|]. left. reflexivity.
  Qed.

  Lemma RInv_step d s s' : RInv s -> In d L -> renew_eff sigdid d s s' -> RInv s'.
  Proof.
    intros (I1 & I3 & J) Hd [->|(meta & o & nid & no & Emeta & Eown & Eord & Hdata & Hos & Hk & Hx)].
    { split; [|split]; assumption. }
    (* the model written is one the signer may renew *)
    assert (Hauth : rauth (o_data o)).
    { destruct (J _ _ Emeta) as (em0 & Hem0 & Hw & Hor).
      destruct Hor as [Hor|Hor]; [|exact (Hor _ Eord)].
      destruct (I3 _ _ Eord) as [Ho0|Ha]; [|exact Ha].
      rewrite Hor in Ho0. rewrite (Hlink _ _ _ Hem0 Ho0).
      exists em0. split; [exact Hem0|]. split; [congruence|exact Hd]. }
    assert (Hauthd : rauth d).
    { destruct (J _ _ Emeta) as (em0 & Hem0 & Hw & _).
      exists em0. split; [exact Hem0|]. split; [congruence|exact Hd]. }
    split; [|split].
    - intros x em Hem. destruct (decide (x = o_data o)) as [->|Hne]; [right; exact Hauth|].
      destruct (decide (x = d)) as [->|Hne2]; [right; exact Hauthd|].
      rewrite (Hk _ Hne2 Hne). exact (I1 _ _ Hem).
    - intros id o' Ho'. rewrite Hos in Ho'. destruct (decide (id = nid)) as [->|Hne].
      + rewrite lookup_insert in Ho'. inversion Ho'; subst o'. right. rewrite Hdata. exact Hauth.
      + rewrite lookup_insert_ne in Ho' by congruence. exact (I3 _ _ Ho').
    - assert (Hord : forall mo, (forall o', orders s !! mo = Some o' -> rauth (o_data o')) ->
                                 forall o', orders s' !! mo = Some o' -> rauth (o_data o')).
      { intros mo Hmo o' Ho'. rewrite Hos in Ho'. destruct (decide (mo = nid)) as [->|Hne].
        - rewrite lookup_insert in Ho'. inversion Ho'; subst o'. rewrite Hdata. exact Hauth.
        - rewrite lookup_insert_ne in Ho' by congruence. exact (Hmo _ Ho'). }
      intros x mm Hmm.
      destruct (Hx _ _ Hmm) as (m0 & Hm0 & Hw & Hor).
      destruct (J _ _ Hm0) as (em0 & Hem0 & Hw0 & Hor0).
      exists em0. split; [exact Hem0|]. split; [congruence|].
      destruct Hor as [Hor|Hor].
      + rewrite Hor. destruct Hor0 as [Hor0|Hor0]; [left; exact Hor0|right; apply Hord; exact Hor0].
      + right. rewrite Hor. intros o' Ho'. rewrite Hos, lookup_insert in Ho'. inversion Ho'; subst o'.
        rewrite Hdata. exact Hauth.
  Qed.

  Lemma renew_loop cx m : forall l s s',
    (forall x, In x l -> In x L) -> RInv s -> forM l (renew_one cx m sigdid) s = Ok tt s' -> RInv s'.
  Proof.
    induction l as [|x r IH]; intros s s' Hsub Hinv H.
    - simpl in H. unfold ret in H. inversion H; subst. exact Hinv.
    - simpl in H. apply bind_ok in H. destruct H as ([] & s1 & H1 & H).
      apply renew_one_eff in H1.
      refine (IH s1 s' _ _ H).
      + intros y Hy. apply Hsub. right. exact Hy.
      + eapply RInv_step; [exact Hinv| |exact H1]. apply Hsub. left. reflexivity.
  Qed.
End RenewInv.

Theorem renew_authorized_partial : forall cx s m s' d data em,
  sig_sane (rn_owner m) (rn_sig m) -> meta_order_link s ->
  step cx s (ORenew m) = (s', OutTx COk d) ->
  metas s !! data = Some em -> metas s' !! data <> Some em ->
  signed_by s (rn_owner m) (rn_sig m) /\ may_admin em (rn_owner m) /\ In data (rn_data m).
Proof.
  intros cx s m s' d data em Hsane Hlink H Hem Hch. simpl in H. apply deliver_ok in H. unfold sao_renew in H.
  walk1 H. walk1 H.
  match goal with Hx : verify_sig _ _ _ = Some _ |- _ => destruct (verify_sig_sound _ _ _ _ Hsane Hx) as [-> Hs] end.
  split; [exact Hs|].
  do 4 walk1 H.
  pose proof (renew_loop s (rn_owner m) (rn_data m) Hlink cx m (rn_data m) s s' (fun x Hx => Hx)
                (RInv_init s (rn_owner m) (rn_data m)) H) as (I1 & _ & _).
  destruct (I1 _ _ Hem) as [Hl|(em' & Hem' & Ho & Hin)].
  - contradiction.
  - rewrite Hem in Hem'. inversion Hem'; subst em'. split; [exact Ho|exact Hin].
Qed.
Print Assumptions renew_authorized_partial.

(** ** findings: concrete witnesses *)
Module Witness.
  Definition cx : Ctx := {| cx_height := 100; cx_chain := "sao"; cx_time := 0; cx_seed := 0 |}.
  Definition np0 : NParams := mkNParams 0 0 0 0 1 0 "" 0 0 0 0.
  Definition sg : SigO :=
    {| so_owner := Some ("key", "ownerK"); so_kid := Some ("key", "ownerK", ""); so_keys := ["ownerK"] |}.
  Definition dids : DidState :=
    did_empty <| d_pay := list_to_map [("did:key:ownerK", "ownerAddr"); ("did:key:granteeK", "granteeAddr")] |>.

  (* a model owned by ownerK, last updated by the read-write grantee granteeK *)
  Definition meta1 : Meta :=
    mkMeta "did:key:ownerK" "alias" "group" 0 [] "cid" ["c1"] "" 0 "c1" "" 1000 0 [] ["did:key:granteeK"] 4 [0].
  Definition order1 : Order :=
    mkOrder "gw" "did:key:granteeK" "gw" "cid" 1000 3 1 [0] 1 1 1 0 10 "11111111-1111-1111-1111-111111111111" "c1" PRICE "".
  Definition shard1 : Shard := mkShard 0 2 1 "cid" 0 "" "sp1" 1000 0 [].
  Definition s1 : State :=
    mkState dids ∅ (list_to_map [("sp1", mkPledge 0 0 0 0 1000 1)]) ∅ (Some (mkPool 0 0 0 0 0 0 1000 0)) None ∅ ∅ ∅ np0
            (list_to_map [(0, order1)]) 1 (list_to_map [(0, shard1)]) 1
            (list_to_map [("11111111-1111-1111-1111-111111111111", meta1)]) ∅ ∅ ∅ ∅ ∅
            (list_to_map [("ownerAddr", 100); ("granteeAddr", 100); ("sp1", 100)]) 300 ∅ ∅ 0.
  Definition rn1 : RenewMsg :=
    {| rn_creator := "gw"; rn_provider := "gw"; rn_owner := "did:key:ownerK"; rn_duration := 3600; rn_timeout := 10;
       rn_data := ["11111111-1111-1111-1111-111111111111"]; rn_sig := sg |}.

  (* an ill-formed state: the latest order of model A names model B (and was placed by
     B's owner; the signer holds a read-write grant on B, so that the model keeper lets the
     renewal order update B) *)
  Definition dids2 : DidState :=
    did_empty <| d_pay := list_to_map [("did:key:ownerK", "ownerAddr"); ("did:key:otherK", "otherAddr")] |>.
  Definition idB : string := "bbbbbbbb-bbbb-bbbb-bbbb-bbbbbbbbbbbb".
  Definition metaA : Meta :=
    mkMeta "did:key:ownerK" "a" "g" 0 [] "cid" ["c1"] "" 0 "c1" "" 1000 0 [] [] 4 [0].
  Definition metaB : Meta :=
    mkMeta "did:key:otherK" "b" "g" 7 [] "cid" ["c1"] "" 0 "c1" "" 10 1 [] ["did:key:ownerK"] 4 [7].
  Definition order2 : Order :=
    mkOrder "gw" "did:key:otherK" "gw" "cid" 1000 3 1 [] 1 1 1 0 10 idB "c1" PRICE "".
  Definition s2 : State :=
    mkState dids2 ∅ ∅ ∅ (Some (mkPool 0 0 0 0 0 0 1000 0)) None ∅ ∅ ∅ np0
            (list_to_map [(0, order2)]) 1 ∅ 0
            (list_to_map [("A", metaA); (idB, metaB)]) ∅ ∅ ∅ ∅ ∅
            (list_to_map [("ownerAddr", 100); ("otherAddr", 100)]) 200 ∅ ∅ 0.
  Definition rn2 : RenewMsg :=
    {| rn_creator := "gw"; rn_provider := "gw"; rn_owner := "did:key:ownerK"; rn_duration := 3600; rn_timeout := 10;
       rn_data := ["A"]; rn_sig := sg |}.
End Witness.

(* Repaired defect D20/D24 (fix commit in /repo: the renewal order belongs to the model owner who
   signed it). On the state that used to refute the payer clause -- the latest version written
   by a read-write grantee -- the owner's renewal is now paid from the owner's own account and
   is recorded in the model. *)
Theorem renew_payer_witness :
  let s := Witness.s1 in let m := Witness.rn1 in let s' := fst (step Witness.cx s (ORenew m)) in
  sig_sane (rn_owner m) (rn_sig m) /\ verify_sig s (rn_owner m) (rn_sig m) = Some (rn_owner m) /\
  snd (step Witness.cx s (ORenew m)) = OutTx COk "" /\
  pay_addr s (rn_owner m) = Some "ownerAddr" /\
  balance s "ownerAddr" = 100 /\ balance s' "ownerAddr" = 99 /\
  balance s "granteeAddr" = 100 /\ balance s' "granteeAddr" = 100 /\
  (exists em', metas s' !! "11111111-1111-1111-1111-111111111111" = Some em' /\ m_orders em' = [0; 1] /\ m_order em' = 1).
Proof.
  cbv zeta. split; [|split; [|repeat split; try (vm_compute; reflexivity)]].
  - intros mm id H. inversion H. reflexivity.
  - vm_compute. reflexivity.
  - eexists. split; [vm_compute; reflexivity|]. split; reflexivity.
Qed.
Print Assumptions renew_payer_witness.

(* The full statement of [renew_authorized] (without [meta_order_link]) is false of the model:
   on a state where the latest order of a listed model names ANOTHER model, the renewal order
   is appended to that other model (UpdateMeta goes by the order's data id) although it is
   neither listed nor owned by the signer. (ExtendMetaDuration goes by the listed id.) *)
Theorem renew_authorized_refuted : exists cx s m s' d data em,
  sig_sane (rn_owner m) (rn_sig m) /\ step cx s (ORenew m) = (s', OutTx COk d) /\
  metas s !! data = Some em /\ metas s' !! data <> Some em /\
  ~ may_admin em (rn_owner m) /\ ~ In data (rn_data m).
Proof.
  exists Witness.cx, Witness.s2, Witness.rn2, (fst (step Witness.cx Witness.s2 (ORenew Witness.rn2))), "", Witness.idB, Witness.metaB.
  split; [intros mm id H; inversion H; reflexivity|].
  split; [vm_compute; reflexivity|]. split; [vm_compute; reflexivity|].
  split; [vm_compute; discriminate|].
  split.
  - intros Ho. vm_compute in Ho. discriminate.
  - intros [Hi|[]]. discriminate.
Qed.
Print Assumptions renew_authorized_refuted.
