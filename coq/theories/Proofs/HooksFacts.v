(* Facts about the staking hooks of x/node and the process-level variable
   sharesBeforeModified ([pg]): where it can change, when it is left non-zero, what the
   residue does to consensus results (finding D10), soundness of promotion to the super
   role when there is no residue, independence of map-iteration order. *)
From SaoVerif Require Import Base.Prelude Base.Ints Base.Dec Model.Did Model.Types Model.Monad Model.Bank Model.Select
     Model.Node Model.Storage Model.Sao Model.Hooks Model.App Model.Spec.
From RecordUpdate Require Import RecordUpdate.
Import RecordSetNotations.

(** * Part 0: the process variable is preserved by everything but the staking events *)

(* [m] never changes [pg] (on the states it returns, normally or with an error) *)
Definition pgp {A} (m : M A) : Prop :=
  forall s, match m s with Ok _ s' | Err _ s' => pg s' = pg s | _ => True end.

Lemma pgp_ret {A} (a : A) : pgp (ret a).
Proof. intros s. reflexivity. Qed.
Lemma pgp_fail {A} e : pgp (@fail A e).
Proof. intros s. reflexivity. Qed.
Lemma pgp_panic {A} e : pgp (@panic A e).
Proof. intros s. exact I. Qed.
Lemma pgp_hang {A} : pgp (fun _ : State => @Hang A).
Proof. intros s. exact I. Qed.
Lemma pgp_get : pgp get.
Proof. intros s. reflexivity. Qed.
Lemma pgp_gets {A} (f : State -> A) : pgp (gets f).
Proof. intros s. reflexivity. Qed.
Lemma pgp_modify f : (forall s, pg (f s) = pg s) -> pgp (modify f).
Proof. intros H s. apply H. Qed.
Lemma pgp_bind {A B} (m : M A) (k : A -> M B) : pgp m -> (forall a, pgp (k a)) -> pgp (bind m k).
Proof.
  intros Hm Hk s. unfold bind. specialize (Hm s). destruct (m s) as [a s1|e s1| |]; auto.
  specialize (Hk a s1). destruct (k a s1); auto; congruence.
Qed.
Lemma pgp_try {A} (m : M A) : pgp m -> pgp (try_ m).
Proof. intros Hm s. unfold try_. specialize (Hm s). destruct (m s); auto. Qed.
Lemma pgp_forM {A} (l : list A) f : (forall x, pgp (f x)) -> pgp (forM l f).
Proof. intros Hf. induction l as [|x l IH]; simpl. apply pgp_ret. apply pgp_bind; auto. Qed.

Lemma pgp_send_strict f t a : pgp (send_strict f t a).
Proof. intros s. unfold send_strict. destruct (_ <=? _); [reflexivity|]. destruct (_ <? _); reflexivity. Qed.
Lemma pgp_send_lenient f t a : pgp (send_lenient f t a).
Proof. intros s. unfold send_lenient. destruct (_ =? _); [reflexivity|]. apply pgp_send_strict. Qed.
Lemma pgp_mint m a : pgp (mint m a).
Proof. intros s. unfold mint. destruct (_ <=? _); reflexivity. Qed.
Lemma pgp_lift_did cx o : pgp (lift_did cx o).
Proof. intros s. unfold lift_did. destruct (did_handle _ _ _); reflexivity. Qed.

Create HintDb pgp.
#[local] Hint Resolve pgp_send_strict pgp_send_lenient pgp_mint pgp_lift_did : pgp.

Ltac pgp_fix :=
  match goal with
  | |- pgp (?F ?l0 ?a0) =>
      is_fix F;
      let HH := fresh "HH" in
      cut (forall l a, pgp (F l a)); [intros HH; apply HH|];
      let l := fresh "l" in let IH := fresh "IH" in
      intros l; induction l as [|? l IH]; intros ?; cbn beta iota fix
  end.

Ltac pgp_go :=
  repeat first
    [ assumption
    | match goal with H : forall _, pgp _ |- _ => apply H end
    | apply pgp_ret | apply pgp_fail | apply pgp_panic | apply pgp_hang | apply pgp_get | apply pgp_gets
    | solve [auto 1 with pgp nocore]
    | apply pgp_modify; intros ?; reflexivity
    | apply pgp_bind; [|intros ?]
    | apply pgp_try
    | apply pgp_forM; intros ?
    | progress cbv zeta
    | pgp_fix
    | match goal with |- pgp (match ?x with _ => _ end) => destruct x end
    ].

Lemma pgp_coin_sub a b : pgp (coin_sub a b).
Proof. unfold coin_sub. pgp_go. Qed.
#[local] Hint Resolve pgp_coin_sub : pgp.

Lemma pgp_begin_block cx : pgp (begin_block cx).
Proof. unfold begin_block, reward_age. pgp_go. Qed.
Lemma pgp_end_block_node cx : pgp (end_block_node cx).
Proof. unfold end_block_node, do_penalty. pgp_go. Qed.
Lemma pgp_node_create cx c : pgp (node_create cx c).
Proof. unfold node_create. pgp_go. Qed.
Lemma pgp_node_reset cx m : pgp (node_reset cx m).
Proof. unfold node_reset. pgp_go. Qed.
Lemma pgp_add_vstorage c sz : pgp (add_vstorage c sz).
Proof. unfold add_vstorage. pgp_go. Qed.
Lemma pgp_remove_vstorage c sz : pgp (remove_vstorage c sz).
Proof. unfold remove_vstorage. pgp_go. Qed.
#[local] Hint Resolve pgp_node_create pgp_node_reset pgp_add_vstorage pgp_remove_vstorage : pgp.

Lemma pgp_repay_debt sp rw : pgp (repay_debt sp rw).
Proof. unfold repay_debt. pgp_go. Qed.
#[local] Hint Resolve pgp_repay_debt : pgp.
Lemma pgp_shard_pledge id sh price : pgp (shard_pledge id sh price).
Proof. unfold shard_pledge. pgp_go. Qed.
Lemma pgp_shard_release sp sh : pgp (shard_release sp sh).
Proof. unfold shard_release. pgp_go. Qed.
#[local] Hint Resolve pgp_shard_pledge pgp_shard_release : pgp.
Lemma pgp_market_claim cx sp : pgp (market_claim cx sp).
Proof. unfold market_claim. pgp_go. Qed.
#[local] Hint Resolve pgp_market_claim : pgp.
Lemma pgp_claim_reward cx c : pgp (claim_reward cx c).
Proof. unfold claim_reward. pgp_go. Qed.
Lemma pgp_increase_reputation n v : pgp (increase_reputation n v).
Proof. unfold increase_reputation. pgp_go. Qed.
Lemma pgp_random_sp_m cx c ig sz : pgp (random_sp_m cx c ig sz).
Proof. unfold random_sp_m. pgp_go. Qed.
#[local] Hint Resolve pgp_claim_reward pgp_increase_reputation pgp_random_sp_m : pgp.

(* Storage.v *)
Lemma pgp_send_to_did_balances m d a : pgp (send_to_did_balances m d a).
Proof. unfold send_to_did_balances. pgp_go. Qed.
Lemma pgp_worker_release cx o sh : pgp (worker_release cx o sh).
Proof. unfold worker_release. pgp_go. Qed.
Lemma pgp_worker_append cx o sh : pgp (worker_append cx o sh).
Proof. unfold worker_append. pgp_go. Qed.
Lemma pgp_market_deposit o : pgp (market_deposit o).
Proof. unfold market_deposit. pgp_go. Qed.
#[local] Hint Resolve pgp_send_to_did_balances pgp_worker_release pgp_worker_append pgp_market_deposit : pgp.
Lemma pgp_market_withdraw cx oid o : pgp (market_withdraw cx oid o).
Proof. unfold market_withdraw. pgp_go. Qed.
Lemma pgp_append_order o : pgp (append_order o).
Proof. unfold append_order. pgp_go. Qed.
Lemma pgp_append_shard sh : pgp (append_shard sh).
Proof. unfold append_shard. pgp_go. Qed.
#[local] Hint Resolve pgp_market_withdraw pgp_append_order pgp_append_shard : pgp.
Lemma pgp_new_shard_task oid o p : pgp (new_shard_task oid o p).
Proof. unfold new_shard_task. pgp_go. Qed.
#[local] Hint Resolve pgp_new_shard_task : pgp.
Lemma pgp_gen_shards oid sps : forall o, pgp (gen_shards oid o sps).
Proof. induction sps as [|sp r IH]; intros o; simpl; pgp_go. Qed.
#[local] Hint Resolve pgp_gen_shards : pgp.
Lemma pgp_generate_shards oid o sps : pgp (generate_shards oid o sps).
Proof. unfold generate_shards. pgp_go. Qed.
#[local] Hint Resolve pgp_generate_shards : pgp.
Lemma pgp_new_order cx o sps : pgp (new_order cx o sps).
Proof. unfold new_order. pgp_go. Qed.
Lemma pgp_renew_order o : pgp (renew_order o).
Proof. unfold renew_order. pgp_go. Qed.
Lemma pgp_order_terminate oid r : pgp (order_terminate oid r).
Proof. unfold order_terminate. pgp_go. Qed.
Lemma pgp_refund_order oid : pgp (refund_order oid).
Proof. unfold refund_order. pgp_go. Qed.
#[local] Hint Resolve pgp_new_order pgp_renew_order pgp_order_terminate pgp_refund_order : pgp.
Lemma pgp_set_data_expire d a : pgp (set_data_expire d a).
Proof. unfold set_data_expire. pgp_go. Qed.
Lemma pgp_remove_data_expire d a : pgp (remove_data_expire d a).
Proof. unfold remove_data_expire. pgp_go. Qed.
#[local] Hint Resolve pgp_set_data_expire pgp_remove_data_expire : pgp.
Lemma pgp_new_meta cx o d m : pgp (new_meta cx o d m).
Proof. unfold new_meta. pgp_go. Qed.
Lemma pgp_reset_meta_duration cx d m : pgp (reset_meta_duration cx d m).
Proof. unfold reset_meta_duration. pgp_go. Qed.
Lemma pgp_extend_meta_duration d e : pgp (extend_meta_duration d e).
Proof. unfold extend_meta_duration. pgp_go. Qed.
Lemma pgp_delete_meta d : pgp (delete_meta d).
Proof. unfold delete_meta. pgp_go. Qed.
#[local] Hint Resolve pgp_new_meta pgp_reset_meta_duration pgp_extend_meta_duration pgp_delete_meta : pgp.
Lemma pgp_model_terminate_order cx oid o : pgp (model_terminate_order cx oid o).
Proof. unfold model_terminate_order. pgp_go. Qed.
Lemma pgp_remove_shards ids : pgp (remove_shards ids).
Proof. unfold remove_shards. pgp_go. Qed.
#[local] Hint Resolve pgp_model_terminate_order pgp_remove_shards : pgp.
Lemma pgp_force_push_loop cx lc ro : forall acc, pgp (force_push_loop cx ro lc acc).
Proof. induction ro as [|oid r IH]; intros acc; simpl; pgp_go. Qed.
#[local] Hint Resolve pgp_force_push_loop : pgp.
Lemma pgp_update_meta cx oid o : pgp (update_meta cx oid o).
Proof. unfold update_meta. pgp_go. Qed.
Lemma pgp_update_meta_status_commit cx oid o : pgp (update_meta_status_commit cx oid o).
Proof. unfold update_meta_status_commit. pgp_go. Qed.
Lemma pgp_rollback_meta cx d : pgp (rollback_meta cx d).
Proof. unfold rollback_meta. pgp_go. Qed.
#[local] Hint Resolve pgp_update_meta pgp_update_meta_status_commit pgp_rollback_meta : pgp.
Lemma pgp_cancel_order cx oid : pgp (cancel_order cx oid).
Proof. unfold cancel_order. pgp_go. Qed.
Lemma pgp_update_permission ow d ro rw : pgp (update_permission ow d ro rw).
Proof. unfold update_permission. pgp_go. Qed.
Lemma pgp_end_block_model cx : pgp (end_block_model cx).
Proof. unfold end_block_model. pgp_go. Qed.
#[local] Hint Resolve pgp_cancel_order pgp_update_permission pgp_end_block_model : pgp.

(* Sao.v *)

Lemma pgp_set_timeout_block oid h : pgp (set_timeout_block oid h).
Proof. unfold set_timeout_block. pgp_go. Qed.
Lemma pgp_set_expired_shard_block sid h : pgp (set_expired_shard_block sid h).
Proof. unfold set_expired_shard_block. pgp_go. Qed.
#[local] Hint Resolve pgp_set_timeout_block pgp_set_expired_shard_block : pgp.
Lemma pgp_get_sps cx o d : pgp (get_sps cx o d).
Proof. unfold get_sps. pgp_go. Qed.
#[local] Hint Resolve pgp_get_sps : pgp.
Lemma pgp_sao_store cx m : pgp (sao_store cx m).
Proof. unfold sao_store. pgp_go. Qed.
Lemma pgp_sao_ready cx c p o : pgp (sao_ready cx c p o).
Proof. unfold sao_ready. pgp_go. Qed.
Lemma pgp_complete_migration cx oid o sid sh : pgp (complete_migration cx oid o sid sh).
Proof. unfold complete_migration. pgp_go. Qed.
#[local] Hint Resolve pgp_complete_migration : pgp.
Lemma pgp_sao_complete cx c p oid cid sz ok : pgp (sao_complete cx c p oid cid sz ok).
Proof. unfold sao_complete. pgp_go. Qed.
Lemma pgp_sao_cancel cx c p oid : pgp (sao_cancel cx c p oid).
Proof. unfold sao_cancel. pgp_go. Qed.
Lemma pgp_renew_one cx m sd d : pgp (renew_one cx m sd d).
Proof. unfold renew_one. pgp_go. Qed.
#[local] Hint Resolve pgp_renew_one : pgp.
Lemma pgp_sao_renew cx m : pgp (sao_renew cx m).
Proof. unfold sao_renew. pgp_go. Qed.
Lemma pgp_sao_terminate cx c p ow d sg : pgp (sao_terminate cx c p ow d sg).
Proof. unfold sao_terminate. pgp_go. Qed.
Lemma pgp_migrate_one cx p d : pgp (migrate_one cx p d).
Proof. unfold migrate_one. pgp_go. Qed.
#[local] Hint Resolve pgp_migrate_one : pgp.
Lemma pgp_sao_migrate cx c p d : pgp (sao_migrate cx c p d).
Proof. unfold sao_migrate. pgp_go. Qed.
Lemma pgp_sao_update_permission cx c p ow d ro rw sg v : pgp (sao_update_permission cx c p ow d ro rw sg v).
Proof. unfold sao_update_permission. pgp_go. Qed.
Lemma pgp_set_fault k f : pgp (set_fault k f).
Proof. unfold set_fault. pgp_go. Qed.
#[local] Hint Resolve pgp_set_fault : pgp.
Lemma pgp_sao_report_faults cx c p fl : pgp (sao_report_faults cx c p fl).
Proof. unfold sao_report_faults. pgp_go. Qed.
Lemma pgp_sao_recover_faults cx c p fl : pgp (sao_recover_faults cx c p fl).
Proof. unfold sao_recover_faults. pgp_go. Qed.
Lemma pgp_handle_timeout_order cx oid : pgp (handle_timeout_order cx oid).
Proof. unfold handle_timeout_order. pgp_go. Qed.
Lemma pgp_handle_expired_shard cx sid : pgp (handle_expired_shard cx sid).
Proof. unfold handle_expired_shard. pgp_go. Qed.
#[local] Hint Resolve pgp_handle_timeout_order pgp_handle_expired_shard : pgp.
Lemma pgp_end_block_sao cx : pgp (end_block_sao cx).
Proof. unfold end_block_sao. pgp_go. Qed.
#[local] Hint Resolve pgp_sao_store pgp_sao_ready pgp_sao_complete pgp_sao_cancel pgp_sao_renew pgp_sao_terminate
  pgp_sao_migrate pgp_sao_update_permission pgp_sao_report_faults pgp_sao_recover_faults : pgp.

Lemma pgp_deliver {A} (m : M A) s : pgp m -> pg (deliver m s).1.1 = pg s.
Proof. intros H. specialize (H s). unfold deliver. destruct (m s); simpl; auto. Qed.
Lemma pgp_block_phase {A} (m : M A) s : pgp m -> pg (block_phase m s).1.1 = pg s.
Proof. intros H. specialize (H s). unfold block_phase. destruct (m s); simpl; auto. Qed.

(** * Part 1: residue *)

(* only staking transactions / simulations touch the process variable *)
Theorem pg_only_staking : forall cx s op, (forall evs, op <> OStaking evs) -> (forall evs, op <> OSimulate evs) ->
  (forall evs, op = OEndBlock evs -> evs = []) -> pg (fst (step cx s op)) = pg s.
Proof.
  intros cx s op H1 H2 H3.
  assert (D : forall (m : M unit), pgp m -> pg (fst (let '(s', c, d) := deliver m s in (s', OutTx c d))) = pg s).
  { intros m Hm. pose proof (pgp_deliver m s Hm) as E. destruct (deliver m s) as [[s' c] d]. exact E. }
  destruct op; unfold step, tx_of;
    try (apply D; auto with pgp nocore; fail).
  - pose proof (pgp_block_phase (begin_block cx) s (pgp_begin_block cx)) as E.
    destruct (block_phase _ s) as [[s' c] d]. exact E.
  - rewrite (H3 evs eq_refl).
    assert (P : pgp (end_block cx [])).
    { unfold end_block, staking_tx. simpl. pgp_go; auto using pgp_end_block_sao, pgp_end_block_node with pgp. }
    pose proof (pgp_block_phase _ s P) as E.
    destruct (block_phase _ s) as [[s' c] d]. exact E.
  - apply D. pgp_go.
  - exfalso. eapply H1; reflexivity.
  - exfalso. eapply H2; reflexivity.
Qed.
Print Assumptions pg_only_staking.

(** ** monad inversion *)
Lemma bind_Ok {A B} (m : M A) (k : A -> M B) s b s2 :
  bind m k s = Ok b s2 -> exists a s1, m s = Ok a s1 /\ k a s1 = Ok b s2.
Proof. unfold bind. destruct (m s) as [a s1| | |]; try discriminate. eauto. Qed.

Lemma step_staking_Ok cx s evs s' d :
  step cx s (OStaking evs) = (s', OutTx COk d) -> staking_tx evs s = Ok tt s'.
Proof.
  unfold step, tx_of, deliver. destruct (staking_tx evs s) as [[] s1|e s1|e|]; intros H; inversion H; reflexivity.
Qed.

Lemma staking_tx_cons e evs s u s' :
  staking_tx (e :: evs) s = Ok u s' -> exists s1, st_event e s = Ok tt s1 /\ staking_tx evs s1 = Ok u s'.
Proof. unfold staking_tx. simpl. intros H. apply bind_Ok in H. destruct H as ([] & s1 & H1 & H2). eauto. Qed.
Lemma staking_tx_nil s u s' : staking_tx [] s = Ok u s' -> s' = s.
Proof. unfold staking_tx. simpl. unfold ret. congruence. Qed.

Lemma ev_before_shares_Ok del val s u s1 :
  st_event (EvBeforeShares del val) s = Ok u s1 -> exists sh, del_shares s del val = Some sh /\ s1 = s <| pg := sh |>.
Proof.
  unfold st_event, bind, get. destruct (del_shares s del val) as [sh|]; [|discriminate].
  unfold modify. intros H. inversion H. eauto.
Qed.

(** ** the key-ordered listing *)
Lemma elem_of_sorted_items {A} (m : gmap string A) k x : (k, x) ∈ sorted_items m <-> m !! k = Some x.
Proof. unfold sorted_items. rewrite merge_sort_Permutation. apply elem_of_map_to_list. Qed.

Lemma filter_head_elem {A} (P : A -> Prop) `{forall x, Decision (P x)} (l : list A) x r :
  filter P l = x :: r -> P x /\ x ∈ l.
Proof. intros E. apply (elem_of_list_filter P l x). rewrite E. left. Qed.

(** ** share checks depend on the staking tables and the parameters only *)
Lemma find_del_frame s0 s1 del val : dels s1 = dels s0 -> find_del s1 del val = find_del s0 del val.
Proof. intros E. unfold find_del. rewrite E. reflexivity. Qed.
Lemma check_share_frame s0 s1 d v sub :
  dels s1 = dels s0 -> vals s1 = vals s0 -> nparams s1 = nparams s0 -> check_share s1 d v sub = check_share s0 d v sub.
Proof. intros E1 E2 E3. unfold check_share. rewrite (find_del_frame s0 s1 _ _ E1), E2, E3. reflexivity. Qed.

(** ** verify_super *)
Definition vs_body (val : string) (acc : option string) (before_removed : bool) (sub : Z) (kv : string * Delegation) : M unit :=
    let d := dl_del kv.2 in
    s1 <- get ;;
    match nodes s1 !! d with
    | None => ret tt
    | Some n =>
        if negb (String.eqb (n_val n) "" || String.eqb (n_val n) val) then ret tt else
        let demote := if n_role n =? 1 then set_role d 0 None else ret tt in
        if before_removed && (match acc with Some a => String.eqb d a | None => false end) then demote else
        if negb (Z.land (n_status n) STATUS_SUPER_REQ =? STATUS_SUPER_REQ) then demote else
        if negb (match pledges s1 !! d with Some p => np_vthreshold (nparams s1) <=? pl_total p | None => false end) then demote else
        if check_share s1 d val sub then
          (if n_role n =? 0 then set_role d 1 (Some val) else ret tt)
        else demote
    end.

(* sharesToSub; [None] = the nil-delegation panic *)
Definition vs_sub (s : State) (val : string) (acc : option string) (before_removed : bool) : option Z :=
  match acc with
  | Some a =>
      if pg s =? 0 then Some 0 else
      match del_shares s a val with
      | None => None
      | Some cur => if cur <? pg s then Some (pg s - cur) else if before_removed then Some cur else Some 0
      end
  | None => Some 0
  end.

(* the conditions of the super role as the hook evaluates them *)
Definition hook_ok (s : State) (val : string) (sub : Z) (addr : string) (n : Node) : Prop :=
  Z.land (n_status n) STATUS_SUPER_REQ = STATUS_SUPER_REQ /\
  (exists p, pledges s !! addr = Some p /\ np_vthreshold (nparams s) <= pl_total p) /\
  check_share s addr val sub = true.

Definition same_staking (s0 s1 : State) : Prop :=
  pledges s1 = pledges s0 /\ nparams s1 = nparams s0 /\ vals s1 = vals s0 /\ dels s1 = dels s0.

(* what a run of the hook's loop can do to the node table *)
Definition Rel (val : string) (sub : Z) (s0 s1 : State) : Prop :=
  same_staking s0 s1 /\
  forall addr n1, nodes s1 !! addr = Some n1 ->
    exists n0, nodes s0 !! addr = Some n0 /\ n_status n1 = n_status n0 /\
      (n_role n1 = 1 -> n1 = n0 \/ (n_val n1 = val /\ hook_ok s0 val sub addr n1)).

Lemma hook_ok_frame s0 s1 val sub addr n : same_staking s0 s1 -> hook_ok s1 val sub addr n -> hook_ok s0 val sub addr n.
Proof.
  intros (E1 & E2 & E3 & E4) (H1 & H2 & H3). unfold hook_ok.
  rewrite (check_share_frame s0 s1) in H3 by assumption. rewrite E1, E2 in H2. auto.
Qed.

Lemma Rel_refl val sub s : Rel val sub s s.
Proof. split. repeat split. intros addr n1 H. exists n1. auto. Qed.

Lemma Rel_trans val sub s0 s1 s2 : Rel val sub s0 s1 -> Rel val sub s1 s2 -> Rel val sub s0 s2.
Proof.
  intros [F1 N1] [F2 N2]. split.
  - destruct F1 as (?&?&?&?), F2 as (?&?&?&?). repeat split; congruence.
  - intros addr n2 H2. destruct (N2 _ _ H2) as (n1 & H1 & St2 & R2).
    destruct (N1 _ _ H1) as (n0 & H0 & St1 & R1). exists n0. split; [exact H0|]. split; [congruence|].
    intros Hr. destruct (R2 Hr) as [->|[Hv Hok]].
    + apply R1. exact Hr.
    + right. split; [exact Hv|]. eapply hook_ok_frame; eassumption.
Qed.

Lemma set_role_some d role v s n : nodes s !! d = Some n ->
  set_role d role v s = Ok tt (s <| nodes ::= <[d := match v with Some v => n <| n_role := role |> <| n_val := v |>
                                                       | None => n <| n_role := role |> end]> |>).
Proof. intros E. unfold set_role, modify. rewrite E. reflexivity. Qed.

Lemma Rel_demote val sub s d n : nodes s !! d = Some n ->
  Rel val sub s (s <| nodes ::= <[d := n <| n_role := 0 |>]> |>).
Proof.
  intros E. split. repeat split. intros addr n1. simpl.
  destruct (decide (addr = d)) as [->|Hne].
  - rewrite lookup_insert. intros H. inversion H; subst. exists n. split; [exact E|]. split; [reflexivity|].
    simpl. discriminate.
  - rewrite lookup_insert_ne by congruence. intros H. exists n1. auto.
Qed.

Lemma Rel_promote val sub s d n : nodes s !! d = Some n -> hook_ok s val sub d n ->
  Rel val sub s (s <| nodes ::= <[d := n <| n_role := 1 |> <| n_val := val |>]> |>).
Proof.
  intros E Hok. split. repeat split. intros addr n1. simpl.
  destruct (decide (addr = d)) as [->|Hne].
  - rewrite lookup_insert. intros H. inversion H; subst. exists n. split; [exact E|]. split; [reflexivity|].
    intros _. right. split; [reflexivity|]. exact Hok.
  - rewrite lookup_insert_ne by congruence. intros H. exists n1. auto.
Qed.

Lemma vs_body_spec val acc br sub kv s1 :
  exists s2, vs_body val acc br sub kv s1 = Ok tt s2 /\ Rel val sub s1 s2.
Proof.
  unfold vs_body. cbv zeta. unfold bind at 1, get.
  destruct (nodes s1 !! dl_del kv.2) as [n|] eqn:En; [|eexists; split; [reflexivity|apply Rel_refl]].
  assert (Dm : exists s2, (if n_role n =? 1 then set_role (dl_del kv.2) 0 None else ret tt) s1 = Ok tt s2 /\ Rel val sub s1 s2).
  { destruct (n_role n =? 1).
    - rewrite (set_role_some _ _ _ _ _ En). eexists; split; [reflexivity|]. apply Rel_demote; assumption.
    - eexists; split; [reflexivity|apply Rel_refl]. }
  destruct (negb (_ || _)); [eexists; split; [reflexivity|apply Rel_refl]|].
  destruct (br && _); [exact Dm|].
  destruct (Z.land (n_status n) STATUS_SUPER_REQ =? STATUS_SUPER_REQ) eqn:Est; simpl; [|exact Dm].
  destruct (pledges s1 !! dl_del kv.2) as [p|] eqn:Ep; simpl; [|exact Dm].
  destruct (np_vthreshold (nparams s1) <=? pl_total p) eqn:Et; simpl; [|exact Dm].
  destruct (check_share s1 (dl_del kv.2) val sub) eqn:Ec; [|exact Dm].
  destruct (n_role n =? 0); [|eexists; split; [reflexivity|apply Rel_refl]].
  rewrite (set_role_some _ _ _ _ _ En). eexists; split; [reflexivity|]. apply Rel_promote; [assumption|].
  split; [apply Z.eqb_eq; exact Est|]. split; [|exact Ec]. exists p. split; [exact Ep|]. apply Z.leb_le. exact Et.
Qed.

Lemma vs_loop_spec val acc br sub l : forall s1,
  exists s2, forM l (vs_body val acc br sub) s1 = Ok tt s2 /\ Rel val sub s1 s2.
Proof.
  induction l as [|kv l IH]; intros s1; simpl.
  - eexists; split; [reflexivity|apply Rel_refl].
  - destruct (vs_body_spec val acc br sub kv s1) as (s2 & E & R). unfold bind at 1. rewrite E.
    destruct (IH s2) as (s3 & E3 & R3). exists s3. split; [exact E3|]. eapply Rel_trans; eassumption.
Qed.

Lemma pg_zero_eq s : (if pg s =? 0 then s else s <| pg := 0 |>) = s <| pg := 0 |>.
Proof. destruct (pg s =? 0) eqn:E; [|reflexivity]. apply Z.eqb_eq in E. destruct s; simpl in *; subst; reflexivity. Qed.

Lemma verify_super_Ok val acc br s u s' : verify_super val acc br s = Ok u s' ->
  exists sub, vs_sub s val acc br = Some sub /\ Rel val sub s s' /\ pg s' = 0.
Proof.
  unfold verify_super. unfold bind at 1, get. intros H. apply bind_Ok in H. destruct H as (sub & sx & Hs & H).
  assert (Hs' : vs_sub s val acc br = Some sub /\ sx = s).
  { unfold vs_sub. destruct acc as [a|]; [|inversion Hs; auto].
    destruct (pg s =? 0); [inversion Hs; auto|].
    destruct (del_shares s a val) as [cur|]; [|discriminate].
    destruct (cur <? pg s); [inversion Hs; auto|]. destruct br; inversion Hs; auto. }
  destruct Hs' as [Hsub ->]. exists sub. split; [exact Hsub|].
  apply bind_Ok in H. destruct H as ([] & s2 & Hl & H).
  change (forM (filter (fun kv : string * Delegation => String.eqb (dl_val kv.2) val) (sorted_items (dels s)))
               (vs_body val acc br sub) s = Ok tt s2) in Hl.
  destruct (vs_loop_spec val acc br sub (filter (fun kv : string * Delegation => String.eqb (dl_val kv.2) val) (sorted_items (dels s))) s)
    as (s2' & E & R).
  rewrite E in Hl. inversion Hl; subst s2'. unfold modify in H. inversion H. rewrite pg_zero_eq.
  split; [|reflexivity]. destruct R as [F N]. split; [exact F|exact N].
Qed.

Lemma ev_after_modified_pg del val s u s1 : st_event (EvAfterModified del val) s = Ok u s1 -> pg s1 = 0.
Proof. simpl. intros H. apply verify_super_Ok in H. destruct H as (sub & _ & _ & H). exact H. Qed.
Lemma ev_before_removed_pg del val s u s1 : st_event (EvBeforeRemoved del val) s = Ok u s1 -> pg s1 = 0.
Proof. simpl. intros H. apply verify_super_Ok in H. destruct H as (sub & _ & _ & H). exact H. Qed.

(* a successful SDK-shaped staking transaction leaves no residue, whatever it started with *)
Theorem delegate_no_residue : forall cx s del val key existed amount v' d' s' d,
  step cx s (OStaking (ev_delegate del val key existed amount v' d')) = (s', OutTx COk d) -> pg s' = 0.
Proof.
  intros cx s del val key existed amount v' d' s' d H. apply step_staking_Ok in H.
  unfold ev_delegate in H.
  assert (G : forall s0, staking_tx [EvBal del (- amount); EvSetVal val v'; EvSetDel key d'; EvAfterModified del val] s0 = Ok tt s' -> pg s' = 0).
  { intros s0 H0.
    apply staking_tx_cons in H0. destruct H0 as (s1 & _ & H0).
    apply staking_tx_cons in H0. destruct H0 as (s2 & _ & H0).
    apply staking_tx_cons in H0. destruct H0 as (s3 & _ & H0).
    apply staking_tx_cons in H0. destruct H0 as (s4 & E4 & H0).
    apply staking_tx_nil in H0. subst s'. eapply ev_after_modified_pg; eassumption. }
  destruct existed; simpl in H.
  - apply staking_tx_cons in H. destruct H as (s0 & _ & H). eapply G; eassumption.
  - eapply G; eassumption.
Qed.
Print Assumptions delegate_no_residue.

Theorem unbond_partial_no_residue : forall cx s del val key d' v' s' d,
  step cx s (OStaking (ev_unbond_partial del val key d' v')) = (s', OutTx COk d) -> pg s' = 0.
Proof.
  intros cx s del val key d' v' s' d H. apply step_staking_Ok in H. unfold ev_unbond_partial in H.
  apply staking_tx_cons in H. destruct H as (s1 & _ & H).
  apply staking_tx_cons in H. destruct H as (s2 & _ & H).
  apply staking_tx_cons in H. destruct H as (s3 & E3 & H).
  apply staking_tx_cons in H. destruct H as (s4 & E4 & H).
  apply staking_tx_nil in H. subst s'. apply ev_after_modified_pg in E3.
  simpl in E4. unfold modify in E4. inversion E4. exact E3.
Qed.
Print Assumptions unbond_partial_no_residue.

Theorem unbond_full_no_residue : forall cx s del val key v' s' d,
  step cx s (OStaking (ev_unbond_full del val key v')) = (s', OutTx COk d) -> pg s' = 0.
Proof.
  intros cx s del val key v' s' d H. apply step_staking_Ok in H. unfold ev_unbond_full in H.
  apply staking_tx_cons in H. destruct H as (s1 & _ & H).
  apply staking_tx_cons in H. destruct H as (s2 & E2 & H).
  apply staking_tx_cons in H. destruct H as (s3 & E3 & H).
  apply staking_tx_cons in H. destruct H as (s4 & E4 & H).
  apply staking_tx_nil in H. subst s'. apply ev_before_removed_pg in E2.
  simpl in E3, E4. unfold modify in E3, E4. inversion E3; subst s3. inversion E4. exact E2.
Qed.
Print Assumptions unbond_full_no_residue.

(* restart = reset of the process variable; without residue it changes nothing *)
Theorem restart_id : forall s, pg s = 0 -> restart s = s.
Proof. intros s H. unfold restart. destruct s; simpl in *; subst; reflexivity. Qed.
Print Assumptions restart_id.
Theorem restart_equiv : forall tr s, pg s = 0 -> run tr (restart s) = run tr s.
Proof. intros tr s H. rewrite restart_id by exact H. reflexivity. Qed.
Print Assumptions restart_equiv.

(* the failing delegation leaves residue and no other trace *)
Theorem failed_delegate_residue : forall cx s del val sh, del_shares s del val = Some sh ->
  fst (step cx s (OStaking (ev_delegate_fails del val))) = s <| pg := sh |>.
Proof.
  intros cx s del val sh H.
  unfold step, tx_of, deliver, ev_delegate_fails, staking_tx. simpl forM.
  unfold bind, get. rewrite H. unfold modify, fail. destruct s; reflexivity.
Qed.
Print Assumptions failed_delegate_residue.

(* the same residue through a gas simulation of the (successful or failing) transaction's first hook *)
Theorem simulate_residue : forall cx s del val sh, del_shares s del val = Some sh ->
  fst (step cx s (OSimulate (ev_delegate_fails del val))) = s <| pg := sh |>.
Proof.
  intros cx s del val sh H.
  unfold step, ev_delegate_fails, staking_tx. simpl forM.
  unfold bind, get. rewrite H. unfold modify, fail. destruct s; reflexivity.
Qed.
Print Assumptions simulate_residue.

(** * Part 2: the residue changes consensus results (finding D10) *)
Definition d10_params : NParams :=
  mkNParams 1000 1000000000 500000000000000000 32000000 2000 100000000000000000 "" 1 10000 5000000 1800.
Definition d10_nodes : gmap string Node := <["N" := mkNode "" 10000 15 1 [] 0 "V"]> ∅.
Definition d10_pledges : gmap string Pledge := <["N" := mkPledge 6 0 0 0 6000000 0]> ∅.
Definition d10_vals : gmap string Validator := <["V" := mkVal (1110000 * 10^18)%Z 1110000 3]> ∅.
Definition d10_dels : gmap string Delegation :=
  <["1" := mkDel "N" "V" (110000 * 10^18)%Z]> (<["2" := mkDel "OP" "V" (1000000 * 10^18)%Z]> ∅).
(* node N holds 110 000 of 1 110 000 shares of V (9.9 %, threshold 10 %); [g] is the process variable *)
Definition d10_state (g : Z) : State :=
  mkState did_empty d10_nodes d10_pledges ∅ (Some (mkPool 0 0 0 0 0 0 0 0)) None ∅ ∅ ∅ d10_params ∅ 1 ∅ 0 ∅ ∅ ∅ ∅ ∅ ∅ ∅ 0
          d10_vals d10_dels g.
(* residue of the operator's failed delegation *)
Definition d10_residue : Z := (1000000 * 10^18)%Z.
(* a third party's fresh delegation of 1 000 shares *)
Definition d10_evs : list StEvent :=
  ev_delegate "T" "V" "3" false 1000 (mkVal (1111000 * 10^18)%Z 1111000 3) (mkDel "T" "V" (1000 * 10^18)%Z).
Definition d10_cx : Ctx := {| cx_height := 2; cx_chain := "sao"; cx_time := 0; cx_seed := 0 |}.

(* the residue is exactly what the operator's failing delegation leaves *)
Lemma d10_residue_origin :
  fst (step d10_cx (d10_state 0) (OStaking (ev_delegate_fails "OP" "V"))) = d10_state d10_residue.
Proof. vm_compute. reflexivity. Qed.

Lemma d10_role_with_residue :
  n_role <$> nodes (fst (step d10_cx (d10_state d10_residue) (OStaking d10_evs))) !! "N" = Some 1.
Proof. vm_compute. reflexivity. Qed.
Lemma d10_role_without_residue :
  n_role <$> nodes (fst (step d10_cx (restart (d10_state d10_residue)) (OStaking d10_evs))) !! "N" = Some 0.
Proof. vm_compute. reflexivity. Qed.

Theorem restart_equiv_refuted : exists cx s op, pg s <> 0 /\ nodes (fst (step cx (restart s) op)) <> nodes (fst (step cx s op)).
Proof.
  exists d10_cx, (d10_state d10_residue), (OStaking d10_evs). split.
  - vm_compute. discriminate.
  - intros E. pose proof d10_role_with_residue as H1. pose proof d10_role_without_residue as H0.
    rewrite E in H0. rewrite H1 in H0. discriminate.
Qed.
Print Assumptions restart_equiv_refuted.

Theorem promotion_with_residue_refuted : exists cx s evs s' d addr n n',
  step cx s (OStaking evs) = (s', OutTx COk d) /\ nodes s !! addr = Some n /\ n_role n = 0 /\
  nodes s' !! addr = Some n' /\ n_role n' = 1 /\ ~ super_ok s' addr n'.
Proof.
  exists d10_cx, (d10_state d10_residue), d10_evs,
    (fst (step d10_cx (d10_state d10_residue) (OStaking d10_evs))), "", "N",
    (mkNode "" 10000 15 1 [] 0 "V"), (mkNode "" 10000 15 1 [] 1 "V").
  split; [vm_compute; reflexivity|]. split; [vm_compute; reflexivity|]. split; [reflexivity|].
  split; [vm_compute; reflexivity|]. split; [reflexivity|].
  intros (_ & _ & H). vm_compute in H. discriminate.
Qed.
Print Assumptions promotion_with_residue_refuted.

(* end to end from a residue-free state: the operator's failing delegation, then the third party's
   delegation. A node that restarts between the two transactions computes a different node table
   than one that does not (same committed state, same transactions). *)
Theorem d10_crash_restart_divergence :
  let tr1 := [(d10_cx, OStaking (ev_delegate_fails "OP" "V"))] in
  let tr2 := [(d10_cx, OStaking d10_evs)] in
  pg (d10_state 0) = 0 /\
  n_role <$> nodes (run tr2 (run tr1 (d10_state 0))) !! "N" = Some 1 /\
  n_role <$> nodes (run tr2 (restart (run tr1 (d10_state 0)))) !! "N" = Some 0.
Proof. vm_compute. repeat split. Qed.
Print Assumptions d10_crash_restart_divergence.

(** * Part 3: promotion to the super role is sound when there is no residue (C20) *)

Lemma step_tx_Ok cx s op m s' d : tx_of cx op = Some m ->
  (forall evs, op <> OSimulate evs) -> op <> OBeginBlock -> (forall evs, op <> OEndBlock evs) ->
  step cx s op = (s', OutTx COk d) -> m s = Ok tt s'.
Proof.
  intros Ht H1 H2 H3 H.
  assert (E : (let '(s', c, d) := deliver m s in (s', OutTx c d)) = (s', OutTx COk d)).
  { destruct op; simpl in Ht; try discriminate; unfold step in H; simpl tx_of in H; inversion Ht; subst m; exact H. }
  unfold deliver in E. destruct (m s) as [[] s1|e s1|e|]; inversion E; reflexivity.
Qed.

Lemma check_node_share_spec s n c n' b : check_node_share s n c = (n', b) ->
  (b = false /\ n' = n) \/
  (b = true /\ n_status n' = n_status n /\ n_role n' = 1 /\ check_share s c (n_val n') 0 = true).
Proof.
  unfold check_node_share. destruct (negb (String.eqb (n_val n) "")).
  - destruct (check_share s c (n_val n) 0) eqn:E; intros H; inversion H; subst; [right|left]; simpl; auto.
  - destruct (filter _ _) as [|kv r] eqn:F; intros H; inversion H; subst; [left; auto|].
    right. apply filter_head_elem in F. destruct F as [F _]. apply Is_true_true in F.
    apply andb_true_iff in F. destruct F as [_ F]. simpl. auto.
Qed.

(* the node record ResetNode builds before the share check *)
Definition reset_node (cx : Ctx) (m : ResetMsg) (n : Node) : Node :=
  let n1 := if negb (rs_status m =? 0) && negb (n_status n =? rs_status m) then n <| n_status := rs_status m |> else n in
  let n2 := if negb (String.eqb (rs_peer m) "") && negb (String.eqb (n_peer n1) (rs_peer m)) then n1 <| n_peer := rs_peer m |> else n1 in
  let chg_val := negb (String.eqb (rs_validator m) "") && negb (String.eqb (n_val n2) (rs_validator m)) in
  let n3 := if chg_val then n2 <| n_val := rs_validator m |> else n2 in
  let n4 := match rs_tx m with [] => n3 | l => n3 <| n_tx := l |> end in
  n4 <| n_alive := cx_height cx |> <| n_role := 0 |>.

Lemma reset_node_role cx m n : n_role (reset_node cx m n) = 0.
Proof. reflexivity. Qed.

Lemma reset_node_status cx m n : Z.land (rs_status m) STATUS_SUPER_REQ = STATUS_SUPER_REQ ->
  n_status (reset_node cx m n) = rs_status m.
Proof.
  intros Hl. unfold reset_node. cbv zeta.
  set (n1 := if negb (rs_status m =? 0) && negb (n_status n =? rs_status m) then n <| n_status := rs_status m |> else n).
  assert (S1 : n_status n1 = rs_status m).
  { subst n1. destruct (rs_status m =? 0) eqn:E0; simpl.
    - apply Z.eqb_eq in E0. rewrite E0 in Hl. discriminate.
    - destruct (n_status n =? rs_status m) eqn:E1; simpl; [apply Z.eqb_eq; exact E1|reflexivity]. }
  clearbody n1. simpl.
  destruct (rs_tx m); destruct (negb (String.eqb (rs_validator m) "") && _); destruct (negb (String.eqb (rs_peer m) "") && _);
    simpl; exact S1.
Qed.

Lemma node_reset_Ok cx m s u s' : node_reset cx m s = Ok u s' ->
  exists n, nodes s !! rs_creator m = Some n /\
    s' = s <| nodes ::= <[rs_creator m :=
           if Z.land (rs_status m) STATUS_SUPER_REQ =? STATUS_SUPER_REQ then
             match pledges s !! rs_creator m with
             | Some p => if np_vthreshold (nparams s) <=? pl_total p
                         then fst (check_node_share s (reset_node cx m n) (rs_creator m)) else reset_node cx m n
             | None => reset_node cx m n
             end
           else reset_node cx m n]> |>.
Proof.
  unfold node_reset. unfold bind, get. destruct (nodes s !! rs_creator m) as [n|]; [|discriminate].
  cbv zeta.
  match goal with |- (if ?b then _ else _) _ = _ -> _ => destruct b; [discriminate|] end.
  match goal with |- (if ?b then _ else _) _ = _ -> _ => destruct b; [discriminate|] end.
  unfold modify. intros H. inversion H. exists n. split; reflexivity.
Qed.

(* by the node's own messages *)
Theorem reset_promotion_sound : forall cx s m s' d n', step cx s (ONodeReset m) = (s', OutTx COk d) ->
  nodes s' !! rs_creator m = Some n' -> n_role n' = 1 -> super_ok s' (rs_creator m) n'.
Proof.
  intros cx s m s' d n' H Hn' Hr.
  apply (step_tx_Ok cx s _ (node_reset cx m)) in H; try reflexivity; try discriminate.
  apply node_reset_Ok in H. destruct H as (n & En & ->). simpl in Hn'. rewrite lookup_insert in Hn'.
  inversion Hn' as [E]; clear Hn'.
  destruct (Z.land (rs_status m) STATUS_SUPER_REQ =? STATUS_SUPER_REQ) eqn:El;
    [|subst n'; rewrite reset_node_role in Hr; discriminate].
  apply Z.eqb_eq in El.
  destruct (pledges s !! rs_creator m) as [p|] eqn:Ep; [|subst n'; rewrite reset_node_role in Hr; discriminate].
  destruct (np_vthreshold (nparams s) <=? pl_total p) eqn:Et; [|subst n'; rewrite reset_node_role in Hr; discriminate].
  destruct (check_node_share s (reset_node cx m n) (rs_creator m)) as [n'' b] eqn:Ec. simpl in E. subst n''.
  apply check_node_share_spec in Ec. destruct Ec as [[_ ->]|(_ & Hs & _ & Hc)].
  - rewrite reset_node_role in Hr. discriminate.
  - unfold super_ok. cbn [fst]. split; [rewrite Hs, reset_node_status by exact El; exact El|]. split.
    + exists p. split; [exact Ep|]. apply Z.leb_le. exact Et.
    + rewrite <- Hc. apply check_share_frame; reflexivity.
Qed.
Print Assumptions reset_promotion_sound.

Lemma send_strict_Ok f t a s u s1 : send_strict f t a s = Ok u s1 -> s1 = move f t a s.
Proof.
  unfold send_strict. destruct (_ <=? _); [discriminate|]. destruct (_ <? _); [discriminate|].
  intros H; inversion H; reflexivity.
Qed.

Theorem add_vstorage_promotion_sound : forall cx s c sz s' d n n', step cx s (OAddVstorage c sz) = (s', OutTx COk d) ->
  nodes s !! c = Some n -> n_role n = 0 -> nodes s' !! c = Some n' -> n_role n' = 1 -> super_ok s' c n'.
Proof.
  intros cx s c sz s' d n n' H Hn Hr Hn' Hr'.
  apply (step_tx_Ok cx s _ (add_vstorage c sz)) in H; try reflexivity; try discriminate.
  unfold add_vstorage in H. unfold bind at 1, get in H. rewrite Hn in H.
  destruct (pool s) as [po|]; [|discriminate]. cbv zeta in H.
  match type of H with (if ?b then _ else _) _ = _ => destruct b; [discriminate|] end.
  match type of H with context [np_vthreshold (nparams s) <=? pl_total ?p] => set (p3 := p) in H end.
  apply bind_Ok in H. destruct H as ([] & s1 & Hsend & H). apply send_strict_Ok in Hsend.
  assert (Hn1 : nodes s1 !! c = Some n) by (subst s1; exact Hn).
  assert (F1 : dels s1 = dels s /\ vals s1 = vals s /\ nparams s1 = nparams s) by (subst s1; repeat split).
  clear Hsend.
  apply bind_Ok in H. destruct H as ([] & s2 & Hmid & H).
  unfold modify in H. inversion H; clear H. subst s'.
  assert (Stay : s2 = s1 -> False).
  { intros ->. simpl in Hn'. rewrite Hn1 in Hn'. inversion Hn'; subst n'. congruence. }
  destruct (np_vthreshold (nparams s) <=? pl_total p3) eqn:Et; [|inversion Hmid; exfalso; auto].
  unfold bind at 1, get in Hmid. rewrite Hn1 in Hmid.
  destruct ((n_role n =? 0) && (Z.land (n_status n) STATUS_SUPER_REQ =? STATUS_SUPER_REQ)) eqn:Ec;
    [|inversion Hmid; exfalso; auto].
  destruct (check_node_share s1 n c) as [n'' ok] eqn:Ecs.
  destruct ok; [|inversion Hmid; exfalso; auto].
  unfold modify in Hmid. inversion Hmid; clear Hmid. subst s2.
  simpl in Hn'. rewrite lookup_insert in Hn'. inversion Hn'; subst n''.
  apply check_node_share_spec in Ecs. destruct Ecs as [[? _]|(_ & Hs & _ & Hc)]; [discriminate|].
  apply andb_true_iff in Ec. destruct Ec as [_ Ec]. apply Z.eqb_eq in Ec.
  destruct F1 as (F1 & F2 & F3).
  unfold super_ok. split; [rewrite Hs; exact Ec|]. split.
  - exists p3. split; [simpl; apply lookup_insert|]. simpl. rewrite F3. apply Z.leb_le. exact Et.
  - rewrite <- Hc. apply check_share_frame; reflexivity.
Qed.
Print Assumptions add_vstorage_promotion_sound.

(* RemoveVstorage below the capacity threshold: the node is not super afterwards. The requested
   conclusion [n_role n' = 0] needs the role to be 0 or 1 beforehand (the handler demotes only a
   role that is exactly 1 and leaves any other value alone); see [remove_vstorage_demotes_refuted]. *)
Lemma remove_vstorage_demotes_gen : forall cx s c sz s' d n' p', step cx s (ORemoveVstorage c sz) = (s', OutTx COk d) ->
  nodes s' !! c = Some n' -> pledges s' !! c = Some p' -> pl_total p' < np_vthreshold (nparams s') ->
  exists n, nodes s !! c = Some n /\ (n' = n <| n_role := 0 |> \/ (n' = n /\ n_role n <> 1)).
Proof.
  intros cx s c sz s' d n' p' H Hn' Hp' Hlt.
  apply (step_tx_Ok cx s _ (remove_vstorage c sz)) in H; try reflexivity; try discriminate.
  unfold remove_vstorage in H. unfold bind at 1, get in H.
  destruct (nodes s !! c) as [n|] eqn:Hn; [|discriminate].
  destruct (pool s) as [po|]; [|discriminate].
  destruct (pledges s !! c) as [p|]; [|discriminate].
  cbv zeta in H.
  match type of H with (if ?b then _ else _) _ = _ => destruct b; [discriminate|] end.
  match type of H with (if ?b then _ else _) _ = _ => destruct b; [discriminate|] end.
  match type of H with (if ?b then _ else _) _ = _ => destruct b; [discriminate|] end.
  apply bind_Ok in H. destruct H as (sp' & s0 & Hcs & H).
  assert (s0 = s) as ->.
  { unfold coin_sub in Hcs. destruct (_ <? 0); [discriminate|]. inversion Hcs; reflexivity. }
  clear Hcs.
  match type of H with context [pl_total ?p <? np_vthreshold (nparams s)] => set (p3 := p) in H end.
  apply bind_Ok in H. destruct H as ([] & s1 & Hsend & H). apply send_strict_Ok in Hsend.
  assert (Hn1 : nodes s1 !! c = Some n) by (subst s1; exact Hn).
  assert (F1 : nparams s1 = nparams s) by (subst s1; reflexivity).
  clear Hsend.
  apply bind_Ok in H. destruct H as ([] & s2 & Hmid & H).
  unfold modify in H. inversion H; clear H. subst s'.
  change (<[c := p3]> (pledges s2) !! c = Some p') in Hp'.
  rewrite lookup_insert in Hp'. inversion Hp'; subst p'.
  change (pl_total p3 < np_vthreshold (nparams s2)) in Hlt.
  change (nodes s2 !! c = Some n') in Hn'.
  assert (F3 : nparams s2 = nparams s).
  { rewrite <- F1. destruct (pl_total p3 <? np_vthreshold (nparams s)); [|inversion Hmid; reflexivity].
    unfold bind at 1, get in Hmid. rewrite Hn1 in Hmid. destruct (n_role n =? 1); inversion Hmid; reflexivity. }
  rewrite F3 in Hlt. apply Z.ltb_lt in Hlt. rewrite Hlt in Hmid.
  unfold bind at 1, get in Hmid. rewrite Hn1 in Hmid. exists n. split; [reflexivity|].
  destruct (n_role n =? 1) eqn:Er.
  - unfold modify in Hmid. inversion Hmid; subst s2.
    change (<[c := n <| n_role := 0 |>]> (nodes s1) !! c = Some n') in Hn'. rewrite lookup_insert in Hn'.
    inversion Hn'. left. reflexivity.
  - inversion Hmid; subst s2. rewrite Hn1 in Hn'. inversion Hn'; subst n'.
    right. split; [reflexivity|]. apply Z.eqb_neq. exact Er.
Qed.

Theorem remove_vstorage_demotes_partial : forall cx s c sz s' d n' p', step cx s (ORemoveVstorage c sz) = (s', OutTx COk d) ->
  nodes s' !! c = Some n' -> pledges s' !! c = Some p' -> pl_total p' < np_vthreshold (nparams s') -> n_role n' <> 1.
Proof.
  intros cx s c sz s' d n' p' H Hn' Hp' Hlt.
  destruct (remove_vstorage_demotes_gen _ _ _ _ _ _ _ _ H Hn' Hp' Hlt) as (n & _ & [->|[-> Hr]]).
  - simpl. discriminate.
  - exact Hr.
Qed.
Print Assumptions remove_vstorage_demotes_partial.

(* with roles in {0,1} beforehand (an invariant of every handler: roles are only ever set to 0 or 1) *)
Theorem remove_vstorage_demotes_wf : forall cx s c sz s' d n' p',
  (forall n, nodes s !! c = Some n -> n_role n = 0 \/ n_role n = 1) ->
  step cx s (ORemoveVstorage c sz) = (s', OutTx COk d) ->
  nodes s' !! c = Some n' -> pledges s' !! c = Some p' -> pl_total p' < np_vthreshold (nparams s') -> n_role n' = 0.
Proof.
  intros cx s c sz s' d n' p' Hwf H Hn' Hp' Hlt.
  destruct (remove_vstorage_demotes_gen _ _ _ _ _ _ _ _ H Hn' Hp' Hlt) as (n & Hn & [->|[-> Hr]]).
  - reflexivity.
  - destruct (Hwf n Hn) as [E|E]; [exact E|contradiction].
Qed.
Print Assumptions remove_vstorage_demotes_wf.

(* the requested conclusion fails on a state whose role field holds a value other than 0 or 1
   (no handler writes such a value: this is about the statement's domain, not about the chain) *)
Definition rv_state : State :=
  mkState did_empty (<["N" := mkNode "" 10000 15 1 [] 2 "V"]> ∅) d10_pledges ∅ (Some (mkPool 6 0 0 0 0 0 6000000 0)) None ∅ ∅ ∅
          d10_params ∅ 1 ∅ 0 ∅ ∅ ∅ ∅ ∅ ∅ (<["module:node" := 6]> ∅) 6 d10_vals d10_dels 0.
Theorem remove_vstorage_demotes_refuted : exists cx s c sz s' d n' p',
  step cx s (ORemoveVstorage c sz) = (s', OutTx COk d) /\
  nodes s' !! c = Some n' /\ pledges s' !! c = Some p' /\ pl_total p' < np_vthreshold (nparams s') /\ n_role n' <> 0.
Proof.
  exists d10_cx, rv_state, "N", 2000000, (fst (step d10_cx rv_state (ORemoveVstorage "N" 2000000))), "",
    (mkNode "" 10000 15 1 [] 2 "V"), (mkPledge 4 0 0 0 4000000 0).
  split; [vm_compute; reflexivity|]. split; [vm_compute; reflexivity|]. split; [vm_compute; reflexivity|].
  split; [vm_compute; reflexivity|]. simpl. discriminate.
Qed.
Print Assumptions remove_vstorage_demotes_refuted.

(** ** by the staking hooks *)
Lemma find_del_unique s del val key d' :
  dels s !! key = Some d' -> dl_del d' = del -> dl_val d' = val ->
  (forall k x, dels s !! k = Some x -> dl_del x = del -> dl_val x = val -> k = key) ->
  find_del s del val = Some d'.
Proof.
  intros Hk Hd Hv Hu. unfold find_del.
  destruct (filter _ _) as [|kv r] eqn:F.
  - exfalso.
    assert (I : (key, d') ∈ filter (fun kv : string * Delegation => String.eqb (dl_del kv.2) del && String.eqb (dl_val kv.2) val)
                                   (sorted_items (dels s))).
    { apply elem_of_list_filter. split; [|apply elem_of_sorted_items; exact Hk].
      simpl. apply Is_true_true. apply andb_true_iff. split; apply String.eqb_eq; assumption. }
    rewrite F in I. inversion I.
  - apply filter_head_elem in F. destruct F as [P I]. destruct kv as [k x]. apply elem_of_sorted_items in I.
    simpl in P. apply Is_true_true in P. apply andb_true_iff in P. destruct P as [P1 P2].
    apply String.eqb_eq in P1. apply String.eqb_eq in P2.
    assert (k = key) by (eapply Hu; eassumption). subst k. simpl. congruence.
Qed.

Lemma Rel_promoted val sub s0 s1 addr n n' : Rel val sub s0 s1 ->
  nodes s0 !! addr = Some n -> n_role n <> 1 -> nodes s1 !! addr = Some n' -> n_role n' = 1 ->
  n_val n' = val /\ hook_ok s0 val sub addr n'.
Proof.
  intros [_ N] Hn Hr Hn' Hr'. destruct (N _ _ Hn') as (n0 & H0 & _ & R).
  rewrite Hn in H0. inversion H0; subst n0. destruct (R Hr') as [->|R']; [contradiction|exact R'].
Qed.

Lemma uniq_insert (m : gmap string Delegation) key d' del val :
  (forall k x, m !! k = Some x -> dl_del x = del -> dl_val x = val -> k = key) ->
  forall k x, <[key := d']> m !! k = Some x -> dl_del x = del -> dl_val x = val -> k = key.
Proof.
  intros Hu k x Hk Hd Hv. destruct (decide (k = key)) as [E|E]; [exact E|].
  rewrite lookup_insert_ne in Hk by congruence. eapply Hu; eassumption.
Qed.

(* Delegate: every node the transaction promotes satisfies the conditions of the super role in
   the final state. Needs, besides the requested hypotheses, that the delegator's shares do not
   decrease ([Hmono]); the SDK's Delegate only ever adds shares. Without it the statement is
   false: see [delegate_promotion_sound_refuted]. *)
Lemma delegate_promotion_core : forall s del val key existed amount v' d' s' addr n n',
  (existed = false -> pg s = 0) ->
  staking_tx (ev_delegate del val key existed amount v' d') s = Ok tt s' ->
  dl_del d' = del -> dl_val d' = val ->
  (forall k x, dels s !! k = Some x -> dl_del x = del -> dl_val x = val -> k = key) ->
  (forall old, del_shares s del val = Some old -> old <= dl_shares d') ->
  nodes s !! addr = Some n -> n_role n = 0 -> nodes s' !! addr = Some n' -> n_role n' = 1 -> super_ok s' addr n'.
Proof.
  intros s del val key existed amount v' d' s' addr n n' Hpg H Hd Hv Hu Hmono Hn Hr Hn' Hr'.
  unfold ev_delegate in H.
  assert (G : forall s0, nodes s0 = nodes s -> pledges s0 = pledges s -> nparams s0 = nparams s -> dels s0 = dels s ->
              (pg s0 = 0 \/ del_shares s del val = Some (pg s0)) ->
              staking_tx [EvBal del (- amount); EvSetVal val v'; EvSetDel key d'; EvAfterModified del val] s0 = Ok tt s' ->
              super_ok s' addr n').
  { intros s0 F1 F2 F3 F4 Hg H0.
    apply staking_tx_cons in H0. destruct H0 as (s1 & E1 & H0).
    apply staking_tx_cons in H0. destruct H0 as (s2 & E2 & H0).
    apply staking_tx_cons in H0. destruct H0 as (s3 & E3 & H0).
    apply staking_tx_cons in H0. destruct H0 as (s4 & E4 & H0).
    apply staking_tx_nil in H0. subst s4.
    simpl in E1, E2, E3. unfold modify in E1, E2, E3. inversion E1; subst s1; clear E1.
    inversion E2; subst s2; clear E2. inversion E3; clear E3.
    assert (N3 : nodes s3 = nodes s) by (subst s3; exact F1).
    assert (P3 : pledges s3 = pledges s) by (subst s3; exact F2).
    assert (D3 : dels s3 = <[key := d']> (dels s)) by (subst s3; simpl; rewrite F4; reflexivity).
    assert (G3 : pg s3 = pg s0) by (subst s3; reflexivity).
    simpl in E4. apply verify_super_Ok in E4. destruct E4 as (sub & Hsub & R & _).
    assert (sub = 0) as ->.
    { unfold vs_sub in Hsub. rewrite G3 in Hsub. destruct (pg s0 =? 0) eqn:Eg; [inversion Hsub; reflexivity|].
      destruct Hg as [Hg|Hg]; [rewrite Hg in Eg; discriminate|].
      assert (Fd : find_del s3 del val = Some d').
      { apply (find_del_unique s3 del val key d'); try assumption.
        - rewrite D3. apply lookup_insert.
        - rewrite D3. apply uniq_insert. exact Hu. }
      unfold del_shares in Hsub. rewrite Fd in Hsub.
      specialize (Hmono _ Hg). apply Z.ltb_ge in Hmono. rewrite Hmono in Hsub. inversion Hsub; reflexivity. }
    rewrite <- N3 in Hn.
    destruct (Rel_promoted _ _ _ _ _ _ _ R Hn ltac:(rewrite Hr; discriminate) Hn' Hr') as [Hval (Hs & (p & Hp & Ht) & Hc)].
    destruct R as [(Q1 & Q2 & Q3 & Q4) _].
    unfold super_ok. split; [exact Hs|]. split.
    - exists p. rewrite Q1, Q2. auto.
    - rewrite Hval. rewrite <- Hc. apply check_share_frame; assumption. }
  destruct existed; simpl in H.
  - apply staking_tx_cons in H. destruct H as (s0 & E0 & H). apply ev_before_shares_Ok in E0.
    destruct E0 as (sh & Hsh & ->). apply G in H; try reflexivity; try exact H.
    right. simpl. exact Hsh.
  - apply G in H; try reflexivity; try exact H. left. apply Hpg. reflexivity.
Qed.

Theorem delegate_promotion_sound_partial : forall cx s del val key existed amount v' d' s' d addr n n',
  pg s = 0 -> step cx s (OStaking (ev_delegate del val key existed amount v' d')) = (s', OutTx COk d) ->
  (existed = true <-> is_Some (del_shares s del val)) -> dl_del d' = del -> dl_val d' = val ->
  (* the key is the delegation's own key: no other record for (del,val) *)
  (forall k x, dels s !! k = Some x -> dl_del x = del -> dl_val x = val -> k = key) ->
  (* added: Delegate does not lower the delegator's shares *)
  (forall old, del_shares s del val = Some old -> old <= dl_shares d') ->
  nodes s !! addr = Some n -> n_role n = 0 -> nodes s' !! addr = Some n' -> n_role n' = 1 -> super_ok s' addr n'.
Proof.
  intros cx s del val key existed amount v' d' s' d addr n n' Hpg H _ Hd Hv Hu Hmono Hn Hr Hn' Hr'.
  apply step_staking_Ok in H. eapply delegate_promotion_core; eauto.
Qed.
Print Assumptions delegate_promotion_sound_partial.

(* the requested statement without [Hmono]: an event list of Delegate's shape that lowers the
   delegator's shares (from 1 000 000 to 0, validator record unchanged) makes the hook subtract
   the difference and promotes N, which is below the threshold in the final state. The SDK never
   produces such a list from Delegate; the witness delimits the statement, it is not a chain defect. *)
Theorem delegate_promotion_sound_refuted : exists cx s del val key existed amount v' d' s' d addr n n',
  pg s = 0 /\ step cx s (OStaking (ev_delegate del val key existed amount v' d')) = (s', OutTx COk d) /\
  (existed = true <-> is_Some (del_shares s del val)) /\ dl_del d' = del /\ dl_val d' = val /\
  (forall k x, dels s !! k = Some x -> dl_del x = del -> dl_val x = val -> k = key) /\
  nodes s !! addr = Some n /\ n_role n = 0 /\ nodes s' !! addr = Some n' /\ n_role n' = 1 /\ ~ super_ok s' addr n'.
Proof.
  exists d10_cx, (d10_state 0), "OP", "V", "2", true, 0, (mkVal (1110000 * 10^18)%Z 1110000 3), (mkDel "OP" "V" 0),
    (fst (step d10_cx (d10_state 0)
            (OStaking (ev_delegate "OP" "V" "2" true 0 (mkVal (1110000 * 10^18)%Z 1110000 3) (mkDel "OP" "V" 0))))),
    "", "N", (mkNode "" 10000 15 1 [] 0 "V"), (mkNode "" 10000 15 1 [] 1 "V").
  split; [reflexivity|]. split; [vm_compute; reflexivity|].
  split; [split; [intros _; vm_compute; eauto|reflexivity]|].
  split; [reflexivity|]. split; [reflexivity|]. split.
  { intros k x Hk Hd Hv. destruct (decide (k = "2")) as [E|E]; [exact E|exfalso].
    change (d10_dels !! k = Some x) in Hk. unfold d10_dels in Hk.
    destruct (decide (k = "1")) as [E1|E1].
    - subst k. rewrite lookup_insert in Hk. inversion Hk; subst x. discriminate Hd.
    - rewrite lookup_insert_ne in Hk by congruence. rewrite lookup_insert_ne in Hk by congruence.
      rewrite lookup_empty in Hk. discriminate. }
  split; [vm_compute; reflexivity|]. split; [reflexivity|].
  split; [vm_compute; reflexivity|]. split; [reflexivity|].
  intros (_ & _ & H). vm_compute in H. discriminate.
Qed.
Print Assumptions delegate_promotion_sound_refuted.

(* Unbond of a part of the delegation. The hook runs BEFORE the validator's shares are lowered,
   with sharesToSub = old - new delegation shares; the check it makes then (validator shares
   [v_shares v], minus sharesToSub) is the check in the final state (validator shares
   [v_shares v']). No assumption on [pg s]: the first hook overwrites it. Added hypothesis:
   [0 <= new] (with [new < old] it makes [old] non-zero; the hook treats a stored 0 as "no
   BeforeDelegationSharesModified happened"). *)
Theorem unbond_partial_promotion_sound : forall cx s del val key d' v' s' d v old new addr n n',
  step cx s (OStaking (ev_unbond_partial del val key d' v')) = (s', OutTx COk d) ->
  vals s !! val = Some v -> del_shares s del val = Some old ->
  dl_del d' = del -> dl_val d' = val -> dl_shares d' = new -> 0 <= new -> new < old ->
  v_shares v' = v_shares v - (old - new) ->
  (forall k x, dels s !! k = Some x -> dl_del x = del -> dl_val x = val -> k = key) ->
  nodes s !! addr = Some n -> n_role n = 0 -> nodes s' !! addr = Some n' -> n_role n' = 1 -> super_ok s' addr n'.
Proof.
  intros cx s del val key d' v' s' d v old new addr n n' H Hvl Hold Hd Hv Hnew Hpos Hlt Hvs Hu Hn Hr Hn' Hr'.
  apply step_staking_Ok in H. unfold ev_unbond_partial in H.
  apply staking_tx_cons in H. destruct H as (s1 & E1 & H).
  apply staking_tx_cons in H. destruct H as (s2 & E2 & H).
  apply staking_tx_cons in H. destruct H as (s3 & E3 & H).
  apply staking_tx_cons in H. destruct H as (s4 & E4 & H).
  apply staking_tx_nil in H. subst s4.
  apply ev_before_shares_Ok in E1. destruct E1 as (sh & Hsh & ->). rewrite Hold in Hsh. inversion Hsh; subst sh; clear Hsh.
  simpl in E2. unfold modify in E2. inversion E2; clear E2.
  assert (N2 : nodes s2 = nodes s) by (subst s2; reflexivity).
  assert (V2 : vals s2 = vals s) by (subst s2; reflexivity).
  assert (D2 : dels s2 = <[key := d']> (dels s)) by (subst s2; reflexivity).
  assert (G2 : pg s2 = old) by (subst s2; reflexivity).
  simpl in E3. apply verify_super_Ok in E3. destruct E3 as (sub & Hsub & R & _).
  assert (sub = old - new) as ->.
  { unfold vs_sub in Hsub. rewrite G2 in Hsub.
    destruct (old =? 0) eqn:E0; [apply Z.eqb_eq in E0; lia|].
    assert (Fd : find_del s2 del val = Some d').
    { apply (find_del_unique s2 del val key d'); try assumption.
      - rewrite D2. apply lookup_insert.
      - rewrite D2. apply uniq_insert. exact Hu. }
    unfold del_shares in Hsub. rewrite Fd, Hnew in Hsub.
    apply Z.ltb_lt in Hlt. rewrite Hlt in Hsub. inversion Hsub; reflexivity. }
  assert (E4' : s' = s3 <| vals ::= <[val := v']> |>).
  { simpl in E4. unfold modify in E4. inversion E4; reflexivity. }
  clear E4.
  assert (N' : nodes s' = nodes s3) by (rewrite E4'; reflexivity).
  assert (P' : pledges s' = pledges s3) by (rewrite E4'; reflexivity).
  assert (D' : dels s' = dels s3) by (rewrite E4'; reflexivity).
  assert (Ep : nparams s' = nparams s3) by (rewrite E4'; reflexivity).
  assert (Ev : vals s' !! val = Some v') by (rewrite E4'; simpl; apply lookup_insert).
  clear E4'.
  rewrite <- N2 in Hn. rewrite N' in Hn'.
  destruct (Rel_promoted _ _ _ _ _ _ _ R Hn ltac:(rewrite Hr; discriminate) Hn' Hr') as [Hval (Hs & (p & Hp & Ht) & Hc)].
  destruct R as [(Q1 & Q2 & Q3 & Q4) _].
  unfold super_ok. split; [exact Hs|]. split.
  - exists p. rewrite P', Ep, Q1, Q2. auto.
  - rewrite Hval. unfold check_share in Hc |- *.
    rewrite (find_del_frame s2 s') by (rewrite D'; exact Q4).
    destruct (find_del s2 addr val) as [dd|]; [|discriminate].
    rewrite V2, Hvl in Hc.
    rewrite Ev, Ep, Q2, Hvs.
    destruct (v_shares v =? old - new) eqn:E; [discriminate|].
    apply Z.eqb_neq in E.
    destruct (v_shares v - (old - new) =? 0) eqn:E'; [apply Z.eqb_eq in E'; lia|].
    rewrite Z.sub_0_r. exact Hc.
Qed.
Print Assumptions unbond_partial_promotion_sound.

(** ** every delegator node of the validator that is super after the hook passes the hook's check *)
Definition Qsup (val : string) (sub : Z) (s : State) (d : string) : Prop :=
  forall n, nodes s !! d = Some n -> n_val n = "" \/ n_val n = val -> n_role n = 1 -> hook_ok s val sub d n.

Lemma Qsup_frame val sub s1 s2 d : same_staking s1 s2 -> nodes s2 !! d = nodes s1 !! d -> Qsup val sub s1 d -> Qsup val sub s2 d.
Proof.
  intros (E1 & E2 & E3 & E4) En Q n Hn Hv Hr. rewrite En in Hn. destruct (Q n Hn Hv Hr) as (H1 & H2 & H3).
  unfold hook_ok. rewrite E1, E2. rewrite (check_share_frame s1 s2) by assumption. auto.
Qed.

Lemma vs_body_cases val acc sub kv s1 s2 : vs_body val acc false sub kv s1 = Ok tt s2 ->
  (s2 = s1 /\ Qsup val sub s1 (dl_del kv.2)) \/
  (exists n, nodes s1 !! dl_del kv.2 = Some n /\ s2 = s1 <| nodes ::= <[dl_del kv.2 := n <| n_role := 0 |>]> |>) \/
  (exists n, nodes s1 !! dl_del kv.2 = Some n /\ hook_ok s1 val sub (dl_del kv.2) n /\
             s2 = s1 <| nodes ::= <[dl_del kv.2 := n <| n_role := 1 |> <| n_val := val |>]> |>).
Proof.
  match goal with |- _ -> ?g => set (G := g) end.
  unfold vs_body. cbv zeta. unfold bind at 1, get.
  destruct (nodes s1 !! dl_del kv.2) as [n|] eqn:En.
  2: { intros E; inversion E; subst s2. left. split; [reflexivity|]. intros n Hn. rewrite En in Hn. discriminate. }
  assert (Dm : (if n_role n =? 1 then set_role (dl_del kv.2) 0 None else ret tt) s1 = Ok tt s2 -> G).
  { destruct (n_role n =? 1) eqn:Er.
    - rewrite (set_role_some _ _ _ _ _ En). intros E; inversion E. right. left. exists n. split; [reflexivity|symmetry; assumption].
    - intros E; inversion E; subst s2. left. split; [reflexivity|]. intros n2 Hn2 _ Hr. rewrite En in Hn2. inversion Hn2; subst n2.
      apply Z.eqb_neq in Er. contradiction. }
  destruct (String.eqb (n_val n) "" || String.eqb (n_val n) val) eqn:Ev; simpl negb; cbv iota.
  2: { intros E; inversion E; subst s2. left. split; [reflexivity|]. intros n2 Hn2 Hv _. rewrite En in Hn2. inversion Hn2; subst n2.
       apply orb_false_iff in Ev. destruct Ev as [Ev1 Ev2]. apply String.eqb_neq in Ev1. apply String.eqb_neq in Ev2.
       destruct Hv; contradiction. }
  simpl andb. cbv iota.
  destruct (Z.land (n_status n) STATUS_SUPER_REQ =? STATUS_SUPER_REQ) eqn:Est; simpl negb; cbv iota; [|exact Dm].
  destruct (pledges s1 !! dl_del kv.2) as [p|] eqn:Ep; simpl negb; cbv iota; [|exact Dm].
  destruct (np_vthreshold (nparams s1) <=? pl_total p) eqn:Et; simpl negb; cbv iota; [|exact Dm].
  destruct (check_share s1 (dl_del kv.2) val sub) eqn:Ec; [|exact Dm].
  assert (Hok : forall n2, n_status n2 = n_status n -> hook_ok s1 val sub (dl_del kv.2) n2).
  { intros n2 Hs. split; [rewrite Hs; apply Z.eqb_eq; exact Est|]. split; [|exact Ec].
    exists p. split; [exact Ep|]. apply Z.leb_le. exact Et. }
  destruct (n_role n =? 0); cbn [negb andb].
  - rewrite (set_role_some _ _ _ _ _ En). intros E; inversion E. right. right. exists n.
    split; [reflexivity|]. split; [apply Hok; reflexivity|symmetry; assumption].
  - intros E; inversion E; subst s2. left. split; [reflexivity|]. intros n2 Hn2 _ _. rewrite En in Hn2. inversion Hn2; subst n2.
    apply Hok. reflexivity.
Qed.

Lemma vs_body_Q val acc sub kv s1 s2 : vs_body val acc false sub kv s1 = Ok tt s2 ->
  forall d, Qsup val sub s1 d \/ d = dl_del kv.2 -> Qsup val sub s2 d.
Proof.
  intros E d Hd.
  destruct (vs_body_spec val acc false sub kv s1) as (s2' & E' & [F _]). rewrite E in E'. inversion E'; subst s2'. clear E'.
  apply vs_body_cases in E.
  destruct (decide (d = dl_del kv.2)) as [->|Hne].
  - destruct E as [[-> Q]|[(n & En & ->)|(n & En & Hok & ->)]].
    + exact Q.
    + intros n2 Hn2. simpl in Hn2. rewrite lookup_insert in Hn2. inversion Hn2. simpl. discriminate.
    + intros n2 Hn2 _ _. simpl in Hn2. rewrite lookup_insert in Hn2. inversion Hn2.
      destruct Hok as (H1 & H2 & H3). split; [exact H1|]. split; assumption.
  - destruct Hd as [Q|]; [|contradiction]. eapply Qsup_frame; [exact F| |exact Q].
    destruct E as [[-> _]|[(n & En & ->)|(n & En & Hok & ->)]]; [reflexivity| |]; simpl; apply lookup_insert_ne; congruence.
Qed.

Lemma vs_loop_Q val acc sub l : forall s1 s2, forM l (vs_body val acc false sub) s1 = Ok tt s2 ->
  forall d, Qsup val sub s1 d \/ (exists kv, kv ∈ l /\ d = dl_del kv.2) -> Qsup val sub s2 d.
Proof.
  induction l as [|kv l IH]; intros s1 s2 E d Hd; simpl in E.
  - inversion E; subst s2. destruct Hd as [Q|(kv & I & _)]; [exact Q|inversion I].
  - apply bind_Ok in E. destruct E as ([] & s1' & E1 & E2).
    apply (IH s1' s2 E2 d).
    destruct Hd as [Q|(kv' & I & ->)].
    + left. eapply vs_body_Q; eauto.
    + apply elem_of_cons in I. destruct I as [->|I].
      * left. eapply vs_body_Q; eauto.
      * right. eauto.
Qed.

Lemma verify_super_Q val acc s u s' sub : verify_super val acc false s = Ok u s' -> vs_sub s val acc false = Some sub ->
  forall k x, dels s !! k = Some x -> dl_val x = val -> Qsup val sub s' (dl_del x).
Proof.
  unfold verify_super. unfold bind at 1, get. intros H Hsub k x Hk Hv. apply bind_Ok in H. destruct H as (sub' & sx & Hs & H).
  assert (Hs' : sub' = sub /\ sx = s).
  { unfold vs_sub in Hsub. destruct acc as [a|]; [|inversion Hs; inversion Hsub; subst; auto].
    destruct (pg s =? 0); [inversion Hs; inversion Hsub; subst; auto|].
    destruct (del_shares s a val) as [cur|]; [|discriminate].
    destruct (cur <? pg s); inversion Hs; inversion Hsub; subst; auto. }
  destruct Hs' as [-> ->].
  apply bind_Ok in H. destruct H as ([] & s2 & Hl & H).
  change (forM (filter (fun kv : string * Delegation => String.eqb (dl_val kv.2) val) (sorted_items (dels s)))
               (vs_body val acc false sub) s = Ok tt s2) in Hl.
  assert (Q2 : Qsup val sub s2 (dl_del x)).
  { apply (vs_loop_Q _ _ _ _ _ _ Hl). right. exists (k, x). split; [|reflexivity].
    apply elem_of_list_filter. split; [|apply elem_of_sorted_items; exact Hk].
    simpl. apply Is_true_true. apply String.eqb_eq. exact Hv. }
  unfold modify in H. inversion H. rewrite pg_zero_eq.
  eapply Qsup_frame; [| |exact Q2]; [repeat split|reflexivity].
Qed.

(* the state in which Delegate's second hook runs, and the amount it subtracts (none) *)
Lemma delegate_hook_state : forall s del val key existed amount v' d' s',
  (existed = false -> pg s = 0) ->
  staking_tx (ev_delegate del val key existed amount v' d') s = Ok tt s' ->
  dl_del d' = del -> dl_val d' = val ->
  (forall k x, dels s !! k = Some x -> dl_del x = del -> dl_val x = val -> k = key) ->
  (forall old, del_shares s del val = Some old -> old <= dl_shares d') ->
  exists s3, nodes s3 = nodes s /\ pledges s3 = pledges s /\ nparams s3 = nparams s /\
             dels s3 = <[key := d']> (dels s) /\ vals s3 = <[val := v']> (vals s) /\
             verify_super val (Some del) false s3 = Ok tt s' /\ vs_sub s3 val (Some del) false = Some 0.
Proof.
  intros s del val key existed amount v' d' s' Hpg H Hd Hv Hu Hmono.
  unfold ev_delegate in H.
  assert (G : forall s0, nodes s0 = nodes s -> pledges s0 = pledges s -> nparams s0 = nparams s -> dels s0 = dels s ->
              vals s0 = vals s -> (pg s0 = 0 \/ del_shares s del val = Some (pg s0)) ->
              staking_tx [EvBal del (- amount); EvSetVal val v'; EvSetDel key d'; EvAfterModified del val] s0 = Ok tt s' ->
              exists s3, nodes s3 = nodes s /\ pledges s3 = pledges s /\ nparams s3 = nparams s /\
                dels s3 = <[key := d']> (dels s) /\ vals s3 = <[val := v']> (vals s) /\
                verify_super val (Some del) false s3 = Ok tt s' /\ vs_sub s3 val (Some del) false = Some 0).
  { intros s0 F1 F2 F3 F4 F5 Hg H0.
    apply staking_tx_cons in H0. destruct H0 as (s1 & E1 & H0).
    apply staking_tx_cons in H0. destruct H0 as (s2 & E2 & H0).
    apply staking_tx_cons in H0. destruct H0 as (s3 & E3 & H0).
    apply staking_tx_cons in H0. destruct H0 as (s4 & E4 & H0).
    apply staking_tx_nil in H0. subst s4.
    simpl in E1, E2, E3. unfold modify in E1, E2, E3. inversion E1; subst s1; clear E1.
    inversion E2; subst s2; clear E2. inversion E3; clear E3.
    assert (N3 : nodes s3 = nodes s) by (subst s3; exact F1).
    assert (P3 : pledges s3 = pledges s) by (subst s3; exact F2).
    assert (A3 : nparams s3 = nparams s) by (subst s3; exact F3).
    assert (D3 : dels s3 = <[key := d']> (dels s)) by (subst s3; simpl; rewrite F4; reflexivity).
    assert (V3 : vals s3 = <[val := v']> (vals s)) by (subst s3; simpl; rewrite F5; reflexivity).
    assert (G3 : pg s3 = pg s0) by (subst s3; reflexivity).
    exists s3. simpl in E4. repeat (split; [assumption|]).
    unfold vs_sub. rewrite G3. destruct (pg s0 =? 0) eqn:Eg; [reflexivity|].
    destruct Hg as [Hg|Hg]; [rewrite Hg in Eg; discriminate|].
    assert (Fd : find_del s3 del val = Some d').
    { apply (find_del_unique s3 del val key d'); try assumption.
      - rewrite D3. apply lookup_insert.
      - rewrite D3. apply uniq_insert. exact Hu. }
    unfold del_shares. rewrite Fd.
    specialize (Hmono _ Hg). apply Z.ltb_ge in Hmono. rewrite Hmono. reflexivity. }
  destruct existed; simpl in H.
  - apply staking_tx_cons in H. destruct H as (s0 & E0 & H). apply ev_before_shares_Ok in E0.
    destruct E0 as (sh & Hsh & ->). apply G in H; try reflexivity; try exact H.
    right. simpl. exact Hsh.
  - apply G in H; try reflexivity; try exact H. left. apply Hpg. reflexivity.
Qed.

(* after a Delegate without residue, EVERY delegator node of the validator that declares it and is
   super satisfies the conditions in the final state (not only the nodes this transaction promoted) *)
Theorem delegate_supers_sound : forall cx s del val key existed amount v' d' s' d k x n',
  pg s = 0 -> step cx s (OStaking (ev_delegate del val key existed amount v' d')) = (s', OutTx COk d) ->
  dl_del d' = del -> dl_val d' = val ->
  (forall k x, dels s !! k = Some x -> dl_del x = del -> dl_val x = val -> k = key) ->
  (forall old, del_shares s del val = Some old -> old <= dl_shares d') ->
  dels s' !! k = Some x -> dl_val x = val ->
  nodes s' !! dl_del x = Some n' -> n_val n' = val -> n_role n' = 1 -> super_ok s' (dl_del x) n'.
Proof.
  intros cx s del val key existed amount v' d' s' d k x n' Hpg H Hd Hv Hu Hmono Hk Hxv Hn' Hnv Hr.
  apply step_staking_Ok in H.
  destruct (delegate_hook_state _ _ _ _ _ _ _ _ _ (fun _ => Hpg) H Hd Hv Hu Hmono) as (s3 & _ & _ & _ & _ & _ & E & Hsub).
  pose proof (verify_super_Ok _ _ _ _ _ _ E) as (sub' & _ & [(_ & _ & _ & Q4) _] & _).
  rewrite Q4 in Hk.
  pose proof (verify_super_Q _ _ _ _ _ _ E Hsub k x Hk Hxv n' Hn' (or_intror Hnv) Hr) as (H1 & H2 & H3).
  unfold super_ok. rewrite Hnv. auto.
Qed.
Print Assumptions delegate_supers_sound.

(** * Part 4: the order in which a Go map of shard ids is ranged over does not matter *)
Definition del_all (ids : list Z) (m : gmap Z Shard) : gmap Z Shard := fold_left (fun m id => delete id m) ids m.

Lemma del_all_perm l l' : Permutation l l' -> forall m, del_all l m = del_all l' m.
Proof.
  unfold del_all. induction 1 as [|x l l' _ IH|x y l|l l' l'' _ IH1 _ IH2]; intros m; simpl.
  - reflexivity.
  - apply IH.
  - rewrite delete_commute. reflexivity.
  - rewrite IH1. apply IH2.
Qed.

Lemma del_all_absorb x l : inZ x l = true -> forall m, del_all l (delete x m) = del_all l m.
Proof.
  unfold del_all. induction l as [|y l IH]; simpl; [discriminate|]. intros H m.
  destruct (x =? y) eqn:E; simpl in H.
  - apply Z.eqb_eq in E. subst y. rewrite delete_idemp. reflexivity.
  - rewrite delete_commute. apply IH. exact H.
Qed.

Lemma del_all_dedup l : forall m, del_all (dedupZ l) m = del_all l m.
Proof.
  induction l as [|x l IH]; intros m; simpl; [reflexivity|].
  destruct (inZ x l) eqn:E.
  - rewrite IH. change (del_all (x :: l) m) with (del_all l (delete x m)). symmetry. apply del_all_absorb. exact E.
  - change (del_all (x :: dedupZ l) m) with (del_all (dedupZ l) (delete x m)). apply IH.
Qed.

Theorem remove_shards_perm : forall l l' , Permutation l l' -> forall s, remove_shards l s = remove_shards l' s.
Proof.
  intros l l' P s. unfold remove_shards, modify.
  change (Ok tt (s <| shards := del_all l (shards s) |>) = Ok tt (s <| shards := del_all l' (shards s) |>)).
  rewrite (del_all_perm l l' P). reflexivity.
Qed.
Print Assumptions remove_shards_perm.

Theorem remove_shards_dedup : forall l s, remove_shards (dedupZ l) s = remove_shards l s.
Proof.
  intros l s. unfold remove_shards, modify.
  change (Ok tt (s <| shards := del_all (dedupZ l) (shards s) |>) = Ok tt (s <| shards := del_all l (shards s) |>)).
  rewrite del_all_dedup. reflexivity.
Qed.
Print Assumptions remove_shards_dedup.
