(* C20, the "validator change" clause: when a validator is bonded, begins unbonding or is removed, the staking module
   calls the node module's hook for that validator; after it, every delegator node of the validator that still holds
   the super role satisfies the three requirements in the committed state -- no residue is involved (the hook runs
   without an account, so nothing is subtracted from the validator's total). *)
From SaoVerif Require Import Base.Prelude Base.Ints Base.Dec Model.Did Model.Types Model.Monad Model.Bank Model.Select
     Model.Node Model.Storage Model.Sao Model.Hooks Model.App Model.Spec Proofs.HooksFacts.

Theorem val_hook_supers_sound : forall val s s' k x n',
  st_event (EvValHook val) s = Ok tt s' ->
  dels s !! k = Some x -> dl_val x = val ->
  nodes s' !! dl_del x = Some n' -> n_val n' = val -> n_role n' = 1 -> super_ok s' (dl_del x) n'.
Proof.
  intros val s s' k x n' H Hk Hxv Hn' Hnv Hr. cbn [st_event] in H.
  assert (Hsub : vs_sub s val None false = Some 0) by reflexivity.
  pose proof (verify_super_Q _ _ _ _ _ _ H Hsub k x Hk Hxv n' Hn' (or_intror Hnv) Hr) as (H1 & H2 & H3).
  unfold super_ok. rewrite Hnv. auto.
Qed.
Print Assumptions val_hook_supers_sound.

(* and it leaves no residue behind and does not touch pledges, parameters, validators or delegations *)
Theorem val_hook_frame : forall val s s', st_event (EvValHook val) s = Ok tt s' ->
  pg s' = 0 /\ pledges s' = pledges s /\ nparams s' = nparams s /\ vals s' = vals s /\ dels s' = dels s.
Proof.
  intros val s s' H. cbn [st_event] in H.
  pose proof (verify_super_Ok _ _ _ _ _ _ H) as (sub' & Hs & [(Q1 & Q2 & Q3 & Q4) _] & Hpg).
  repeat split; assumption.
Qed.
Print Assumptions val_hook_frame.
