(* C13 -- referential integrity of orders, shards and data models.

   Part 1: the alias table ([Inv_alias]) is an invariant of every step, without hypotheses.
   Part 2: monitors reflect the invariants (used for the examples and the witnesses).
   Part 3: order <-> shard links and the release schedule, per handler.
   Part 4: the combined theorem, runs, non-vacuity, refutations. *)
From SaoVerif Require Import Base.Prelude Base.Ints Base.Dec Model.Did Model.Types Model.Monad Model.Bank Model.Select
     Model.Node Model.Storage Model.Sao Model.Hooks Model.App Model.Spec Model.Inv Model.Monitors
     Proofs.SelectFacts Proofs.Frame.
From RecordUpdate Require Import RecordUpdate.
Import RecordSetNotations.

(** * Part 1: one alias per data model *)
Definition mm (s : State) := (metas s, models s).

Definition Ral (s s' : State) : Prop := Inv_alias s -> Inv_alias s'.
Global Instance Ral_preorder : PreOrder Ral.
Proof. split; [intros s H; exact H|intros a b c H1 H2 H; apply H2, H1, H]. Qed.

Lemma alias_frame s s' : mm s' = mm s -> Inv_alias s -> Inv_alias s'.
Proof. intros E. injection E as E1 E2. unfold Inv_alias. rewrite E1, E2. auto. Qed.

Lemma Ral_frame s s' : mm s' = mm s -> Ral s s'.
Proof. intros E H. eapply alias_frame; eassumption. Qed.

Lemma alias_upd s s' d m m' :
  Inv_alias s -> metas s !! d = Some m -> meta_key m' = meta_key m ->
  metas s' = <[d := m']> (metas s) -> models s' = models s -> Inv_alias s'.
Proof.
  intros [H1 H2] Em Ek E1 E2. unfold Inv_alias. rewrite E1, E2. split.
  - intros d0 m0 H. apply lookup_insert_Some in H. destruct H as [[<- <-]|[Hne H]].
    + rewrite Ek. apply H1, Em.
    + apply H1, H.
  - intros k d0 H. destruct (H2 k d0 H) as (m0 & Hm0 & Hk).
    destruct (decide (d = d0)) as [<-|Hne].
    + exists m'. rewrite lookup_insert. split; [reflexivity|]. rewrite Em in Hm0. injection Hm0 as <-. congruence.
    + exists m0. rewrite lookup_insert_ne by exact Hne. auto.
Qed.

Lemma alias_del s s' d m :
  Inv_alias s -> metas s !! d = Some m ->
  metas s' = delete d (metas s) -> models s' = delete (meta_key m) (models s) -> Inv_alias s'.
Proof.
  intros [H1 H2] Em E1 E2. unfold Inv_alias. rewrite E1, E2. split.
  - intros d0 m0 H. apply lookup_delete_Some in H. destruct H as [Hne H].
    rewrite lookup_delete_ne; [apply H1, H|].
    intros Ek. pose proof (H1 _ _ Em) as Ha. pose proof (H1 _ _ H) as Hb. rewrite <- Ek in Hb. congruence.
  - intros k d0 H. apply lookup_delete_Some in H. destruct H as [Hne H].
    destruct (H2 k d0 H) as (m0 & Hm0 & Hk). exists m0. split; [|exact Hk].
    rewrite lookup_delete_ne; [exact Hm0|]. intros <-. rewrite Em in Hm0. injection Hm0 as <-. congruence.
Qed.

Lemma alias_new s s' d m :
  Inv_alias s -> metas s !! d = None -> models s !! meta_key m = None ->
  metas s' = <[d := m]> (metas s) -> models s' = <[meta_key m := d]> (models s) -> Inv_alias s'.
Proof.
  intros [H1 H2] Em Ek E1 E2. unfold Inv_alias. rewrite E1, E2. split.
  - intros d0 m0 H. apply lookup_insert_Some in H. destruct H as [[<- <-]|[Hne H]].
    + apply lookup_insert.
    + rewrite lookup_insert_ne; [apply H1, H|]. intros Ek'. pose proof (H1 _ _ H) as Hb. rewrite <- Ek' in Hb. congruence.
  - intros k d0 H. apply lookup_insert_Some in H. destruct H as [[<- <-]|[Hne H]].
    + exists m. rewrite lookup_insert. auto.
    + destruct (H2 k d0 H) as (m0 & Hm0 & Hk). exists m0. split; [|exact Hk].
      rewrite lookup_insert_ne; [exact Hm0|]. intros <-. congruence.
Qed.

(* side condition of a [modify] that leaves both tables alone *)
Ltac al_side := first [ apply Ral_frame; reflexivity | intros ?HI; exact HI ].

Ltac al_step :=
  lazymatch goal with
  | |- mok _ _ (bind _ _) => apply mok_bind; try exact _; [ | intros ?]
  | |- mok _ _ (ret _) => apply mok_ret; try exact _
  | |- mok _ _ (fail _) => apply mok_fail; try exact _
  | |- mok _ _ (panic _) => apply mok_panic
  | |- mok _ _ get => apply mok_get; try exact _
  | |- mok _ _ (gets _) => apply mok_gets; try exact _
  | |- mok _ _ (modify _) => apply mok_modify; intros ?; al_side
  | |- mok _ _ (try_ _) => apply mok_try
  | |- mok _ _ (forM _ _) => apply mok_forM; try exact _; intros ?
  | |- mok _ _ (let _ := _ in _) => cbv zeta
  | |- mok _ _ (match ?x with _ => _ end) => first [is_var x; destruct x | destruct x eqn:?]
  | |- mok _ _ _ => solve [auto with mok]
  end.
Ltac al_tac := repeat al_step.

Ltac al_loop :=
  lazymatch goal with
  | |- mok ?R ?h (?F ?l ?a) =>
      let HF := fresh "HF" in
      assert (HF : forall l' a', mok R h (F l' a'));
      [ let ll := fresh "ll" in let x := fresh "x" in let IH := fresh "IH" in
        intros ll; induction ll as [|x ll IH]; intros ?; fix_unfold
      | apply HF ]
  end.

(* outcome of a sub-computation that keeps [mm] *)
Lemma mm_run {A} (m : M A) s : mok (eqon mm) true m ->
  match m s with Ok _ s' => mm s' = mm s | Err _ s' => mm s' = mm s | _ => True end.
Proof. intros H. specialize (H s). destruct (m s); auto. Qed.

Section Alias.
  Context (cx : Ctx).
  Local Notation h := true.
  Local Notation R := Ral.
  Local Notation K := (eqon mm).

  (** the leaves: nothing written to the two tables *)
  Lemma send_strict_al f t a : mok R h (send_strict f t a).
  Proof.
    intros s. unfold send_strict. destruct (a <=? 0); [reflexivity|].
    destruct (balance s f <? a); [reflexivity|]. apply Ral_frame. reflexivity.
  Qed.
  Hint Resolve send_strict_al : mok.
  Lemma send_lenient_al f t a : mok R h (send_lenient f t a).
  Proof. intros s. unfold send_lenient. destruct (a =? 0); [reflexivity|]. apply send_strict_al. Qed.
  Hint Resolve send_lenient_al : mok.
  Lemma coin_sub_al a b : mok R h (coin_sub a b).
  Proof. unfold coin_sub. al_tac. Qed.
  Hint Resolve coin_sub_al : mok.
  Lemma reward_age_al p : mok R h (reward_age p).
  Proof. unfold reward_age. al_tac. Qed.
  Hint Resolve reward_age_al : mok.
  Lemma end_block_node_al : mok R h (end_block_node cx).
  Proof. unfold end_block_node, do_penalty. al_tac. Qed.
  Lemma node_create_al c : mok R h (node_create cx c).
  Proof. unfold node_create. al_tac. Qed.
  Lemma node_reset_al m : mok R h (node_reset cx m).
  Proof. unfold node_reset. al_tac. Qed.
  Lemma add_vstorage_al c sz : mok R h (add_vstorage c sz).
  Proof. unfold add_vstorage. al_tac. Qed.
  Lemma remove_vstorage_al c sz : mok R h (remove_vstorage c sz).
  Proof. unfold remove_vstorage. al_tac. Qed.
  Lemma repay_debt_al sp rw : mok R h (repay_debt sp rw).
  Proof. unfold repay_debt. al_tac. Qed.
  Hint Resolve repay_debt_al : mok.
  Lemma shard_pledge_al id sh price : mok R h (shard_pledge id sh price).
  Proof. unfold shard_pledge. al_tac. Qed.
  Hint Resolve shard_pledge_al : mok.
  Lemma shard_release_al sp sh : mok R h (shard_release sp sh).
  Proof. unfold shard_release. al_tac. Qed.
  Hint Resolve shard_release_al : mok.
  Lemma market_claim_al sp : mok R h (market_claim cx sp).
  Proof. unfold market_claim. al_tac. Qed.
  Hint Resolve market_claim_al : mok.
  Lemma claim_reward_al c : mok R h (claim_reward cx c).
  Proof. unfold claim_reward. al_tac. Qed.
  Lemma increase_reputation_al n v : mok R h (increase_reputation n v).
  Proof. unfold increase_reputation. al_tac. Qed.
  Hint Resolve increase_reputation_al : mok.
  Lemma random_sp_m_al count ignore size : mok R h (random_sp_m cx count ignore size).
  Proof.
    unfold random_sp_m. al_step; [al_step|].
    destruct (random_sp _ _ _ _ _ _ _) as [[sps r]| |] eqn:E; al_tac. intros s. exact eq_refl.
  Qed.
  Hint Resolve random_sp_m_al : mok.
  Lemma send_to_did_balances_al md d amt : mok R h (send_to_did_balances md d amt).
  Proof. intros s. unfold send_to_did_balances. destruct (amt =? 0); [cbn; reflexivity|]. exact I. Qed.
  Hint Resolve send_to_did_balances_al : mok.
  Lemma worker_release_al o sh : mok R h (worker_release cx o sh).
  Proof. unfold worker_release. al_tac. Qed.
  Hint Resolve worker_release_al : mok.
  Lemma worker_append_al o sh : mok R h (worker_append cx o sh).
  Proof. unfold worker_append. al_tac. Qed.
  Hint Resolve worker_append_al : mok.
  Lemma market_deposit_al o : mok R h (market_deposit o).
  Proof. unfold market_deposit. al_tac. Qed.
  Hint Resolve market_deposit_al : mok.
  Lemma market_withdraw_al oid o : mok R h (market_withdraw cx oid o).
  Proof. unfold market_withdraw. al_tac. al_loop; al_tac. Qed.
  Hint Resolve market_withdraw_al : mok.
  Lemma append_order_al o : mok R h (append_order o).
  Proof. unfold append_order. al_tac. Qed.
  Hint Resolve append_order_al : mok.
  Lemma append_shard_al sh : mok R h (append_shard sh).
  Proof. unfold append_shard. al_tac. Qed.
  Hint Resolve append_shard_al : mok.
  Lemma new_shard_task_al oid o p : mok R h (new_shard_task oid o p).
  Proof. unfold new_shard_task. al_tac. Qed.
  Hint Resolve new_shard_task_al : mok.
  Lemma gen_shards_al oid sps : forall o, mok R h (gen_shards oid o sps).
  Proof. induction sps as [|sp sps IH]; intros o; cbn [gen_shards]; al_tac. Qed.
  Hint Resolve gen_shards_al : mok.
  Lemma generate_shards_al oid o sps : mok R h (generate_shards oid o sps).
  Proof. unfold generate_shards. al_tac. Qed.
  Hint Resolve generate_shards_al : mok.
  Lemma new_order_al o sps : mok R h (new_order cx o sps).
  Proof. unfold new_order. al_tac. Qed.
  Hint Resolve new_order_al : mok.
  Lemma renew_order_al o : mok R h (renew_order o).
  Proof. unfold renew_order. al_tac. Qed.
  Hint Resolve renew_order_al : mok.
  Lemma order_terminate_al oid refund : mok R h (order_terminate oid refund).
  Proof. unfold order_terminate. al_tac. Qed.
  Hint Resolve order_terminate_al : mok.
  Lemma refund_order_al oid : mok R h (refund_order oid).
  Proof. unfold refund_order. al_tac. Qed.
  Hint Resolve refund_order_al : mok.
  Lemma set_data_expire_al d a : mok R h (set_data_expire d a).
  Proof. unfold set_data_expire. al_tac. Qed.
  Hint Resolve set_data_expire_al : mok.
  Lemma remove_data_expire_al d a : mok R h (remove_data_expire d a).
  Proof. unfold remove_data_expire. al_tac. Qed.
  Hint Resolve remove_data_expire_al : mok.
  Lemma reset_meta_duration_al d m : mok R h (reset_meta_duration cx d m).
  Proof. unfold reset_meta_duration. al_tac. Qed.
  Hint Resolve reset_meta_duration_al : mok.
  Lemma model_terminate_order_al oid o : mok R h (model_terminate_order cx oid o).
  Proof. unfold model_terminate_order. al_tac. Qed.
  Hint Resolve model_terminate_order_al : mok.
  Lemma remove_shards_al ids : mok R h (remove_shards ids).
  Proof. unfold remove_shards. al_tac. Qed.
  Hint Resolve remove_shards_al : mok.
  Lemma force_push_loop_al lc ro : forall acc, mok R h (force_push_loop cx ro lc acc).
  Proof. induction ro as [|oid ro IH]; intros acc; cbn [force_push_loop]; al_tac. Qed.
  Hint Resolve force_push_loop_al : mok.
  Lemma set_timeout_block_al oid a : mok R h (set_timeout_block oid a).
  Proof. unfold set_timeout_block. al_tac. Qed.
  Hint Resolve set_timeout_block_al : mok.
  Lemma set_expired_shard_block_al sid a : mok R h (set_expired_shard_block sid a).
  Proof. unfold set_expired_shard_block. al_tac. Qed.
  Hint Resolve set_expired_shard_block_al : mok.
  Lemma get_sps_al o d : mok R h (get_sps cx o d).
  Proof. unfold get_sps. al_tac. Qed.
  Hint Resolve get_sps_al : mok.

  (** the same leaves keep the two tables literally (needed between a lookup and the write that follows it) *)
  Ltac mok_side ::= first [ reflexivity | progress (unfold eqon); first [reflexivity | cbn; reflexivity] ].
  Lemma remove_data_expire_mm d a : mok K h (remove_data_expire d a).
  Proof. unfold remove_data_expire. mok_tac. Qed.
  Lemma set_data_expire_mm d a : mok K h (set_data_expire d a).
  Proof. unfold set_data_expire. mok_tac. Qed.
  Hint Resolve remove_data_expire_mm set_data_expire_mm : mok.
  Lemma reset_meta_duration_mm d m : mok K h (reset_meta_duration cx d m).
  Proof. unfold reset_meta_duration. mok_tac. Qed.
  Lemma send_strict_mm f t a : mok K h (send_strict f t a).
  Proof.
    intros s. unfold send_strict. destruct (a <=? 0); [reflexivity|].
    destruct (balance s f <? a); [reflexivity|]. reflexivity.
  Qed.
  Hint Resolve send_strict_mm : mok.
  Lemma send_to_did_balances_mm md d amt : mok K h (send_to_did_balances md d amt).
  Proof. intros s. unfold send_to_did_balances. destruct (amt =? 0); [cbn; reflexivity|]. exact I. Qed.
  Hint Resolve send_to_did_balances_mm : mok.
  Lemma coin_sub_mm a b : mok K h (coin_sub a b).
  Proof. unfold coin_sub. mok_tac. Qed.
  Hint Resolve coin_sub_mm : mok.
  Lemma repay_debt_mm sp rw : mok K h (repay_debt sp rw).
  Proof. unfold repay_debt. mok_tac. Qed.
  Hint Resolve repay_debt_mm : mok.
  Lemma shard_release_mm sp sh : mok K h (shard_release sp sh).
  Proof. unfold shard_release. mok_tac. Qed.
  Hint Resolve shard_release_mm : mok.
  Lemma worker_release_mm o sh : mok K h (worker_release cx o sh).
  Proof. unfold worker_release. mok_tac. Qed.
  Hint Resolve worker_release_mm : mok.
  Lemma market_withdraw_mm oid o : mok K h (market_withdraw cx oid o).
  Proof. unfold market_withdraw. mok_tac. mok_loop; mok_tac. Qed.
  Hint Resolve market_withdraw_mm : mok.
  Lemma order_terminate_mm oid refund : mok K h (order_terminate oid refund).
  Proof. unfold order_terminate. mok_tac. Qed.
  Hint Resolve order_terminate_mm : mok.
  Lemma model_terminate_order_mm oid o : mok K h (model_terminate_order cx oid o).
  Proof. unfold model_terminate_order. mok_tac. Qed.
  Hint Resolve model_terminate_order_mm : mok.
  Lemma remove_shards_mm ids : mok K h (remove_shards ids).
  Proof. unfold remove_shards. mok_tac. Qed.
  Hint Resolve remove_shards_mm : mok.
  Lemma force_push_loop_mm lc ro : forall acc, mok K h (force_push_loop cx ro lc acc).
  Proof. induction ro as [|oid ro IH]; intros acc; cbn [force_push_loop]; mok_tac. Qed.

  (** the writers of the two tables *)
  Lemma new_meta_al o d m : mok R h (new_meta cx o d m).
  Proof.
    intros s. unfold new_meta, bind, get.
    destruct (negb _); [cbn; reflexivity|].
    destruct (bool_decide (is_Some (metas s !! d))) eqn:E1; [cbn; reflexivity|].
    destruct (bool_decide (is_Some (models s !! meta_key m))) eqn:E2; [cbn; reflexivity|].
    apply bool_decide_eq_false in E1. apply bool_decide_eq_false in E2.
    apply eq_None_not_Some in E1. apply eq_None_not_Some in E2.
    cbn. intros HI. eapply (alias_new s _ d m HI E1 E2); reflexivity.
  Qed.
  Hint Resolve new_meta_al : mok.

  Lemma extend_meta_duration_al d e : mok R h (extend_meta_duration d e).
  Proof.
    intros s. unfold extend_meta_duration, bind, get.
    destruct (metas s !! d) as [m|] eqn:Em; [|cbn; reflexivity].
    destruct (m_duration m <? _); [|cbn; reflexivity].
    pose proof (mm_run (remove_data_expire d (u64 (m_created m + m_duration m))) s (remove_data_expire_mm _ _)) as H1.
    destruct (remove_data_expire _ _ s) as [a s1|e1 s1|e1|]; try (first [exact I|exact eq_refl]); [|apply Ral_frame, H1].
    cbn. injection H1 as H1a H1b. intros HI.
    eapply (alias_upd s _ d m _ HI Em); [|cbn; rewrite H1a; reflexivity|cbn; exact H1b]. reflexivity.
  Qed.
  Hint Resolve extend_meta_duration_al : mok.

  Lemma delete_meta_al d : mok R h (delete_meta d).
  Proof.
    intros s. unfold delete_meta, bind, get.
    destruct (metas s !! d) as [m|] eqn:Em; [|cbn; reflexivity].
    cbn [modify].
    assert (HI : Ral s (s <| metas ::= delete d |> <| models ::= delete (meta_key m) |>)).
    { intros HI. eapply (alias_del s _ d m HI Em); reflexivity. }
    pose proof (mm_run (remove_data_expire d (u64 (m_created m + m_duration m)))
                  (s <| metas ::= delete d |> <| models ::= delete (meta_key m) |>) (remove_data_expire_mm _ _)) as H1.
    destruct (remove_data_expire _ _ _) as [a s1|e1 s1|e1|]; try (first [exact I|exact eq_refl]);
      (etransitivity; [exact HI|apply Ral_frame, H1]).
  Qed.
  Hint Resolve delete_meta_al : mok.

  Lemma update_permission_al ow d ro rw : mok R h (update_permission ow d ro rw).
  Proof.
    intros s. unfold update_permission, bind, get.
    destruct (metas s !! d) as [m|] eqn:Em; [|cbn; reflexivity].
    destruct (negb _); [cbn; reflexivity|]. cbn. intros HI.
    eapply (alias_upd s _ d m _ HI Em); [|reflexivity|reflexivity]. reflexivity.
  Qed.
  Hint Resolve update_permission_al : mok.

  Lemma update_meta_status_commit_al oid o : mok R h (update_meta_status_commit cx oid o).
  Proof.
    intros s. unfold update_meta_status_commit, bind, get.
    destruct (metas s !! o_data o) as [m|] eqn:Em; [|cbn; reflexivity].
    destruct (negb _); [cbn; reflexivity|].
    destruct (_ <? cx_height cx); [cbn; reflexivity|].
    destruct (_ <? _).
    - pose proof (mm_run (remove_data_expire (o_data o) (u64 (m_created m + m_duration m))) s (remove_data_expire_mm _ _)) as H1.
      destruct (remove_data_expire _ _ s) as [a s1|e1 s1|e1|]; try (first [exact I|exact eq_refl]); [|apply Ral_frame, H1].
      cbn. injection H1 as H1a H1b. intros HI.
      eapply (alias_upd s _ (o_data o) m _ HI Em); [|cbn; rewrite H1a; reflexivity|cbn; exact H1b]. reflexivity.
    - cbn. intros HI. eapply (alias_upd s _ (o_data o) m _ HI Em); [|reflexivity|reflexivity]. reflexivity.
  Qed.
  Hint Resolve update_meta_status_commit_al : mok.

  Lemma rollback_meta_al d : mok R h (rollback_meta cx d).
  Proof.
    intros s. unfold rollback_meta, bind, get.
    destruct (metas s !! d) as [m|] eqn:Em; [|cbn; reflexivity].
    destruct (last_opt (m_commits m)) as [lastv|].
    - destruct (last_opt (m_orders m)) as [lo|]; [|first [exact I|exact eq_refl]].
      match goal with |- context [reset_meta_duration cx d ?m1 s] =>
        pose proof (mm_run (reset_meta_duration cx d m1) s (reset_meta_duration_mm _ _)) as H1;
        assert (Hk : forall s2 m2, reset_meta_duration cx d m1 s = Ok m2 s2 -> meta_key m2 = meta_key m);
        [|destruct (reset_meta_duration cx d m1 s) as [m2 s1|e1 s1|e1|] eqn:Er; try (first [exact I|exact eq_refl]); [|apply Ral_frame, H1]]
      end.
      + intros s2 m2. unfold reset_meta_duration, bind, get.
        destruct (_ =? _); [cbn; intros E; injection E as <- _; reflexivity|].
        destruct (remove_data_expire _ _ s) as [a sa|ea sa|ea|]; try discriminate.
        cbn. intros E; injection E as <- _; reflexivity.
      + cbn. injection H1 as H1a H1b. intros HI.
        eapply (alias_upd s _ d m m2 HI Em); [eapply Hk; reflexivity|cbn; rewrite H1a; reflexivity|cbn; exact H1b].
    - cbn [modify].
      assert (HI : Ral s (s <| metas ::= delete d |> <| models ::= delete (meta_key m) |>)).
      { intros HI. eapply (alias_del s _ d m HI Em); reflexivity. }
      pose proof (mm_run (remove_data_expire d (u64 (m_created m + m_duration m)))
                    (s <| metas ::= delete d |> <| models ::= delete (meta_key m) |>) (remove_data_expire_mm _ _)) as H1.
      destruct (remove_data_expire _ _ _) as [a s1|e1 s1|e1|]; try (first [exact I|exact eq_refl]);
        (etransitivity; [exact HI|apply Ral_frame, H1]).
  Qed.
  Hint Resolve rollback_meta_al : mok.

  (* a computation of a metadata record that keeps the tables and the record's key *)
  Definition mk (k : string) (m : M Meta) : Prop :=
    forall s, match m s with
              | Ok m' s' => mm s' = mm s /\ meta_key m' = k
              | Err _ s' => mm s' = mm s
              | _ => True end.
  Lemma mk_ret k m : meta_key m = k -> mk k (ret m).
  Proof. intros E s. cbn. auto. Qed.
  Lemma mk_fail k e : mk k (fail e).
  Proof. intros s. cbn. reflexivity. Qed.
  Lemma mk_panic k e : mk k (panic e).
  Proof. intros s. exact I. Qed.
  Lemma mk_bind {A} k (m : M A) (f : A -> M Meta) : mok K h m -> (forall a, mk k (f a)) -> mk k (bind m f).
  Proof.
    intros Hm Hf s. unfold bind. specialize (Hm s). destruct (m s) as [a s1|e s1|e|]; auto.
    specialize (Hf a s1). unfold eqon in Hm. destruct (f a s1) as [m' s2|e s2|e|]; auto.
    - destruct Hf as [Hf1 Hf2]. split; [congruence|exact Hf2].
    - congruence.
  Qed.
  Lemma mk_conv k k' m : mk k m -> k = k' -> mk k' m.
  Proof. intros H <-. exact H. Qed.
  Lemma reset_meta_duration_mk d m1 : mk (meta_key m1) (reset_meta_duration cx d m1).
  Proof.
    intros s. pose proof (mm_run (reset_meta_duration cx d m1) s (reset_meta_duration_mm _ _)) as H1.
    destruct (reset_meta_duration cx d m1 s) as [m2 s2|e s2|e|] eqn:Er; auto. split; [exact H1|].
    revert Er. unfold reset_meta_duration, bind, get.
    destruct (_ =? _); [cbn; intros E; injection E as <- _; reflexivity|].
    destruct (remove_data_expire _ _ s) as [a sa|ea sa|ea|]; try discriminate.
    cbn. intros E; injection E as <- _; reflexivity.
  Qed.

  Lemma upd_tail (inner : M Meta) (g : Meta -> Meta) d m s :
    mk (meta_key m) inner -> (forall x, meta_key (g x) = meta_key x) -> metas s !! d = Some m ->
    match bind inner (fun m' => modify (fun s0 => s0 <| metas ::= <[d := g m']> |>)) s with
    | Ok _ s' => Ral s s' | Err _ s' => Ral s s' | Panic _ => True | Hang => true = true end.
  Proof.
    intros Hi Hg Em. unfold bind. specialize (Hi s). destruct (inner s) as [m' s1|e s1|e|]; auto.
    - destruct Hi as [H1 Hk]. injection H1 as H1a H1b. cbn. intros HI.
      eapply (alias_upd s _ d m (g m') HI Em); [rewrite Hg; exact Hk|cbn; rewrite H1a; reflexivity|cbn; exact H1b].
    - apply Ral_frame, Hi.
  Qed.

  Lemma update_meta_al oid o : mok R h (update_meta cx oid o).
  Proof.
    intros s. unfold update_meta. unfold bind at 1. unfold get.
    destruct (negb (Nat.eqb _ _)); [cbn; reflexivity|].
    destruct (metas s !! o_data o) as [m|] eqn:Em; [|cbn; reflexivity].
    destruct (negb (may_update _ _)); [cbn; reflexivity|].
    apply (upd_tail _ (fun m' => m' <| m_status := MetaComplete |>) (o_data o) m s); [|reflexivity|exact Em].
    destruct (o_op o =? 1); [apply mk_ret; reflexivity|].
    destruct (o_op o =? 2).
    - destruct (last_opt (m_commits m)) as [lastv|]; [|apply mk_panic].
      apply mk_bind; [apply force_push_loop_mm|]. intros [rev_left sids].
      apply mk_bind; [apply remove_shards_mm|]. intros _.
      eapply mk_conv; [apply reset_meta_duration_mk|reflexivity].
    - destruct (o_op o =? 3); [apply mk_ret; reflexivity|apply mk_fail].
  Qed.
  Hint Resolve update_meta_al : mok.

  Lemma cancel_order_al oid : mok R h (cancel_order cx oid).
  Proof. unfold cancel_order. al_tac. Qed.
  Hint Resolve cancel_order_al : mok.
  Lemma end_block_model_al : mok R h (end_block_model cx).
  Proof. unfold end_block_model. al_tac. Qed.

  (** the message handlers and the end-blocker of x/sao *)
  Lemma sao_store_al m : mok R h (sao_store cx m).
  Proof. unfold sao_store. al_tac. Qed.
  Lemma sao_ready_al c p oid : mok R h (sao_ready cx c p oid).
  Proof. unfold sao_ready. al_tac. Qed.
  Lemma complete_migration_al oid o sid sh : mok R h (complete_migration cx oid o sid sh).
  Proof. unfold complete_migration. al_tac. Qed.
  Hint Resolve complete_migration_al : mok.
  Lemma sao_complete_al c p oid cid sz ok : mok R h (sao_complete cx c p oid cid sz ok).
  Proof. unfold sao_complete. al_tac. Qed.
  Lemma sao_cancel_al c p oid : mok R h (sao_cancel cx c p oid).
  Proof. unfold sao_cancel. al_tac. Qed.
  Lemma renew_one_al m sd d : mok R h (renew_one cx m sd d).
  Proof. unfold renew_one. al_tac. al_loop; al_tac. Qed.
  Hint Resolve renew_one_al : mok.
  Lemma sao_renew_al m : mok R h (sao_renew cx m).
  Proof. unfold sao_renew. al_tac. Qed.
  Lemma sao_terminate_al c p ow d sg : mok R h (sao_terminate cx c p ow d sg).
  Proof. unfold sao_terminate. al_tac. al_loop; al_tac. Qed.
  Lemma migrate_one_al p d : mok R h (migrate_one cx p d).
  Proof. unfold migrate_one. al_tac. al_loop; al_tac. Qed.
  Hint Resolve migrate_one_al : mok.
  Lemma sao_migrate_al c p d : mok R h (sao_migrate cx c p d).
  Proof. unfold sao_migrate. al_tac. Qed.
  Lemma sao_update_permission_al c p ow d ro rw sg v : mok R h (sao_update_permission cx c p ow d ro rw sg v).
  Proof. unfold sao_update_permission. al_tac. Qed.
  Lemma handle_timeout_order_al oid : mok R h (handle_timeout_order cx oid).
  Proof. unfold handle_timeout_order. al_tac. all: try (al_loop; al_tac). Qed.
  Hint Resolve handle_timeout_order_al : mok.
  Lemma handle_expired_shard_al sid : mok R h (handle_expired_shard cx sid).
  Proof. unfold handle_expired_shard. al_tac. Qed.
  Hint Resolve handle_expired_shard_al : mok.
  Lemma end_block_sao_al : mok R h (end_block_sao cx).
  Proof. unfold end_block_sao. al_tac. Qed.

  (** the handlers outside the storage modules: their frames contain both tables *)
  Lemma mok_mm_of {T A} (f : State -> T) (m : M A) :
    (forall s s', f s' = f s -> mm s' = mm s) -> mok (eqon f) h m -> mok R h m.
  Proof. intros Hf. apply mok_weaken; [|auto]. intros s s' E. apply Ral_frame, Hf, E. Qed.

  Lemma end_block_al evs : mok R h (end_block cx evs).
  Proof.
    unfold end_block.
    apply mok_bind; try exact _; [eapply mok_mm_of; [|apply (staking_tx_ok true)]; intros s s' E; injection E; intros; unfold mm; congruence|intros _].
    apply mok_bind; try exact _; [apply end_block_sao_al|intros _].
    apply mok_bind; try exact _; [apply end_block_node_al|intros _; apply end_block_model_al].
  Qed.

  Lemma tx_al op m : tx_of cx op = Some m -> mok R h m.
  Proof.
    intros E. destruct op; try discriminate E; cbn [tx_of] in E; injection E as <-.
    - eapply mok_mm_of; [|apply (lift_did_ok cx o true)]. intros s s' E; injection E; intros; unfold mm; congruence.
    - apply node_create_al.
    - apply node_reset_al.
    - apply add_vstorage_al.
    - apply remove_vstorage_al.
    - apply mok_bind; try exact _; [apply claim_reward_al|intros; apply mok_ret; exact _].
    - apply sao_store_al.
    - apply sao_ready_al.
    - apply sao_complete_al.
    - apply sao_cancel_al.
    - apply sao_renew_al.
    - apply sao_terminate_al.
    - apply sao_migrate_al.
    - apply sao_update_permission_al.
    - eapply mok_mm_of; [|apply (sao_report_faults_ok cx true)]. intros s s' E; injection E; intros; unfold mm; congruence.
    - eapply mok_mm_of; [|apply (sao_recover_faults_ok cx true)]. intros s s' E; injection E; intros; unfold mm; congruence.
    - apply send_strict_al.
    - eapply mok_mm_of; [|apply (staking_tx_ok true)]. intros s s' E; injection E; intros; unfold mm; congruence.
  Qed.
End Alias.

Theorem step_alias : forall cx s op, Inv_alias s -> Inv_alias (fst (step cx s op)).
Proof.
  intros cx s op. apply (step_rel Ral (fun _ => True) cx); auto.
  - intros s0 s' _ HI. eapply alias_frame; [|exact HI]. reflexivity.
  - intros evs _ s0 p HI. eapply alias_frame; [|exact HI]. reflexivity.
  - intros _. eapply mok_mm_of; [|apply (begin_block_ok cx true)]. intros s0 s' E; injection E; intros; unfold mm; congruence.
  - intros evs _. apply end_block_al.
  - intros op' m _ E. eapply tx_al, E.
Qed.
Print Assumptions step_alias.

Theorem run_alias : forall tr s, Inv_alias s -> Inv_alias (run tr s).
Proof.
  induction tr as [|[cx op] tr IH]; intros s H; [exact H|].
  unfold run. cbn [fold_left]. apply IH. cbn [fst snd]. apply step_alias, H.
Qed.
Print Assumptions run_alias.

(** * Part 2: what the three order/shard clauses depend on *)
(* the fields of a shard the clauses read *)
Definition key4 (sh : Shard) : Z * Z * Z * Z := (sh_order sh, sh_status sh, sh_created sh, sh_duration sh).
(* the tables read and written by the handlers of orders and shards *)
Definition rf (s : State) := (orders s, order_count s, shards s, shard_count s, expshards s).
(* the projection the clauses are functions of *)
Definition rk (s : State) := (orders s, key4 <$> shards s, expshards s).

Definition Inv_osc (s : State) : Prop :=
  Inv_order_shards s /\ Inv_shard_order s /\ Inv_completed_scheduled s.

Lemma Inv_ref_split s : Inv_ref s <-> Inv_alias s /\ Inv_osc s.
Proof. unfold Inv_ref, Inv_osc. tauto. Qed.

Lemma rf_rk s s' : rf s' = rf s -> rk s' = rk s.
Proof. intros E. injection E as E1 _ E3 _ E5. unfold rk. rewrite E1, E3, E5. reflexivity. Qed.

Lemma key4_lookup s s' id sh' :
  key4 <$> shards s' = key4 <$> shards s -> shards s' !! id = Some sh' ->
  exists sh, shards s !! id = Some sh /\ key4 sh = key4 sh'.
Proof.
  intros E H. assert (G : (key4 <$> shards s) !! id = Some (key4 sh')) by (rewrite <- E, lookup_fmap, H; reflexivity).
  rewrite lookup_fmap in G. destruct (shards s !! id) as [sh|] eqn:Hs; [|discriminate G].
  cbn in G. exists sh. split; [reflexivity|congruence].
Qed.

Lemma key4_is_Some s s' id :
  key4 <$> shards s' = key4 <$> shards s -> is_Some (shards s !! id) -> is_Some (shards s' !! id).
Proof.
  intros E [sh H]. assert (G : (key4 <$> shards s') !! id = Some (key4 sh)) by (rewrite E, lookup_fmap, H; reflexivity).
  rewrite lookup_fmap in G. destruct (shards s' !! id) as [sh'|]; [eexists; reflexivity|discriminate G].
Qed.

Lemma osc_frame s s' : rk s' = rk s -> Inv_osc s -> Inv_osc s'.
Proof.
  intros E (H1 & H2 & H3). injection E as E1 E2 E3. unfold Inv_osc, Inv_order_shards, Inv_shard_order, Inv_completed_scheduled.
  rewrite E1, E3. split; [|split].
  - intros oid o Ho. destruct (H1 oid o Ho) as [Hn He]. split; [exact Hn|].
    intros id Hid. eapply key4_is_Some; [exact E2|apply He, Hid].
  - intros id sh' Hs. destruct (key4_lookup s s' id sh' E2 Hs) as (sh & Hsh & Hk). injection Hk as Hk1 _ _ _.
    rewrite <- Hk1. apply (H2 id sh Hsh).
  - intros id sh' Hs Hst. destruct (key4_lookup s s' id sh' E2 Hs) as (sh & Hsh & Hk). injection Hk as _ Hk2 Hk3 Hk4.
    rewrite <- Hk3, <- Hk4. apply (H3 id sh Hsh). congruence.
Qed.

(** ** the operations that touch none of the three tables *)
Definition frame_op (op : Op) : bool :=
  match op with
  | OBeginBlock | ODid _ | ONodeCreate _ | ONodeReset _ | OAddVstorage _ _ | ORemoveVstorage _ _ | OClaimReward _
  | OUpdatePermission _ _ _ _ _ _ _ _ | OReportFaults _ _ _ | ORecoverFaults _ _ _ | OSend _ _ _ | OStaking _ | OSimulate _ => true
  | _ => false
  end.

Ltac rf_side := first [ reflexivity | progress (unfold eqon); first [reflexivity | cbn; reflexivity] ].
Ltac rf_step :=
  lazymatch goal with
  | |- mok _ _ (bind _ _) => apply mok_bind; try exact _; [ | intros ?]
  | |- mok _ _ (ret _) => apply mok_ret; try exact _
  | |- mok _ _ (fail _) => apply mok_fail; try exact _
  | |- mok _ _ (panic _) => apply mok_panic
  | |- mok _ _ get => apply mok_get; try exact _
  | |- mok _ _ (gets _) => apply mok_gets; try exact _
  | |- mok _ _ (modify _) => apply mok_modify; intros ?; rf_side
  | |- mok _ _ (try_ _) => apply mok_try
  | |- mok _ _ (forM _ _) => apply mok_forM; try exact _; intros ?
  | |- mok _ _ (let _ := _ in _) => cbv zeta
  | |- mok _ _ (match ?x with _ => _ end) => first [is_var x; destruct x | destruct x eqn:?]
  | |- mok _ _ _ => solve [auto with mok]
  end.
Ltac rf_tac := repeat rf_step.

Section RfPass.
  Context (cx : Ctx).
  Local Notation h := true.
  Local Notation R := (eqon rf).
  Lemma send_strict_rf f t a : mok R h (send_strict f t a).
  Proof.
    intros s. unfold send_strict. destruct (a <=? 0); [reflexivity|].
    destruct (balance s f <? a); [reflexivity|]. reflexivity.
  Qed.
  Hint Resolve send_strict_rf : mok.
  Lemma send_lenient_rf f t a : mok R h (send_lenient f t a).
  Proof. intros s. unfold send_lenient. destruct (a =? 0); [reflexivity|]. apply send_strict_rf. Qed.
  Hint Resolve send_lenient_rf : mok.
  Lemma coin_sub_rf a b : mok R h (coin_sub a b).
  Proof. unfold coin_sub. rf_tac. Qed.
  Hint Resolve coin_sub_rf : mok.
  Lemma node_create_rf c : mok R h (node_create cx c).
  Proof. unfold node_create. rf_tac. Qed.
  Lemma node_reset_rf m : mok R h (node_reset cx m).
  Proof. unfold node_reset. rf_tac. Qed.
  Lemma add_vstorage_rf c sz : mok R h (add_vstorage c sz).
  Proof. unfold add_vstorage. rf_tac. Qed.
  Lemma remove_vstorage_rf c sz : mok R h (remove_vstorage c sz).
  Proof. unfold remove_vstorage. rf_tac. Qed.
  Lemma repay_debt_rf sp rw : mok R h (repay_debt sp rw).
  Proof. unfold repay_debt. rf_tac. Qed.
  Hint Resolve repay_debt_rf : mok.
  Lemma shard_release_rf sp sh : mok R h (shard_release sp sh).
  Proof. unfold shard_release. rf_tac. Qed.
  Hint Resolve shard_release_rf : mok.
  Lemma market_claim_rf sp : mok R h (market_claim cx sp).
  Proof. unfold market_claim. rf_tac. Qed.
  Hint Resolve market_claim_rf : mok.
  Lemma claim_reward_rf c : mok R h (claim_reward cx c).
  Proof. unfold claim_reward. rf_tac. Qed.
  Lemma update_permission_rf ow d ro rw : mok R h (update_permission ow d ro rw).
  Proof. unfold update_permission. rf_tac. Qed.
  Hint Resolve update_permission_rf : mok.
  Lemma sao_update_permission_rf c p ow d ro rw sg v : mok R h (sao_update_permission cx c p ow d ro rw sg v).
  Proof. unfold sao_update_permission. rf_tac. Qed.
  Lemma set_data_expire_rf d a : mok R h (set_data_expire d a).
  Proof. unfold set_data_expire. rf_tac. Qed.
  Hint Resolve set_data_expire_rf : mok.
  Lemma remove_data_expire_rf d a : mok R h (remove_data_expire d a).
  Proof. unfold remove_data_expire. rf_tac. Qed.
  Hint Resolve remove_data_expire_rf : mok.
  Lemma reset_meta_duration_rf d m : mok R h (reset_meta_duration cx d m).
  Proof. unfold reset_meta_duration. rf_tac. Qed.
  Hint Resolve reset_meta_duration_rf : mok.
  Lemma extend_meta_duration_rf d e : mok R h (extend_meta_duration d e).
  Proof. unfold extend_meta_duration. rf_tac. Qed.
  Hint Resolve extend_meta_duration_rf : mok.
  Lemma rollback_meta_rf d : mok R h (rollback_meta cx d).
  Proof. unfold rollback_meta. rf_tac. Qed.
  Hint Resolve rollback_meta_rf : mok.
  Lemma refund_order_rf oid : mok R h (refund_order oid).
  Proof. unfold refund_order. rf_tac. Qed.
  Hint Resolve refund_order_rf : mok.
  Lemma increase_reputation_rf n v : mok R h (increase_reputation n v).
  Proof. unfold increase_reputation. rf_tac. Qed.
  Hint Resolve increase_reputation_rf : mok.
  Lemma worker_release_rf o sh : mok R h (worker_release cx o sh).
  Proof. unfold worker_release. rf_tac. Qed.
  Hint Resolve worker_release_rf : mok.
  Lemma worker_append_rf o sh : mok R h (worker_append cx o sh).
  Proof. unfold worker_append. rf_tac. Qed.
  Hint Resolve worker_append_rf : mok.
  Lemma market_deposit_rf o : mok R h (market_deposit o).
  Proof. unfold market_deposit. rf_tac. Qed.
  Hint Resolve market_deposit_rf : mok.
  Lemma random_sp_m_rf count ignore size : mok R h (random_sp_m cx count ignore size).
  Proof.
    unfold random_sp_m. rf_step; [rf_step|].
    destruct (random_sp _ _ _ _ _ _ _) as [[sps r]| |] eqn:E; rf_tac. intros s. exact eq_refl.
  Qed.
  Hint Resolve random_sp_m_rf : mok.
  Lemma set_timeout_block_rf oid a : mok R h (set_timeout_block oid a).
  Proof. unfold set_timeout_block. rf_tac. Qed.
  Hint Resolve set_timeout_block_rf : mok.
  Lemma get_sps_rf o d : mok R h (get_sps cx o d).
  Proof. unfold get_sps. rf_tac. Qed.
  Hint Resolve get_sps_rf : mok.
  (* a renewal (operation 3) or a plain commit (operation 1) only edits the metadata record *)
  Lemma update_meta_rf oid o : o_op o <> 2 -> mok R h (update_meta cx oid o).
  Proof.
    intros Hop. unfold update_meta. apply mok_bind; try exact _; [apply mok_get; exact _|intros s0].
    destruct (negb (Nat.eqb _ _)); [rf_tac|]. destruct (metas s0 !! o_data o) as [m|]; [|rf_tac].
    destruct (negb (may_update _ _)); [rf_tac|].
    apply mok_bind; try exact _; [|intros ?; rf_tac].
    destruct (o_op o =? 1); [rf_tac|]. destruct (o_op o =? 2) eqn:E2; [apply Z.eqb_eq in E2; contradiction|]. rf_tac.
  Qed.
  Lemma new_meta_rf o d m : mok R h (new_meta cx o d m).
  Proof. unfold new_meta. rf_tac. Qed.
  Lemma update_meta_status_commit_rf oid o : mok R h (update_meta_status_commit cx oid o).
  Proof. unfold update_meta_status_commit. rf_tac. Qed.

  Lemma mok_rf_of {T A} (f : State -> T) (m : M A) :
    (forall s s', f s' = f s -> rf s' = rf s) -> mok (eqon f) h m -> mok R h m.
  Proof. intros Hf. apply mok_weaken; [|auto]. intros s s' E. apply Hf, E. Qed.

  Lemma tx_rf op m : frame_op op = true -> tx_of cx op = Some m -> mok R h m.
  Proof.
    intros Hf E. destruct op; try discriminate Hf; try discriminate E; cbn [tx_of] in E; injection E as <-.
    - eapply mok_rf_of; [|apply (lift_did_ok cx o true)]. intros s s' E; injection E; intros; unfold rf; congruence.
    - apply node_create_rf.
    - apply node_reset_rf.
    - apply add_vstorage_rf.
    - apply remove_vstorage_rf.
    - apply mok_bind; try exact _; [apply claim_reward_rf|intros; apply mok_ret; exact _].
    - apply sao_update_permission_rf.
    - eapply mok_rf_of; [|apply (sao_report_faults_ok cx true)]. intros s s' E; injection E; intros; unfold rf; congruence.
    - eapply mok_rf_of; [|apply (sao_recover_faults_ok cx true)]. intros s s' E; injection E; intros; unfold rf; congruence.
    - apply send_strict_rf.
    - eapply mok_rf_of; [|apply (staking_tx_ok true)]. intros s s' E; injection E; intros; unfold rf; congruence.
  Qed.
End RfPass.

Lemma step_frame_rf cx s op : frame_op op = true -> rf (fst (step cx s op)) = rf s.
Proof.
  intros Hf. apply (step_rel (eqon rf) (fun op => frame_op op = true) cx); auto.
  - intros s0 s' _. reflexivity.
  - intros evs _ s0 p. reflexivity.
  - intros _. eapply mok_rf_of; [|apply (begin_block_ok cx true)]. intros s0 s' E; injection E; intros; unfold rf; congruence.
  - intros evs H. discriminate H.
  - intros op' m H E. eapply tx_rf; eassumption.
Qed.

Theorem step_osc_frame : forall cx s op, frame_op op = true -> Inv_osc s -> Inv_osc (fst (step cx s op)).
Proof. intros cx s op Hf. apply osc_frame, rf_rk, step_frame_rf, Hf. Qed.

(** * Part 3: the handlers that write orders and shards *)
(** ** outcomes of a transaction: only the accepted ones matter *)
Definition okp {A} (Post : State -> Prop) (r : out A) : Prop := match r with Ok _ s' => Post s' | _ => True end.

Lemma okp_bind {A B} Post (m : M A) (k : A -> M B) s :
  match m s with Ok a s1 => okp Post (k a s1) | _ => True end -> okp Post (bind m k s).
Proof. unfold bind. destruct (m s); cbn; auto. Qed.

Lemma okp_keep {T A B} (f : State -> T) Post (m : M A) (k : A -> M B) s :
  mok (eqon f) true m -> (forall a s1, f s1 = f s -> okp Post (k a s1)) -> okp Post (bind m k s).
Proof. intros Hm Hk. apply okp_bind. specialize (Hm s). destruct (m s); auto. Qed.

Lemma okp_try_keep {T A B} (f : State -> T) Post (m : M A) (k : option A -> M B) s :
  mok (eqon f) true m -> (forall r s1, f s1 = f s -> okp Post (k r s1)) -> okp Post (bind (try_ m) k s).
Proof. intros Hm. apply okp_keep. apply mok_try, Hm. Qed.

Lemma deliver_okp (Inv : State -> Prop) (m : M unit) s :
  Inv s -> (forall p, Inv (with_pg s p)) -> okp Inv (m s) -> Inv (deliver m s).1.1.
Proof. intros H Hp Hm. rewrite deliver_state. destruct (m s); auto. Qed.

Lemma osc_with_pg s p : Inv_osc s -> Inv_osc (with_pg s p).
Proof. apply osc_frame. reflexivity. Qed.

(** ** Renew *)
(* a renewal order gets an unused identifier when the stored ones are below the counter *)
Definition ordfresh (s : State) : Prop := forall id, order_count s <= id -> orders s !! id = None.
Definition Iren (n : Z) (s : State) : Prop :=
  Inv_osc s /\ ordfresh s /\ 0 <= order_count s /\ order_count s + n < two64.

Definition rko (s : State) := (rk s, order_count s).
Lemma rf_rko s s' : rf s' = rf s -> rko s' = rko s.
Proof. intros E. unfold rko. rewrite (rf_rk _ _ E). injection E; intros; congruence. Qed.

Lemma Iren_frame n s s' : rko s' = rko s -> Iren n s -> Iren n s'.
Proof.
  intros E (H1 & H2 & H3 & H4).
  pose proof (f_equal fst E) as E1. pose proof (f_equal snd E) as E2. unfold rko in E1, E2. cbn [fst snd] in E1, E2.
  split; [eapply osc_frame; eassumption|].
  pose proof (f_equal (fun x => fst (fst x)) E1) as E3. unfold rk in E3. cbn [fst] in E3.
  unfold ordfresh. rewrite E3, E2. auto.
Qed.

Lemma renew_order_spec o s :
  match renew_order o s with
  | Ok nid s1 => nid = order_count s /\ orders s1 = <[nid := o]> (orders s) /\ order_count s1 = u64 (nid + 1) /\
                 shards s1 = shards s /\ expshards s1 = expshards s
  | Err _ s1 => rf s1 = rf s
  | _ => True end.
Proof.
  unfold renew_order, bind, get. destruct (pay_addr s (o_owner o)) as [payer|]; [|cbn; reflexivity].
  pose proof (send_strict_rf payer (macc MARKET) (o_amount o) s) as H.
  destruct (send_strict payer (macc MARKET) (o_amount o) s) as [u s1|e s1|e|]; [|exact H|exact I|exact I].
  unfold eqon in H. injection H as H1 H2 H3 H4 H5.
  unfold append_order, bind, get, modify, ret. cbn. rewrite H1, H2, H3, H5. auto.
Qed.

Lemma osc_append_order s s1 nid no o oid :
  Inv_osc s -> orders s !! nid = None -> orders s !! oid = Some o -> o_shards no = o_shards o ->
  orders s1 = <[nid := no]> (orders s) -> shards s1 = shards s -> expshards s1 = expshards s -> Inv_osc s1.
Proof.
  intros (H1 & H2 & H3) Hn Ho Esh E1 E2 E3. unfold Inv_osc, Inv_order_shards, Inv_shard_order, Inv_completed_scheduled.
  rewrite E1, E2, E3. split; [|split].
  - intros k x Hx. apply lookup_insert_Some in Hx. destruct Hx as [[<- <-]|[_ Hx]]; [|apply (H1 k x Hx)].
    rewrite Esh. apply (H1 oid o Ho).
  - intros id sh Hs. destruct (H2 id sh Hs) as (x & Hx & Hin). exists x. split; [|exact Hin].
    rewrite lookup_insert_ne; [exact Hx|]. intros Eq. rewrite <- Eq in Hx. congruence.
  - exact H3.
Qed.

(* a computation of a shard record that keeps the tables and the four fields *)
Definition shk (k4 : Z * Z * Z * Z) (m : M Shard) : Prop :=
  forall s, match m s with
            | Ok sh1 s' => rf s' = rf s /\ key4 sh1 = k4
            | Err _ s' => rf s' = rf s
            | _ => True end.
Lemma shk_ret k sh : key4 sh = k -> shk k (ret sh).
Proof. intros E s. cbn. auto. Qed.
Lemma shk_bind {A} k (m : M A) (f : A -> M Shard) : mok (eqon rf) true m -> (forall a, shk k (f a)) -> shk k (bind m f).
Proof.
  intros Hm Hf s. unfold bind. specialize (Hm s). destruct (m s) as [a s1|e s1|e|]; auto.
  specialize (Hf a s1). unfold eqon in Hm. destruct (f a s1) as [m' s2|e s2|e|]; auto.
  - destruct Hf as [Hf1 Hf2]. split; [congruence|exact Hf2].
  - congruence.
Qed.

Lemma key4_insert_same (ss : gmap Z Shard) id cur sh2 :
  ss !! id = Some cur -> key4 sh2 = key4 cur -> key4 <$> <[id := sh2]> ss = key4 <$> ss.
Proof.
  intros H E. rewrite fmap_insert. apply insert_id. rewrite lookup_fmap, H, E. reflexivity.
Qed.

Lemma snap_frame t t2 (l : list (Z * Shard)) :
  rko t2 = rko t ->
  Forall (fun x : Z * Shard => exists cur, shards t !! x.1 = Some cur /\ key4 cur = key4 x.2) l ->
  Forall (fun x : Z * Shard => exists cur, shards t2 !! x.1 = Some cur /\ key4 cur = key4 x.2) l.
Proof.
  intros E. pose proof (f_equal (fun x => snd (fst (fst x))) E) as E1. unfold rko, rk in E1. cbn [fst snd] in E1.
  intros HF. eapply Forall_impl; [exact HF|]. intros [id sh] (cur & Hc & Hk). cbn [fst snd] in *.
  destruct (key4_lookup t2 t id cur (eq_sym E1) Hc) as (cur2 & Hc2 & Hk2). exists cur2. split; [exact Hc2|congruence].
Qed.

Section Renew.
  Context (cx : Ctx).
  Hint Resolve send_strict_rf send_lenient_rf coin_sub_rf : mok.

  Lemma renew_one_ok m sd d n s : 0 <= n -> Iren (n + 1) s -> okp (Iren n) (renew_one cx m sd d s).
  Proof.
    intros Hn HI.
    assert (Hweak : Iren n s).
    { destruct HI as (H1 & H2 & H3 & H4). split; [exact H1|]. split; [exact H2|]. split; [exact H3|lia]. }
    unfold renew_one. apply okp_bind. cbn [get].
    destruct (metas s !! d) as [meta|]; [|exact Hweak].
    destruct (negb (String.eqb _ _)); [exact Hweak|].
    destruct (negb (m_status meta =? MetaComplete)); [exact Hweak|].
    destruct (orders s !! m_order meta) as [o|] eqn:Eo; [|exact Hweak].
    match goal with |- context [mapM ?f (o_shards o)] => destruct (mapM f (o_shards o)) as [shs|] eqn:Eshs end; [|exact Hweak].
    destruct (negb (o_status o =? OrderCompleted)); [exact Hweak|].
    destruct (_ <? cx_height cx); [exact Hweak|].
    cbv zeta.
    destruct (dec_mul_int (dec_mul_int (dec_mul_int PRICE (i64 (o_replica o))) (i64 (o_size o))) (i64 (rn_duration m)) <? 0); [exact I|].
    apply okp_bind.
    match goal with |- context [try_ (renew_order ?no0)] => set (no := no0) end.
    pose proof (renew_order_spec no s) as Hro. unfold try_ at 1.
    destruct (renew_order no s) as [nid s1|e s1|e|]; [|eapply Iren_frame; [apply rf_rko, Hro|exact Hweak]|exact I|exact I].
    destruct Hro as (Hnid & Ho1 & Hc1 & Hs1 & He1).
    destruct HI as (Hosc & Hfresh & Hc0 & Hbud).
    assert (Hc1' : order_count s1 = order_count s + 1) by (rewrite Hc1, Hnid; apply u64_id; lia).
    assert (HI1 : Iren n s1).
    { split; [|split; [|lia]].
      - eapply (osc_append_order s s1 nid no o (m_order meta)); try eassumption; [|reflexivity].
        apply Hfresh. lia.
      - intros id Hid. rewrite Ho1. rewrite lookup_insert_ne by lia. apply Hfresh. lia. }
    (* the stored shards agree with the snapshot on the four fields *)
    assert (Hsnap : Forall (fun x : Z * Shard => exists cur, shards s1 !! x.1 = Some cur /\ key4 cur = key4 x.2) shs).
    { apply mapM_Forall2 in Eshs. rewrite Hs1. clear -Eshs.
      induction Eshs as [|x y l r Hxy _ IH]; constructor; [|exact IH].
      destruct (shards s !! x) as [sh|] eqn:Ex; [|discriminate Hxy]. destruct (_ || _); [|discriminate Hxy].
      injection Hxy as <-. cbn. exists sh. auto. }
    assert (Hop : o_op no = 3) by reflexivity.
    clearbody no. clear Eshs.
    apply okp_bind.
    match goal with |- context [?F0 shs 0 s1] => set (F := F0) end.
    assert (Hloop : forall l acc t,
                Forall (fun x : Z * Shard => exists cur, shards t !! x.1 = Some cur /\ key4 cur = key4 x.2) l ->
                match F l acc t with Ok _ t' => rko t' = rko t | Err _ t' => rko t' = rko t | _ => True end).
    { intros l. induction l as [|[id sh] l IH]; intros acc t Hl; [unfold F; fix_unfold; cbn; reflexivity|].
      unfold F at 1. fix_unfold. fold F.
      inversion Hl as [|? ? (cur & Hcur & Hk) Hl']; subst. cbn [fst snd] in Hcur, Hk.
      unfold bind at 1.
      match goal with |- context [if sh_status sh =? ShardMigrating then ?a else ?b] =>
        destruct (sh_status sh =? ShardMigrating) end.
      - cbn [ret]. apply IH, Hl'.
      - match goal with |- context [if ?b then panic _ else _] => destruct b end; [exact I|].
        unfold bind at 1.
        match goal with |- context [match ?inner t with _ => _ end] =>
          assert (Hin : shk (key4 sh) inner) end.
        { destruct (sh_pledge sh <? _); [|apply shk_ret; reflexivity].
          repeat (apply shk_bind; [solve [rf_tac]|intros ?]). apply shk_ret. reflexivity. }
        match goal with |- context [match ?inner t with _ => _ end] =>
          specialize (Hin t); destruct (inner t) as [sh1 t1|e t1|e|] end; [|apply rf_rko, Hin|exact I|exact I].
        destruct Hin as [Hrf Hk1]. cbn [bind modify ret].
        match goal with |- context [F l ?a ?t2] =>
          assert (Ht2 : rko t2 = rko t);
          [|pose proof (IH a t2 (snap_frame t t2 l Ht2 Hl')) as IH2; destruct (F l a t2); try exact I; congruence] end.
        pose proof (rf_rko _ _ Hrf) as Hr. rewrite <- Hr. unfold rko, rk. cbn.
          injection Hrf as Hr1 Hr2 Hr3 Hr4 Hr5.
          rewrite (key4_insert_same (shards t1) id cur); [reflexivity|rewrite Hr3; exact Hcur|]. rewrite Hk, <- Hk1. reflexivity. }
    pose proof (Hloop shs 0 s1 Hsnap) as Hl2. destruct (F shs 0 s1) as [ne s2|e s2|e|]; try exact I.
    apply (okp_keep rf); [apply extend_meta_duration_rf|intros _ s3 E3].
    apply (okp_try_keep rf); [apply update_meta_rf; rewrite Hop; discriminate|intros r s4 E4].
    cbn [ret okp]. eapply Iren_frame; [|exact HI1].
    rewrite (rf_rko _ _ E4), (rf_rko _ _ E3). exact Hl2.
  Qed.
End Renew.

Section Renew2.
  Context (cx : Ctx).
  Lemma okp_weaken {A} (P Q : State -> Prop) (r : out A) : (forall s, P s -> Q s) -> okp P r -> okp Q r.
  Proof. intros H. destruct r; cbn; auto. Qed.

  Lemma forM_renew_ok m sd l : forall n s, 0 <= n -> Iren (n + Z.of_nat (length l)) s ->
    okp (Iren n) (forM l (renew_one cx m sd) s).
  Proof.
    induction l as [|d l IH]; intros n s Hn HI; cbn [forM length].
    - cbn. cbn [length] in HI. replace (n + Z.of_nat 0) with n in HI by lia. exact HI.
    - apply okp_bind.
      pose proof (renew_one_ok cx m sd d (n + Z.of_nat (length l)) s ltac:(lia)) as H1.
      replace (n + Z.of_nat (length l) + 1) with (n + Z.of_nat (S (length l))) in H1 by lia.
      specialize (H1 HI). destruct (renew_one cx m sd d s) as [u s1|e s1|e|]; try exact I.
      apply IH; [exact Hn|exact H1].
  Qed.

  Lemma sao_renew_ok m s : Iren (Z.of_nat (length (rn_data m))) s -> okp (Iren 0) (sao_renew cx m s).
  Proof.
    intros HI. unfold sao_renew. apply okp_bind. cbn [get].
    destruct (verify_sig s (rn_owner m) (rn_sig m)) as [sd|]; [|exact I].
    destruct (negb (acts_for s _ _)); [exact I|].
    destruct (rn_duration m <? 3600); [exact I|]. destruct (MAX_RENEW <? rn_duration m); [exact I|].
    destruct (pool s); [|exact I]. apply forM_renew_ok; [lia|exact HI].
  Qed.
End Renew2.

(* Renew keeps the three clauses -- also when it copies a shard under migration (defect D23): the
   renewal order it creates lists existing shards, each once. What D23 damages is a different,
   stronger property (see [migrating_private] below); the clauses break at the NEXT operation. *)
Theorem step_osc_renew : forall cx s m,
  Inv_osc s -> Inv_ids s -> counts_small s -> Z.of_nat (length (rn_data m)) < two31 ->
  Inv_osc (fst (step cx s (ORenew m))).
Proof.
  intros cx s m Hosc [Hids _] [[Hc1 Hc2] _] Hlen. rewrite step_state. cbn [tx_of].
  apply (deliver_okp Inv_osc); [exact Hosc|intros p; apply osc_with_pg, Hosc|].
  eapply okp_weaken; [|apply sao_renew_ok].
  - intros s' (H & _). exact H.
  - split; [exact Hosc|]. split; [|unfold two63, two64, two31 in *; lia].
    intros id Hid. destruct (orders s !! id) as [o|] eqn:E; [|reflexivity]. apply Hids in E. lia.
Qed.
Print Assumptions step_osc_renew.

(** * Part 4: the combined theorem on the covered operations *)
Definition covered (op : Op) : bool :=
  frame_op op || match op with ORenew _ => true | _ => false end.

Definition ref_hyp (cx : Ctx) (s : State) (op : Op) : Prop :=
  match op with ORenew _ => counts_small s /\ sizes_small cx s op | _ => True end.

Theorem step_osc_partial : forall cx s op,
  covered op = true -> Inv_osc s -> Inv_ids s -> ref_hyp cx s op -> Inv_osc (fst (step cx s op)).
Proof.
  intros cx s op Hc Hosc Hids Hh. destruct (frame_op op) eqn:Hf; [apply step_osc_frame; assumption|].
  destruct op; try discriminate Hc; try discriminate Hf. destruct Hh as [Hcs Hsz]. cbn in Hsz.
  apply step_osc_renew; assumption.
Qed.

Theorem step_ref_partial : forall cx s op,
  covered op = true -> Inv_ref s -> Inv_ids s -> ref_hyp cx s op -> Inv_ref (fst (step cx s op)).
Proof.
  intros cx s op Hc Href Hids Hh. apply Inv_ref_split in Href. destruct Href as [Ha Ho].
  apply Inv_ref_split. split; [apply step_alias, Ha|apply step_osc_partial; assumption].
Qed.
Print Assumptions step_ref_partial.

Theorem step_order_shards_partial : forall cx s op,
  covered op = true -> Inv_ref s -> Inv_ids s -> ref_hyp cx s op -> Inv_order_shards (fst (step cx s op)).
Proof. intros cx s op H1 H2 H3 H4. apply (step_ref_partial cx s op H1 H2 H3 H4). Qed.
Theorem step_shard_order_partial : forall cx s op,
  covered op = true -> Inv_ref s -> Inv_ids s -> ref_hyp cx s op -> Inv_shard_order (fst (step cx s op)).
Proof. intros cx s op H1 H2 H3 H4. apply (step_ref_partial cx s op H1 H2 H3 H4). Qed.
Theorem step_completed_scheduled_partial : forall cx s op,
  covered op = true -> Inv_ref s -> Inv_ids s -> ref_hyp cx s op -> Inv_completed_scheduled (fst (step cx s op)).
Proof. intros cx s op H1 H2 H3 H4. apply (step_ref_partial cx s op H1 H2 H3 H4). Qed.

(* the hypotheses along a run: every operation is a covered one, and the size bounds under which
   identifiers stay below their counters ([step_ids_partial]) hold where it starts *)
Fixpoint ok_along (tr : list (Ctx * Op)) (s : State) : Prop :=
  match tr with
  | [] => True
  | (cx, op) :: tr' =>
      covered op = true /\ counts_small s /\ sizes_small cx s op /\ ok_along tr' (fst (step cx s op))
  end.

Theorem run_ref_partial : forall tr s,
  Inv_ref s -> Inv_ids s -> ok_along tr s -> Inv_ref (run tr s) /\ Inv_ids (run tr s).
Proof.
  induction tr as [|[cx op] tr IH]; intros s Href Hids Hok; [split; assumption|].
  destruct Hok as (Hc & Hcs & Hsz & Hok). unfold run. cbn [fold_left fst snd]. apply IH; [| |exact Hok].
  - apply step_ref_partial; try assumption. destruct op; try exact I. split; assumption.
  - apply step_ids_partial; try assumption. destruct op; try exact I. discriminate Hc.
Qed.
Print Assumptions run_ref_partial.

(** ** the monitors decide the clauses (used for the examples and witnesses) *)
Lemma all_z_spec {A} (m : gmap Z A) f : all_z m f = true -> forall k v, m !! k = Some v -> f k v = true.
Proof.
  unfold all_z, zitems. rewrite forallb_forall. intros H k v Hkv. apply (H (k, v)).
  apply elem_of_list_In, elem_of_map_to_list, Hkv.
Qed.
Lemma all_s_spec {A} (m : gmap string A) f : all_s m f = true -> forall k v, m !! k = Some v -> f k v = true.
Proof.
  unfold all_s, sitems. rewrite forallb_forall. intros H k v Hkv. apply (H (k, v)).
  apply elem_of_list_In, elem_of_map_to_list, Hkv.
Qed.
Lemma inZ_In x l : inZ x l = true -> In x l.
Proof. unfold inZ. rewrite existsb_exists. intros (y & Hy & E). apply Z.eqb_eq in E. subst. exact Hy. Qed.

Definition mon_ref (s : State) : bool :=
  mon_model_alias s && mon_order_shards_exist s && mon_order_shards_nodup s && mon_shard_has_order s && mon_completed_scheduled s.

Lemma mon_ref_sound s : mon_ref s = true -> Inv_ref s.
Proof.
  unfold mon_ref. rewrite !andb_true_iff. intros ((((Ha & He) & Hn) & Hs) & Hc).
  split; [|split; [|split]].
  - unfold mon_model_alias in Ha. apply andb_true_iff in Ha. destruct Ha as [Ha1 Ha2]. split.
    + intros d m Hm. pose proof (all_s_spec _ _ Ha1 d m Hm) as H. cbn in H.
      destruct (models s !! meta_key m) as [d'|]; [|discriminate H]. apply String.eqb_eq in H. congruence.
    + intros k d Hk. pose proof (all_s_spec _ _ Ha2 k d Hk) as H. cbn in H.
      destruct (metas s !! d) as [m|]; [|discriminate H]. apply String.eqb_eq in H. exists m. auto.
  - intros oid o Ho. split.
    + pose proof (all_z_spec _ _ Hn oid o Ho) as H. cbn in H. apply bool_decide_eq_true in H. exact H.
    + pose proof (all_z_spec _ _ He oid o Ho) as H. cbn in H. rewrite forallb_forall in H.
      intros id Hid. specialize (H id Hid). apply bool_decide_eq_true in H. exact H.
  - intros id sh Hsh. pose proof (all_z_spec _ _ Hs id sh Hsh) as H. cbn in H.
    destruct (orders s !! sh_order sh) as [o|]; [|discriminate H]. exists o. split; [reflexivity|apply inZ_In, H].
  - intros id sh Hsh Hst. pose proof (all_z_spec _ _ Hc id sh Hsh) as H. cbn in H.
    rewrite Hst in H. cbn in H. apply inZ_In, H.
Qed.

Definition mon_ids (s : State) : bool :=
  all_z (orders s) (fun id _ => (0 <=? id) && (id <? order_count s)) &&
  all_z (shards s) (fun id _ => (0 <=? id) && (id <? shard_count s)).
Lemma mon_ids_sound s : mon_ids s = true -> Inv_ids s.
Proof.
  unfold mon_ids. rewrite andb_true_iff. intros [H1 H2]. split; intros id x Hx.
  - pose proof (all_z_spec _ _ H1 id x Hx) as H. cbn in H. apply andb_true_iff in H. lia.
  - pose proof (all_z_spec _ _ H2 id x Hx) as H. cbn in H. apply andb_true_iff in H. lia.
Qed.

(** ** a concrete chain: one gateway G, two storage nodes S and T, one owner *)
Module W.
  Definition cxh (h : Z) : Ctx := {| cx_height := h; cx_chain := "c"; cx_time := 0; cx_seed := 7 |}.
  Definition data : string := "0123456789abcdef0123456789abcdef0123".
  Definition dids : DidState := mkDid ∅ ∅ ∅ ∅ ∅ ∅ ∅ {[ "did:key:K1" := "P1" ]} ∅ ∅.
  Definition s0 : State :=
    mkState dids
            (<["G" := mkNode "" 10000 3 5 [] 0 ""]> (<["S" := mkNode "" 10000 13 5 [] 0 ""]> (<["T" := mkNode "" 10000 13 5 [] 0 ""]> ∅)))
            (<[ "S" := mkPledge 10 0 0 0 10000000 0 ]> (<[ "T" := mkPledge 10 0 0 0 10000000 0 ]> ∅))
            ∅ (Some (mkPool 20 0 0 0 0 0 20000000 0)) None ∅ ∅ ∅ (mkNParams 0 0 0 1 1 0 "" 0 0 0 1000)
            ∅ 1 ∅ 1 ∅ ∅ ∅ ∅ ∅ ∅
            (<["P1" := 100000]> (<["S" := 1000]> (<["T" := 1000]> ∅))) 102000 ∅ ∅ 0.
  Definition sig : SigO := {| so_owner := Some ("key", "K1"); so_kid := Some ("key", "K1", ""); so_keys := ["K1"] |}.
  Definition store : StoreMsg :=
    {| st_creator := "G"; st_provider := "G"; st_owner := "did:key:K1"; st_pprovider := "G"; st_group := "";
       st_duration := 3600; st_replica := 1; st_timeout := 100; st_alias := "a"; st_data := data; st_commit := data;
       st_tags := []; st_cid := "cid"; st_rule := ""; st_ext := ""; st_size := 1000000; st_op := 1; st_ro := [];
       st_paydid := ""; st_sig := sig; st_cid_ok := true |}.
  Definition renew : RenewMsg :=
    {| rn_creator := "G"; rn_provider := "G"; rn_owner := "did:key:K1"; rn_duration := 4000; rn_timeout := 100;
       rn_data := [data]; rn_sig := sig |}.
  Definition stp (h : Z) (s : State) (op : Op) : State := fst (step (cxh h) s op).
  (* store (the shard goes to T), T completes *)
  Definition s1 := stp 5 s0 (OStore store).
  Definition s2 := stp 6 s1 (OComplete "T" "T" 1 "cid" 1000000 true).
  (* the D23 history: T starts a migration (new shard 2 for S, status migrating), the owner renews
     while it is pending, then S completes the migration *)
  Definition d3 := stp 7 s2 (OMigrate "T" "T" [data]).
  Definition d4 := stp 8 d3 (ORenew renew).
  Definition d5 := stp 9 d4 (OComplete "S" "S" 1 "cid" 1000000 true).
  (* the benign history: renew first, migrate afterwards, complete, two expiries *)
  Definition b3 := stp 7 s2 (ORenew renew).
  Definition b4 := stp 8 b3 (OMigrate "T" "T" [data]).
  Definition b5 := stp 9 b4 (OComplete "S" "S" 2 "cid" 1000000 true).
  Definition b6 := stp 3606 b5 (OEndBlock []).
End W.

(* non-vacuity of the invariant: one completed order whose shard is scheduled for release, one data
   model with its alias entry; after the renewal two orders share the shard *)
Example ref_nonvacuous :
  Inv_ref W.s2 /\ Inv_ids W.s2 /\ counts_small W.s2 /\
  (exists o sh m, orders W.s2 !! 1 = Some o /\ o_shards o = [1] /\ shards W.s2 !! 1 = Some sh /\
     sh_status sh = ShardCompleted /\ expshards W.s2 !! 3606 = Some [1] /\
     metas W.s2 !! W.data = Some m /\ models W.s2 !! meta_key m = Some W.data) /\
  Inv_ref W.b3 /\ (exists o, orders W.b3 !! 2 = Some o /\ o_op o = 3 /\ o_shards o = [1]).
Proof.
  split; [apply mon_ref_sound; vm_compute; reflexivity|].
  split; [apply mon_ids_sound; vm_compute; reflexivity|].
  split; [split; split; vm_compute; congruence|].
  split.
  { eexists. eexists. eexists. split; [vm_compute; reflexivity|]. split; [reflexivity|]. split; [vm_compute; reflexivity|].
    split; [reflexivity|]. split; [vm_compute; reflexivity|]. split; [vm_compute; reflexivity|]. vm_compute; reflexivity. }
  split; [apply mon_ref_sound; vm_compute; reflexivity|].
  eexists. split; [vm_compute; reflexivity|]. split; reflexivity.
Qed.

(* a run of covered operations from that state: a renewal, a transfer, a permission update, a block start *)
Definition ex_run : list (Ctx * Op) :=
  [ (W.cxh 7, ORenew W.renew); (W.cxh 7, OSend "P1" "S" 5);
    (W.cxh 8, OUpdatePermission "G" "G" "did:key:K1" W.data ["did:key:K2"] [] W.sig true); (W.cxh 9, OBeginBlock) ].
Example ok_along_nonvacuous :
  ok_along ex_run W.s2 /\ Inv_ref (run ex_run W.s2) /\
  (exists o, orders (run ex_run W.s2) !! 2 = Some o /\ o_op o = 3) /\
  (exists m, metas (run ex_run W.s2) !! W.data = Some m /\ m_ro m = ["did:key:K2"]).
Proof.
  assert (Hok : ok_along ex_run W.s2).
  { cbn [ok_along ex_run].
    split; [reflexivity|split; [split; split; vm_compute; congruence|split; [vm_compute; reflexivity|]]].
    split; [reflexivity|split; [split; split; vm_compute; congruence|split; [exact I|]]].
    split; [reflexivity|split; [split; split; vm_compute; congruence|split; [exact I|]]].
    split; [reflexivity|split; [split; split; vm_compute; congruence|split; [exact I|]]].
    exact I. }
  split; [exact Hok|]. split.
  - destruct ref_nonvacuous as (H1 & H2 & _). apply run_ref_partial; [exact H1|exact H2|exact Hok].
  - split; eexists; (split; [vm_compute; reflexivity|reflexivity]).
Qed.

(** ** refutations *)
(* The full statement [forall cx s op, Inv_ref s -> Inv_ids s -> Inv_ref (fst (step cx s op))] is false.
   D23: from a state that satisfies all four clauses (reached by store, complete, migrate, renew),
   the completion of the migration deletes the replaced shard 1 and takes it out of the shard list of
   order 1 only; the renewal order 2, which copied the list while shard 2 was migrating, keeps naming
   the deleted shard. *)
Theorem step_ref_refuted :
  exists cx s op, Inv_ref s /\ Inv_ids s /\ counts_small s /\ sizes_small cx s op /\ shard_refs_ok s /\
    ~ Inv_order_shards (fst (step cx s op)).
Proof.
  exists (W.cxh 9), W.d4, (OComplete "S" "S" 1 "cid" 1000000 true).
  split; [apply mon_ref_sound; vm_compute; reflexivity|].
  split; [apply mon_ids_sound; vm_compute; reflexivity|].
  split; [split; split; vm_compute; congruence|].
  split; [exact I|].
  split.
  { intros sid sh Hsh.
    assert (Hb : all_z (shards W.d4) (fun _ sh => bool_decide (is_Some (orders W.d4 !! sh_order sh)) &&
                   forallb (fun ri => bool_decide (is_Some (orders W.d4 !! ri_order ri))) (sh_renew sh)) = true)
      by (vm_compute; reflexivity).
    pose proof (all_z_spec _ _ Hb sid sh Hsh) as H. cbn in H. apply andb_true_iff in H. destruct H as [H1 H2].
    split; [apply bool_decide_eq_true in H1; exact H1|].
    intros ri Hri. rewrite forallb_forall in H2. specialize (H2 ri Hri). apply bool_decide_eq_true in H2. exact H2. }
  change (fst (step (W.cxh 9) W.d4 (OComplete "S" "S" 1 "cid" 1000000 true))) with W.d5.
  intros H.
  assert (Ho : exists o, orders W.d5 !! 2 = Some o /\ In 1 (o_shards o)) by (eexists; split; [vm_compute; reflexivity|left; reflexivity]).
  destruct Ho as (o & Ho & Hin). destruct (H 2 o Ho) as [_ He]. specialize (He 1 Hin).
  assert (Hn : shards W.d5 !! 1 = None) by (vm_compute; reflexivity). rewrite Hn in He. destruct He as [x Hx]. discriminate Hx.
Qed.
Print Assumptions step_ref_refuted.

(* the state before that completion is the one the Renew of D23 produced: it violates
   [no_renewal_of_migrating], and [step_ref_partial] applied to that Renew shows the four clauses
   survive it -- the damage is latent *)
Example d23_latent :
  Inv_ref W.d3 /\ Inv_ref W.d4 /\ ~ no_renewal_of_migrating W.d4 /\ ~ Inv_ref W.d5.
Proof.
  split; [apply mon_ref_sound; vm_compute; reflexivity|].
  split; [apply mon_ref_sound; vm_compute; reflexivity|].
  split.
  - intros H.
    assert (Ho : exists o sh, orders W.d4 !! 2 = Some o /\ o_op o = 3 /\ In 2 (o_shards o) /\ shards W.d4 !! 2 = Some sh /\
                              sh_status sh = ShardMigrating).
    { do 2 eexists. split; [vm_compute; reflexivity|]. split; [reflexivity|]. split; [right; left; reflexivity|].
      split; [vm_compute; reflexivity|reflexivity]. }
    destruct Ho as (o & sh & Ho & Hop & Hin & Hsh & Hst). exact (H 2 o Ho Hop 2 sh Hin Hsh Hst).
  - intros (_ & H & _).
    assert (Ho : exists o, orders W.d5 !! 2 = Some o /\ In 1 (o_shards o)) by (eexists; split; [vm_compute; reflexivity|left; reflexivity]).
    destruct Ho as (o & Ho & Hin). destruct (H 2 o Ho) as [_ He]. specialize (He 1 Hin).
    assert (Hn : shards W.d5 !! 1 = None) by (vm_compute; reflexivity). rewrite Hn in He. destruct He as [x Hx]. discriminate Hx.
Qed.

(* [no_renewal_of_migrating] is not the dividing line: a migration started AFTER a renewal attaches
   the migrating shard to the renewal order (the newest order of the commit), so the predicate is
   false in a history where nothing goes wrong -- the four clauses hold before and after the
   completion and after the expiry that rotates the shard to the renewal order. What separates the
   two histories is whether a migrating shard is listed by an order other than its own. *)
Lemma mon_migrating_private_sound s : mon_migrating_private s = true -> migrating_private s.
Proof.
  intros Hm oid o id sh Ho Hin Hsh Hst. pose proof (all_z_spec _ _ Hm oid o Ho) as H. cbn in H.
  rewrite forallb_forall in H. specialize (H id Hin). rewrite Hsh, Hst in H. cbn in H. apply Z.eqb_eq in H. exact H.
Qed.

Example no_renewal_of_migrating_benign :
  Inv_ref W.b4 /\ ~ no_renewal_of_migrating W.b4 /\ migrating_private W.b4 /\ Inv_ref W.b5 /\ Inv_ref W.b6 /\
  ~ migrating_private W.d4.
Proof.
  split; [apply mon_ref_sound; vm_compute; reflexivity|].
  split.
  - intros H.
    assert (Ho : exists o sh, orders W.b4 !! 2 = Some o /\ o_op o = 3 /\ In 2 (o_shards o) /\ shards W.b4 !! 2 = Some sh /\
                              sh_status sh = ShardMigrating).
    { do 2 eexists. split; [vm_compute; reflexivity|]. split; [reflexivity|]. split; [right; left; reflexivity|].
      split; [vm_compute; reflexivity|reflexivity]. }
    destruct Ho as (o & sh & Ho & Hop & Hin & Hsh & Hst). exact (H 2 o Ho Hop 2 sh Hin Hsh Hst).
  - split; [apply mon_migrating_private_sound; vm_compute; reflexivity|].
    split; [apply mon_ref_sound; vm_compute; reflexivity|].
    split; [apply mon_ref_sound; vm_compute; reflexivity|].
    intros H.
    assert (Ho : exists o sh, orders W.d4 !! 2 = Some o /\ In 2 (o_shards o) /\ shards W.d4 !! 2 = Some sh /\
                              sh_status sh = ShardMigrating /\ sh_order sh = 1).
    { do 2 eexists. split; [vm_compute; reflexivity|]. split; [right; left; reflexivity|].
      split; [vm_compute; reflexivity|]. split; reflexivity. }
    destruct Ho as (o & sh & Ho & Hin & Hsh & Hst & Hord). pose proof (H 2 o 2 sh Ho Hin Hsh Hst) as E. lia.
Qed.

Print Assumptions ref_nonvacuous.
Print Assumptions ok_along_nonvacuous.
Print Assumptions d23_latent.
Print Assumptions no_renewal_of_migrating_benign.

(* EXPORTED *)
(* step_alias : forall cx s op, Inv_alias s -> Inv_alias (fst (step cx s op)) *)
(* run_alias : forall tr s, Inv_alias s -> Inv_alias (run tr s) *)
(* step_osc_frame : forall cx s op, frame_op op = true -> Inv_osc s -> Inv_osc (fst (step cx s op)) *)
(* step_osc_renew : forall cx s m, Inv_osc s -> Inv_ids s -> counts_small s -> Z.of_nat (length (rn_data m)) < two31 -> Inv_osc (fst (step cx s (ORenew m))) *)
(* step_ref_partial : forall cx s op, covered op = true -> Inv_ref s -> Inv_ids s -> ref_hyp cx s op -> Inv_ref (fst (step cx s op)) *)
(* step_order_shards_partial, step_shard_order_partial, step_completed_scheduled_partial : the three clauses separately, same hypotheses *)
(* run_ref_partial : forall tr s, Inv_ref s -> Inv_ids s -> ok_along tr s -> Inv_ref (run tr s) /\ Inv_ids (run tr s) *)
(* step_ref_refuted : exists cx s op, Inv_ref s /\ Inv_ids s /\ counts_small s /\ sizes_small cx s op /\ shard_refs_ok s /\ ~ Inv_order_shards (fst (step cx s op)) *)
(* ref_nonvacuous, ok_along_nonvacuous, d23_latent, no_renewal_of_migrating_benign : examples *)
(* mon_ref_sound : forall s, mon_ref s = true -> Inv_ref s *)
