(* C14 / C07 -- per-provider capacity and collateral accounting.

   [Acc s] = Inv_used s /\ Inv_capacity s /\ (every completed shard is held by a pledged provider).
   Part 1: sums over the shard table.      Part 2: the accounting invariant on (pledges, shards).
   Part 3: frames of the light handlers.   Part 4: weakest preconditions for the handlers that
   pledge / release.                       Part 5: [step], runs.   Part 6: witnesses. *)
From stdpp Require Import relations.
From SaoVerif Require Import Base.Prelude Base.Ints Base.Dec Model.Did Model.Types Model.Monad Model.Bank Model.Select
     Model.Node Model.Storage Model.Sao Model.Hooks Model.App Model.Spec Model.Inv
     Proofs.SelectFacts Proofs.Frame Proofs.Accumulator Proofs.Money.
From RecordUpdate Require Import RecordUpdate.
Import RecordSetNotations.

(** * 1. sums over the shard table *)
Definition lsum (f : Shard -> Z) (sp : string) (m : gmap Z Shard) : Z :=
  sum_map (fun sh => if live_at sp sh then f sh else 0) m.

Lemma live_sum_lsum f sp s : live_sum f sp s = lsum f sp (shards s).
Proof. reflexivity. Qed.

(* what the shard stored under a key contributes to provider [sp] *)
Definition cf (f : Shard -> Z) (sp : string) (o : option Shard) : Z :=
  match o with Some sh => if live_at sp sh then f sh else 0 | None => 0 end.

Lemma lsum_empty f sp : lsum f sp ∅ = 0.
Proof. apply sum_map_empty. Qed.

(* insert: of a fresh shard, or an update of an existing one *)
Lemma lsum_insert f sp m k v : lsum f sp (<[k:=v]> m) = lsum f sp m - cf f sp (m !! k) + cf f sp (Some v).
Proof. unfold lsum. rewrite Frame.sum_map_insert. unfold cf. destruct (m !! k); reflexivity. Qed.

Lemma lsum_insert_fresh f sp m k v : m !! k = None -> lsum f sp (<[k:=v]> m) = lsum f sp m + cf f sp (Some v).
Proof. intros E. rewrite lsum_insert, E. cbn. lia. Qed.

Lemma lsum_delete f sp m k : lsum f sp (delete k m) = lsum f sp m - cf f sp (m !! k).
Proof.
  destruct (m !! k) as [x|] eqn:E.
  - unfold lsum. rewrite (sum_map_delete _ m k x E). cbn. lia.
  - rewrite delete_notin by exact E. cbn. lia.
Qed.

Lemma sum_map_const0 {K} `{Countable K} {A} (m : gmap K A) : sum_map (fun _ : A => 0) m = 0.
Proof.
  induction m as [|k x m Hk IH] using map_ind; [apply sum_map_empty|].
  rewrite Accumulator.sum_map_insert by exact Hk. rewrite IH. lia.
Qed.

Lemma sum_map_zero {K} `{Countable K} {A} (f : A -> Z) (m : gmap K A) :
  (forall k x, m !! k = Some x -> f x = 0) -> sum_map f m = 0.
Proof. intros Hf. rewrite (sum_map_ext f (fun _ => 0) m Hf). apply sum_map_const0. Qed.

Lemma live_at_true sp sh : live_at sp sh = true <-> sh_status sh = ShardCompleted /\ sh_sp sh = sp.
Proof.
  unfold live_at. rewrite andb_true_iff, Z.eqb_eq, String.eqb_eq. tauto.
Qed.

Lemma live_at_self sh : sh_status sh = ShardCompleted -> live_at (sh_sp sh) sh = true.
Proof. intros E. apply live_at_true. auto. Qed.

Lemma live_at_other sp sh : sh_sp sh <> sp -> live_at sp sh = false.
Proof. intros E. destruct (live_at sp sh) eqn:L; [|reflexivity]. apply live_at_true in L. tauto. Qed.

Lemma live_at_nl sp sh : sh_status sh <> ShardCompleted -> live_at sp sh = false.
Proof. intros E. destruct (live_at sp sh) eqn:L; [|reflexivity]. apply live_at_true in L. tauto. Qed.

(* not a completed shard (or no shard at all) *)
Definition nl (o : option Shard) : Prop := match o with Some sh => sh_status sh <> ShardCompleted | None => True end.

Lemma cf_nl f sp o : nl o -> cf f sp o = 0.
Proof. destruct o as [sh|]; cbn; [|reflexivity]. intros E. rewrite live_at_nl by exact E. reflexivity. Qed.

Lemma lsum_nonneg f sp m : (forall k x, m !! k = Some x -> 0 <= f x) -> 0 <= lsum f sp m.
Proof. intros Hf. apply sum_map_nonneg. intros k x E. destruct (live_at sp x); [eapply Hf, E|lia]. Qed.

(** * 2. the accounting invariant, on the two tables *)
Definition UsedM (pl : gmap string Pledge) (sm : gmap Z Shard) : Prop :=
  forall sp p, pl !! sp = Some p -> pl_used p = lsum sh_size sp sm /\ pl_shpledged p = lsum sh_pledge sp sm.
Definition CapM (pl : gmap string Pledge) : Prop :=
  forall sp p, pl !! sp = Some p -> 0 <= pl_used p <= pl_total p.
Definition LiveM (pl : gmap string Pledge) (sm : gmap Z Shard) : Prop :=
  forall id sh, sm !! id = Some sh -> sh_status sh = ShardCompleted -> is_Some (pl !! sh_sp sh).
Definition AccM pl sm : Prop := UsedM pl sm /\ CapM pl /\ LiveM pl sm.

(* every completed shard is held by a provider that has a pledge record *)
Definition Live_pledged (s : State) : Prop :=
  forall id sh, shards s !! id = Some sh -> sh_status sh = ShardCompleted -> is_Some (pledges s !! sh_sp sh).

Definition Acc (s : State) : Prop := AccM (pledges s) (shards s).

Lemma Acc_iff s : Acc s <-> Inv_used s /\ Inv_capacity s /\ Live_pledged s.
Proof. reflexivity. Qed.

(* the fields of a pledge the invariant reads *)
Definition pv (p : Pledge) : Z * Z * Z := (pl_used p, pl_shpledged p, pl_total p).
Definition PV (pl pl' : gmap string Pledge) : Prop := forall k, pv <$> pl' !! k = pv <$> pl !! k.

Lemma PV_refl pl : PV pl pl. Proof. intros k. reflexivity. Qed.
Lemma PV_trans a b c : PV a b -> PV b c -> PV a c.
Proof. intros H1 H2 k. rewrite H2. apply H1. Qed.
Lemma PV_sym a b : PV a b -> PV b a.
Proof. intros H k. symmetry. apply H. Qed.

Lemma PV_lookup pl pl' k p' : PV pl pl' -> pl' !! k = Some p' -> exists p, pl !! k = Some p /\ pv p = pv p'.
Proof.
  intros H E. specialize (H k). rewrite E in H. cbn in H.
  destruct (pl !! k) as [p|]; [|discriminate H]. cbn in H. exists p. split; [reflexivity|]. congruence.
Qed.

Lemma PV_insert pl k p p' : pl !! k = Some p -> pv p' = pv p -> PV pl (<[k:=p']> pl).
Proof.
  intros E Hp j. destruct (decide (j = k)) as [->|Hne].
  - rewrite lookup_insert, E. cbn. congruence.
  - rewrite lookup_insert_ne by congruence. reflexivity.
Qed.

Lemma PV_insert_both pl pl' k p : PV pl pl' -> PV (<[k:=p]> pl) (<[k:=p]> pl').
Proof.
  intros H j. destruct (decide (j = k)) as [->|Hne].
  - rewrite !lookup_insert. reflexivity.
  - rewrite !lookup_insert_ne by congruence. apply H.
Qed.

Lemma pv_fields p p' : pv p = pv p' -> pl_used p = pl_used p' /\ pl_shpledged p = pl_shpledged p' /\ pl_total p = pl_total p'.
Proof. unfold pv. intros E. injection E. auto. Qed.

Lemma AccM_pv pl pl' sm : PV pl pl' -> AccM pl sm -> AccM pl' sm.
Proof.
  intros H (HU & HC & HL). split; [|split].
  - intros sp p' E. destruct (PV_lookup _ _ _ _ H E) as (p & Ep & Hp). apply pv_fields in Hp as (<- & <- & _). eauto.
  - intros sp p' E. destruct (PV_lookup _ _ _ _ H E) as (p & Ep & Hp). apply pv_fields in Hp as (H1 & _ & H3).
    specialize (HC sp p Ep). lia.
  - intros id sh E Hs. destruct (HL id sh E Hs) as [p Ep]. specialize (H (sh_sp sh)). rewrite Ep in H. cbn in H.
    destruct (pl' !! sh_sp sh); [eexists; reflexivity|discriminate H].
Qed.

(* the shard table changes without changing any contribution *)
Lemma AccM_shards pl sm sm' :
  (forall sp, lsum sh_size sp sm' = lsum sh_size sp sm /\ lsum sh_pledge sp sm' = lsum sh_pledge sp sm) ->
  (forall id sh, sm' !! id = Some sh -> sh_status sh = ShardCompleted ->
                 exists id0 sh0, sm !! id0 = Some sh0 /\ sh_status sh0 = ShardCompleted /\ sh_sp sh0 = sh_sp sh) ->
  AccM pl sm -> AccM pl sm'.
Proof.
  intros Hs Hl (HU & HC & HL). split; [|split; [exact HC|]].
  - intros sp p E. destruct (Hs sp) as [-> ->]. eauto.
  - intros id sh E Hst. destruct (Hl id sh E Hst) as (id0 & sh0 & E0 & S0 & <-). eauto.
Qed.

Lemma AccM_insert_nl pl sm k v : nl (sm !! k) -> sh_status v <> ShardCompleted -> AccM pl sm -> AccM pl (<[k:=v]> sm).
Proof.
  intros Hk Hv. apply AccM_shards.
  - intros sp. rewrite !lsum_insert, !(cf_nl _ _ _ Hk). cbn. rewrite (live_at_nl _ _ Hv). lia.
  - intros id sh E Hst. apply lookup_insert_Some in E. destruct E as [[<- <-]|[Hne E]]; [contradiction|]. eauto.
Qed.

(* a stored shard is rewritten keeping status, provider, size and collateral *)
Lemma AccM_insert_same pl sm k sh v :
  sm !! k = Some sh -> sh_status v = sh_status sh -> sh_sp v = sh_sp sh -> sh_size v = sh_size sh -> sh_pledge v = sh_pledge sh ->
  AccM pl sm -> AccM pl (<[k:=v]> sm).
Proof.
  intros Ek E1 E2 E3 E4. apply AccM_shards.
  - intros sp. rewrite !lsum_insert, Ek. cbn. unfold live_at. rewrite E1, E2, E3, E4. lia.
  - intros id x E Hst. apply lookup_insert_Some in E. destruct E as [[<- <-]|[Hne E]]; [|eauto].
    exists k, sh. split; [exact Ek|]. split; congruence.
Qed.

Lemma AccM_delete_nl pl sm k : nl (sm !! k) -> AccM pl sm -> AccM pl (delete k sm).
Proof.
  intros Hk. apply AccM_shards.
  - intros sp. rewrite !lsum_delete, !(cf_nl _ _ _ Hk). lia.
  - intros id sh E Hst. apply lookup_delete_Some in E. destruct E as [_ E]. eauto.
Qed.

Lemma AccM_fold_delete_nl pl ids : forall sm,
  (forall k, In k ids -> nl (sm !! k)) -> AccM pl sm -> AccM pl (fold_left (fun m id => delete id m) ids sm).
Proof.
  induction ids as [|k ids IH]; intros sm Hk H; cbn; [exact H|].
  apply IH.
  - intros j Hj. destruct (decide (j = k)) as [->|Hne]; [rewrite lookup_delete; exact I|].
    rewrite lookup_delete_ne by congruence. apply Hk. right; exact Hj.
  - apply AccM_delete_nl; [apply Hk; left; reflexivity|exact H].
Qed.

Definition sizes_nonneg (sm : gmap Z Shard) : Prop := forall id sh, sm !! id = Some sh -> 0 <= sh_size sh.

(* ShardRelease of a stored completed shard followed by its removal *)
Lemma AccM_release_delete pl sm k sh p p' :
  sm !! k = Some sh -> sh_status sh = ShardCompleted -> pl !! sh_sp sh = Some p ->
  pl_used p' = pl_used p - sh_size sh -> pl_shpledged p' = pl_shpledged p - sh_pledge sh -> pl_total p' = pl_total p ->
  sizes_nonneg sm ->
  AccM pl sm -> AccM (<[sh_sp sh := p']> pl) (delete k sm).
Proof.
  intros Ek Hst Ep U1 U2 U3 Hsz (HU & HC & HL).
  assert (HU' : UsedM (<[sh_sp sh := p']> pl) (delete k sm)).
  { intros sp q E. rewrite !lsum_delete, Ek. cbn.
    destruct (decide (sp = sh_sp sh)) as [->|Hne].
    - rewrite lookup_insert in E. injection E as <-. rewrite live_at_self by exact Hst.
      destruct (HU _ _ Ep) as [H1 H2]. lia.
    - rewrite lookup_insert_ne in E by congruence. rewrite live_at_other by congruence.
      destruct (HU _ _ E) as [H1 H2]. lia. }
  split; [exact HU'|]. split.
  - intros sp q E. destruct (decide (sp = sh_sp sh)) as [->|Hne].
    + destruct (HU' _ _ E) as [H1 _]. rewrite lookup_insert in E. injection E as <-.
      assert (0 <= lsum sh_size (sh_sp sh) (delete k sm)).
      { apply lsum_nonneg. intros j x Ex. apply lookup_delete_Some in Ex. destruct Ex as [_ Ex]. eapply Hsz, Ex. }
      specialize (HC _ _ Ep). specialize (Hsz _ _ Ek). lia.
    + rewrite lookup_insert_ne in E by congruence. eauto.
  - intros id x E Hx. apply lookup_delete_Some in E. destruct E as [_ E].
    destruct (HL id x E Hx) as [q Eq]. destruct (decide (sh_sp x = sh_sp sh)) as [->|Hne].
    + rewrite lookup_insert. eexists; reflexivity.
    + rewrite lookup_insert_ne by congruence. eexists; exact Eq.
Qed.

(* ShardPledge: the shard under [k] (not completed before) becomes the completed shard [v] *)
Lemma AccM_pledge pl sm k v p p' :
  nl (sm !! k) -> sh_status v = ShardCompleted -> pl !! sh_sp v = Some p ->
  pl_used p' = pl_used p + sh_size v -> pl_shpledged p' = pl_shpledged p + sh_pledge v -> pl_total p' = pl_total p ->
  0 <= sh_size v -> pl_used p' <= pl_total p' ->
  AccM pl sm -> AccM (<[sh_sp v := p']> pl) (<[k:=v]> sm).
Proof.
  intros Hk Hst Ep U1 U2 U3 Hsz Hcap (HU & HC & HL). split; [|split].
  - intros sp q E. rewrite !lsum_insert, !(cf_nl _ _ _ Hk). cbn.
    destruct (decide (sp = sh_sp v)) as [->|Hne].
    + rewrite lookup_insert in E. injection E as <-. rewrite live_at_self by exact Hst.
      destruct (HU _ _ Ep) as [H1 H2]. lia.
    + rewrite lookup_insert_ne in E by congruence. rewrite live_at_other by congruence.
      destruct (HU _ _ E) as [H1 H2]. lia.
  - intros sp q E. destruct (decide (sp = sh_sp v)) as [->|Hne].
    + rewrite lookup_insert in E. injection E as <-. specialize (HC _ _ Ep). lia.
    + rewrite lookup_insert_ne in E by congruence. eauto.
  - intros id x E Hx. apply lookup_insert_Some in E. destruct E as [[<- <-]|[Hne E]].
    + rewrite lookup_insert. eexists; reflexivity.
    + destruct (HL id x E Hx) as [q Eq]. destruct (decide (sh_sp x = sh_sp v)) as [->|Hne'].
      * rewrite lookup_insert. eexists; reflexivity.
      * rewrite lookup_insert_ne by congruence. eexists; exact Eq.
Qed.

(* the renewal top-up: collateral of a completed shard and of its provider grow together *)
Lemma AccM_topup pl sm k sh v p p' x :
  sm !! k = Some sh -> sh_status sh = ShardCompleted -> sh_status v = ShardCompleted -> sh_sp v = sh_sp sh ->
  sh_size v = sh_size sh -> sh_pledge v = sh_pledge sh + x ->
  pl !! sh_sp sh = Some p -> pl_used p' = pl_used p -> pl_shpledged p' = pl_shpledged p + x -> pl_total p' = pl_total p ->
  AccM pl sm -> AccM (<[sh_sp sh := p']> pl) (<[k:=v]> sm).
Proof.
  intros Ek Hst Hv E2 E3 E4 Ep U1 U2 U3 (HU & HC & HL). split; [|split].
  - intros sp q E. rewrite !lsum_insert, Ek. cbn. unfold live_at. rewrite Hst, Hv, E2, E3, E4. cbn.
    destruct (decide (sp = sh_sp sh)) as [->|Hne].
    + rewrite lookup_insert in E. injection E as <-. rewrite String.eqb_refl.
      destruct (HU _ _ Ep) as [H1 H2]. lia.
    + rewrite lookup_insert_ne in E by congruence.
      replace (String.eqb (sh_sp sh) sp) with false by (symmetry; apply String.eqb_neq; congruence).
      destruct (HU _ _ E) as [H1 H2]. lia.
  - intros sp q E. destruct (decide (sp = sh_sp sh)) as [->|Hne].
    + rewrite lookup_insert in E. injection E as <-. specialize (HC _ _ Ep). lia.
    + rewrite lookup_insert_ne in E by congruence. eauto.
  - intros id y E Hy. apply lookup_insert_Some in E. destruct E as [[<- <-]|[Hne E]].
    + rewrite E2, lookup_insert. eexists; reflexivity.
    + destruct (HL id y E Hy) as [q Eq]. destruct (decide (sh_sp y = sh_sp sh)) as [->|Hne'].
      * rewrite lookup_insert. eexists; reflexivity.
      * rewrite lookup_insert_ne by congruence. eexists; exact Eq.
Qed.

(* a pledge record is rewritten with another capacity, or created empty *)
Lemma AccM_capacity pl sm c p' :
  match pl !! c with
  | Some p => pl_used p' = pl_used p /\ pl_shpledged p' = pl_shpledged p /\ pl_used p <= pl_total p'
  | None => pl_used p' = 0 /\ pl_shpledged p' = 0 /\ 0 <= pl_total p'
  end ->
  AccM pl sm -> AccM (<[c:=p']> pl) sm.
Proof.
  intros Hc (HU & HC & HL). split; [|split].
  - intros sp q E. destruct (decide (sp = c)) as [->|Hne].
    + rewrite lookup_insert in E. injection E as <-. destruct (pl !! c) as [p|] eqn:Ep.
      * destruct Hc as (-> & -> & _). eauto.
      * destruct Hc as (-> & -> & _).
        assert (Hz : forall f, lsum f c sm = 0).
        { intros f. apply sum_map_zero. intros k x Ex. destruct (live_at c x) eqn:L; [|reflexivity].
          apply live_at_true in L as [L1 L2]. destruct (HL k x Ex L1) as [q Eq]. congruence. }
        rewrite !Hz. auto.
    + rewrite lookup_insert_ne in E by congruence. eauto.
  - intros sp q E. destruct (decide (sp = c)) as [->|Hne].
    + rewrite lookup_insert in E. injection E as <-. destruct (pl !! c) as [p|] eqn:Ep.
      * destruct Hc as (-> & _ & H3). specialize (HC _ _ Ep). lia.
      * destruct Hc as (-> & _ & H3). lia.
    + rewrite lookup_insert_ne in E by congruence. eauto.
  - intros id x E Hx. destruct (HL id x E Hx) as [q Eq]. destruct (decide (sh_sp x = c)) as [->|Hne].
    + rewrite lookup_insert. eexists; reflexivity.
    + rewrite lookup_insert_ne by congruence. eexists; exact Eq.
Qed.

(** * 3. frames *)
(* [Fv]: the pledge fields the invariant reads, the shard table and its counter are untouched *)
Definition Fv (s s' : State) : Prop :=
  PV (pledges s) (pledges s') /\ shards s' = shards s /\ shard_count s' = shard_count s.

Global Instance Fv_preorder : PreOrder Fv.
Proof.
  split.
  - intros s. split; [apply PV_refl|auto].
  - intros a b c (A1 & A2 & A3) (B1 & B2 & B3). split; [eapply PV_trans; eassumption|]. split; congruence.
Qed.

Lemma Fv_same s s' : pledges s' = pledges s -> shards s' = shards s -> shard_count s' = shard_count s -> Fv s s'.
Proof. intros E1 E2 E3. split; [rewrite E1; apply PV_refl|auto]. Qed.

Lemma Acc_Fv s s' : Fv s s' -> Acc s -> Acc s'.
Proof. intros (H1 & H2 & _) H. unfold Acc. rewrite H2. eapply AccM_pv; eassumption. Qed.

(* AppendShard of a shard that is not completed *)
Definition app_state (s : State) (sh : Shard) : State :=
  s <| shards ::= <[shard_count s := sh]> |> <| shard_count := u64 (shard_count s + 1) |>.

Ltac fv_side :=
  match goal with
  | H : forall s s', Fv s s' -> ?R s s' |- ?R _ _ =>
      apply H; first [ apply Fv_same; reflexivity
                     | repeat case_match; apply Fv_same; reflexivity ]
  end.
Ltac mok_side ::= first [ solve [fv_side] | reflexivity ].

Section Light.
  Context (R : State -> State -> Prop) `{!PreOrder R} (HFv : forall s s', Fv s s' -> R s s').
  Context (HApp : forall s sh, sh_status sh <> ShardCompleted -> R s (app_state s sh)).
  Context (cx : Ctx).
  Local Notation h := true.

  Lemma send_strict_fv f t a : mok R h (send_strict f t a).
  Proof.
    intros s. unfold send_strict. destruct (a <=? 0); [cbn; reflexivity|].
    destruct (balance s f <? a); [cbn; reflexivity|]. cbn. apply HFv, Fv_same; reflexivity.
  Qed.
  Hint Resolve send_strict_fv : mok.
  Lemma send_lenient_fv f t a : mok R h (send_lenient f t a).
  Proof. intros s. unfold send_lenient. destruct (a =? 0); [cbn; reflexivity|]. apply send_strict_fv. Qed.
  Hint Resolve send_lenient_fv : mok.
  Lemma coin_sub_fv a b : mok R h (coin_sub a b).
  Proof. unfold coin_sub. mok_tac. Qed.
  Hint Resolve coin_sub_fv : mok.
  Lemma end_block_node_fv : mok R h (end_block_node cx).
  Proof. unfold end_block_node, do_penalty. mok_tac. Qed.
  Lemma node_create_fv c : mok R h (node_create cx c).
  Proof. unfold node_create. mok_tac. Qed.
  Lemma node_reset_fv m : mok R h (node_reset cx m).
  Proof. unfold node_reset. mok_tac. Qed.
  Lemma repay_debt_fv sp rw : mok R h (repay_debt sp rw).
  Proof. unfold repay_debt. mok_tac. Qed.
  Hint Resolve repay_debt_fv : mok.
  Lemma market_claim_fv sp : mok R h (market_claim cx sp).
  Proof. unfold market_claim. mok_tac. Qed.
  Hint Resolve market_claim_fv : mok.
  Lemma increase_reputation_fv n v : mok R h (increase_reputation n v).
  Proof. unfold increase_reputation. mok_tac. Qed.
  Hint Resolve increase_reputation_fv : mok.
  Lemma random_sp_m_fv count ignore size : mok R h (random_sp_m cx count ignore size).
  Proof.
    unfold random_sp_m. mok_step; [mok_step|].
    destruct (random_sp _ _ _ _ _ _ _) as [[sps r]| |] eqn:E; mok_tac.
    intros s. cbn. reflexivity.
  Qed.
  Hint Resolve random_sp_m_fv : mok.

  Lemma send_to_did_balances_fv md d amt : mok R h (send_to_did_balances md d amt).
  Proof. intros s. unfold send_to_did_balances. destruct (amt =? 0); [cbn; reflexivity|]. exact I. Qed.
  Hint Resolve send_to_did_balances_fv : mok.
  Lemma worker_release_fv o sh : mok R h (worker_release cx o sh).
  Proof. unfold worker_release. mok_tac. Qed.
  Hint Resolve worker_release_fv : mok.
  Lemma worker_append_fv o sh : mok R h (worker_append cx o sh).
  Proof. unfold worker_append. mok_tac. Qed.
  Hint Resolve worker_append_fv : mok.
  Lemma market_deposit_fv o : mok R h (market_deposit o).
  Proof. unfold market_deposit. mok_tac. Qed.
  Hint Resolve market_deposit_fv : mok.
  Lemma market_withdraw_fv oid o : mok R h (market_withdraw cx oid o).
  Proof. unfold market_withdraw. mok_tac. mok_loop; mok_tac. Qed.
  Hint Resolve market_withdraw_fv : mok.
  Lemma append_order_fv o : mok R h (append_order o).
  Proof. unfold append_order. mok_tac. Qed.
  Hint Resolve append_order_fv : mok.
  Lemma renew_order_fv o : mok R h (renew_order o).
  Proof. unfold renew_order. mok_tac. Qed.
  Hint Resolve renew_order_fv : mok.
  Lemma order_terminate_fv oid refund : mok R h (order_terminate oid refund).
  Proof. unfold order_terminate. mok_tac. Qed.
  Hint Resolve order_terminate_fv : mok.
  Lemma refund_order_fv oid : mok R h (refund_order oid).
  Proof. unfold refund_order. mok_tac. Qed.
  Hint Resolve refund_order_fv : mok.
  Lemma set_data_expire_fv d a : mok R h (set_data_expire d a).
  Proof. unfold set_data_expire. mok_tac. Qed.
  Hint Resolve set_data_expire_fv : mok.
  Lemma remove_data_expire_fv d a : mok R h (remove_data_expire d a).
  Proof. unfold remove_data_expire. mok_tac. Qed.
  Hint Resolve remove_data_expire_fv : mok.
  Lemma new_meta_fv o d m : mok R h (new_meta cx o d m).
  Proof. unfold new_meta. mok_tac. Qed.
  Hint Resolve new_meta_fv : mok.
  Lemma reset_meta_duration_fv d m : mok R h (reset_meta_duration cx d m).
  Proof. unfold reset_meta_duration. mok_tac. Qed.
  Hint Resolve reset_meta_duration_fv : mok.
  Lemma extend_meta_duration_fv d e : mok R h (extend_meta_duration d e).
  Proof. unfold extend_meta_duration. mok_tac. Qed.
  Hint Resolve extend_meta_duration_fv : mok.
  Lemma delete_meta_fv d : mok R h (delete_meta d).
  Proof. unfold delete_meta. mok_tac. Qed.
  Hint Resolve delete_meta_fv : mok.
  Lemma update_meta_status_commit_fv oid o : mok R h (update_meta_status_commit cx oid o).
  Proof. unfold update_meta_status_commit. mok_tac. Qed.
  Hint Resolve update_meta_status_commit_fv : mok.
  Lemma rollback_meta_fv d : mok R h (rollback_meta cx d).
  Proof. unfold rollback_meta. mok_tac. Qed.
  Hint Resolve rollback_meta_fv : mok.
  Lemma cancel_order_fv oid : mok R h (cancel_order cx oid).
  Proof. unfold cancel_order. mok_tac. Qed.
  Hint Resolve cancel_order_fv : mok.
  Lemma update_permission_fv ow d ro rw : mok R h (update_permission ow d ro rw).
  Proof. unfold update_permission. mok_tac. Qed.
  Hint Resolve update_permission_fv : mok.
  Lemma end_block_model_fv : mok R h (end_block_model cx).
  Proof. unfold end_block_model. mok_tac. Qed.
  Lemma set_timeout_block_fv oid a : mok R h (set_timeout_block oid a).
  Proof. unfold set_timeout_block. mok_tac. Qed.
  Hint Resolve set_timeout_block_fv : mok.
  Lemma set_expired_shard_block_fv sid a : mok R h (set_expired_shard_block sid a).
  Proof. unfold set_expired_shard_block. mok_tac. Qed.
  Hint Resolve set_expired_shard_block_fv : mok.
  Lemma get_sps_fv o d : mok R h (get_sps cx o d).
  Proof. unfold get_sps. mok_tac. Qed.
  Hint Resolve get_sps_fv : mok.
  Lemma sao_update_permission_fv c p ow d ro rw sg v : mok R h (sao_update_permission cx c p ow d ro rw sg v).
  Proof. unfold sao_update_permission. mok_tac. Qed.

  (* update_meta on an order that is not a force-push *)
  Lemma update_meta_fv oid o : o_op o <> 2 -> mok R h (update_meta cx oid o).
  Proof.
    intros Hop. unfold update_meta. mok_tac.
    all: match goal with H : (o_op _ =? 2) = true |- _ => apply Z.eqb_eq in H; contradiction end.
  Qed.

  (** appends *)
  Lemma append_shard_fv sh : sh_status sh <> ShardCompleted -> mok R h (append_shard sh).
  Proof. intros Hs s. unfold append_shard, bind, get, modify, ret. apply (HApp s sh Hs). Qed.
  Lemma new_shard_task_fv oid o p : mok R h (new_shard_task oid o p).
  Proof. unfold new_shard_task. apply append_shard_fv. cbn. discriminate. Qed.
  Hint Resolve new_shard_task_fv : mok.
  Lemma gen_shards_fv oid sps : forall o, mok R h (gen_shards oid o sps).
  Proof. induction sps as [|sp sps IH]; intros o; cbn [gen_shards]; mok_tac. Qed.
  Hint Resolve gen_shards_fv : mok.
  Lemma generate_shards_fv oid o sps : mok R h (generate_shards oid o sps).
  Proof. unfold generate_shards. mok_tac. Qed.
  Hint Resolve generate_shards_fv : mok.
  Lemma new_order_fv o sps : mok R h (new_order cx o sps).
  Proof. unfold new_order. mok_tac. Qed.
  Hint Resolve new_order_fv : mok.
  Lemma sao_store_fv m : mok R h (sao_store cx m).
  Proof. unfold sao_store. mok_tac. Qed.
  Lemma sao_ready_fv c p oid : mok R h (sao_ready cx c p oid).
  Proof. unfold sao_ready. mok_tac. Qed.
  Lemma migrate_one_fv p d : mok R h (migrate_one cx p d).
  Proof.
    unfold migrate_one. mok_tac. mok_loop; mok_tac.
    apply append_shard_fv. cbn. discriminate.
  Qed.
  Hint Resolve migrate_one_fv : mok.
  Lemma sao_migrate_fv c p d : mok R h (sao_migrate cx c p d).
  Proof. unfold sao_migrate. mok_tac. Qed.
End Light.

(** ** the existing frames of the handlers outside the storage modules *)
Lemma mok_eqon_Fv {T A} (f : State -> T) hh (m : M A) :
  (forall s s', f s' = f s -> pledges s' = pledges s /\ shards s' = shards s /\ shard_count s' = shard_count s) ->
  mok (eqon f) hh m -> mok Fv true m.
Proof.
  intros Hf. apply mok_weaken; [|auto]. intros s s' E. destruct (Hf s s' E) as (E1 & E2 & E3). apply Fv_same; assumption.
Qed.

Lemma lift_did_Fv cx o : mok Fv true (lift_did cx o).
Proof. eapply mok_eqon_Fv; [|apply (lift_did_ok cx o true)]. intros s s' E; injection E; intros; auto. Qed.
Lemma sao_report_faults_Fv cx c p fl : mok Fv true (sao_report_faults cx c p fl).
Proof. eapply mok_eqon_Fv; [|apply (sao_report_faults_ok cx true)]. intros s s' E; injection E; intros; auto. Qed.
Lemma sao_recover_faults_Fv cx c p fl : mok Fv true (sao_recover_faults cx c p fl).
Proof. eapply mok_eqon_Fv; [|apply (sao_recover_faults_ok cx true)]. intros s s' E; injection E; intros; auto. Qed.
Lemma staking_tx_Fv evs : mok Fv true (staking_tx evs).
Proof. eapply mok_eqon_Fv; [|apply (staking_tx_ok true)]. intros s s' E; injection E; intros; auto. Qed.
Lemma begin_block_Fv cx : mok Fv true (begin_block cx).
Proof. eapply mok_eqon_Fv; [|apply (begin_block_ok cx true)]. intros s s' E; injection E; intros; auto. Qed.

(** * 4. weakest preconditions *)
(* [wp m s Q E]: a normal return of [m] from [s] satisfies [Q], an error return leaves a state in [E] *)
Definition wp {A} (m : M A) (s : State) (Q : A -> State -> Prop) (E : State -> Prop) : Prop :=
  match m s with Ok a s' => Q a s' | Err _ s' => E s' | Panic _ => True | Hang => True end.

Lemma wp_ret {A} (a : A) s (Q : A -> State -> Prop) (E : State -> Prop) : Q a s -> wp (ret a) s Q E.
Proof. intros H. exact H. Qed.
Lemma wp_fail {A} e s (Q : A -> State -> Prop) (E : State -> Prop) : E s -> wp (fail e) s Q E.
Proof. intros H. exact H. Qed.
Lemma wp_panic {A} e s (Q : A -> State -> Prop) (E : State -> Prop) : wp (panic e) s Q E.
Proof. exact I. Qed.
Lemma wp_bind {A B} (m : M A) (k : A -> M B) s (Q : B -> State -> Prop) (E : State -> Prop) :
  wp m s (fun a s' => wp (k a) s' Q E) E -> wp (bind m k) s Q E.
Proof. unfold wp, bind. destruct (m s); auto. Qed.
Lemma wp_get {A} (k : State -> M A) s (Q : A -> State -> Prop) (E : State -> Prop) : wp (k s) s Q E -> wp (bind get k) s Q E.
Proof. intros H. exact H. Qed.
Lemma wp_modify g s (Q : unit -> State -> Prop) (E : State -> Prop) : Q tt (g s) -> wp (modify g) s Q E.
Proof. intros H. exact H. Qed.
Lemma wp_try {A} (m : M A) s (Q : option A -> State -> Prop) (E : State -> Prop) :
  wp m s (fun a s' => Q (Some a) s') (fun s' => Q None s') -> wp (try_ m) s Q E.
Proof. unfold wp, try_. destruct (m s); auto. Qed.
Lemma wp_mono {A} (m : M A) s (Q Q' : A -> State -> Prop) (E E' : State -> Prop) :
  wp m s Q E -> (forall a s', Q a s' -> Q' a s') -> (forall s', E s' -> E' s') -> wp m s Q' E'.
Proof. unfold wp. destruct (m s); auto. Qed.
Lemma wp_mok {A} R hh (m : M A) s (Q : A -> State -> Prop) (E : State -> Prop) :
  mok R hh m -> (forall a s', R s s' -> Q a s') -> (forall s', R s s' -> E s') -> wp m s Q E.
Proof. intros Hm HQ HE. specialize (Hm s). unfold wp. destruct (m s); auto. Qed.
Lemma wp_forM {A} (l : list A) (f : A -> M unit) (I : State -> Prop) s (Q : unit -> State -> Prop) (E : State -> Prop) :
  I s -> (forall x t, In x l -> I t -> wp (f x) t (fun _ t' => I t') E) -> (forall t, I t -> Q tt t) ->
  wp (forM l f) s Q E.
Proof.
  intros Hs Hf HQ. revert s Hs. induction l as [|x l IH]; intros s Hs; cbn [forM].
  - apply wp_ret, HQ, Hs.
  - apply wp_bind. eapply wp_mono; [apply (Hf x s); [left; reflexivity|exact Hs]| |auto].
    intros u s' Hs'. apply IH; [|exact Hs']. intros y t Hy. apply Hf. right; exact Hy.
Qed.
(* a frame step inside a computation *)
Lemma wp_Fv {A} (m : M A) s (Q : A -> State -> Prop) (E : State -> Prop) :
  mok Fv true m -> (forall a s', Fv s s' -> Q a s') -> (forall s', Fv s s' -> E s') -> wp m s Q E.
Proof. apply wp_mok. Qed.

Ltac wp_fv lem := eapply wp_Fv; [apply lem; try exact _; auto| |].

(** ** domain of the model: shard sizes are unsigned, capacities fit int64 *)
Definition Dom (s : State) : Prop :=
  sizes_nonneg (shards s) /\ (forall sp p, pledges s !! sp = Some p -> pl_total p < two63).

Lemma Dom_Fv s s' : Fv s s' -> Dom s -> Dom s'.
Proof.
  intros (H1 & H2 & _) [D1 D2]. split; [rewrite H2; exact D1|].
  intros sp p' E. destruct (PV_lookup _ _ _ _ H1 E) as (p & Ep & Hp). apply pv_fields in Hp as (_ & _ & H3).
  specialize (D2 sp p Ep). lia.
Qed.

Lemma settle_pv acc p : pv (settle acc p) = pv p.
Proof. unfold settle. destruct (0 <? pl_total p); reflexivity. Qed.

(** ** ShardRelease *)
(* the settlement-only call *)
Lemma shard_release_none_Fv sp : mok Fv true (shard_release sp None).
Proof.
  intros s. unfold shard_release, bind, get. destruct (pledges s !! sp) as [p|] eqn:Ep; [|cbn; reflexivity].
  destruct (pool s) as [po|]; [|cbn; reflexivity]. cbn.
  split; [|split; reflexivity]. cbn. eapply PV_insert; [exact Ep|]. unfold pv. cbn.
  pose proof (settle_pv (po_accreward po) p) as Hp. unfold pv in Hp. injection Hp as -> -> ->. reflexivity.
Qed.

(* release of a shard: an error return is a frame step; a normal return books the shard out *)
Lemma wp_release sp sh s (Q : unit -> State -> Prop) (E : State -> Prop) :
  (forall s', Fv s s' -> E s') ->
  (forall p p' s', pledges s !! sp = Some p ->
     pl_used p' = i64 (pl_used p - i64 (sh_size sh)) -> pl_shpledged p' = pl_shpledged p - sh_pledge sh ->
     pl_total p' = pl_total p -> 0 <= pl_shpledged p' ->
     PV (<[sp:=p']> (pledges s)) (pledges s') -> shards s' = shards s -> shard_count s' = shard_count s -> Q tt s') ->
  wp (shard_release sp (Some sh)) s Q E.
Proof.
  intros HE HQ. unfold shard_release. apply wp_get.
  destruct (pledges s !! sp) as [p|] eqn:Ep; [|apply wp_fail, HE; reflexivity].
  destruct (pool s) as [po|] eqn:Epo; [|apply wp_fail, HE; reflexivity].
  cbv zeta. apply wp_bind. apply wp_bind.
  wp_fv repay_debt_fv; [|intros s1 F1; apply HE, F1].
  intros rw s1 F1. apply wp_bind.
  eapply (wp_Fv _ s1 _ _); [destruct (hd 0 rw =? 0); [apply mok_ret; exact _|apply send_strict_fv; try exact _; auto]| |].
  2:{ intros s2 F2. apply HE. etransitivity; eassumption. }
  intros _ s2 F2. apply wp_bind. unfold coin_sub.
  destruct (pl_shpledged (settle (po_accreward po) p) - sh_pledge sh <? 0) eqn:Ec; [apply wp_panic|].
  apply Z.ltb_ge in Ec. apply wp_ret, wp_ret, wp_modify.
  assert (F : Fv s s2) by (etransitivity; eassumption). destruct F as (P1 & P2 & P3).
  pose proof (settle_pv (po_accreward po) p) as Hp. apply pv_fields in Hp as (S1 & S2 & S3).
  eapply (HQ p); [reflexivity| | | | | |exact P2|exact P3].
  5:{ cbn. apply PV_insert_both, P1. }
  all: cbn; rewrite ?S1, ?S2, ?S3; try reflexivity. lia.
Qed.

(** ** ShardPledge *)
Lemma wp_pledge id sh price s (Q : Shard -> State -> Prop) (E : State -> Prop) :
  (forall s', Fv s s' -> E s') ->
  (forall p p' v s', pledges s !! sh_sp sh = Some p ->
     (u64 (pl_total p - pl_used p) <? sh_size sh) = false ->
     pl_used p' = i64 (pl_used p + i64 (sh_size sh)) -> pl_shpledged p' = pl_shpledged p + sh_pledge v ->
     pl_total p' = pl_total p ->
     sh_status v = sh_status sh -> sh_sp v = sh_sp sh -> sh_size v = sh_size sh ->
     PV (<[sh_sp sh:=p']> (pledges s)) (pledges s') -> shards s' = <[id:=v]> (shards s) ->
     shard_count s' = shard_count s -> Q v s') ->
  wp (shard_pledge id sh price) s Q E.
Proof.
  intros HE HQ. unfold shard_pledge. apply wp_get.
  destruct (pledges s !! sh_sp sh) as [p|] eqn:Ep; [|apply wp_fail, HE; reflexivity].
  destruct (pool s) as [po|] eqn:Epo; [|apply wp_fail, HE; reflexivity].
  cbv zeta.
  pose proof (settle_pv (po_accreward po) p) as Hp. apply pv_fields in Hp as (S1 & S2 & S3).
  destruct (u64 (pl_total (settle (po_accreward po) p) - pl_used (settle (po_accreward po) p)) <? sh_size sh) eqn:Echk;
    [apply wp_fail, HE; reflexivity|].
  destruct (dec_trunc _ <? 0); [apply wp_panic|].
  apply wp_bind.
  match goal with |- wp ?m s _ _ => assert (Hm : mok Fv true m) end.
  { destruct (sh_renew sh); [apply send_lenient_fv; try exact _; auto|].
    destruct (_ <=? _); [apply send_lenient_fv; try exact _; auto|].
    apply mok_bind; try exact _; [|intros; apply send_strict_fv; try exact _; auto].
    apply mok_modify. intros s0. apply Fv_same; reflexivity. }
  eapply wp_Fv; [exact Hm| |exact HE].
  intros _ s1 (P1 & P2 & P3). apply wp_bind, wp_modify, wp_ret.
  eapply (HQ p); [reflexivity| | | | | | | | | |].
  8:{ cbn. apply PV_insert_both, P1. }
  8:{ cbn. rewrite P2. reflexivity. }
  8:{ cbn. exact P3. }
  - rewrite S1, S3 in Echk. exact Echk.
  - cbn. rewrite S1. reflexivity.
  - cbn. rewrite S2. reflexivity.
  - cbn. exact S3.
  - reflexivity.
  - reflexivity.
  - reflexivity.
Qed.

(** ** arithmetic of the counters under the invariant *)
Lemma lsum_ge_term sp sm k sh :
  sizes_nonneg sm -> sm !! k = Some sh -> live_at sp sh = true -> sh_size sh <= lsum sh_size sp sm.
Proof.
  intros Hsz Ek Hl.
  assert (E : lsum sh_size sp sm = lsum sh_size sp (delete k sm) + sh_size sh).
  { rewrite lsum_delete, Ek. cbn. rewrite Hl. lia. }
  assert (0 <= lsum sh_size sp (delete k sm)).
  { apply lsum_nonneg. intros j x Ex. apply lookup_delete_Some in Ex. destruct Ex as [_ Ex]. eapply Hsz, Ex. }
  lia.
Qed.

Lemma release_arith s k sh p :
  Acc s -> Dom s -> shards s !! k = Some sh -> sh_status sh = ShardCompleted -> pledges s !! sh_sp sh = Some p ->
  i64 (pl_used p - i64 (sh_size sh)) = pl_used p - sh_size sh.
Proof.
  intros (HU & HC & _) [D1 D2] Ek Hst Ep.
  destruct (HU _ _ Ep) as [H1 _]. specialize (HC _ _ Ep). specialize (D2 _ _ Ep). pose proof (D1 _ _ Ek) as Hs0.
  pose proof (lsum_ge_term (sh_sp sh) _ _ _ D1 Ek (live_at_self _ Hst)) as Hge.
  rewrite (i64_id (sh_size sh)) by (unfold two63 in *; lia). apply i64_id. unfold two63 in *. lia.
Qed.

(* the state after a completed stored shard was released and removed (frame steps in between allowed) *)
Lemma release_delete_ok s k sh p p' s' :
  Acc s -> Dom s -> shards s !! k = Some sh -> sh_status sh = ShardCompleted -> pledges s !! sh_sp sh = Some p ->
  pl_used p' = i64 (pl_used p - i64 (sh_size sh)) -> pl_shpledged p' = pl_shpledged p - sh_pledge sh ->
  pl_total p' = pl_total p ->
  PV (<[sh_sp sh:=p']> (pledges s)) (pledges s') -> shards s' = delete k (shards s) ->
  Acc s' /\ Dom s'.
Proof.
  intros HA HD Ek Hst Ep U1 U2 U3 HP Hsh.
  rewrite (release_arith s k sh p HA HD Ek Hst Ep) in U1. split.
  - unfold Acc. rewrite Hsh. eapply AccM_pv; [exact HP|].
    eapply AccM_release_delete; try eassumption. apply HD.
  - destruct HD as [D1 D2]. split.
    + rewrite Hsh. intros j x Ex. apply lookup_delete_Some in Ex. destruct Ex as [_ Ex]. eapply D1, Ex.
    + intros sp q E. destruct (PV_lookup _ _ _ _ HP E) as (q0 & E0 & Hq). apply pv_fields in Hq as (_ & _ & H3).
      destruct (decide (sp = sh_sp sh)) as [->|Hne].
      * rewrite lookup_insert in E0. injection E0 as <-. specialize (D2 _ _ Ep). lia.
      * rewrite lookup_insert_ne in E0 by congruence. specialize (D2 _ _ E0). lia.
Qed.

(* the state after a shard that was not completed became completed through ShardPledge *)
Lemma pledge_ok s k sh p p' v s' :
  Acc s -> Dom s -> nl (shards s !! k) -> sh_status sh = ShardCompleted -> 0 <= sh_size sh ->
  pledges s !! sh_sp sh = Some p -> (u64 (pl_total p - pl_used p) <? sh_size sh) = false ->
  pl_used p' = i64 (pl_used p + i64 (sh_size sh)) -> pl_shpledged p' = pl_shpledged p + sh_pledge v ->
  pl_total p' = pl_total p -> sh_status v = sh_status sh -> sh_sp v = sh_sp sh -> sh_size v = sh_size sh ->
  PV (<[sh_sp sh:=p']> (pledges s)) (pledges s') -> shards s' = <[k:=v]> (shards s) ->
  Acc s'.
Proof.
  intros HA HD Hk Hst Hs0 Ep Hchk U1 U2 U3 V1 V2 V3 HP Hsh.
  pose proof HA as (HU & HC & _). destruct HD as [D1 D2].
  specialize (HC _ _ Ep). specialize (D2 _ _ Ep). apply Z.ltb_ge in Hchk.
  rewrite u64_id in Hchk by (unfold two64, two63 in *; lia).
  rewrite (i64_id (sh_size sh)) in U1 by (unfold two63 in *; lia).
  rewrite i64_id in U1 by (unfold two63 in *; lia).
  unfold Acc. rewrite Hsh. eapply AccM_pv; [exact HP|]. rewrite <- V2.
  eapply (AccM_pledge _ _ k v p p'); try eassumption; try congruence; try lia.
Qed.

(** ** AddVstorage / RemoveVstorage / ClaimReward *)
Lemma Acc_capacity_step s s2 c p3 :
  Fv s s2 -> Acc s ->
  match pledges s !! c with
  | Some p => pl_used p3 = pl_used p /\ pl_shpledged p3 = pl_shpledged p /\ pl_used p <= pl_total p3
  | None => pl_used p3 = 0 /\ pl_shpledged p3 = 0 /\ 0 <= pl_total p3
  end ->
  AccM (<[c:=p3]> (pledges s2)) (shards s2).
Proof.
  intros F HA Hc. pose proof (Acc_Fv _ _ F HA) as HA2. destruct F as (P1 & _ & _).
  apply AccM_capacity; [|exact HA2]. specialize (P1 c).
  destruct (pledges s !! c) as [p|], (pledges s2 !! c) as [q|]; cbn in P1; try discriminate P1; [|exact Hc].
  injection P1 as P1. assert (Hq : pv q = pv p) by (unfold pv; congruence). apply pv_fields in Hq as (-> & -> & _). exact Hc.
Qed.

Definition AD (s : State) : Prop := Acc s /\ Dom s.
Definition Tt (_ : State) : Prop := True.

Lemma add_vstorage_acc c sz s : Acc s -> wp (add_vstorage c sz) s (fun _ s' => Acc s') Tt.
Proof.
  intros HA. unfold add_vstorage. apply wp_get.
  destruct (nodes s !! c) as [n|]; [|apply wp_fail; exact I].
  destruct (pool s) as [po|]; [|apply wp_fail; exact I].
  cbv zeta. destruct (dec_trunc (dec_ceil (dec_mul_int PRICE (i64 sz))) <? 0) eqn:Eneg; [apply wp_panic|].
  apply Z.ltb_ge in Eneg. rewrite size_of_coins.
  apply wp_bind. wp_fv send_strict_fv; [|intros; exact I]. intros _ s1 F1.
  apply wp_bind.
  match goal with |- wp ?m s1 _ _ => assert (Hm : mok Fv true m) end.
  { destruct (_ <=? _); [|apply mok_ret; exact _].
    apply mok_bind; try exact _; [apply mok_get; exact _|intros s0].
    destruct (nodes s0 !! c); [|apply mok_fail; exact _].
    destruct (_ && _); [|apply mok_ret; exact _].
    destruct (check_node_share s0 n0 c) as [n' ok]. destruct ok; [|apply mok_ret; exact _].
    apply mok_modify. intros s2. apply Fv_same; reflexivity. }
  eapply wp_Fv; [exact Hm| |intros; exact I]. intros _ s2 F2.
  apply wp_modify. unfold Acc. cbn.
  apply (Acc_capacity_step s s2); [etransitivity; eassumption|exact HA|].
  destruct (pledges s !! c) as [p|] eqn:Ep; cbn.
  - pose proof (settle_pv (po_accreward po) (p <| pl_spledged := pl_spledged p + dec_trunc (dec_ceil (dec_mul_int PRICE (i64 sz))) |>)) as Hp.
    apply pv_fields in Hp as (S1 & S2 & S3). cbn in S1, S2, S3. rewrite S1, S2, S3.
    destruct HA as (_ & HC & _). specialize (HC _ _ Ep). repeat split; lia.
  - unfold settle. cbn. repeat split; lia.
Qed.

Lemma remove_vstorage_acc c sz s : Acc s -> wp (remove_vstorage c sz) s (fun _ s' => Acc s') Tt.
Proof.
  intros HA. unfold remove_vstorage. apply wp_get.
  destruct (nodes s !! c) as [n|]; [|apply wp_fail; exact I].
  destruct (pool s) as [po|]; [|apply wp_fail; exact I].
  destruct (pledges s !! c) as [p|] eqn:Ep; [|apply wp_fail; exact I].
  cbv zeta. destruct (_ =? 0); [apply wp_fail; exact I|].
  destruct (pl_total p - pl_used p <? _) eqn:Echk; [apply wp_fail; exact I|]. apply Z.ltb_ge in Echk.
  destruct (_ <? 0); [apply wp_panic|].
  apply wp_bind. wp_fv coin_sub_fv; [|intros; exact I]. intros sp' s0 F0.
  apply wp_bind. wp_fv send_strict_fv; [|intros; exact I]. intros _ s1 F1.
  apply wp_bind.
  match goal with |- wp ?m s1 _ _ => assert (Hm : mok Fv true m) end.
  { destruct (_ <? _); [|apply mok_ret; exact _].
    apply mok_bind; try exact _; [apply mok_get; exact _|intros s2].
    destruct (nodes s2 !! c); [|apply mok_fail; exact _].
    destruct (_ =? 1); [|apply mok_ret; exact _].
    apply mok_modify. intros s3. apply Fv_same; reflexivity. }
  eapply wp_Fv; [exact Hm| |intros; exact I]. intros _ s2 F2.
  apply wp_modify. unfold Acc. cbn.
  apply (Acc_capacity_step s s2); [etransitivity; [exact F0|etransitivity; eassumption]|exact HA|].
  rewrite Ep. cbn.
  pose proof (settle_pv (po_accreward po) (p <| pl_spledged := sp' |>)) as Hp.
  apply pv_fields in Hp as (S1 & S2 & S3). cbn in S1, S2, S3. rewrite S1, S2, S3. repeat split; lia.
Qed.

Lemma mok_of_wp {A} R (m : M A) : (forall s, wp m s (fun _ s' => R s s') (fun s' => R s s')) -> mok R true m.
Proof. intros H s. specialize (H s). unfold wp in H. destruct (m s); auto. Qed.

Lemma claim_reward_Fv cx c : mok Fv true (claim_reward cx c).
Proof.
  apply mok_of_wp. intros s.
  unfold claim_reward. apply wp_get.
  destruct (pledges s !! c) as [p0|]; [|apply wp_fail; reflexivity].
  apply wp_bind, wp_try. wp_fv shard_release_none_Fv; intros; try (apply wp_get);
    match goal with F : Fv s ?t |- _ => rename t into s1; rename F into F1 end.
  all: destruct (pledges s1 !! c) as [p|] eqn:Ep; [|apply wp_panic].
  all: destruct (dec_split (pl_reward p)) as [claim remain]; destruct (claim <? 0); [apply wp_panic|].
  all: apply wp_bind; wp_fv market_claim_fv; [|intros s2 F2; etransitivity; eassumption]; intros wr s2 F2.
  all: apply wp_bind; wp_fv repay_debt_fv; [|intros s3 F3; etransitivity; [exact F1|etransitivity; eassumption]]; intros rw s3 F3.
  all: apply wp_bind;
    (eapply (wp_Fv _ s3); [destruct (nth 0 rw 0 =? 0); [apply mok_ret; exact _|apply send_strict_fv; try exact _; auto]| |
       intros s4 F4; etransitivity; [exact F1|etransitivity; [exact F2|etransitivity; eassumption]]]); intros _ s4 F4.
  all: apply wp_bind;
    (eapply (wp_Fv _ s4); [destruct (nth 1 rw 0 =? 0); [apply mok_ret; exact _|apply send_strict_fv; try exact _; auto]| |
       intros s5 F5; etransitivity; [exact F1|etransitivity; [exact F2|etransitivity; [exact F3|etransitivity; eassumption]]]]); intros _ s5 F5.
  all: apply wp_bind, wp_modify, wp_ret.
  all: assert (F15 : Fv s1 s5) by (etransitivity; [exact F2|etransitivity; [exact F3|etransitivity; eassumption]]).
  all: etransitivity; [exact F1|]; etransitivity; [exact F15|].
  all: destruct F15 as (P1 & _ & _); split; [|split; reflexivity]; cbn.
  all: specialize (P1 c); rewrite Ep in P1; cbn in P1; destruct (pledges s5 !! c) as [q|] eqn:Eq; [|discriminate P1].
  all: eapply PV_insert; [exact Eq|]; cbn in P1; injection P1 as P1a P1b P1c; unfold pv; cbn; congruence.
Qed.

(** ** Cancel *)
Lemma AD_delete_nl t k : AD t -> nl (shards t !! k) -> AD (t <| shards ::= delete k |>).
Proof.
  intros [HA [D1 D2]] Hk. split; [apply AccM_delete_nl; assumption|]. split; [|exact D2].
  intros j x Ex. cbn in Ex. apply lookup_delete_Some in Ex. destruct Ex as [_ Ex]. eapply D1, Ex.
Qed.

Lemma status_neq sh : (sh_status sh =? ShardCompleted) = false -> sh_status sh <> ShardCompleted.
Proof. apply Z.eqb_neq. Qed.

(* release (if completed) and remove the shard stored under [id] *)
Lemma release_remove_acc id sh t :
  AD t -> shards t !! id = Some sh ->
  wp ((if sh_status sh =? ShardCompleted then shard_release (sh_sp sh) (Some sh) else ret tt) ;;;
      modify (fun s => s <| shards ::= delete id |>)) t (fun _ t' => AD t') Tt.
Proof.
  intros HI Ex. apply wp_bind. destruct (sh_status sh =? ShardCompleted) eqn:Est.
  - apply Z.eqb_eq in Est. apply wp_release; [intros; exact I|].
    intros p0 p' s' Ep U1 U2 U3 _ HP Hsh Hc. apply wp_modify. destruct HI as [HA HD].
    eapply (release_delete_ok t id sh p0 p'); try eassumption. cbn. rewrite Hsh. reflexivity.
  - apply wp_ret, wp_modify, AD_delete_nl; [exact HI|]. rewrite Ex. apply status_neq, Est.
Qed.

Lemma sao_cancel_acc cx c p oid s : AD s -> wp (sao_cancel cx c p oid) s (fun _ s' => Acc s') Tt.
Proof.
  intros HI. unfold sao_cancel. apply wp_get.
  destruct (orders s !! oid) as [o|]; [|apply wp_fail; exact I].
  cbv zeta. destruct (negb _); [apply wp_fail; exact I|].
  destruct (o_status o =? OrderCompleted); [apply wp_fail; exact I|].
  destruct (negb _); [apply wp_fail; exact I|].
  apply wp_bind. apply (wp_forM _ _ AD); [exact HI| |].
  - intros x t _ Ht. apply wp_get. destruct (shards t !! x) as [sh|] eqn:Ex; [|apply wp_fail; exact I].
    apply release_remove_acc; assumption.
  - intros t [HA _]. wp_fv cancel_order_fv; [|intros; exact I]. intros _ s' F. eapply Acc_Fv; eassumption.
Qed.

(** ** Renew *)
Definition OND (s : State) : Prop := forall oid o, orders s !! oid = Some o -> NoDup (o_shards o).

Ltac mok_side ::= first [ solve [fv_side] | reflexivity | (unfold eqon; cbn; reflexivity) | (unfold eqon; repeat case_match; reflexivity) ].

Lemma send_strict_ord f t a : mok (eqon orders) true (send_strict f t a).
Proof.
  intros s. unfold send_strict. destruct (a <=? 0); [cbn; reflexivity|].
  destruct (balance s f <? a); cbn; reflexivity.
Qed.
Lemma remove_data_expire_ord d a : mok (eqon orders) true (remove_data_expire d a).
Proof. unfold remove_data_expire. mok_tac. Qed.
Lemma set_data_expire_ord d a : mok (eqon orders) true (set_data_expire d a).
Proof. unfold set_data_expire. mok_tac. Qed.
Lemma extend_meta_duration_ord d e : mok (eqon orders) true (extend_meta_duration d e).
Proof.
  unfold extend_meta_duration. pose proof remove_data_expire_ord. pose proof set_data_expire_ord. mok_tac.
Qed.
Lemma update_meta_ord cx oid o : o_op o <> 2 -> mok (eqon orders) true (update_meta cx oid o).
Proof.
  intros Hop. unfold update_meta. mok_tac.
  all: match goal with H : (o_op _ =? 2) = true |- _ => apply Z.eqb_eq in H; contradiction end.
Qed.

Lemma mok_conj {A} (R1 R2 : State -> State -> Prop) hh (m : M A) :
  mok R1 hh m -> mok R2 hh m -> mok (fun s s' => R1 s s' /\ R2 s s') hh m.
Proof. intros H1 H2 s. specialize (H1 s). specialize (H2 s). destruct (m s); auto. Qed.

Definition FvO (s s' : State) : Prop := Fv s s' /\ eqon orders s s'.
Lemma FvO_trans a b c : FvO a b -> FvO b c -> FvO a c.
Proof. intros [A1 A2] [B1 B2]. split; [etransitivity; eassumption|unfold eqon in *; congruence]. Qed.
Lemma FvO_refl a : FvO a a.
Proof. split; reflexivity. Qed.
Lemma send_strict_FvO f t a : mok FvO true (send_strict f t a).
Proof. apply mok_conj; [apply send_strict_fv; try exact _; auto|apply send_strict_ord]. Qed.

Lemma mapM_fst {B} (g : Z -> option B) (l : list Z) (r : list (Z * B)) :
  mapM (fun id => match g id with Some b => Some (id, b) | None => None end) l = Some r -> map fst r = l.
Proof.
  revert r. induction l as [|x l IH]; intros r E; cbn in E.
  - injection E as <-. reflexivity.
  - destruct (g x) as [b|]; [|discriminate E].
    destruct (mapM _ l) as [ys|] eqn:Ey; [|discriminate E]. injection E as <-. cbn. f_equal. apply IH. reflexivity.
Qed.

Global Instance FvO_preorder : PreOrder FvO.
Proof. split; [intros a; apply FvO_refl|intros a b c; apply FvO_trans]. Qed.

Lemma renew_shs s l shs :
  mapM (fun id => match shards s !! id with
                  | Some sh => if (sh_status sh =? ShardCompleted) || (sh_status sh =? ShardMigrating) then Some (id, sh) else None
                  | None => None end) l = Some shs ->
  map fst shs = l /\
  Forall (fun x : Z * Shard => shards s !! x.1 = Some x.2 /\ (sh_status x.2 = ShardCompleted \/ sh_status x.2 = ShardMigrating)) shs.
Proof.
  intros E. apply mapM_Forall2 in E. induction E as [|x y l r Hxy _ [IH1 IH2]]; [split; [reflexivity|constructor]|].
  destruct (shards s !! x) as [sh|] eqn:Ex; [|discriminate Hxy].
  destruct (_ || _) eqn:Eb; [|discriminate Hxy]. injection Hxy as <-. cbn. split; [f_equal; exact IH1|].
  constructor; [|exact IH2]. cbn. split; [exact Ex|].
  apply orb_true_iff in Eb. destruct Eb as [Eb|Eb]; apply Z.eqb_eq in Eb; auto.
Qed.

Lemma renew_order_spec no t :
  wp (renew_order no) t (fun _ t1 => Fv t t1 /\ exists k, orders t1 = <[k:=no]> (orders t)) (fun t1 => FvO t t1).
Proof.
  unfold renew_order. apply wp_get. destruct (pay_addr t (o_owner no)); [|apply wp_fail, FvO_refl].
  apply wp_bind. eapply wp_mok; [apply send_strict_FvO| |intros s' H; exact H].
  intros _ t0 [F0 O0]. unfold append_order. apply wp_get, wp_bind, wp_modify, wp_ret. split.
  - etransitivity; [exact F0|]. apply Fv_same; reflexivity.
  - eexists. cbn. rewrite O0. reflexivity.
Qed.

Lemma renew_one_acc cx m sd d t : Acc t -> OND t -> wp (renew_one cx m sd d) t (fun _ t' => Acc t' /\ OND t') Tt.
Proof.
  intros HA HO. unfold renew_one. apply wp_get.
  destruct (metas t !! d) as [meta|]; [|apply wp_ret; auto].
  destruct (negb _); [apply wp_ret; auto|].
  destruct (negb _); [apply wp_ret; auto|].
  destruct (orders t !! m_order meta) as [o|] eqn:Eo; [|apply wp_ret; auto].
  destruct (mapM _ (o_shards o)) as [shs|] eqn:Em; [|apply wp_ret; auto].
  destruct (negb _); [apply wp_ret; auto|].
  destruct (_ <? cx_height cx); [apply wp_ret; auto|].
  cbv zeta. destruct (_ <? 0); [apply wp_panic|].
  apply renew_shs in Em as [Hfst Hshs].
  assert (Hnd : NoDup (map fst shs)) by (rewrite Hfst; eapply HO, Eo).
  match goal with |- context [renew_order ?x] => set (no := x) end.
  apply wp_bind, wp_try. eapply wp_mono; [apply renew_order_spec| |].
  2:{ intros t1 [F1 O1]. apply wp_ret. split; [eapply Acc_Fv; eassumption|]. intros oid o' E'. rewrite O1 in E'. eapply HO, E'. }
  intros nid t1 [F1 [k O1]].
  assert (HO1 : OND t1).
  { intros oid o' E'. rewrite O1 in E'. apply lookup_insert_Some in E'. destruct E' as [[_ <-]|[_ E']]; [|eapply HO, E'].
    cbn. eapply HO, Eo. }
  assert (HA1 : Acc t1) by (eapply Acc_Fv; eassumption).
  assert (Hshs1 : Forall (fun x : Z * Shard => shards t1 !! x.1 = Some x.2 /\ (sh_status x.2 = ShardCompleted \/ sh_status x.2 = ShardMigrating)) shs).
  { destruct F1 as (_ & -> & _). exact Hshs. }
  clear Hshs HA F1 O1 HO Eo Hfst.
  match goal with |- wp (bind (?F shs 0) _) _ _ _ =>
    assert (Hloop : forall ll acc t2, Acc t2 -> NoDup (map fst ll) ->
              Forall (fun x : Z * Shard => shards t2 !! x.1 = Some x.2 /\ (sh_status x.2 = ShardCompleted \/ sh_status x.2 = ShardMigrating)) ll ->
              wp (F ll acc) t2 (fun _ t' => Acc t' /\ orders t' = orders t2) Tt) end.
  { intros ll. induction ll as [|[id sh] ll IH]; intros acc t2 HA2 Hnd2 Hl2; fix_unfold.
    - apply wp_ret. auto.
    - apply NoDup_cons in Hnd2 as [Hnotin Hnd2]. cbn [map fst] in Hnotin.
      inversion Hl2 as [|? ? [Eid Hst] Hl2']; subst. cbn [fst snd] in Eid, Hst.
      assert (Htail : forall t4, (forall j, j <> id -> shards t4 !! j = shards t2 !! j) ->
                Forall (fun x : Z * Shard => shards t4 !! x.1 = Some x.2 /\ (sh_status x.2 = ShardCompleted \/ sh_status x.2 = ShardMigrating)) ll).
      { intros t4 H4. apply Forall_forall. intros x Hx. pose proof (proj1 (Forall_forall _ _) Hl2' x Hx) as [Hx1 Hx2].
        split; [|exact Hx2]. rewrite H4; [exact Hx1|]. intros Ej. apply Hnotin. apply elem_of_list_fmap. exists x. split; [symmetry; exact Ej|exact Hx]. }
      apply wp_bind. destruct (sh_status sh =? ShardMigrating) eqn:Emig.
      { apply wp_ret. apply IH; assumption. }
      assert (Hc : sh_status sh = ShardCompleted) by (apply Z.eqb_neq in Emig; tauto).
      cbv zeta. destruct (_ <? 0); [apply wp_panic|].
      apply wp_bind. destruct (sh_pledge sh <? _) eqn:Elt.
      + apply wp_get, wp_bind.
        match goal with |- wp ?mm t2 _ _ => assert (Hm : mok FvO true mm) end.
        { destruct (_ <=? _).
          - apply mok_bind; try exact _; [apply mok_try, send_strict_FvO|intros; apply mok_ret; exact _].
          - apply mok_bind; try exact _; [apply mok_try, send_strict_FvO|intros].
            apply mok_modify. intros s0. split; [apply Fv_same; reflexivity|reflexivity]. }
        eapply wp_mok; [exact Hm| |intros; exact I]. intros _ t3 [F3 O3].
        apply wp_get, wp_bind. destruct (pledges t3 !! sh_sp sh) as [p|] eqn:Ep; [|apply wp_panic].
        apply wp_modify, wp_ret. apply wp_bind, wp_modify, wp_ret.
        pose proof F3 as (_ & Hsh3 & _).
        eapply wp_mono; [apply IH| |auto].
        * unfold Acc. cbn.
          eapply (AccM_topup _ _ id sh _ p _ (ceil_coin (store_reward_pledge (rn_duration m) (sh_size sh) PRICE) - sh_pledge sh));
            try reflexivity; try assumption.
          -- rewrite Hsh3. exact Eid.
          -- cbn. lia.
          -- eapply Acc_Fv; eassumption.
        * exact Hnd2.
        * apply Htail. intros j Hj. cbn. rewrite lookup_insert_ne by congruence. rewrite Hsh3. reflexivity.
        * cbv beta. intros a t' [H1 H2]. split; [exact H1|]. rewrite H2. cbn. exact O3.
      + apply wp_ret. apply wp_bind, wp_modify, wp_ret.
        eapply wp_mono; [apply IH| |auto].
        * unfold Acc. cbn. eapply AccM_insert_same; [exact Eid| | | | |exact HA2]; reflexivity.
        * exact Hnd2.
        * apply Htail. intros j Hj. cbn. rewrite lookup_insert_ne by congruence. reflexivity.
        * cbv beta. intros a t' [H1 H2]. split; [exact H1|]. rewrite H2. reflexivity. }
  apply wp_bind. eapply wp_mono; [apply Hloop; assumption| |auto].
  cbv beta. intros new_end t2 [HA2 O2].
  apply wp_bind. eapply wp_mok; [apply mok_conj; [apply (extend_meta_duration_fv Fv); try exact _; auto|apply extend_meta_duration_ord]| |intros; exact I].
  intros u3 t3 [F3 O3]. apply wp_bind, wp_try.
  assert (Hop : o_op no <> 2) by (cbn; lia).
  eapply wp_mok; [apply mok_conj; [apply (update_meta_fv Fv); try exact _; auto; exact Hop|apply update_meta_ord, Hop]| |].
  - intros u4 t4 [F4 O4]. apply wp_ret. split; [eapply Acc_Fv; [exact F4|eapply Acc_Fv; eassumption]|].
    intros oid o' E'. unfold eqon in *. rewrite O4, O3, O2 in E'. eapply HO1, E'.
  - intros t4 [F4 O4]. apply wp_ret. split; [eapply Acc_Fv; [exact F4|eapply Acc_Fv; eassumption]|].
    intros oid o' E'. unfold eqon in *. rewrite O4, O3, O2 in E'. eapply HO1, E'.
Qed.

Lemma sao_renew_acc cx m s : Acc s -> OND s -> wp (sao_renew cx m) s (fun _ s' => Acc s') Tt.
Proof.
  intros HA HO. unfold sao_renew. apply wp_get.
  destruct (verify_sig s (rn_owner m) (rn_sig m)) as [sd|]; [|apply wp_fail; exact I].
  destruct (negb _); [apply wp_fail; exact I|].
  destruct (rn_duration m <? 3600); [apply wp_fail; exact I|].
  destruct (MAX_RENEW <? rn_duration m); [apply wp_fail; exact I|].
  destruct (pool s); [|apply wp_fail; exact I].
  apply (wp_forM _ _ (fun t => Acc t /\ OND t)); [auto| |intros t [H _]; exact H].
  intros x t _ [H1 H2]. apply renew_one_acc; assumption.
Qed.

(** ** Complete *)
Lemma AD_Fv s s' : Fv s s' -> AD s -> AD s'.
Proof. intros F [H1 H2]. split; [eapply Acc_Fv; eassumption|eapply Dom_Fv; eassumption]. Qed.

(* hypotheses on the completion of a shard: no force-push bookkeeping starts here, and a migration has a completed source *)
Definition complete_ok (s : State) (provider : string) (oid : Z) : Prop :=
  forall o, orders s !! oid = Some o ->
    (o_op o = 2 -> o_status o = OrderCompleted) /\
    (forall sid sh old_id old, shard_by_sp s o provider = Some (sid, sh) -> sh_status sh = ShardMigrating ->
       shard_by_sp s o (sh_from sh) = Some (old_id, old) -> sh_status old = ShardCompleted).

Lemma complete_migration_acc cx oid o sid sh s :
  AD s -> shards s !! sid = Some sh -> sh_status sh <> ShardCompleted ->
  (forall old_id old, shard_by_sp s o (sh_from sh) = Some (old_id, old) -> sh_status old = ShardCompleted) ->
  wp (complete_migration cx oid o sid sh) s
     (fun r t => AD t /\ shards t !! sid = Some sh /\ sh_sp r.1.1 = sh_sp sh /\ sh_size r.1.1 = sh_size sh) Tt.
Proof.
  intros HI Esid Hnc Hsrc. unfold complete_migration.
  destruct (String.eqb (sh_from sh) ""); [apply wp_fail; exact I|]. apply wp_get.
  destruct (shard_by_sp s o (sh_from sh)) as [[old_id old]|] eqn:Esp; [|apply wp_panic].
  specialize (Hsrc _ _ eq_refl). apply shard_by_sp_some in Esp as (_ & Eold & Hspo).
  assert (Hne : sid <> old_id) by (intros ->; congruence).
  apply wp_bind. rewrite <- Hspo. apply wp_release; [intros; exact I|].
  intros p0 p' s1 Ep U1 U2 U3 _ HP Hsh Hc.
  cbv zeta. apply wp_bind. wp_fv worker_release_fv; [|intros; exact I]. intros u2 s2 F2.
  apply wp_bind. wp_fv worker_append_fv; [|intros; exact I]. intros u3 s3 F3.
  apply wp_bind, wp_modify.
  assert (F13 : Fv s1 s3) by (etransitivity; eassumption). destruct F13 as (P13 & S13 & _).
  assert (HI4 : AD (s3 <| shards ::= delete old_id |>)).
  { destruct HI as [HA HD]. eapply (release_delete_ok s old_id old p0 p'); try eassumption.
    - cbn. eapply PV_trans; eassumption.
    - cbn. rewrite S13, Hsh. reflexivity. }
  assert (E4 : shards (s3 <| shards ::= delete old_id |>) !! sid = Some sh).
  { cbn. rewrite lookup_delete_ne by congruence. rewrite S13, Hsh. exact Esid. }
  apply wp_bind, wp_modify. apply wp_bind.
  match goal with |- wp _ ?s5 _ _ => assert (F5 : Fv (s3 <| shards ::= delete old_id |>) s5) by (apply Fv_same; reflexivity) end.
  eapply wp_Fv.
  { apply mok_forM; try exact _. intros id. destruct (match orders s !! id with Some x => (id, x) | None => (0, zero_order) end) as [key x].
    apply mok_modify. intros s0. apply Fv_same; reflexivity. }
  2:{ intros; exact I. }
  intros u6 s6 F6. apply wp_ret. cbn [fst snd].
  pose proof (transitivity F5 F6) as F46.
  split; [eapply AD_Fv; [exact F46|exact HI4]|]. destruct F46 as (_ & -> & _). split; [exact E4|]. split; reflexivity.
Qed.

Lemma sao_complete_acc cx c p oid cid sz ok s :
  AD s -> complete_ok s p oid -> wp (sao_complete cx c p oid cid sz ok) s (fun _ s' => Acc s') Tt.
Proof.
  intros HI Hok. unfold sao_complete. destruct (sz =? 0); [apply wp_fail; exact I|]. apply wp_get.
  destruct (orders s !! oid) as [o|] eqn:Eo; [|apply wp_fail; exact I].
  destruct (Hok o Eo) as [Hfp Hsrc].
  destruct (negb (acts_for s c p)); [apply wp_fail; exact I|].
  destruct (shard_by_sp s o p) as [[sid sh]|] eqn:Esp; [|apply wp_fail; exact I].
  pose proof (shard_by_sp_some _ _ _ _ _ Esp) as (_ & Esid & _).
  destruct (sh_status sh =? ShardCompleted) eqn:Est; [apply wp_fail; exact I|]. apply Z.eqb_neq in Est.
  destruct (negb (sh_status sh =? ShardWaiting) && negb (sh_status sh =? ShardMigrating)); [apply wp_fail; exact I|].
  destruct (negb (sz =? sh_size sh)); [apply wp_fail; exact I|].
  destruct (metas s !! o_data o) as [meta|]; [|apply wp_fail; exact I].
  destruct (_ && _); [apply wp_fail; exact I|].
  destruct (last_order_blocks s meta); [apply wp_fail; exact I|].
  destruct (negb ok); [apply wp_fail; exact I|].
  apply wp_bind.
  match goal with |- wp ?mm s _ _ =>
    assert (H1 : wp mm s (fun r t => AD t /\ shards t !! sid = Some sh /\ sh_sp r.1.1 = sh_sp sh /\ sh_size r.1.1 = sh_size sh) Tt) end.
  { destruct (sh_status sh =? ShardMigrating) eqn:Emig.
    - apply Z.eqb_eq in Emig. apply complete_migration_acc; try assumption.
      intros old_id old E. eapply Hsrc; eauto.
    - cbv zeta. apply wp_bind. wp_fv worker_append_fv; [|intros; exact I]. intros u1 s1 F1.
      destruct (negb (o_status o =? OrderCompleted)) eqn:Eoc.
      + assert (Hop : o_op o <> 2).
        { intros E2. specialize (Hfp E2). rewrite Hfp in Eoc. discriminate Eoc. }
        apply wp_bind. eapply wp_Fv; [apply (update_meta_fv Fv); try exact _; auto| |intros; exact I]. intros u2 s2 F2.
        apply wp_bind. wp_fv market_deposit_fv; [|intros; exact I]. intros u3 s3 F3. apply wp_ret. cbn [fst snd].
        assert (F : Fv s s3) by (etransitivity; [exact F1|etransitivity; eassumption]).
        split; [eapply AD_Fv; eassumption|]. destruct F as (_ & -> & _). split; [exact Esid|split; reflexivity].
      + apply wp_ret. cbn [fst snd]. split; [eapply AD_Fv; eassumption|]. destruct F1 as (_ & -> & _).
        split; [exact Esid|split; reflexivity]. }
  eapply wp_mono; [exact H1| |auto]. clear H1.
  intros [[sh1 ip] o'] t (HIt & Et & Hsp1 & Hsz1). cbn [fst snd] in Hsp1, Hsz1. cbv zeta.
  apply wp_bind. wp_fv set_expired_shard_block_fv; [|intros; exact I]. intros u1 t1 F1.
  apply wp_bind. wp_fv extend_meta_duration_fv; [|intros; exact I]. intros u2 t2 F2.
  assert (F12 : Fv t t2) by (etransitivity; eassumption).
  pose proof (AD_Fv _ _ F12 HIt) as [HA2 HD2].
  apply wp_bind. apply wp_pledge; [intros; exact I|].
  intros q q' v t3 Eq Hchk U1 U2 U3 V1 V2 V3 HP Hsh Hc.
  assert (HA3 : Acc t3).
  { eapply (pledge_ok t2 sid (sh1 <| sh_status := ShardCompleted |> <| sh_cid := cid |>) q q' v); try eassumption; try reflexivity.
    - destruct F12 as (_ & -> & _). rewrite Et. exact Est.
    - cbn. rewrite Hsz1. destruct HI as [_ [D1 _]]. eapply D1, Esid. }
  apply wp_bind. destruct (o_replica o' =? 0); [apply wp_panic|]. apply wp_ret.
  apply wp_bind. destruct (_ <? 0); [apply wp_panic|]. apply wp_ret.
  apply wp_bind, wp_try. wp_fv increase_reputation_fv.
  - intros u4 t4 F4. apply wp_modify. eapply Acc_Fv; [|eapply Acc_Fv; [exact F4|exact HA3]]. apply Fv_same; reflexivity.
  - intros t4 F4. apply wp_modify. eapply Acc_Fv; [|eapply Acc_Fv; [exact F4|exact HA3]]. apply Fv_same; reflexivity.
Qed.

(** ** shard expiry in the end blocker *)
Lemma wp_case {A} (m : M A) s (Q : A -> State -> Prop) (E : State -> Prop) :
  (forall a s', m s = Ok a s' -> Q a s') -> (forall e s', m s = Err e s' -> E s') -> wp m s Q E.
Proof. intros H1 H2. unfold wp. destruct (m s); eauto. Qed.

Lemma mok_at {A} R hh (m : M A) s : mok R hh m -> (forall a s', m s = Ok a s' -> R s s') /\ (forall e s', m s = Err e s' -> R s s').
Proof. intros H. specialize (H s). split; intros ? s' E; rewrite E in H; exact H. Qed.

Lemma release_outcome sp sh s :
  match shard_release sp (Some sh) s with
  | Ok _ s' => exists p p', pledges s !! sp = Some p /\ pl_used p' = i64 (pl_used p - i64 (sh_size sh)) /\
                 pl_shpledged p' = pl_shpledged p - sh_pledge sh /\ pl_total p' = pl_total p /\
                 PV (<[sp:=p']> (pledges s)) (pledges s') /\ shards s' = shards s
  | Err _ s' => Fv s s'
  | _ => True
  end.
Proof.
  pose proof (wp_release sp sh s
    (fun _ s' => exists p p', pledges s !! sp = Some p /\ pl_used p' = i64 (pl_used p - i64 (sh_size sh)) /\
                 pl_shpledged p' = pl_shpledged p - sh_pledge sh /\ pl_total p' = pl_total p /\
                 PV (<[sp:=p']> (pledges s)) (pledges s') /\ shards s' = shards s) (fun s' => Fv s s')) as W.
  unfold wp in W. apply W; [auto|]. intros p p' s' Ep U1 U2 U3 _ HP Hsh _. exists p, p'. auto 10.
Qed.

Lemma AD_insert_same t k sh v :
  AD t -> shards t !! k = Some sh -> sh_status v = sh_status sh -> sh_sp v = sh_sp sh -> sh_size v = sh_size sh ->
  sh_pledge v = sh_pledge sh -> AD (t <| shards ::= <[k:=v]> |>).
Proof.
  intros [HA [D1 D2]] Ek E1 E2 E3 E4. split; [eapply AccM_insert_same; eassumption|]. split; [|exact D2].
  intros j x Ex. cbn in Ex. apply lookup_insert_Some in Ex. destruct Ex as [[<- <-]|[_ Ex]]; [rewrite E3|]; eapply D1; eassumption.
Qed.

(* what the expiry of the shard [sid] needs: it is a completed shard, and if it is finally released the
   ShardRelease call made by the end blocker (whose error the caller ignores) does not fail *)
Definition exp_pre (cx : Ctx) (sid : Z) (t : State) : Prop :=
  forall sh o, shards t !! sid = Some sh -> orders t !! sh_order sh = Some o ->
    sh_status sh = ShardCompleted /\
    (sh_renew sh = [] -> forall r t1, try_ (worker_release cx o sh) t = Ok r t1 ->
       forall e t2, shard_release (sh_sp sh) (Some sh) t1 <> Err e t2).

Lemma handle_expired_shard_acc cx sid t :
  AD t -> exp_pre cx sid t -> wp (handle_expired_shard cx sid) t (fun _ t' => AD t') AD.
Proof.
  intros HI Hpre. unfold handle_expired_shard. apply wp_get.
  destruct (shards t !! sid) as [sh|] eqn:Esid; [|apply wp_ret; exact HI].
  destruct (orders t !! sh_order sh) as [o|] eqn:Eo; [|apply wp_ret; exact HI].
  destruct (Hpre sh o Esid Eo) as [Hst Hrel]. clear Hpre.
  assert (Htail : forall t3, AD t3 ->
            wp (match o_shards o with
                | [x] => if x =? sid then modify (fun s => s <| orders ::= delete (sh_order sh) |>) else ret tt
                | l => modify (fun s => s <| orders ::= <[sh_order sh := o <| o_shards := remove_firstZ sid l |>]> |>)
                end) t3 (fun _ t' => AD t') AD).
  { intros t3 H3. assert (Hm : forall g : State -> State, (forall s0, Fv s0 (g s0)) -> wp (modify g) t3 (fun _ t' => AD t') AD)
      by (intros g Hg; apply wp_modify; eapply AD_Fv; [apply Hg|exact H3]).
    destruct (o_shards o) as [|x [|y l]]; try (apply Hm; intros; apply Fv_same; reflexivity).
    destruct (x =? sid); [apply Hm; intros; apply Fv_same; reflexivity|apply wp_ret; exact H3]. }
  apply wp_bind, wp_case.
  2:{ intros e t1 Ewr. exfalso. eapply try_not_err, Ewr. }
  intros r t1 Ewr.
  assert (F1 : Fv t t1).
  { eapply (proj1 (mok_at Fv true _ t (mok_try _ _ _ (worker_release_fv Fv (fun _ _ H => H) cx o sh)))), Ewr. }
  pose proof (AD_Fv _ _ F1 HI) as HI1. pose proof F1 as (_ & Hsh1 & _).
  apply wp_bind. destruct (sh_renew sh) as [|ri rest] eqn:Ern.
  - apply wp_bind, wp_try, wp_case.
    + intros u t2 Erel. pose proof (release_outcome (sh_sp sh) sh t1) as W. rewrite Erel in W.
      destruct W as (p0 & p' & Ep & U1 & U2 & U3 & HP & Hsh2).
      apply wp_modify. apply Htail. destruct HI1 as [HA1 HD1].
      eapply (release_delete_ok t1 sid sh p0 p'); try eassumption.
      * rewrite Hsh1. exact Esid.
      * cbn. rewrite Hsh2. reflexivity.
    + intros e t2 Erel. exfalso. eapply (Hrel eq_refl r t1 Ewr), Erel.
  - cbv zeta. apply wp_bind. eapply wp_Fv; [apply (set_expired_shard_block_fv Fv); try exact _; auto| |intros s' F; eapply AD_Fv; eassumption].
    intros u2 t2 F2. apply wp_bind, wp_modify, wp_get, wp_bind, wp_try.
    assert (HI3 : AD (t2 <| shards ::= <[sid := sh <| sh_renew := rest |> <| sh_order := ri_order ri |> <| sh_created := cx_height cx |> <| sh_duration := ri_duration ri |>]> |>)).
    { eapply (AD_insert_same t2 sid sh); try reflexivity; [eapply AD_Fv; eassumption|].
      destruct F2 as (_ & -> & _). rewrite Hsh1. exact Esid. }
    eapply wp_Fv; [apply (worker_append_fv Fv); try exact _; auto| |].
    + intros u4 t4 F4. apply wp_ret, Htail. eapply AD_Fv; eassumption.
    + intros t4 F4. apply wp_ret, Htail. eapply AD_Fv; eassumption.
Qed.

Fixpoint exp_ok (cx : Ctx) (l : list Z) (t : State) : Prop :=
  match l with
  | [] => True
  | sid :: r => exp_pre cx sid t /\ forall t', handle_expired_shard cx sid t = Ok tt t' -> exp_ok cx r t'
  end.

Lemma forM_expired_acc cx l : forall t, AD t -> exp_ok cx l t -> wp (forM l (handle_expired_shard cx)) t (fun _ t' => AD t') AD.
Proof.
  induction l as [|sid r IH]; intros t HI Hok; cbn [forM].
  - apply wp_ret. exact HI.
  - destruct Hok as [Hpre Hnext]. apply wp_bind.
    pose proof (handle_expired_shard_acc cx sid t HI Hpre) as W. unfold wp in W. apply wp_case.
    + intros [] t' E. rewrite E in W. apply IH; [exact W|apply Hnext, E].
    + intros e t' E. rewrite E in W. exact W.
Qed.

(* hypothesis on an end blocker: no order times out at this height, and the expiring shards are releasable *)
Definition end_block_ok (cx : Ctx) (evs : list StEvent) (s : State) : Prop :=
  forall r s1, staking_tx evs s = Ok r s1 ->
    timeouts s1 !! cx_height cx = None /\ forall l, expshards s1 !! cx_height cx = Some l -> exp_ok cx l s1.

Lemma end_block_acc cx evs s : AD s -> end_block_ok cx evs s -> wp (end_block cx evs) s (fun _ t' => Acc t') Acc.
Proof.
  intros HI Hok. unfold end_block. apply wp_bind, wp_case.
  2:{ intros e s1 E. eapply Acc_Fv; [eapply (proj2 (mok_at Fv true _ s (staking_tx_Fv evs))), E|apply HI]. }
  intros r s1 E. destruct (Hok r s1 E) as [Hto Hexp].
  assert (HI1 : AD s1) by (eapply AD_Fv; [eapply (proj1 (mok_at Fv true _ s (staking_tx_Fv evs))), E|exact HI]).
  apply wp_bind. unfold end_block_sao at 1. apply wp_get. rewrite Hto.
  apply wp_bind, wp_ret, wp_get.
  assert (Hrest : forall t, AD t ->
            wp (end_block_node cx ;;; end_block_model cx) t (fun _ t' => Acc t') Acc).
  { intros t Ht. apply wp_bind. eapply wp_Fv; [apply (end_block_node_fv Fv); try exact _; auto| |intros s' F; eapply Acc_Fv; [exact F|apply Ht]].
    intros u t2 F2. eapply wp_Fv; [apply (end_block_model_fv Fv); try exact _; auto| |].
    - intros u3 t3 F3. eapply Acc_Fv; [exact F3|eapply Acc_Fv; [exact F2|apply Ht]].
    - intros t3 F3. eapply Acc_Fv; [exact F3|eapply Acc_Fv; [exact F2|apply Ht]]. }
  destruct (expshards s1 !! cx_height cx) as [l|] eqn:El.
  - apply wp_bind. eapply wp_mono; [apply forM_expired_acc; [exact HI1|apply Hexp; reflexivity]| |intros s' H; apply H].
    intros u t Ht. apply wp_modify. apply Hrest. eapply AD_Fv; [|exact Ht]. apply Fv_same; reflexivity.
  - apply wp_ret. apply Hrest, HI1.
Qed.

(** * 5. the operations that only append shards: Store, Ready, Migrate *)

Definition StepA (s s' : State) : Prop :=
  Fv s s' \/ exists sh, sh_status sh <> ShardCompleted /\ s' = app_state s sh.
Definition Ra : State -> State -> Prop := rtc StepA.

Lemma Ra_Fv s s' : Fv s s' -> Ra s s'.
Proof. intros H. apply rtc_once. left; exact H. Qed.
Lemma Ra_app s sh : sh_status sh <> ShardCompleted -> Ra s (app_state s sh).
Proof. intros H. apply rtc_once. right. exists sh. auto. Qed.

Definition sids (s : State) : Prop := forall id sh, shards s !! id = Some sh -> 0 <= id < shard_count s.

Lemma Ra_keys s s' : Ra s s' -> forall k, is_Some (shards s !! k) -> is_Some (shards s' !! k).
Proof.
  induction 1 as [s|s t s' Hst _ IH]; intros k Hk; [exact Hk|]. apply IH.
  destruct Hst as [(_ & -> & _)|(sh & _ & ->)]; [exact Hk|]. cbn.
  apply lookup_insert_is_Some. destruct (decide (shard_count s = k)); auto.
Qed.

Lemma Ra_count s s' : Ra s s' -> 0 <= shard_count s < two64 -> 0 <= shard_count s' < two64.
Proof.
  induction 1 as [s|s t s' Hst _ IH]; intros Hc; [exact Hc|]. apply IH.
  destruct Hst as [(_ & _ & ->)|(sh & _ & ->)]; [exact Hc|]. cbn. apply u64_range.
Qed.

Lemma Ra_final s s' : Ra s s' -> sids s' -> sids s -> 0 <= shard_count s < two64 -> Acc s -> Acc s'.
Proof.
  induction 1 as [s|s t s' Hst Hts IH]; intros Hs' Hs Hc HA; [exact HA|].
  destruct Hst as [F|(sh & Hnl & ->)].
  - apply IH; [exact Hs'| | |eapply Acc_Fv; eassumption].
    + destruct F as (_ & E1 & E2). unfold sids. rewrite E1, E2. exact Hs.
    + destruct F as (_ & _ & ->). exact Hc.
  - destruct (Z_lt_dec (shard_count s + 1) two64) as [Hlt|Hge].
    + assert (Eu : u64 (shard_count s + 1) = shard_count s + 1) by (apply u64_id; lia).
      assert (Hfresh : shards s !! shard_count s = None).
      { destruct (shards s !! shard_count s) as [x|] eqn:Ex; [|reflexivity]. apply Hs in Ex. lia. }
      apply IH; [exact Hs'| | |].
      * intros id x Ex. cbn in Ex |- *. rewrite Eu. apply lookup_insert_Some in Ex.
        destruct Ex as [[<- _]|[_ Ex]]; [lia|]. apply Hs in Ex. lia.
      * cbn. rewrite Eu. lia.
      * unfold Acc. cbn. apply AccM_insert_nl; [rewrite Hfresh; exact I|exact Hnl|exact HA].
    + exfalso. assert (Ec : shard_count s = two64 - 1) by lia.
      assert (Hk : is_Some (shards (app_state s sh) !! shard_count s)) by (cbn; rewrite lookup_insert; eexists; reflexivity).
      apply (Ra_keys _ _ Hts) in Hk. destruct Hk as [x Ex]. apply Hs' in Ex.
      assert (Hr : 0 <= shard_count (app_state s sh) < two64) by (cbn; apply u64_range).
      apply (Ra_count _ _ Hts) in Hr. lia.
Qed.

(** * 6. from the handlers to [step] *)
Lemma Acc_with_pg s p : Acc s -> Acc (with_pg s p).
Proof. intros H. exact H. Qed.

Lemma deliver_wp (m : M unit) s : Acc s -> wp m s (fun _ s' => Acc s') Tt -> Acc (deliver m s).1.1.
Proof. intros HA W. rewrite deliver_state. unfold wp in W. destruct (m s); auto. Qed.

Lemma deliver_mok R `{!PreOrder R} (m : M unit) s :
  (forall p, R s (with_pg s p)) -> mok R true m -> R s (deliver m s).1.1.
Proof. intros Hpg Hm. rewrite deliver_state. specialize (Hm s). destruct (m s); auto; reflexivity. Qed.

Lemma Fv_with_pg s p : Fv s (with_pg s p).
Proof. apply Fv_same; reflexivity. Qed.

(* the operations covered by the theorem: everything but Terminate (and, through [complete_ok], the
   first completion of a force-push order) *)
Definition covered (op : Op) : bool := match op with OTerminate _ _ _ _ _ => false | _ => true end.

Definition Hyp (cx : Ctx) (s : State) (op : Op) : Prop :=
  match op with
  | OStore _ | OReady _ _ _ | OMigrate _ _ _ => Inv_ids s /\ counts_small s /\ sizes_small cx s op
  | OCancel _ _ _ => Dom s
  | ORenew _ => Inv_order_shards s
  | OComplete _ p oid _ _ _ => Dom s /\ complete_ok s p oid
  | OEndBlock evs => Dom s /\ end_block_ok cx evs s
  | _ => True
  end.

Lemma OND_of_inv s : Inv_order_shards s -> OND s.
Proof. intros H oid o E. apply (H oid o E). Qed.

Lemma append_ops_acc cx s op (m : M unit) :
  tx_of cx op = Some m -> mok Ra true m ->
  Inv_ids s -> counts_small s -> sizes_small cx s op -> complete_refs_ok s op ->
  Acc s -> Acc (fst (step cx s op)).
Proof.
  intros Htx Hm Hids Hcs Hsz Hrefs HA.
  destruct (step_ids_partial cx s op Hids Hcs Hsz Hrefs) as ([_ Hs'] & _).
  rewrite (step_tx cx s op m Htx) in *.
  eapply (Ra_final s); [| | | |exact HA].
  - apply (deliver_mok Ra); [intros p; apply Ra_Fv, Fv_with_pg|exact Hm].
  - exact Hs'.
  - exact (proj2 Hids).
  - destruct Hcs as [_ [H1 H2]]. unfold two64, two63 in *. lia.
Qed.

(* Full statement (FALSE, see [step_used_refuted_*]):
     forall cx s op, Inv_used s -> Inv_used (fst (step cx s op)).
   Proved: the three clauses together, for the covered operations, under [Hyp]. *)
Theorem step_acc_partial : forall cx s op,
  covered op = true -> Hyp cx s op -> Acc s -> Acc (fst (step cx s op)).
Proof.
  intros cx s op Hcov HH HA.
  assert (Hfv : forall m, tx_of cx op = Some m -> mok Fv true m -> Acc (fst (step cx s op))).
  { intros m Htx Hm. rewrite (step_tx cx s op m Htx). eapply Acc_Fv; [|exact HA].
    apply (deliver_mok Fv); [apply Fv_with_pg|exact Hm]. }
  assert (Hwp : forall m, tx_of cx op = Some m -> wp m s (fun _ s' => Acc s') Tt -> Acc (fst (step cx s op))).
  { intros m Htx W. rewrite (step_tx cx s op m Htx). apply deliver_wp; assumption. }
  destruct op; try discriminate Hcov; cbn [Hyp] in HH.
  - (* BeginBlock *)
    rewrite step_begin_block, block_phase_state. pose proof (begin_block_Fv cx s) as H.
    destruct (begin_block cx s); auto; eapply Acc_Fv; eassumption.
  - (* EndBlock *)
    destruct HH as [HD Hok]. rewrite step_end_block, block_phase_state.
    pose proof (end_block_acc cx evs s (conj HA HD) Hok) as W. unfold wp in W. destruct (end_block cx evs s); auto.
  - eapply Hfv; [reflexivity|apply lift_did_Fv].
  - eapply Hfv; [reflexivity|apply (node_create_fv Fv); try exact _; auto].
  - eapply Hfv; [reflexivity|apply (node_reset_fv Fv); try exact _; auto].
  - eapply Hwp; [reflexivity|apply add_vstorage_acc, HA].
  - eapply Hwp; [reflexivity|apply remove_vstorage_acc, HA].
  - eapply Hfv; [reflexivity|]. apply mok_bind; try exact _; [apply claim_reward_Fv|intros; apply mok_ret; exact _].
  - (* Store *)
    destruct HH as (H1 & H2 & H3).
    match goal with |- Acc (fst (step cx s ?o)) => eapply (append_ops_acc cx s o _ eq_refl) end; try assumption; [|exact I].
    apply (sao_store_fv Ra); try exact _; [apply Ra_Fv|apply Ra_app].
  - destruct HH as (H1 & H2 & H3).
    match goal with |- Acc (fst (step cx s ?o)) => eapply (append_ops_acc cx s o _ eq_refl) end; try assumption; [|exact I].
    apply (sao_ready_fv Ra); try exact _; [apply Ra_Fv|apply Ra_app].
  - destruct HH as [HD Hok]. eapply Hwp; [reflexivity|apply sao_complete_acc; [split; assumption|exact Hok]].
  - eapply Hwp; [reflexivity|apply sao_cancel_acc; split; assumption].
  - eapply Hwp; [reflexivity|apply sao_renew_acc; [exact HA|apply OND_of_inv, HH]].
  - destruct HH as (H1 & H2 & H3).
    match goal with |- Acc (fst (step cx s ?o)) => eapply (append_ops_acc cx s o _ eq_refl) end; try assumption; [|exact I].
    apply (sao_migrate_fv Ra); try exact _; [apply Ra_Fv|apply Ra_app].
  - eapply Hfv; [reflexivity|apply (sao_update_permission_fv Fv); try exact _; auto].
  - eapply Hfv; [reflexivity|apply sao_report_faults_Fv].
  - eapply Hfv; [reflexivity|apply sao_recover_faults_Fv].
  - eapply Hfv; [reflexivity|apply (send_strict_fv Fv); try exact _; auto].
  - eapply Hfv; [reflexivity|apply staking_tx_Fv].
  - (* Simulate *)
    cbn. destruct (staking_tx evs s); exact HA.
Qed.
Print Assumptions step_acc_partial.

Theorem step_used_partial : forall cx s op,
  covered op = true -> Hyp cx s op -> Inv_used s -> Inv_capacity s -> Live_pledged s ->
  Inv_used (fst (step cx s op)).
Proof. intros cx s op Hc HH H1 H2 H3. exact (proj1 (step_acc_partial cx s op Hc HH (conj H1 (conj H2 H3)))). Qed.
Print Assumptions step_used_partial.

(* Inv_capacity: the lower bound follows from Inv_used and unsigned sizes; the upper bound is enforced by
   ShardPledge (uint64(Total-Used) < Size is refused) and by RemoveVstorage (Total-Used < size is refused) *)
Theorem step_capacity_partial : forall cx s op,
  covered op = true -> Hyp cx s op -> Inv_used s -> Inv_capacity s -> Live_pledged s ->
  Inv_capacity (fst (step cx s op)).
Proof. intros cx s op Hc HH H1 H2 H3. exact (proj1 (proj2 (step_acc_partial cx s op Hc HH (conj H1 (conj H2 H3))))). Qed.
Print Assumptions step_capacity_partial.

(** runs: the hypotheses are required of every state the run goes through *)
Fixpoint hyp_along (tr : list (Ctx * Op)) (s : State) : Prop :=
  match tr with
  | [] => True
  | co :: r => covered co.2 = true /\ Hyp co.1 s co.2 /\ hyp_along r (fst (step co.1 s co.2))
  end.

Theorem run_acc_partial : forall tr s, hyp_along tr s -> Acc s -> Acc (run tr s).
Proof.
  induction tr as [|[cx op] tr IH]; intros s Hh HA; [exact HA|].
  destruct Hh as (Hc & HH & Hr). rewrite run_cons. apply IH; [exact Hr|]. apply step_acc_partial; assumption.
Qed.
Print Assumptions run_acc_partial.

Theorem run_used_partial : forall tr s, hyp_along tr s -> Inv_used s -> Inv_capacity s -> Live_pledged s ->
  Inv_used (run tr s) /\ Inv_capacity (run tr s).
Proof.
  intros tr s Hh H1 H2 H3. destruct (run_acc_partial tr s Hh (conj H1 (conj H2 H3))) as (A & B & _). auto.
Qed.
Print Assumptions run_used_partial.

(** * 7. witnesses *)
Module CapWitness.
  Definition w_cx : Ctx := {| cx_height := 100; cx_chain := "c"; cx_time := 0; cx_seed := 0 |}.
  Definition w_sig : SigO := {| so_owner := Some ("key", "K1"); so_kid := Some ("key", "K1", ""); so_keys := ["K1"] |}.
  Definition w_params : NParams := mkNParams 0 0 0 0 1 0 "" 0 0 0 0.

  (* D23 aftermath: order 1 lists the completed shard 2 of provider A twice; the owner terminates the model *)
  Definition d_o1 : Order := mkOrder "A" "did:key:K1" "A" "cid" 1 OrderCompleted 1 [2;2] 1 1 1 0 10 "d" "c" P18 "".
  Definition d_sh : Shard := mkShard 1 ShardCompleted 1 "cid" 0 "" "A" 100 0 [].
  Definition d_meta : Meta := mkMeta "did:key:K1" "" "" 1 [] "cid" [] "" 0 "c" "" 1000 0 [] [] MetaComplete [1].
  Definition d_s : State :=
    mkState did_empty (<["A" := mkNode "" 0 0 0 [] 0 ""]> ∅) (<["A" := mkPledge 0 0 0 0 10 1]> ∅) ∅
            (Some (mkPool 0 0 0 0 0 0 10 0)) None ∅ ∅ ∅ w_params
            (<[1 := d_o1]> ∅) 5 (<[2 := d_sh]> ∅) 5
            (<["d" := d_meta]> ∅) ∅ ∅ ∅ ∅ (<["sao-A" := mkWorker 1 0 P18 0]> ∅) ∅ 0 ∅ ∅ 0.
  Definition d_op : Op := OTerminate "A" "A" "did:key:K1" "d" w_sig.

  (* D13: shard 2 of provider A (collateral 5) expires at height 100; [escrow] is what the node module holds *)
  Definition e_o1 : Order := mkOrder "A" "did:key:K1" "A" "cid" 100 OrderCompleted 1 [2] 1 1 1 0 10 "d" "c" 0 "".
  Definition e_sh : Shard := mkShard 1 ShardCompleted 1 "cid" 5 "" "A" 100 0 [].
  Definition e_s (escrow : Z) : State :=
    mkState did_empty (<["A" := mkNode "" 0 0 200 [] 0 ""]> ∅) (<["A" := mkPledge 0 5 0 0 10 1]> ∅) ∅
            (Some (mkPool 0 0 0 0 0 0 10 0)) None ∅ ∅ ∅ w_params
            (<[1 := e_o1]> ∅) 5 (<[2 := e_sh]> ∅) 5
            ∅ ∅ ∅ ∅ (<[100 := [2]]> ∅) (<["sao-A" := mkWorker 1 0 0 0]> ∅) (<["module:node" := escrow]> ∅) escrow ∅ ∅ 0.

  (* one provider "A", one shard under key 2 *)
  Ltac one_state p0 sh0 :=
    repeat match goal with
    | E : pledges _ !! _ = Some _ |- _ =>
        apply (lookup_insert_Some (M := gmap string) ∅ "A" _ p0) in E; destruct E as [[<- <-]|[_ E]]; [|rewrite lookup_empty in E; discriminate E]
    | E : shards _ !! _ = Some _ |- _ =>
        apply (lookup_insert_Some (M := gmap Z) ∅ 2 _ sh0) in E; destruct E as [[<- <-]|[_ E]]; [|rewrite lookup_empty in E; discriminate E]
    | E : orders _ !! _ = Some _ |- _ =>
        apply lookup_insert_Some in E; destruct E as [[<- <-]|[_ E]]; [|rewrite lookup_empty in E; discriminate E]
    end.

  Lemma acc_one s p0 sh0 :
    pledges s = <["A" := p0]> ∅ -> shards s = <[2 := sh0]> ∅ -> sh_status sh0 = ShardCompleted -> sh_sp sh0 = "A" ->
    pl_used p0 = sh_size sh0 -> pl_shpledged p0 = sh_pledge sh0 -> 0 <= sh_size sh0 <= pl_total p0 -> pl_total p0 < two63 ->
    Acc s /\ Dom s.
  Proof.
    intros Ep Es Hst Hsp U1 U2 Hc Ht.
    assert (Hl : forall f, lsum f "A" (shards s) = f sh0).
    { intros f. rewrite Es, lsum_insert_fresh by apply lookup_empty. rewrite lsum_empty. cbn.
      rewrite <- Hsp, live_at_self by exact Hst. lia. }
    split; [split; [|split]|split].
    - intros sp p E. rewrite Ep in E. apply lookup_insert_Some in E. destruct E as [[<- <-]|[_ E]]; [|rewrite lookup_empty in E; discriminate E].
      rewrite !Hl. auto.
    - intros sp p E. rewrite Ep in E. apply lookup_insert_Some in E. destruct E as [[<- <-]|[_ E]]; [|rewrite lookup_empty in E; discriminate E]. lia.
    - intros id sh E _. rewrite Es in E. apply lookup_insert_Some in E. destruct E as [[<- <-]|[_ E]]; [|rewrite lookup_empty in E; discriminate E].
      rewrite Ep, Hsp, lookup_insert. eexists; reflexivity.
    - intros id sh E. rewrite Es in E. apply lookup_insert_Some in E. destruct E as [[<- <-]|[_ E]]; [|rewrite lookup_empty in E; discriminate E]. lia.
    - intros sp p E. rewrite Ep in E. apply lookup_insert_Some in E. destruct E as [[<- <-]|[_ E]]; [|rewrite lookup_empty in E; discriminate E]. exact Ht.
  Qed.

  Lemma d_acc : Acc d_s /\ Dom d_s.
  Proof. apply (acc_one d_s (mkPledge 0 0 0 0 10 1) d_sh); try reflexivity; cbn; unfold two63; lia. Qed.
  Lemma e_acc x : Acc (e_s x) /\ Dom (e_s x).
  Proof. apply (acc_one (e_s x) (mkPledge 0 5 0 0 10 1) e_sh); try reflexivity; cbn; unfold two63; lia. Qed.

  Lemma ids_one s o sh : orders s = <[1 := o]> ∅ -> shards s = <[2 := sh]> ∅ -> order_count s = 5 -> shard_count s = 5 -> Inv_ids s.
  Proof.
    intros Eo Es C1 C2. split; intros id x E; [rewrite Eo in E|rewrite Es in E]; rewrite ?C1, ?C2;
      apply lookup_insert_Some in E; destruct E as [[<- _]|[_ E]]; try lia; rewrite lookup_empty in E; discriminate E.
  Qed.

  Lemma shard_order_one s o sh :
    orders s = <[1 := o]> ∅ -> shards s = <[2 := sh]> ∅ -> sh_order sh = 1 -> In 2 (o_shards o) -> Inv_shard_order s.
  Proof.
    intros Eo Es H1 H2 id x E. rewrite Es in E. apply lookup_insert_Some in E. destruct E as [[<- <-]|[_ E]]; [|rewrite lookup_empty in E; discriminate E].
    exists o. rewrite Eo, H1, lookup_insert. auto.
  Qed.
End CapWitness.

(* Without NoDup of the shard lists (what defect D23 destroys) the statement is false, and so is the
   lower bound of Inv_capacity: a shard listed twice is released twice. *)
Theorem step_used_refuted_D23 : exists cx s op,
  Inv_used s /\ Inv_capacity s /\ Live_pledged s /\ Dom s /\ Inv_ids s /\ Inv_shard_order s /\
  (forall oid o id, orders s !! oid = Some o -> In id (o_shards o) -> is_Some (shards s !! id)) /\
  ~ Inv_order_shards s /\
  ~ Inv_used (fst (step cx s op)) /\ ~ Inv_capacity (fst (step cx s op)).
Proof.
  exists CapWitness.w_cx, CapWitness.d_s, CapWitness.d_op.
  destruct CapWitness.d_acc as [(H1 & H2 & H3) HD].
  assert (Ep : pledges (fst (step CapWitness.w_cx CapWitness.d_s CapWitness.d_op)) !! "A" = Some (mkPledge 0 0 0 0 10 (-1)))
    by (vm_compute; reflexivity).
  assert (El : live_sum sh_size "A" (fst (step CapWitness.w_cx CapWitness.d_s CapWitness.d_op)) = 0) by (vm_compute; reflexivity).
  split; [exact H1|]. split; [exact H2|]. split; [exact H3|]. split; [exact HD|].
  split; [eapply CapWitness.ids_one; reflexivity|].
  split; [eapply CapWitness.shard_order_one; try reflexivity; left; reflexivity|].
  split.
  { intros oid o id E Hin. unfold CapWitness.d_s in E; cbn [orders] in E. apply lookup_insert_Some in E. destruct E as [[<- <-]|[_ E]]; [|rewrite lookup_empty in E; discriminate E].
    cbn in Hin. assert (id = 2) as -> by (destruct Hin as [<-|[<-|[]]]; reflexivity). vm_compute. eexists; reflexivity. }
  split.
  { intros H. destruct (H 1 CapWitness.d_o1) as [Hnd _]; [reflexivity|]. cbn in Hnd. apply NoDup_cons in Hnd as [Hn _]. apply Hn. left. }
  split.
  - intros H. destruct (H "A" _ Ep) as [Hu _]. rewrite El in Hu. cbn in Hu. discriminate Hu.
  - intros H. specialize (H "A" _ Ep). cbn in H. lia.
Qed.
Print Assumptions step_used_refuted_D23.

(* The end blocker ignores the error of ShardRelease and removes the shard anyway (x/sao/keeper/expire_management.go,
   HandleExpiredShard): when the node escrow cannot pay the collateral back (D13), UsedStorage and
   TotalShardPledged keep counting a shard that no longer exists. *)
Theorem step_used_refuted_D13 : exists cx s evs,
  Inv_used s /\ Inv_capacity s /\ Live_pledged s /\ Dom s /\ Inv_ids s /\ Inv_shard_order s /\ Inv_order_shards s /\
  timeouts s !! cx_height cx = None /\
  ~ Inv_used (fst (step cx s (OEndBlock evs))).
Proof.
  exists CapWitness.w_cx, (CapWitness.e_s 0), [].
  destruct (CapWitness.e_acc 0) as [(H1 & H2 & H3) HD].
  assert (Ep : pledges (fst (step CapWitness.w_cx (CapWitness.e_s 0) (OEndBlock []))) !! "A" = Some (mkPledge 0 5 0 0 10 1))
    by (vm_compute; reflexivity).
  assert (El : live_sum sh_size "A" (fst (step CapWitness.w_cx (CapWitness.e_s 0) (OEndBlock []))) = 0) by (vm_compute; reflexivity).
  split; [exact H1|]. split; [exact H2|]. split; [exact H3|]. split; [exact HD|].
  split; [eapply CapWitness.ids_one; reflexivity|].
  split; [eapply CapWitness.shard_order_one; try reflexivity; left; reflexivity|].
  split.
  { intros oid o E. unfold CapWitness.d_s, CapWitness.e_s in E; cbn [orders] in E. apply lookup_insert_Some in E. destruct E as [[<- <-]|[_ E]]; [|rewrite lookup_empty in E; discriminate E].
    split; [apply NoDup_singleton|]. intros id Hin. cbn in Hin. destruct Hin as [<-|[]]. vm_compute. eexists; reflexivity. }
  split; [reflexivity|].
  intros H. destruct (H "A" _ Ep) as [Hu _]. rewrite El in Hu. cbn in Hu. discriminate Hu.
Qed.
Print Assumptions step_used_refuted_D13.

(** non-vacuity: a provider holding one completed shard; the funded end blocker releases it *)
Example capacity_nonvacuous :
  let s := CapWitness.e_s 5 in
  Inv_used s /\ Inv_capacity s /\ Live_pledged s /\ Dom s /\ Inv_order_shards s /\
  (exists sh, shards s !! 2 = Some sh /\ sh_status sh = ShardCompleted /\ live_sum sh_size "A" s = 1) /\
  Hyp CapWitness.w_cx s (OEndBlock []) /\ Hyp CapWitness.w_cx s (OComplete "A" "A" 1 "cid" 1 true) /\
  Hyp CapWitness.w_cx s (ORenew {| rn_creator := "A"; rn_provider := "A"; rn_owner := "did:key:K1"; rn_duration := 3600;
                                   rn_timeout := 10; rn_data := ["d"]; rn_sig := CapWitness.w_sig |}) /\
  Acc (fst (step CapWitness.w_cx s (OEndBlock []))) /\
  pledges (fst (step CapWitness.w_cx s (OEndBlock []))) !! "A" = Some (mkPledge 0 0 0 0 10 0).
Proof.
  cbv zeta. destruct (CapWitness.e_acc 5) as [HA HD]. pose proof HA as (H1 & H2 & H3).
  assert (Hios : Inv_order_shards (CapWitness.e_s 5)).
  { intros oid o E. unfold CapWitness.d_s, CapWitness.e_s in E; cbn [orders] in E. apply lookup_insert_Some in E. destruct E as [[<- <-]|[_ E]]; [|rewrite lookup_empty in E; discriminate E].
    split; [apply NoDup_singleton|]. intros id Hin. cbn in Hin. destruct Hin as [<-|[]]. vm_compute. eexists; reflexivity. }
  assert (Heb : Hyp CapWitness.w_cx (CapWitness.e_s 5) (OEndBlock [])).
  { split; [exact HD|]. intros r s1 E. cbn in E. injection E as <- <-. split; [reflexivity|].
    intros l El. vm_compute in El. injection El as <-. split; [|intros; exact I].
    intros sh o E1 E2. vm_compute in E1. injection E1 as <-. split; [reflexivity|].
    intros _ r t1 Ewr e t2 Erel. vm_compute in Ewr. injection Ewr as <- <-. vm_compute in Erel. discriminate Erel. }
  split; [exact H1|]. split; [exact H2|]. split; [exact H3|]. split; [exact HD|]. split; [exact Hios|].
  split; [exists CapWitness.e_sh; split; [reflexivity|split; [reflexivity|vm_compute; reflexivity]]|].
  split; [exact Heb|].
  split.
  { split; [exact HD|]. intros o E. unfold CapWitness.d_s, CapWitness.e_s in E; cbn [orders] in E. apply lookup_insert_Some in E. destruct E as [[_ <-]|[_ E]]; [|rewrite lookup_empty in E; discriminate E].
    split; [intros E2; discriminate E2|]. intros sid sh old_id old Esp Hm. vm_compute in Esp. injection Esp as <- <-. discriminate Hm. }
  split; [exact Hios|].
  split; [apply step_acc_partial; [reflexivity|exact Heb|exact HA]|vm_compute; reflexivity].
Qed.
Print Assumptions capacity_nonvacuous.

(** * 8. the market worker primitives (towards Inv_worker, which is not proved here) *)
Lemma worker_append_spec cx o sh s :
  exists w', worker_append cx o sh s = Ok tt (s <| workers ::= <[worker_name (sh_sp sh) := w']> |>) /\
    let w := default (mkWorker 0 0 0 0) (workers s !! worker_name (sh_sp sh)) in
    w_storage w' = u64 (w_storage w + sh_size sh) /\ w_rate w' = w_rate w + income_of o sh.
Proof. unfold worker_append, bind, get, modify. eexists. split; [reflexivity|]. cbn. auto. Qed.

Lemma worker_release_spec cx o sh s w :
  workers s !! worker_name (sh_sp sh) = Some w ->
  exists w', worker_release cx o sh s = Ok tt (s <| workers ::= <[worker_name (sh_sp sh) := w']> |>) /\
    w_storage w' = u64 (w_storage w - sh_size sh) /\ w_rate w' = w_rate w - income_of o sh.
Proof. intros E. unfold worker_release, bind, get, modify. rewrite E. eexists. split; [reflexivity|]. cbn. auto. Qed.

Lemma worker_release_missing cx o sh s :
  workers s !! worker_name (sh_sp sh) = None -> worker_release cx o sh s = Err "worker not found" s.
Proof. intros E. unfold worker_release, bind, get. rewrite E. reflexivity. Qed.

(* EXPORTED *)
(* step_acc_partial
   step_used_partial
   step_capacity_partial
   run_acc_partial
   run_used_partial
   step_used_refuted_D23
   step_used_refuted_D13
   capacity_nonvacuous
   lsum_insert lsum_insert_fresh lsum_delete live_sum_lsum
   wp_release wp_pledge release_outcome release_delete_ok pledge_ok
   worker_append_spec worker_release_spec *)
