(* What the sampled squares support. The correspondence check records, for every ABCI call it makes on the real
   application, the abstraction of the state before, the call, and the abstraction of the state after, and re-executes
   the call in the model FROM THE IMPLEMENTATION'S PRE-STATE. If every recorded square commutes, the abstraction of
   the implementation's final state is the model's run from the abstraction of its initial state -- so every state the
   implementation went through is a model-reachable state, which is what the invariants proved over [run] need. *)
From SaoVerif Require Import Base.Prelude Base.Ints Base.Dec Model.Did Model.Types Model.Monad Model.Bank Model.Select
     Model.Node Model.Storage Model.Sao Model.Hooks Model.App Model.Spec.

(* an implementation history as the harness records it: the abstracted post-state of every call *)
Definition recorded := list (Ctx * Op * State).

Fixpoint squares_commute (a0 : State) (h : recorded) : Prop :=
  match h with
  | [] => True
  | (cx, op, a1) :: h' => fst (step cx a0 op) = a1 /\ squares_commute a1 h'
  end.

Definition calls (h : recorded) : list (Ctx * Op) := map fst h.
Definition final (a0 : State) (h : recorded) : State := List.last (map snd h) a0.

Lemma last_nonempty_indep {A} (l : list A) y d d' : List.last (y :: l) d = List.last (y :: l) d'.
Proof. revert y. induction l as [|z l IH]; intros y; [reflexivity|]. cbn [List.last] in *. apply IH. Qed.

Theorem squares_give_run : forall h a0, squares_commute a0 h -> final a0 h = run (calls h) a0.
Proof.
  induction h as [|[[cx op] a1] h IH]; intros a0 Hc; [reflexivity|].
  destruct Hc as [E Hc]. unfold calls. cbn [map fst]. change (run ((cx, op) :: map fst h) a0) with (run (calls h) (fst (step cx a0 op))).
  rewrite E, <- (IH a1 Hc). unfold final. cbn [map snd]. destruct h as [|x h']; [reflexivity|].
  cbn [map]. change (List.last (a1 :: snd x :: map snd h') a0) with (List.last (snd x :: map snd h') a0).
  apply last_nonempty_indep.
Qed.

(* hence an invariant of the model's runs holds of every abstracted implementation state along a commuting history *)
Corollary invariant_transfers (Inv : State -> Prop) :
  (forall tr s, Inv s -> Inv (run tr s)) ->
  forall h a0, Inv a0 -> squares_commute a0 h -> Forall (fun x => Inv (snd x)) h.
Proof.
  intros Hrun h. induction h as [|[[cx op] a1] h IH]; intros a0 Hi Hc; [constructor|].
  destruct Hc as [E Hc]. assert (Hi1 : Inv a1) by (rewrite <- E; apply (Hrun [(cx, op)] a0 Hi)).
  constructor; [exact Hi1|apply (IH a1 Hi1 Hc)].
Qed.
Print Assumptions invariant_transfers.
