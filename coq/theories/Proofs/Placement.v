(* C15 at the call sites: the providers chosen for a retry after a timeout are fresh for the order. *)
From SaoVerif Require Import Base.Prelude Base.Ints Base.Dec Model.Did Model.Types Model.Monad Model.Bank Model.Select
     Model.Node Model.Storage Model.Sao Model.Hooks Model.App Model.Spec Proofs.SelectFacts Proofs.SelectApp Proofs.Frame Proofs.Schedule.
From RecordUpdate Require Import RecordUpdate.
Import RecordSetNotations.

(* the re-assignment loop of HandleTimeoutOrder, named *)
Definition reassign (oid : Z) : list (string * (Z * Shard)) -> Order -> M Order :=
  fix go (l : list (string * (Z * Shard))) (oacc : Order) : M Order :=
  match l with
  | [] => ret oacc
  | (newsp, (sid, sh)) :: r =>
      modify (fun s => s <| shards ::= <[sid := sh <| sh_status := ShardTimeout |>]> |>) ;;;
      nid <- new_shard_task oid oacc newsp ;;
      go r (oacc <| o_shards := o_shards oacc ++ [nid] |>)
  end.
Lemma reassign_cons oid newsp sid sh r oacc :
  reassign oid ((newsp, (sid, sh)) :: r) oacc =
  (modify (fun s => s <| shards ::= <[sid := sh <| sh_status := ShardTimeout |>]> |>) ;;;
   nid <- new_shard_task oid oacc newsp ;;
   reassign oid r (oacc <| o_shards := o_shards oacc ++ [nid] |>)).
Proof. reflexivity. Qed.

Definition fresh_above (t : State) : Prop := forall id, shard_count t <= id -> shards t !! id = None.

Lemma reassign_spec oid : forall l oacc t o' t',
  reassign oid l oacc t = Ok o' t' ->
  0 <= shard_count t -> shard_count t + Z.of_nat (length l) < two64 ->
  (forall x, In x l -> is_Some (shards t !! x.2.1)) -> fresh_above t ->
  shard_count t' = shard_count t + Z.of_nat (length l) /\ fresh_above t' /\
  (forall id, id < shard_count t -> (forall x, In x l -> x.2.1 <> id) -> shards t' !! id = shards t !! id) /\
  (forall k x, l !! k = Some x -> exists sh', shards t' !! (shard_count t + Z.of_nat k) = Some sh' /\
       sh_sp sh' = x.1 /\ sh_order sh' = oid /\ sh_status sh' = ShardWaiting).
Proof.
  induction l as [|[newsp [sid sh]] r IH]; intros oacc t o' t' H H0 Hb Hsid Hf; [cbn in H|rewrite reassign_cons in H].
  - injection H as <- <-. cbn. split; [lia|]. split; [exact Hf|]. split; [auto|]. intros k x Hk. rewrite lookup_nil in Hk. discriminate.
  - unfold bind at 1 in H. unfold modify in H. cbn beta iota in H.
    unfold new_shard_task, append_shard in H. unfold bind at 1 in H. unfold bind at 1 in H. unfold get in H. cbn beta iota in H.
    unfold bind at 1 in H. unfold modify, ret in H. cbn beta iota in H.
    match type of H with reassign oid r ?oa0 ?tt = _ => set (t1 := tt) in H; set (oa := oa0) in H end.
    assert (Hs : sid < shard_count t).
    { destruct (Z_lt_le_dec sid (shard_count t)) as [Hlt|Hge]; [exact Hlt|].
      destruct (Hsid (newsp, (sid, sh)) (or_introl eq_refl)) as [y Hy]. cbn in Hy. rewrite (Hf sid Hge) in Hy. discriminate. }
    cbn [length] in Hb.
    assert (Hc1 : shard_count t1 = shard_count t + 1).
    { subst t1. unfold set; cbn. apply u64_id. unfold two64 in *. lia. }
    assert (Hsh1 : shards t1 = <[shard_count t := mkShard oid ShardWaiting (o_size oacc) (o_cid oacc) 0 "" newsp 0 0 []]>
                                 (<[sid := sh <| sh_status := ShardTimeout |>]> (shards t))).
    { subst t1. unfold set; cbn. reflexivity. }
    destruct (IH oa t1 o' t' H) as (Hc & Hf' & Hold & Hnew).
    + lia.
    + rewrite Hc1. lia.
    + intros x Hx. rewrite Hsh1. destruct (Hsid x (or_intror Hx)) as [y Hy].
      destruct (decide (x.2.1 = shard_count t)) as [E|Hne1]; [rewrite E, lookup_insert; eexists; reflexivity|].
      rewrite lookup_insert_ne by congruence.
      destruct (decide (x.2.1 = sid)) as [E|Hne2]; [rewrite E, lookup_insert; eexists; reflexivity|].
      rewrite lookup_insert_ne by congruence. eexists; exact Hy.
    + intros id Hid. rewrite Hc1 in Hid. rewrite Hsh1. rewrite !lookup_insert_ne by lia. apply Hf. lia.
    + split; [rewrite Hc, Hc1; cbn [length]; lia|]. split; [exact Hf'|]. split.
      * intros id Hid Hn. rewrite Hold; [|rewrite Hc1; lia|intros x Hx; apply Hn; right; exact Hx].
        rewrite Hsh1. rewrite lookup_insert_ne by lia. rewrite lookup_insert_ne; [reflexivity|].
        specialize (Hn (newsp, (sid, sh)) (or_introl eq_refl)). cbn in Hn. exact Hn.
      * intros [|k] x Hk; cbn in Hk.
        -- injection Hk as <-. cbn [fst]. exists (mkShard oid ShardWaiting (o_size oacc) (o_cid oacc) 0 "" newsp 0 0 []).
           split; [|cbn; auto]. replace (shard_count t + Z.of_nat 0) with (shard_count t) by lia.
           rewrite Hold; [rewrite Hsh1; apply lookup_insert|rewrite Hc1; lia|].
           intros x Hx E. destruct (Hsid x (or_intror Hx)) as [y Hy]. rewrite E, (Hf (shard_count t)) in Hy by lia. discriminate.
        -- destruct (Hnew k x Hk) as (sh' & E & P). exists sh'. split; [|exact P].
           rewrite Hc1 in E. replace (shard_count t + Z.of_nat (S k)) with (shard_count t + 1 + Z.of_nat k) by lia. exact E.
Qed.

(** * no other path of the timeout check creates a shard *)
Create HintDb shdb.
Ltac ks_leaf := first [ solve [eauto 3 with shdb nocore] | solve [apply keeps_modify; intros; reflexivity] ].
Ltac ks1 :=
  cbv beta;
  lazymatch goal with
  | |- keeps _ (let _ := _ in _) => cbv zeta
  | |- keeps _ (bind _ _) => apply keeps_bind; [|intros ?]
  | |- keeps _ (ret _) => apply keeps_ret
  | |- keeps _ (fail _) => apply keeps_fail
  | |- keeps _ (panic _) => apply keeps_panic
  | |- keeps _ get => apply keeps_get
  | |- keeps _ (try_ _) => apply keeps_try
  | |- keeps _ (forM _ _) => apply keeps_forM; intros ?
  | |- keeps _ (if ?c then _ else _) => destruct c
  | |- keeps _ (match ?c with _ => _ end) => destruct c
  | |- _ => ks_leaf
  end.
Ltac ks := repeat ks1.

Lemma sh_send_strict a b n : keeps shards (send_strict a b n).
Proof. intros s. unfold send_strict. destruct (_ <=? _); [reflexivity|]. destruct (_ <? _); reflexivity. Qed.
Global Hint Resolve sh_send_strict : shdb.
Lemma sh_coin_sub a b : keeps shards (coin_sub a b).
Proof. unfold coin_sub. ks. Qed.
Global Hint Resolve sh_coin_sub : shdb.
Lemma sh_remove_data_expire d h : keeps shards (remove_data_expire d h).
Proof. unfold remove_data_expire. ks. Qed.
Lemma sh_set_data_expire d h : keeps shards (set_data_expire d h).
Proof. unfold set_data_expire. ks. Qed.
Global Hint Resolve sh_remove_data_expire sh_set_data_expire : shdb.
Lemma sh_reset_meta_duration cx d m : keeps shards (reset_meta_duration cx d m).
Proof. unfold reset_meta_duration. ks. Qed.
Global Hint Resolve sh_reset_meta_duration : shdb.
Lemma sh_cancel_order cx oid : keeps shards (cancel_order cx oid).
Proof. unfold cancel_order, refund_order, rollback_meta. ks. Qed.
Global Hint Resolve sh_cancel_order : shdb.
Lemma sh_set_timeout_block oid h : keeps shards (set_timeout_block oid h).
Proof. unfold set_timeout_block. ks. Qed.
Global Hint Resolve sh_set_timeout_block : shdb.

(* the identifiers present never grow *)
Definition Rsub (s s' : State) : Prop := forall id, shards s !! id = None -> shards s' !! id = None.
Global Instance Rsub_po : PreOrder Rsub.
Proof. split; [intros s id H; exact H|intros a b c H1 H2 id H; auto]. Qed.
Lemma keeps_Rsub {A} (m : M A) : keeps shards m -> mok Rsub true m.
Proof. intros H s. specialize (H s). destruct (m s); auto; intros id Hn; rewrite H; exact Hn. Qed.
Lemma remove_shards_sub ids : mok Rsub true (remove_shards ids).
Proof.
  intros s. unfold remove_shards, modify. intros id Hn. unfold set; cbn.
  revert Hn. generalize (shards s). induction ids as [|x r IH]; intros m Hn; cbn [fold_left]; [exact Hn|].
  apply IH. destruct (decide (id = x)) as [->|Hne]; [apply lookup_delete|rewrite lookup_delete_ne by congruence; exact Hn].
Qed.

Lemma random_sp_m_state cx count ignore size s sps s' :
  random_sp_m cx count ignore size s = Ok sps s' -> shard_count s' = shard_count s /\ shards s' = shards s.
Proof.
  unfold random_sp_m, bind, get. destruct (random_sp _ _ _ _ _ _ _) as [[c r]| |]; try discriminate.
  unfold modify, ret. intros H. injection H as _ <-. split; reflexivity.
Qed.

Lemma In_in_list' x l : In x l -> in_list x l = true.
Proof. intros H. unfold in_list. apply existsb_exists. exists x. split; [exact H|apply String.eqb_refl]. Qed.

Lemma combine_lookup {A B} (l1 : list A) (l2 : list B) k x :
  combine l1 l2 !! k = Some x -> l1 !! k = Some x.1 /\ l2 !! k = Some x.2.
Proof.
  revert l2 k. induction l1 as [|a l1 IH]; intros [|b l2] [|k] H; cbn in *; try discriminate.
  - injection H as <-. split; reflexivity.
  - apply IH, H.
Qed.

(* THE CALL-SITE THEOREM for the retry after a timeout: every shard the timeout check creates belongs to the
   order, waits for its provider, and that provider is eligible, is not a provider that already holds or has
   timed out on a shard of the order, and differs from the providers of the other new shards *)
Theorem timeout_new_shards_fresh : forall cx oid s s' o,
  handle_timeout_order cx oid s = Ok tt s' -> orders s !! oid = Some o -> 0 <= cx_seed cx ->
  0 <= shard_count s -> shard_count s + Z.of_nat (length (o_shards o)) < two64 -> fresh_above s ->
  forall id sh', shards s' !! id = Some sh' -> shards s !! id = None ->
    sh_order sh' = oid /\ sh_status sh' = ShardWaiting /\
    (forall id0 sh0, In id0 (o_shards o) -> shards s !! id0 = Some sh0 -> sh_sp sh0 <> sh_sp sh') /\
    (exists n, nodes s !! sh_sp sh' = Some n /\ eligible (pledges s) (i64 (o_size o)) (mkCand (sh_sp sh') n) = true) /\
    (forall id2 sh2, id2 <> id -> shards s' !! id2 = Some sh2 -> shards s !! id2 = None -> sh_sp sh2 <> sh_sp sh').
Proof.
  intros cx oid s s' o H Ho Hseed H0 Hb Hf id sh' Hnew Hold.
  assert (Hno : forall (m : M unit) t, shards t = shards s -> mok Rsub true m -> m t = Ok tt s' -> False).
  { intros m t Et Hm E. specialize (Hm t). rewrite E in Hm. specialize (Hm id). rewrite Et in Hm. rewrite (Hm Hold) in Hnew. discriminate. }
  unfold handle_timeout_order in H. apply bind_ok in H. destruct H as (s0 & s0' & Hget & H). inversion Hget; subst s0' s0; clear Hget.
  rewrite Ho in H.
  destruct (o_status o =? OrderPending).
  { exfalso. eapply (Hno _ s eq_refl); [|exact H].
    apply mok_bind; try exact _; [apply mok_try, keeps_Rsub, sh_cancel_order|intros; apply mok_ret; exact _]. }
  destruct (_ <=? _).
  { exfalso. eapply (Hno _ s eq_refl); [|exact H]. apply mok_ret; exact _. }
  cbv zeta in H.
  set (present := omap _ (o_shards o)) in H.
  set (tshards := filter _ present) in H.
  destruct (_ =? 0).
  { exfalso. eapply (Hno _ s eq_refl); [|exact H].
    apply mok_bind; try exact _; [apply remove_shards_sub|intros].
    match goal with |- mok _ _ (match ?x with _ => _ end) => destruct x end; [apply mok_ret; exact _|apply keeps_Rsub, keeps_modify; intros; reflexivity]. }
  apply bind_ok in H. destruct H as (rand & s1 & Hr & H).
  destruct (random_sp_m_spec _ _ _ _ _ _ _ Hseed Hr) as (Hnd & Hall & _).
  destruct (random_sp_m_state _ _ _ _ _ _ _ Hr) as (Hc1 & Hs1).
  destruct rand as [|r0 rand].
  { exfalso. eapply (Hno _ s1 Hs1); [|exact H].
    destruct (_ <? _); [|apply keeps_Rsub, sh_set_timeout_block].
    destruct (negb _).
    - apply mok_bind; try exact _; [apply remove_shards_sub|intros].
      apply mok_bind; try exact _; [apply mok_try, keeps_Rsub, sh_cancel_order|intros; apply mok_ret; exact _].
    - apply mok_bind; try exact _; [apply remove_shards_sub|intros]. cbv zeta.
      destruct (_ <? 0); [apply mok_panic|].
      apply mok_bind; try exact _; [|intros; apply keeps_Rsub, keeps_modify; intros; reflexivity].
      apply keeps_Rsub. ks. }
  (* the re-assignment *)
  match type of H with bind (?F ?l0 ?o0) _ _ = _ => assert (Efix : F l0 o0 = reassign oid l0 o0) by reflexivity; rewrite Efix in H; clear Efix end.
  apply bind_ok in H. destruct H as (o' & t' & Hre & H).
  apply bind_ok in H. destruct H as ([] & t2 & Hm & H).
  unfold modify in Hm. injection Hm as <-. unfold set_timeout_block, modify in H. injection H as <-.
  unfold set in Hnew; cbn in Hnew.
  set (l := combine (r0 :: rand) tshards) in *.
  assert (Hpres : forall x, In x present -> shards s !! x.1 = Some x.2 /\ In x.1 (o_shards o)).
  { intros [i shx] Hx. apply elem_of_list_In, elem_of_list_omap in Hx as (i0 & Hi0 & E). apply elem_of_list_In in Hi0.
    destruct (shards s !! i0) as [y|] eqn:Ey; [|discriminate]. injection E as <- <-. split; [exact Ey|exact Hi0]. }
  assert (Hl_len : (length l <= length (o_shards o))%nat).
  { subst l. rewrite combine_length. etransitivity; [apply Nat.le_min_r|].
    subst tshards. etransitivity; [apply filter_length|]. subst present. apply omap_length_le. }
  assert (Hl_sid : forall x, In x l -> is_Some (shards s1 !! x.2.1)).
  { intros x Hx. subst l. destruct x as [a [i shx]]. apply in_combine_r in Hx. cbn.
    apply elem_of_list_In, elem_of_list_filter in Hx as [_ Hx]. apply elem_of_list_In in Hx.
    destruct (Hpres _ Hx) as [E _]. cbn in E. rewrite Hs1, E. eexists; reflexivity. }
  destruct (reassign_spec oid l o s1 o' t' Hre) as (Hc & Hf' & Hold' & Hnew').
  { rewrite Hc1; exact H0. } { rewrite Hc1. lia. } { exact Hl_sid. } { intros i Hi. rewrite Hs1. apply Hf. rewrite <- Hc1. exact Hi. }
  (* where is the new shard *)
  assert (Hk : forall i shi, shards t' !! i = Some shi -> shards s !! i = None ->
            exists k x, i = shard_count s + Z.of_nat k /\ l !! k = Some x /\ sh_sp shi = x.1 /\ sh_order shi = oid /\ sh_status shi = ShardWaiting).
  { intros i shi Hi Hn. destruct (Z_lt_le_dec i (shard_count s1)) as [Hlt|Hge].
    - exfalso. rewrite Hold' in Hi; [rewrite Hs1, Hn in Hi; discriminate|exact Hlt|].
      intros x Hx E. destruct (Hl_sid x Hx) as [y Hy]. rewrite E, Hs1, Hn in Hy. discriminate.
    - destruct (Z_lt_le_dec i (shard_count t')) as [Hlt2|Hge2]; [|rewrite (Hf' i Hge2) in Hi; discriminate].
      rewrite Hc in Hlt2. exists (Z.to_nat (i - shard_count s1)).
      destruct (lookup_lt_is_Some_2 l (Z.to_nat (i - shard_count s1))) as [x Hx]; [lia|]. exists x.
      destruct (Hnew' _ x Hx) as (shk & E & P1 & P2 & P3).
      replace (shard_count s1 + Z.of_nat (Z.to_nat (i - shard_count s1))) with i in E by lia. rewrite Hi in E. injection E as <-.
      split; [rewrite <- Hc1; lia|]. auto. }
  destruct (Hk id sh' Hnew Hold) as (k & x & Eid & Hx & Hsp & Hord & Hst).
  split; [exact Hord|]. split; [exact Hst|].
  destruct (combine_lookup _ _ _ _ Hx) as [Hx1 Hx2].
  assert (Hin : In x.1 (r0 :: rand)) by (apply elem_of_list_In, elem_of_list_lookup; exists k; exact Hx1).
  destruct (Hall _ Hin) as (n & Hn & Hel & Hig).
  split.
  - intros id0 sh0 Hid0 Hsh0 E. rewrite Hsp in E.
    assert (Hi : in_list x.1 (map (fun y : Z * Shard => sh_sp y.2) present) = true).
    { apply In_in_list'. apply in_map_iff. exists (id0, sh0). split; [exact E|].
      apply elem_of_list_In, elem_of_list_omap. exists id0. split; [apply elem_of_list_In; exact Hid0|]. rewrite Hsh0. reflexivity. }
    rewrite Hi in Hig. discriminate.
  - split; [exists n; rewrite Hsp; split; [exact Hn|exact Hel]|].
    intros id2 sh2 Hne Hnew2 Hold2 E. unfold set in Hnew2; cbn in Hnew2.
    destruct (Hk id2 sh2 Hnew2 Hold2) as (k2 & x2 & Eid2 & Hx2' & Hsp2 & _).
    destruct (combine_lookup _ _ _ _ Hx2') as [Hy1 _].
    assert (k2 = k); [|subst k2; lia].
    eapply NoDup_lookup; [exact Hnd|exact Hy1|]. rewrite Hx1. f_equal. congruence.
Qed.
Print Assumptions timeout_new_shards_fresh.

(** ** non-vacuity: the order of RefInt.W before its provider completed; at its first timeout check the
    shard held by "T" is marked timed out and a new shard goes to "S" *)
From SaoVerif Require Import Model.Inv Model.Monitors Proofs.RefInt.
Example timeout_reassign_nonvacuous :
  exists s' o, handle_timeout_order (W.cxh 105) 1 W.s1 = Ok tt s' /\ orders W.s1 !! 1 = Some o /\
    fresh_above W.s1 /\ shard_count W.s1 = 2 /\ shards W.s1 !! 2 = None /\
    (exists sh, shards W.s1 !! 1 = Some sh /\ sh_sp sh = "T") /\
    (exists sh', shards s' !! 2 = Some sh' /\ sh_sp sh' = "S" /\ sh_status sh' = ShardWaiting) /\
    (exists sh1, shards s' !! 1 = Some sh1 /\ sh_status sh1 = ShardTimeout).
Proof.
  eexists. eexists. split; [vm_compute; reflexivity|]. split; [vm_compute; reflexivity|].
  split.
  { intros id Hid. change (shard_count W.s1) with 2 in Hid.
    destruct (shards W.s1 !! id) as [x|] eqn:E; [|reflexivity]. exfalso.
    assert (Hm : mon_ids W.s1 = true) by (vm_compute; reflexivity).
    unfold mon_ids in Hm. apply andb_prop in Hm as [_ Hm]. pose proof (all_z_spec _ _ Hm id x E) as Hb. cbn beta in Hb.
    apply andb_prop in Hb as [_ Hb]. apply Z.ltb_lt in Hb. change (shard_count W.s1) with 2 in Hb. lia. }
  split; [reflexivity|]. split; [vm_compute; reflexivity|].
  split; [eexists; split; [vm_compute; reflexivity|reflexivity]|].
  split; eexists; (split; [vm_compute; reflexivity|]); try split; reflexivity.
Qed.
