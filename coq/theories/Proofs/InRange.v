(* The re-assignment loop of HandleTimeoutOrder indexes timeoutShards[i] for every provider RandomSP returned. The model
   pairs the two lists with [combine]; this file shows that nothing is cut off: RandomSP, asked for as many providers as
   shards have stalled, never returns more, so every provider returned is paired with a stalled shard and the Go index is
   in range. *)
From SaoVerif Require Import Base.Prelude Base.Ints Base.Dec Model.Did Model.Types Model.Monad Model.Bank Model.Select
     Model.Node Model.Storage Model.Sao Proofs.SelectFacts Proofs.SelectApp.

Theorem reassignment_index_in_range : forall {A} cx (stalled : list A) ignore size s sps s',
  0 <= cx_seed cx -> random_sp_m cx (Z.of_nat (length stalled)) ignore size s = Ok sps s' ->
  (length sps <= length stalled)%nat /\ length (combine sps stalled) = length sps.
Proof.
  intros A cx stalled ignore size s sps s' Hseed H.
  destruct (random_sp_m_spec _ _ _ _ _ _ _ Hseed H) as (_ & _ & Hlen & _).
  assert (Hle : (length sps <= length stalled)%nat) by lia.
  split; [exact Hle|]. rewrite combine_length. lia.
Qed.
Print Assumptions reassignment_index_in_range.
