(* C19: what a fault report may record and what a recovery may touch.

   [valid_report] is the property's wording, independent of the handler code: the report names
   an existing data model, an existing order of that model, a shard that this order lists, that
   exists, is held by the accused provider (who is the provider named in the message) and whose
   paid period has not ended at the current height.

   report_records_only_valid : after an accepted ReportFaults every fault record is either an
     unchanged old one or a record built from one VALID entry of the message, filed under the
     reporter's own address with status 1 and penalty 0.
   recover_touches_only_accused : an accepted RecoverFaults changes or deletes only fault
     records that were indexed under the provider the message names. *)
From SaoVerif Require Import Base.Prelude Base.Ints Base.Dec Model.Did Model.Types Model.Monad Model.Bank Model.Select Model.Node Model.Storage Model.Sao Model.Hooks Model.App Model.Spec Proofs.Frame Proofs.HooksFacts.
From RecordUpdate Require Import RecordUpdate.
Import RecordSetNotations.

Definition valid_report (cx : Ctx) (s : State) (p : string) (f : FaultIn) : Prop :=
  fi_provider f = p /\ is_Some (metas s !! fi_data f) /\
  exists o sh, orders s !! fi_order f = Some o /\ o_data o = fi_data f /\
    In (fi_shard f) (o_shards o) /\ shards s !! fi_shard f = Some sh /\ sh_sp sh = fi_provider f /\
    cx_height cx < u64 (sh_created sh + sh_duration sh).

Lemma filter_head_In {A} (g : A -> bool) (l : list A) x r : filter g l = x :: r -> In x l /\ g x = true.
Proof.
  intros E. apply filter_head_elem in E. destruct E as [Hg Hin]. split; [apply elem_of_list_In, Hin|apply Is_true_true, Hg].
Qed.

Lemma fault_target_ok_report cx s p f : fault_target_ok cx s p f true = true -> valid_report cx s p f.
Proof.
  unfold fault_target_ok. intros H.
  apply andb_true_iff in H. destruct H as [H H3]. apply andb_true_iff in H. destruct H as [H1 H2].
  apply String.eqb_eq in H1. apply bool_decide_eq_true in H2.
  destruct (orders s !! fi_order f) as [o|] eqn:Ho; [|discriminate H3].
  apply andb_true_iff in H3. destruct H3 as [H3 H5]. apply andb_true_iff in H3. destruct H3 as [H3 _].
  apply String.eqb_eq in H3.
  match type of H5 with context [filter ?g ?l] => destruct (filter g l) as [|id r] eqn:F end; [discriminate H5|].
  apply filter_head_In in F. destruct F as [Hin Hg]. apply andb_true_iff in Hg. destruct Hg as [Hg1 Hg2].
  apply Z.eqb_eq in Hg1. subst id.
  destruct (shards s !! fi_shard f) as [sh|] eqn:Hsh; [|discriminate H5].
  apply String.eqb_eq in Hg2. apply Z.ltb_lt in H5.
  split; [congruence|]. split; [exact H2|]. exists o, sh. repeat split; auto.
Qed.

Lemma mok_forM_in {A} (R : State -> State -> Prop) `{!PreOrder R} h (l : list A) (f : A -> M unit) :
  (forall a, In a l -> mok R h (f a)) -> mok R h (forM l f).
Proof.
  induction l as [|x l IH]; intros Hf; cbn [forM]; [apply mok_ret; exact _|].
  apply mok_bind; [exact _|apply Hf; left; reflexivity|intros _; apply IH; intros a Ha; apply Hf; right; exact Ha].
Qed.

Lemma mok_bind_get {A} (R : State -> State -> Prop) h (k : State -> M A) :
  (forall s, match k s s with Ok _ s' | Err _ s' => R s s' | Panic _ => True | Hang => h = true end) ->
  mok R h (bind get k).
Proof. intros H s. unfold bind, get. apply H. Qed.

(** * ReportFaults *)
Section Report.
  Context (cx : Ctx) (c p : string) (fl : list (FaultIn * string)).

  Definition new_valid (s : State) (f : Fault) : Prop :=
    exists fi, In fi (map fst fl) /\ valid_report cx s p fi /\
      f = mkFault (fi_newid fi) (fi_order fi) (fi_data fi) (fi_shard fi) (fi_commit fi) (fi_provider fi) c "+" 1 0.

  Definition Rrep (s s' : State) : Prop :=
    nofault s' = nofault s /\
    forall fid f, faults s' !! fid = Some f -> faults s !! fid = Some f \/ (new_valid s f /\ fid = f_id f).

  Lemma valid_report_frame s s' f : nofault s' = nofault s -> valid_report cx s' p f -> valid_report cx s p f.
  Proof.
    intros E. injection E as _ _ _ _ _ _ _ Eo _ Es _ Em _ _ _ _ _ _ _ _ _ _.
    unfold valid_report. rewrite Eo, Es, Em. auto.
  Qed.

  Global Instance Rrep_preorder : PreOrder Rrep.
  Proof.
    split.
    - intros s. split; [reflexivity|]. intros fid f H. left. exact H.
    - intros s1 s2 s3 [E1 H1] [E2 H2]. split; [congruence|].
      intros fid f H. destruct (H2 fid f H) as [H'|[(fi & Hin & Hv & Hf) Hid]]; [apply H1, H'|].
      right. split; [|exact Hid]. exists fi. split; [exact Hin|]. split; [|exact Hf]. eapply valid_report_frame; eassumption.
  Qed.

  Lemma report_one_ok fk : In fk fl ->
    mok Rrep true (let '(f, rawkey) := fk in
                   s1 <- get ;;
                   if negb (fault_target_ok cx s1 p f true) then ret tt else
                   match fault_by_sp_shard s1 (fi_provider f) (fi_shard f) with
                   | Some _ => ret tt
                   | None => set_fault rawkey (mkFault (fi_newid f) (fi_order f) (fi_data f) (fi_shard f) (fi_commit f) (fi_provider f) c "+" 1 0)
                   end).
  Proof.
    intros Hin. destruct fk as [f rawkey]. apply mok_bind_get. intros s.
    destruct (fault_target_ok cx s p f true) eqn:Hok; cbn [negb]; [|cbn; reflexivity].
    destruct (fault_by_sp_shard s (fi_provider f) (fi_shard f)); [cbn; reflexivity|].
    unfold set_fault, modify. split; [reflexivity|].
    intros fid f0 H. cbn in H. apply lookup_insert_Some in H. destruct H as [[<- <-]|[_ H]]; [|left; exact H].
    right. split; [|reflexivity]. exists f. split; [apply in_map_iff; exists (f, rawkey); auto|].
    split; [apply fault_target_ok_report, Hok|reflexivity].
  Qed.

  Lemma sao_report_faults_rep : mok Rrep true (sao_report_faults cx c p fl).
  Proof.
    unfold sao_report_faults. apply mok_bind_get. intros s.
    destruct (nodes s !! c); [|cbn; reflexivity].
    destruct (negb (is_fishman s c)); [cbn; reflexivity|].
    pose proof (mok_forM_in Rrep true fl _ report_one_ok s) as H. exact H.
  Qed.
End Report.

Theorem report_records_only_valid : forall cx s c p fl s' d fid f,
  step cx s (OReportFaults c p fl) = (s', OutTx COk d) -> faults s' !! fid = Some f ->
  faults s !! fid = Some f \/
  (fid = f_id f /\ f_reporter f = c /\ f_status f = 1 /\ f_penalty f = 0 /\
   exists fi, In fi (map fst fl) /\ valid_report cx s p fi /\ f_id f = fi_newid fi /\ f_order f = fi_order fi /\
              f_data f = fi_data fi /\ f_shard f = fi_shard fi /\ f_provider f = p).
Proof.
  intros cx s c p fl s' d fid f E Hf.
  apply (step_tx_ok cx s _ s' d (sao_report_faults cx c p fl)) in E; [|reflexivity|discriminate].
  destruct E as [a E]. pose proof (sao_report_faults_rep cx c p fl s) as H. rewrite E in H.
  destruct H as [_ H]. destruct (H fid f Hf) as [H'|[(fi & Hin & Hv & ->) Hid]]; [left; exact H'|].
  right. cbn. split; [exact Hid|]. do 3 (split; [reflexivity|]). exists fi. split; [exact Hin|]. split; [exact Hv|].
  do 4 (split; [reflexivity|]). apply Hv.
Qed.
Print Assumptions report_records_only_valid.

(* non-vacuity and tightness: the filter is exercised by the correspondence harness; here only that an
   invalid entry (unknown order) leaves the tables untouched *)
Theorem report_unknown_order_ignored : forall cx s c p f raw s' d,
  step cx s (OReportFaults c p [(f, raw)]) = (s', OutTx COk d) -> orders s !! fi_order f = None -> faults s' = faults s.
Proof.
  intros cx s c p f raw s' d E Ho.
  apply (step_tx_ok cx s _ s' d (sao_report_faults cx c p [(f, raw)])) in E; [|reflexivity|discriminate].
  destruct E as [a E]. unfold sao_report_faults, bind, get in E.
  destruct (nodes s !! c); [|discriminate E]. destruct (negb (is_fishman s c)); [discriminate E|].
  cbn [forM] in E. unfold bind, get in E.
  assert (Hf : fault_target_ok cx s p f true = false).
  { unfold fault_target_ok. rewrite Ho. rewrite andb_false_r. reflexivity. }
  rewrite Hf in E. cbn in E. injection E as _ <-. reflexivity.
Qed.
Print Assumptions report_unknown_order_ignored.

(** * RecoverFaults *)
Global Instance Fault_eq_dec : EqDecision Fault.
Proof. solve_decision. Defined.

(* fault records are stored under their own identifier *)
Definition fault_keyed (s : State) : Prop := forall fid f, faults s !! fid = Some f -> f_id f = fid.

Section Recover.
  Context (cx : Ctx) (c p : string).

  (* index entries under the accused provider all stem from entries the pre-state had *)
  Definition idx_from (s s' : State) : Prop :=
    forall raw sh fid, fault_idx s' !! raw = Some (p, sh, fid) -> exists raw0 sh0, fault_idx s !! raw0 = Some (p, sh0, fid).

  Definition Rrec (s s' : State) : Prop :=
    fault_keyed s ->
    fault_keyed s' /\ idx_from s s' /\
    forall fid, faults s' !! fid <> faults s !! fid -> exists raw0 sh0, fault_idx s !! raw0 = Some (p, sh0, fid).

  Global Instance Rrec_preorder : PreOrder Rrec.
  Proof.
    split.
    - intros s K. split; [exact K|]. split; [intros raw sh fid H; eauto|]. intros fid H. congruence.
    - intros s1 s2 s3 R1 R2 K1. destruct (R1 K1) as (K2 & I1 & H1). destruct (R2 K2) as (K3 & I2 & H2).
      split; [exact K3|]. split.
      + intros raw sh fid H. destruct (I2 raw sh fid H) as (r & x & H'). apply (I1 r x fid H').
      + intros fid H. destruct (decide (faults s2 !! fid = faults s1 !! fid)) as [E|N].
        * destruct (H2 fid) as (r & x & H'); [congruence|]. apply (I1 r x fid H').
        * apply H1, N.
  Qed.

  Lemma fault_by_sp_shard_idx s sh fo :
    fault_by_sp_shard s p sh = Some fo -> exists raw fid, fault_idx s !! raw = Some (p, sh, fid) /\ faults s !! fid = Some fo.
  Proof.
    unfold fault_by_sp_shard.
    match goal with |- context [filter ?g ?l] => destruct (filter g l) as [|kv r] eqn:F end; [discriminate|].
    apply filter_head_elem in F. destruct F as [Hg Hin]. destruct kv as [raw [[pr sd] fid]]. cbn in Hg |- *.
    apply Is_true_true in Hg.
    apply andb_true_iff in Hg. destruct Hg as [Hg1 Hg2]. apply String.eqb_eq in Hg1. apply Z.eqb_eq in Hg2. subst.
    intros H. exists raw, fid. split; [|exact H].
    apply elem_of_sorted_items. exact Hin.
  Qed.

  (* writing back a record with the identifier, provider of an indexed fault *)
  Lemma Rrec_set_fault s raw0 sh0 fo rawkey fm :
    fault_idx s !! raw0 = Some (p, sh0, f_id fo) -> f_id fm = f_id fo -> f_provider fm = p ->
    Rrec s (s <| faults ::= <[f_id fm := fm]> |> <| fault_idx ::= <[rawkey := (f_provider fm, f_shard fm, f_id fm)]> |>).
  Proof.
    intros Hi Eid Ep K. cbn. split; [|split].
    - intros fid f H. cbn in H. apply lookup_insert_Some in H. destruct H as [[<- <-]|[_ H]]; [reflexivity|apply K, H].
    - intros raw sh fid H. cbn in H. apply lookup_insert_Some in H. destruct H as [[_ H]|[_ H]]; [|eauto].
      injection H as _ _ <-. rewrite Eid. eauto.
    - intros fid H. cbn in H. destruct (decide (fid = f_id fm)) as [->|N]; [rewrite Eid; eauto|].
      rewrite lookup_insert_ne in H by congruence. congruence.
  Qed.

  Lemma Rrec_delete s raw0 sh0 fo rawkey fm g :
    fault_idx s !! raw0 = Some (p, sh0, f_id fo) -> f_id fm = f_id fo ->
    Rrec s (s <| fishing ::= g |> <| faults ::= delete (f_id fm) |> <| fault_idx ::= delete rawkey |>).
  Proof.
    intros Hi Eid K. cbn. split; [|split].
    - intros fid f H. cbn in H. apply lookup_delete_Some in H. apply K, H.
    - intros raw sh fid H. cbn in H. apply lookup_delete_Some in H. destruct H as [_ H]. eauto.
    - intros fid H. cbn in H. destruct (decide (fid = f_id fm)) as [->|N]; [rewrite Eid; eauto|].
      rewrite lookup_delete_ne in H by congruence. congruence.
  Qed.

  Lemma recover_one_ok fk :
    mok Rrec true (let '(f, rawkey) := fk in
        s1 <- get ;;
        if negb (fault_target_ok cx s1 p f false) then ret tt else
        match fault_by_sp_shard s1 (fi_provider f) (fi_shard f) with
        | None => ret tt
        | Some fo =>
            if negb (String.eqb (f_data fo) (fi_data f)) || negb (f_order fo =? fi_order f) || negb (f_shard fo =? fi_shard f) then ret tt else
            let base := mkFault (f_id fo) (fi_order f) (fi_data f) (fi_shard f) (fi_commit f) (fi_provider f)
                                (f_reporter fo) (f_confirms fo) (f_status fo) (f_penalty fo) in
            let upd : option Fault :=
              if String.eqb p c && String.eqb (f_provider fo) c then Some (base <| f_status := 3 |>)
              else if str_contains (f_confirms fo) ("-" +:+ c) then Some (base <| f_confirms := f_confirms fo +:+ "|-" +:+ c |>)
              else if f_status fo =? 3 then Some (base <| f_confirms := f_confirms fo +:+ "|-" +:+ c |>)
              else None in
            match upd with
            | None => ret tt
            | Some fm =>
                if (str_count (f_confirms fm) "+" =? str_count (f_confirms fm) "-") &&
                   bool_decide (is_Some (pledges s1 !! f_provider fm)) then
                  if negb (f_penalty fm =? 0) then panic "fault penalty outside the modelled domain" else
                  let zero := "0.000000000000000000" in
                  let confirmers := str_split "|" (str_drop_chars ["+"%char; "-"%char] (f_confirms fo)) in
                  if existsb (String.eqb "") (f_reporter fo :: confirmers) then panic "key is nil" else
                  modify (fun s => s <| fishing ::= (fun m => fold_left (fun m c => <[c := zero]> m) confirmers (<[f_reporter fo := zero]> m)) |>) ;;;
                  modify (fun s => s <| faults ::= delete (f_id fm) |> <| fault_idx ::= delete rawkey |>)
                else set_fault rawkey fm
            end
        end).
  Proof.
    destruct fk as [f rawkey]. apply mok_bind_get. intros s.
    destruct (fault_target_ok cx s p f false) eqn:Hok; cbn [negb]; [|cbn; reflexivity].
    assert (Hp : fi_provider f = p).
    { unfold fault_target_ok in Hok. apply andb_true_iff in Hok. destruct Hok as [Hok _]. apply andb_true_iff in Hok.
      destruct Hok as [Hok _]. apply String.eqb_eq in Hok. congruence. }
    rewrite Hp.
    destruct (fault_by_sp_shard s p (fi_shard f)) as [fo|] eqn:Hfo; [|cbn; reflexivity].
    destruct (negb (String.eqb (f_data fo) (fi_data f)) || negb (f_order fo =? fi_order f) || negb (f_shard fo =? fi_shard f)); [cbn; reflexivity|].
    cbv zeta.
    match goal with |- context [match ?u with Some _ => _ | None => ret tt end] => set (upd := u) end.
    assert (Hupd : forall fm, upd = Some fm -> f_id fm = f_id fo /\ f_provider fm = p).
    { intros fm. unfold upd. repeat (match goal with |- context [if ?b then _ else _] => destruct b end);
        intros E; try discriminate E; injection E as <-; cbn; auto. }
    destruct upd as [fm|]; [|cbn; reflexivity]. destruct (Hupd fm eq_refl) as [Eid Ep].
    destruct (fault_by_sp_shard_idx s (fi_shard f) fo Hfo) as (raw0 & fid0 & Hi & Hf0).
    match goal with |- context [if ?b then _ else set_fault _ _] => destruct b end.
    - destruct (negb (f_penalty fm =? 0)); [exact I|]. cbv zeta. destruct (existsb _ _); [exact I|]. unfold bind, modify. intros K.
      assert (E0 : f_id fo = fid0) by (apply K, Hf0). rewrite <- E0 in Hi.
      eapply (Rrec_delete s raw0 (fi_shard f) fo rawkey fm _ Hi Eid K).
    - unfold set_fault, modify. intros K.
      assert (E0 : f_id fo = fid0) by (apply K, Hf0). rewrite <- E0 in Hi.
      exact (Rrec_set_fault s raw0 (fi_shard f) fo rawkey fm Hi Eid Ep K).
  Qed.

  Lemma sao_recover_faults_rec fl : mok Rrec true (sao_recover_faults cx c p fl).
  Proof.
    unfold sao_recover_faults. apply mok_bind_get. intros s.
    destruct (nodes s !! c) as [n|]; [|cbn; reflexivity].
    destruct (String.eqb c p && _); [cbn; reflexivity|].
    destruct (negb (String.eqb c p) && _); [cbn; reflexivity|].
    destruct (pool s); [|cbn; reflexivity].
    pose proof (mok_forM Rrec true fl _ recover_one_ok s) as H. exact H.
  Qed.
End Recover.

Theorem recover_touches_only_accused : forall cx s c p fl s' d fid,
  step cx s (ORecoverFaults c p fl) = (s', OutTx COk d) -> fault_keyed s ->
  faults s' !! fid <> faults s !! fid -> exists raw sh, fault_idx s !! raw = Some (p, sh, fid).
Proof.
  intros cx s c p fl s' d fid E K Hne.
  apply (step_tx_ok cx s _ s' d (sao_recover_faults cx c p fl)) in E; [|reflexivity|discriminate].
  destruct E as [a E]. pose proof (sao_recover_faults_rec cx c p fl s) as H. rewrite E in H.
  destruct (H K) as (_ & _ & H3). apply H3, Hne.
Qed.
Print Assumptions recover_touches_only_accused.

(* fault records stay stored under their own identifier, whatever happens *)
Theorem step_fault_keyed : forall cx s op, fault_keyed s -> fault_keyed (fst (step cx s op)).
Proof.
  intros cx s op K.
  destruct (match op with OReportFaults _ _ _ | ORecoverFaults _ _ _ => true | _ => false end) eqn:Hop.
  - destruct op; try discriminate Hop; rewrite step_state; cbn [tx_of]; rewrite deliver_state.
    + pose proof (sao_report_faults_rep cx creator provider fl s) as H.
      destruct (sao_report_faults cx creator provider fl s) as [a s1|e s1|e|]; try exact K.
      destruct H as [_ H]. intros fid f Hf. destruct (H fid f Hf) as [H'|[_ ->]]; [apply K, H'|reflexivity].
    + pose proof (sao_recover_faults_rec cx creator provider fl s) as H.
      destruct (sao_recover_faults cx creator provider fl s) as [a s1|e s1|e|]; try exact K.
      apply (H K).
  - destruct (faults_only_by_reports cx s op) as (E & _ & _); [intros c p fl ->; discriminate Hop..|].
    unfold fault_keyed. rewrite E. exact K.
Qed.
Print Assumptions step_fault_keyed.

Theorem run_fault_keyed : forall tr s, fault_keyed s -> fault_keyed (run tr s).
Proof.
  induction tr as [|[cx op] tr IH]; intros s K; [exact K|].
  unfold run. cbn [fold_left]. apply IH. cbn [fst snd]. apply step_fault_keyed, K.
Qed.
Print Assumptions run_fault_keyed.
