(* C16, history level: identifiers stay below their counters along every run, the counters
   never decrease, an identifier that has existed is never given to a new record again, and
   identifiers increase with creation order. Lifted from [step_ids_partial] (Proofs/Frame.v) by
   induction over the operation list; the side conditions are required at every step of the
   run ([ids_ok_along]): counters below 2^63, the per-call size bounds, and -- at a Complete --
   that every shard names an existing order (implied by referential integrity, C13). *)
From SaoVerif Require Import Base.Prelude Base.Ints Base.Dec Model.Did Model.Types Model.Monad Model.Bank Model.Select
     Model.Node Model.Storage Model.Sao Model.Hooks Model.App Model.Spec Proofs.Frame.

Fixpoint ids_ok_along (tr : list (Ctx * Op)) (s : State) : Prop :=
  match tr with
  | [] => True
  | (cx, op) :: tr' =>
      counts_small s /\ sizes_small cx s op /\ complete_refs_ok s op /\ ids_ok_along tr' (fst (step cx s op))
  end.

Lemma run_cons cx op tr s : run ((cx, op) :: tr) s = run tr (fst (step cx s op)).
Proof. reflexivity. Qed.

Lemma run_snoc tr cx op s : run (tr ++ [(cx, op)]) s = fst (step cx (run tr s) op).
Proof. unfold run. rewrite fold_left_app. reflexivity. Qed.

Lemma ids_ok_along_app tr1 tr2 s :
  ids_ok_along (tr1 ++ tr2) s <-> ids_ok_along tr1 s /\ ids_ok_along tr2 (run tr1 s).
Proof.
  revert s. induction tr1 as [|[cx op] tr1 IH]; intros s; cbn [app ids_ok_along].
  - unfold run; cbn. tauto.
  - rewrite run_cons, IH. tauto.
Qed.

(* the invariant and the monotonicity of both counters over a whole run *)
Theorem run_ids_partial : forall tr s,
  Inv_ids s -> ids_ok_along tr s ->
  Inv_ids (run tr s) /\ order_count s <= order_count (run tr s) /\ shard_count s <= shard_count (run tr s).
Proof.
  induction tr as [|[cx op] tr IH]; intros s Hinv Hok.
  - change (run [] s) with s. split; [exact Hinv|]. split; lia.
  - destruct Hok as (Hc & Hsz & Hr & Hok). rewrite run_cons.
    destruct (step_ids_partial cx s op Hinv Hc Hsz Hr) as (Hinv' & Ho & Hs & _ & _).
    destruct (IH _ Hinv' Hok) as (H1 & H2 & H3). split; [exact H1|]. split; lia.
Qed.

(* an order identifier that has existed (in the state the run starts from: any earlier state)
   and has disappeared is never given to a new order *)
Theorem order_id_never_reused : forall tr cx op s id,
  Inv_ids s -> ids_ok_along (tr ++ [(cx, op)]) s ->
  is_Some (orders s !! id) -> orders (run tr s) !! id = None ->
  orders (run (tr ++ [(cx, op)]) s) !! id = None.
Proof.
  intros tr cx op s id Hinv Hok [o Ho] Hgone.
  apply ids_ok_along_app in Hok as [Hok1 Hok2]. cbn [ids_ok_along] in Hok2. destruct Hok2 as (Hc & Hsz & Hr & _).
  destruct (run_ids_partial tr s Hinv Hok1) as (Hinv1 & Hmono & _).
  destruct (step_ids_partial cx (run tr s) op Hinv1 Hc Hsz Hr) as (_ & _ & _ & Hnew & _).
  rewrite run_snoc. destruct (orders (fst (step cx (run tr s) op)) !! id) as [o'|] eqn:E; [|reflexivity].
  specialize (Hnew id o' E Hgone). destruct Hinv as [Hi _]. specialize (Hi id o Ho). lia.
Qed.

Theorem shard_id_never_reused : forall tr cx op s id,
  Inv_ids s -> ids_ok_along (tr ++ [(cx, op)]) s ->
  is_Some (shards s !! id) -> shards (run tr s) !! id = None ->
  shards (run (tr ++ [(cx, op)]) s) !! id = None.
Proof.
  intros tr cx op s id Hinv Hok [o Ho] Hgone.
  apply ids_ok_along_app in Hok as [Hok1 Hok2]. cbn [ids_ok_along] in Hok2. destruct Hok2 as (Hc & Hsz & Hr & _).
  destruct (run_ids_partial tr s Hinv Hok1) as (Hinv1 & _ & Hmono).
  destruct (step_ids_partial cx (run tr s) op Hinv1 Hc Hsz Hr) as (_ & _ & _ & _ & Hnew).
  rewrite run_snoc. destruct (shards (fst (step cx (run tr s) op)) !! id) as [o'|] eqn:E; [|reflexivity].
  specialize (Hnew id o' E Hgone). destruct Hinv as [_ Hi]. specialize (Hi id o Ho). lia.
Qed.

(* identifiers increase with creation order: a record created by the last operation of a run has an
   identifier above every identifier that existed when the run started *)
Theorem order_ids_increase : forall tr cx op s id1 id2,
  Inv_ids s -> ids_ok_along (tr ++ [(cx, op)]) s ->
  is_Some (orders s !! id1) ->
  orders (run tr s) !! id2 = None -> is_Some (orders (run (tr ++ [(cx, op)]) s) !! id2) ->
  id1 < id2.
Proof.
  intros tr cx op s id1 id2 Hinv Hok [o1 Ho1] Habs [o2 Hnew2].
  apply ids_ok_along_app in Hok as [Hok1 Hok2]. cbn [ids_ok_along] in Hok2. destruct Hok2 as (Hc & Hsz & Hr & _).
  destruct (run_ids_partial tr s Hinv Hok1) as (Hinv1 & Hmono & _).
  destruct (step_ids_partial cx (run tr s) op Hinv1 Hc Hsz Hr) as (_ & _ & _ & Hnew & _).
  rewrite run_snoc in Hnew2. specialize (Hnew id2 o2 Hnew2 Habs).
  destruct Hinv as [Hi _]. specialize (Hi id1 o1 Ho1). lia.
Qed.

Theorem shard_ids_increase : forall tr cx op s id1 id2,
  Inv_ids s -> ids_ok_along (tr ++ [(cx, op)]) s ->
  is_Some (shards s !! id1) ->
  shards (run tr s) !! id2 = None -> is_Some (shards (run (tr ++ [(cx, op)]) s) !! id2) ->
  id1 < id2.
Proof.
  intros tr cx op s id1 id2 Hinv Hok [o1 Ho1] Habs [o2 Hnew2].
  apply ids_ok_along_app in Hok as [Hok1 Hok2]. cbn [ids_ok_along] in Hok2. destruct Hok2 as (Hc & Hsz & Hr & _).
  destruct (run_ids_partial tr s Hinv Hok1) as (Hinv1 & _ & Hmono).
  destruct (step_ids_partial cx (run tr s) op Hinv1 Hc Hsz Hr) as (_ & _ & _ & _ & Hnew).
  rewrite run_snoc in Hnew2. specialize (Hnew id2 o2 Hnew2 Habs).
  destruct Hinv as [_ Hi]. specialize (Hi id1 o1 Ho1). lia.
Qed.

(** ** non-vacuity: a run that creates an order and a shard satisfies the side conditions *)
From SaoVerif Require Import Model.Inv Model.Monitors Proofs.RefInt.

Definition refs_b (s : State) : bool :=
  all_z (shards s) (fun _ sh => bool_decide (is_Some (orders s !! sh_order sh)) &&
                                forallb (fun ri => bool_decide (is_Some (orders s !! ri_order ri))) (sh_renew sh)).
Lemma refs_b_sound s : refs_b s = true -> shard_refs_ok s.
Proof.
  intros H sid sh Hs. pose proof (all_z_spec _ _ H sid sh Hs) as Hb. cbn beta in Hb.
  apply andb_prop in Hb as [H1 H2]. apply bool_decide_eq_true in H1. split; [exact H1|].
  intros ri Hri. rewrite forallb_forall in H2. specialize (H2 ri Hri). apply bool_decide_eq_true in H2. exact H2.
Qed.

Definition ex_ids_run : list (Ctx * Op) :=
  [ (W.cxh 5, OStore W.store); (W.cxh 6, OComplete "T" "T" 1 "cid" 1000000 true); (W.cxh 7, ORenew W.renew) ].

Example ids_ok_along_nonvacuous :
  Inv_ids W.s0 /\ ids_ok_along ex_ids_run W.s0 /\
  order_count W.s0 = 1 /\ order_count (run ex_ids_run W.s0) = 3 /\
  orders W.s0 !! 1 = None /\ is_Some (orders (run ex_ids_run W.s0) !! 1) /\ is_Some (orders (run ex_ids_run W.s0) !! 2) /\
  is_Some (shards (run ex_ids_run W.s0) !! 1).
Proof.
  split; [apply mon_ids_sound; vm_compute; reflexivity|].
  split.
  { cbn [ids_ok_along ex_ids_run].
    split; [split; split; vm_compute; congruence|]. split; [vm_compute; reflexivity|]. split; [exact I|].
    split; [split; split; vm_compute; congruence|]. split; [exact I|]. split; [apply refs_b_sound; vm_compute; reflexivity|].
    split; [split; split; vm_compute; congruence|]. split; [vm_compute; reflexivity|]. split; [exact I|]. exact I. }
  split; [reflexivity|]. split; [vm_compute; reflexivity|]. split; [vm_compute; reflexivity|].
  split; [vm_compute; eexists; reflexivity|]. split; vm_compute; eexists; reflexivity.
Qed.
