(* C02: when the release of a shard's collateral panics, and when it cannot. ShardRelease subtracts the shard's
   collateral from the provider's recorded total with sdk.Coin.Sub, which panics on a negative result; called from the
   end blocker (shard expiry, timeout clean-up) the panic halts the chain. The clause [live.release_covered]
   (Model/Monitors.v) is exactly the condition under which no release of a live shard can panic. *)
From SaoVerif Require Import Base.Prelude Base.Ints Base.Dec Model.Did Model.Types Model.Monad Model.Bank Model.Select
     Model.Node Model.Storage Model.Monitors Proofs.Frame.
From RecordUpdate Require Import RecordUpdate.
Import RecordSetNotations.

Lemma settle_shpledged acc p : pl_shpledged (settle acc p) = pl_shpledged p.
Proof. unfold settle. destruct (0 <? pl_total p); reflexivity. Qed.

Lemma repay_debt_no_panic sp rw s : match repay_debt sp rw s with Panic _ | Hang => False | _ => True end.
Proof.
  unfold repay_debt, bind, get. destruct (debts s !! sp) as [d|]; [|exact I].
  destruct (repay_loop d rw) as [r [d'|]]; exact I.
Qed.

(* covered: the release returns normally or with an error, never with a panic *)
Theorem release_covered_never_panics sp sh s p :
  pledges s !! sp = Some p -> sh_pledge sh <= pl_shpledged p ->
  match shard_release sp (Some sh) s with Panic _ | Hang => False | _ => True end.
Proof.
  intros Hp Hle. unfold shard_release, bind at 1, get. rewrite Hp.
  destruct (pool s) as [po|]; [|exact I].
  unfold bind at 1. unfold bind at 1.
  pose proof (repay_debt_no_panic (sh_sp sh) [sh_pledge sh] s) as Hr.
  destruct (repay_debt (sh_sp sh) [sh_pledge sh] s) as [rw s1|e s1|e|]; try exact I; try contradiction.
  unfold bind at 1.
  assert (Hsend : forall t, match (if hd 0 rw =? 0 then ret tt else send_strict (macc NODE) sp (hd 0 rw)) t with Panic _ | Hang => False | _ => True end).
  { intros t. destruct (hd 0 rw =? 0); [exact I|]. unfold send_strict. destruct (_ <=? 0); [exact I|]. destruct (_ <? _); exact I. }
  specialize (Hsend s1).
  destruct ((if hd 0 rw =? 0 then ret tt else send_strict (macc NODE) sp (hd 0 rw)) s1) as [[] s2|e s2|e|]; try exact I; try contradiction.
  unfold bind at 1, coin_sub. rewrite settle_shpledged.
  destruct (pl_shpledged p - sh_pledge sh <? 0) eqn:E; [apply Z.ltb_lt in E; lia|].
  exact I.
Qed.

(* uncovered: with no debt recorded against the provider and an escrow that can pay the collateral back, the release
   panics -- in the end blocker that is a halt *)
Theorem release_uncovered_panics sp sh s p po :
  pledges s !! sp = Some p -> pool s = Some po -> sh_sp sh = sp -> debts s !! sp = None ->
  0 < sh_pledge sh <= balance s (macc NODE) -> pl_shpledged p < sh_pledge sh ->
  shard_release sp (Some sh) s = Panic "negative coin amount".
Proof.
  intros Hp Hpo Hsp Hd [Hpos Hbal] Hlt. unfold shard_release, bind at 1, get. rewrite Hp, Hpo.
  unfold bind at 1. unfold bind at 1. unfold repay_debt, bind at 1, get. rewrite Hsp, Hd. cbn [ret hd].
  unfold bind at 1.
  destruct (sh_pledge sh =? 0) eqn:E0; [apply Z.eqb_eq in E0; lia|].
  unfold send_strict.
  destruct (sh_pledge sh <=? 0) eqn:E1; [apply Z.leb_le in E1; lia|].
  destruct (balance s (macc NODE) <? sh_pledge sh) eqn:E2; [apply Z.ltb_lt in E2; lia|].
  unfold bind at 1, coin_sub. rewrite settle_shpledged.
  destruct (pl_shpledged p - sh_pledge sh <? 0) eqn:E; [reflexivity|apply Z.ltb_ge in E; lia].
Qed.

(* the clause decides it: where it holds (and collateral is non-negative), releasing any one completed shard of any
   provider does not panic *)
Lemma sumz_ge_elem {A} (f : A -> Z) (l : list A) x : (forall y, In y l -> 0 <= f y) -> In x l -> f x <= sumz l f.
Proof.
  induction l as [|y l IH]; intros Hnn Hin; [destruct Hin|]. cbn [sumz fold_right].
  assert (0 <= sumz l f).
  { clear -Hnn. induction l as [|z l IH]; cbn; [lia|]. pose proof (Hnn z (or_intror (or_introl eq_refl))).
    assert (0 <= fold_right (fun a acc => f a + acc) 0 l) by (apply IH; intros w Hw; apply Hnn; destruct Hw as [->|Hw]; [left; reflexivity|right; right; exact Hw]). lia. }
  destruct Hin as [->|Hin]; [unfold sumz in *; lia|].
  assert (f x <= sumz l f) by (apply IH; [intros w Hw; apply Hnn; right; exact Hw|exact Hin]).
  pose proof (Hnn y (or_introl eq_refl)). unfold sumz in *. lia.
Qed.

Theorem release_covered_sound s :
  mon_release_covered s = true ->
  (forall id sh, shards s !! id = Some sh -> 0 <= sh_pledge sh) ->
  forall id sh p, shards s !! id = Some sh -> sh_status sh = ShardCompleted -> pledges s !! sh_sp sh = Some p ->
    match shard_release (sh_sp sh) (Some sh) s with Panic _ | Hang => False | _ => True end.
Proof.
  intros Hm Hnn id sh p Hs Hst Hp.
  apply (release_covered_never_panics _ _ _ p Hp).
  unfold mon_release_covered, all_s in Hm. rewrite forallb_forall in Hm.
  specialize (Hm (sh_sp sh, p)). cbn [fst snd] in Hm.
  assert (Hin : In (sh_sp sh, p) (sitems (pledges s))) by (apply elem_of_list_In, elem_of_map_to_list, Hp).
  specialize (Hm Hin). apply Z.leb_le in Hm.
  etransitivity; [|exact Hm].
  apply sumz_ge_elem.
  - intros y Hy. unfold live_shards in Hy. apply in_map_iff in Hy as ([i y'] & <- & Hy).
    apply elem_of_list_In, elem_of_list_filter in Hy as [_ Hy]. apply elem_of_map_to_list in Hy. exact (Hnn _ _ Hy).
  - unfold live_shards. apply in_map_iff. exists (id, sh). split; [reflexivity|].
    apply elem_of_list_In, elem_of_list_filter. split; [|apply elem_of_map_to_list, Hs].
    cbn [snd]. rewrite Hst. rewrite String.eqb_refl. exact I.
Qed.
Print Assumptions release_covered_never_panics.
Print Assumptions release_uncovered_panics.
Print Assumptions release_covered_sound.

(** ** non-vacuity: the state of RefInt.W after its provider "T" completed the shard satisfies the clause, and its one
    completed shard carries collateral; with the provider's recorded total set below that collateral the release
    panics (the shape finding D23 produces on the real chain: scenario d23-expiry-halts) *)
From SaoVerif Require Import Model.Sao Model.Hooks Model.App Proofs.RefInt.
Example release_covered_nonvacuous :
  mon_release_covered W.s2 = true /\
  (exists sh p, shards W.s2 !! 1 = Some sh /\ sh_status sh = ShardCompleted /\ sh_sp sh = "T" /\ pledges W.s2 !! "T" = Some p /\
     0 < sh_pledge sh /\ sh_pledge sh <= pl_shpledged p /\
     shard_release "T" (Some sh) (W.s2 <| pledges ::= <["T" := p <| pl_shpledged := 0 |>]> |>) = Panic "negative coin amount").
Proof.
  split; [vm_compute; reflexivity|].
  eexists. eexists. split; [vm_compute; reflexivity|]. split; [reflexivity|]. split; [reflexivity|].
  split; [vm_compute; reflexivity|]. split; [vm_compute; reflexivity|]. split; [vm_compute; congruence|].
  vm_compute. reflexivity.
Qed.
