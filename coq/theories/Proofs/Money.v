(* C04 / C05 / C07 -- money: an order charges its payer once and exactly the quoted price,
   a cancelled order is refunded in full and its model rolled back, collateral leaves the
   node escrow only back to its provider (less recorded debt).

   Everything is proved about the model functions as they are ([Model/*.v] is not
   touched).  Where a requested statement is false of the model the strongest true variant
   is proved under the name [..._partial] and a concrete counterexample under [..._refuted]. *)
From SaoVerif Require Import Base.Prelude Base.Ints Base.Dec Model.Did Model.Types Model.Monad Model.Bank Model.Select
     Model.Node Model.Storage Model.Sao Model.Hooks Model.App Model.Spec.
From RecordUpdate Require Import RecordUpdate.
Import RecordSetNotations.

(* boolean comparisons in hypotheses to propositions *)
Ltac zb :=
  repeat match goal with
  | H : (_ <=? _) = true |- _ => apply Z.leb_le in H
  | H : (_ <=? _) = false |- _ => apply Z.leb_gt in H
  | H : (_ <? _) = true |- _ => apply Z.ltb_lt in H
  | H : (_ <? _) = false |- _ => apply Z.ltb_ge in H
  | H : (_ =? _) = true |- _ => apply Z.eqb_eq in H
  | H : (_ =? _) = false |- _ => apply Z.eqb_neq in H
  end.

(** * The outcome monad: inversion lemmas *)
Lemma bind_ok {A B} (m : M A) (k : A -> M B) s b s' :
  bind m k s = Ok b s' -> exists a s1, m s = Ok a s1 /\ k a s1 = Ok b s'.
Proof. unfold bind. destruct (m s) as [a s1|e s1|e|]; try discriminate. intros H. eauto. Qed.

Lemma bind_err {A B} (m : M A) (k : A -> M B) s e s' :
  bind m k s = Err e s' -> m s = Err e s' \/ exists a s1, m s = Ok a s1 /\ k a s1 = Err e s'.
Proof.
  unfold bind. destruct (m s) as [a s1|e1 s1|e1|]; try discriminate; intros H; [right; eauto | left].
  inversion H; reflexivity.
Qed.

Lemma try_ok {A} (m : M A) s r s' :
  try_ m s = Ok r s' -> (exists a, m s = Ok a s' /\ r = Some a) \/ (exists e, m s = Err e s' /\ r = None).
Proof.
  unfold try_. destruct (m s) as [a s1|e s1|e|]; try discriminate; intros H; inversion H; subst; eauto.
Qed.

Lemma try_not_err {A} (m : M A) s e s' : try_ m s <> Err e s'.
Proof. unfold try_. destruct (m s); discriminate. Qed.

Lemma step_tx_ok cx s op s' d m :
  step cx s op = (s', OutTx COk d) -> tx_of cx op = Some m -> m s = Ok tt s'.
Proof.
  intros H T. unfold step in H.
  destruct op; try discriminate T; rewrite T in H; unfold deliver in H;
    (destruct (m s) as [[] s1|e s1|e|]; inversion H; subst; reflexivity).
Qed.

(** * Frames: [keeps f m] -- the computation [m] never changes the projection [f] of the
   state, whether it returns normally or with an error *)
Definition keeps {A B} (f : State -> B) (m : M A) : Prop :=
  forall s, match m s with Ok _ s' | Err _ s' => f s' = f s | _ => True end.

Lemma keeps_ret {A B} (f : State -> B) (a : A) : keeps f (ret a).
Proof. intros s. reflexivity. Qed.
Lemma keeps_fail {A B} (f : State -> B) e : keeps f (@fail A e).
Proof. intros s. reflexivity. Qed.
Lemma keeps_panic {A B} (f : State -> B) e : keeps f (@panic A e).
Proof. intros s. exact I. Qed.
Lemma keeps_get {B} (f : State -> B) : keeps f get.
Proof. intros s. reflexivity. Qed.
Lemma keeps_modify {B} (f : State -> B) g : (forall s, f (g s) = f s) -> keeps f (modify g).
Proof. intros H s. apply H. Qed.
Lemma keeps_bind {A B C} (f : State -> C) (m : M A) (k : A -> M B) :
  keeps f m -> (forall a, keeps f (k a)) -> keeps f (bind m k).
Proof.
  intros Hm Hk s. unfold bind. specialize (Hm s). destruct (m s) as [a s1|e s1|e|]; auto.
  specialize (Hk a s1). destruct (k a s1); auto; congruence.
Qed.
Lemma keeps_try {A B} (f : State -> B) (m : M A) : keeps f m -> keeps f (try_ m).
Proof. intros Hm s. unfold try_. specialize (Hm s). destruct (m s); auto. Qed.
Lemma keeps_forM {A B} (f : State -> B) (l : list A) (g : A -> M unit) :
  (forall a, keeps f (g a)) -> keeps f (forM l g).
Proof. intros H. induction l as [|x r IH]; simpl; [apply keeps_ret | apply keeps_bind; auto]. Qed.
Lemma keeps_hang {A B} (f : State -> B) : keeps f (fun _ => @Hang A).
Proof. intros s. exact I. Qed.

Lemma keeps_ok {A B} (f : State -> B) (m : M A) s a s' : keeps f m -> m s = Ok a s' -> f s' = f s.
Proof. intros H E. specialize (H s). rewrite E in H. exact H. Qed.
Lemma keeps_err {A B} (f : State -> B) (m : M A) s e s' : keeps f m -> m s = Err e s' -> f s' = f s.
Proof. intros H E. specialize (H s). rewrite E in H. exact H. Qed.

Ltac keeps_step :=
  match goal with
  | |- keeps _ (bind _ _) => apply keeps_bind; [| intros ?]
  | |- keeps _ (ret _) => apply keeps_ret
  | |- keeps _ (fail _) => apply keeps_fail
  | |- keeps _ (panic _) => apply keeps_panic
  | |- keeps _ get => apply keeps_get
  | |- keeps _ (modify _) => apply keeps_modify; intros ?; reflexivity
  | |- keeps _ (try_ _) => apply keeps_try
  | |- keeps _ (forM _ _) => apply keeps_forM; intros ?
  | |- keeps _ (fun _ => Hang) => apply keeps_hang
  | |- keeps _ (if ?x then _ else _) => destruct x
  | |- keeps _ (match ?x with _ => _ end) => destruct x
  end.
Ltac keeps_tac := repeat keeps_step.

(** * Bank *)
Lemma macc_inj a b : macc a = macc b -> a = b.
Proof. unfold macc. simpl. intros H. inversion H. reflexivity. Qed.

Lemma move_frame from to amt s : move from to amt s = s <| bal := bal (move from to amt s) |>.
Proof. reflexivity. Qed.

Lemma move_from from to amt s : from <> to -> balance (move from to amt s) from = balance s from - amt.
Proof.
  intros N. unfold balance, move. cbn.
  rewrite lookup_insert_ne by congruence. rewrite lookup_insert. reflexivity.
Qed.
Lemma move_to from to amt s : from <> to -> balance (move from to amt s) to = balance s to + amt.
Proof.
  intros N. unfold balance, move. cbn.
  rewrite lookup_insert. rewrite lookup_insert_ne by congruence. reflexivity.
Qed.
Lemma move_other from to amt s a : a <> from -> a <> to -> bal (move from to amt s) !! a = bal s !! a.
Proof.
  intros N1 N2. unfold move. cbn. rewrite !lookup_insert_ne by congruence. reflexivity.
Qed.
Lemma move_self a amt s x : balance (move a a amt s) x = balance s x.
Proof.
  unfold balance, move. cbn. destruct (decide (x = a)) as [->|N].
  - rewrite !lookup_insert. cbn. unfold balance. lia.
  - rewrite !lookup_insert_ne by congruence. reflexivity.
Qed.
Lemma move_bal_other from to amt s a : a <> from -> a <> to -> balance (move from to amt s) a = balance s a.
Proof. intros. unfold balance. rewrite move_other by assumption. reflexivity. Qed.

(* the shape of a successful strict send *)
Lemma send_strict_ok from to amt s s' :
  send_strict from to amt s = Ok tt s' -> 0 < amt /\ amt <= balance s from /\ s' = move from to amt s.
Proof.
  unfold send_strict. destruct (amt <=? 0) eqn:E1; [discriminate|].
  destruct (balance s from <? amt) eqn:E2; [discriminate|]. intros H; inversion H; subst. zb. repeat split; lia.
Qed.
Lemma send_strict_err from to amt s e s' : send_strict from to amt s = Err e s' -> s' = s.
Proof.
  unfold send_strict. destruct (amt <=? 0); [intros H; inversion H; reflexivity|].
  destruct (balance s from <? amt); intros H; inversion H; reflexivity.
Qed.

Theorem send_strict_post : forall from to amt s s', send_strict from to amt s = Ok tt s' ->
  0 < amt /\ amt <= balance s from /\
  (from <> to -> balance s' from = balance s from - amt /\ balance s' to = balance s to + amt) /\
  (from = to -> forall a, balance s' a = balance s a) /\
  (forall a, a <> from -> a <> to -> bal s' !! a = bal s !! a) /\
  s' = s <| bal := bal s' |>.
Proof.
  intros from to amt s s' H. apply send_strict_ok in H as (H1 & H2 & ->).
  repeat split; try assumption.
  - apply move_from; assumption.
  - apply move_to; assumption.
  - intros -> a. apply move_self.
  - intros a. apply move_other.
Qed.
Print Assumptions send_strict_post.

Lemma send_lenient_ok from to amt s s' :
  send_lenient from to amt s = Ok tt s' ->
  (amt = 0 /\ s' = s) \/ (0 < amt /\ amt <= balance s from /\ s' = move from to amt s).
Proof.
  unfold send_lenient. destruct (amt =? 0) eqn:E.
  - intros H; inversion H; subst. left. zb. split; [assumption | reflexivity].
  - intros H. right. apply send_strict_ok in H. exact H.
Qed.

Theorem send_lenient_post : forall from to amt s s', send_lenient from to amt s = Ok tt s' ->
  0 <= amt /\ amt <= Z.max 0 (balance s from) /\
  (from <> to -> balance s' from = balance s from - amt /\ balance s' to = balance s to + amt) /\
  (forall a, a <> from -> a <> to -> bal s' !! a = bal s !! a) /\
  s' = s <| bal := bal s' |>.
Proof.
  intros from to amt s s' H. apply send_lenient_ok in H as [(-> & ->)|(H1 & H2 & ->)].
  - repeat split; try lia. destruct s; reflexivity.
  - repeat split; try lia.
    + apply move_from; assumption.
    + apply move_to; assumption.
    + intros a. apply move_other.
Qed.
Print Assumptions send_lenient_post.

Lemma keeps_send_strict {B} (f : State -> B) from to amt :
  (forall s b, f (s <| bal := b |>) = f s) -> keeps f (send_strict from to amt).
Proof.
  intros H s. unfold send_strict. destruct (amt <=? 0); [reflexivity|].
  destruct (balance s from <? amt); [reflexivity|]. unfold move. apply H.
Qed.

(** * Storage helpers: what they touch *)
Definition noerr {A} (m : M A) : Prop := forall s e s', m s <> Err e s'.

Lemma state_eta s : s = s <| expdata := expdata s |>.
Proof. destruct s; reflexivity. Qed.

Lemma remove_data_expire_ok d a s s' :
  remove_data_expire d a s = Ok tt s' -> exists ex, s' = s <| expdata := ex |>.
Proof.
  unfold remove_data_expire, bind, get, modify, ret.
  destruct (expdata s !! a) as [l|].
  - destruct (rm_expire_loop _ _ _ _ _) as [[arr len]|]; [|discriminate].
    destruct (take len arr); intros H; inversion H; eexists; reflexivity.
  - intros H; inversion H; subst. exists (expdata s'). apply state_eta.
Qed.
Lemma remove_data_expire_noerr d a : noerr (remove_data_expire d a).
Proof.
  intros s e s'. unfold remove_data_expire, bind, get, modify, ret, panic.
  destruct (expdata s !! a) as [l|]; [|discriminate].
  destruct (rm_expire_loop _ _ _ _ _) as [[arr len]|]; [|discriminate].
  destruct (take len arr); discriminate.
Qed.
Lemma set_data_expire_ok d a s s' :
  set_data_expire d a s = Ok tt s' -> exists ex, s' = s <| expdata := ex |>.
Proof. unfold set_data_expire, modify. intros H; inversion H. eexists; reflexivity. Qed.

Lemma reset_meta_duration_ok cx d m s m2 s' :
  reset_meta_duration cx d m s = Ok m2 s' ->
  (exists ex, s' = s <| expdata := ex |>) /\ (exists nd, m2 = m <| m_duration := nd |>).
Proof.
  unfold reset_meta_duration. intros H. apply bind_ok in H as (s0 & s1 & Hg & H). inversion Hg; subst s0 s1; clear Hg.
  cbv zeta in H.
  destruct (m_duration m =? _) eqn:E.
  - inversion H; subst. split; [exists (expdata s'); apply state_eta|]. exists (m_duration m2). destruct m2; reflexivity.
  - apply bind_ok in H as ([] & s1 & H1 & H). apply bind_ok in H as ([] & s2 & H2 & H).
    inversion H; subst. apply remove_data_expire_ok in H1 as (e1 & ->). apply set_data_expire_ok in H2 as (e2 & ->).
    split; eexists; reflexivity.
Qed.
Lemma reset_meta_duration_noerr cx d m : noerr (reset_meta_duration cx d m).
Proof.
  intros s e s' H. unfold reset_meta_duration in H. apply bind_err in H as [H|(s0 & s1 & Hg & H)]; [discriminate|].
  inversion Hg; subst s0 s1; clear Hg. cbv zeta in H. destruct (m_duration m =? _); [discriminate|].
  apply bind_err in H as [H|([] & s1 & H1 & H)]; [eapply remove_data_expire_noerr; eassumption|].
  apply bind_err in H as [H|([] & s2 & H2 & H)]; discriminate.
Qed.

(* RollbackMeta: touches only the three model tables *)
Definition only_model_tables (s s' : State) : Prop :=
  exists ex, s' = s <| metas := metas s' |> <| models := models s' |> <| expdata := ex |>.

Definition rolled_back (data : string) (s s' : State) : Prop :=
  (forall k, k <> data -> metas s' !! k = metas s !! k) /\
  match metas s !! data with
  | None => metas s' = metas s /\ models s' = models s
  | Some em =>
      match last_opt (m_commits em) with
      | None => metas s' !! data = None /\ models s' !! meta_key em = None
      | Some lastv => exists em', metas s' !! data = Some em' /\ m_status em' = MetaComplete /\
                        m_commit em' = commit_of_version lastv /\ m_commits em' = m_commits em /\ m_orders em' = m_orders em /\
                        m_owner em' = m_owner em /\ m_rw em' = m_rw em /\ m_ro em' = m_ro em /\ m_cid em' = m_cid em /\
                        models s' = models s
      end
  end.

Lemma rollback_meta_ok cx data s s' :
  rollback_meta cx data s = Ok tt s' -> only_model_tables s s' /\ rolled_back data s s'.
Proof.
  unfold rollback_meta, only_model_tables, rolled_back. intros H.
  apply bind_ok in H as (s0 & s1 & Hg & H). inversion Hg; subst s0 s1; clear Hg.
  destruct (metas s !! data) as [em|] eqn:Em.
  - destruct (last_opt (m_commits em)) as [lastv|] eqn:El.
    + destruct (last_opt (m_orders em)) as [lo|]; [|discriminate].
      apply bind_ok in H as (m2 & s1 & H1 & H). apply reset_meta_duration_ok in H1 as ((ex & ->) & (nd & ->)).
      inversion H; subst; clear H. cbn. split; [eexists; reflexivity|]. split.
      * intros k Hk. rewrite lookup_insert_ne by congruence. reflexivity.
      * eexists. rewrite lookup_insert. split; [reflexivity|]. cbn. repeat split; reflexivity.
    + apply bind_ok in H as ([] & s1 & H1 & H). inversion H1; subst s1; clear H1.
      apply remove_data_expire_ok in H as (ex & ->). cbn. split; [eexists; reflexivity|]. split.
      * intros k Hk. rewrite lookup_delete_ne by congruence. reflexivity.
      * split; apply lookup_delete.
  - inversion H; subst. split; [exists (expdata s'); destruct s'; reflexivity|]. split; [reflexivity|]. split; reflexivity.
Qed.
Lemma rollback_meta_noerr cx data : noerr (rollback_meta cx data).
Proof.
  intros s e s' H. unfold rollback_meta in H. apply bind_err in H as [H|(s0 & s1 & Hg & H)]; [discriminate|].
  inversion Hg; subst s0 s1; clear Hg. destruct (metas s !! data) as [em|]; [|discriminate].
  destruct (last_opt (m_commits em)) as [lastv|].
  - destruct (last_opt (m_orders em)) as [lo|]; [|discriminate].
    apply bind_err in H as [H|(m2 & s1 & H1 & H)]; [eapply reset_meta_duration_noerr; eassumption|discriminate].
  - apply bind_err in H as [H|([] & s1 & H1 & H)]; [discriminate|]. eapply remove_data_expire_noerr; eassumption.
Qed.

(** * C05: cancel_order *)
Definition paydid_of (o : Order) : string := if String.eqb (o_paydid o) "" then o_owner o else o_paydid o.

Lemma refund_order_ok oid s s' o :
  refund_order oid s = Ok tt s' -> orders s !! oid = Some o ->
  exists payer, pay_addr s (paydid_of o) = Some payer /\ 0 < o_amount o /\ o_amount o <= balance s (macc ORDER) /\
                s' = move (macc ORDER) payer (o_amount o) s.
Proof.
  unfold refund_order. intros H Ho. apply bind_ok in H as (s0 & s1 & Hg & H). inversion Hg; subst s0 s1; clear Hg.
  rewrite Ho in H. fold (paydid_of o) in H. destruct (pay_addr s (paydid_of o)) as [payer|]; [|discriminate].
  apply send_strict_ok in H as (H1 & H2 & ->). exists payer. repeat split; assumption.
Qed.
Lemma refund_order_err oid s e s' : refund_order oid s = Err e s' -> s' = s.
Proof.
  unfold refund_order. intros H. apply bind_err in H as [H|(s0 & s1 & Hg & H)]; [discriminate|].
  inversion Hg; subst s0 s1; clear Hg. destruct (orders s !! oid) as [o|]; [|inversion H; reflexivity].
  destruct (pay_addr s _); [|inversion H; reflexivity]. eapply send_strict_err; eassumption.
Qed.

Lemma cancel_order_inv cx oid s s' o :
  cancel_order cx oid s = Ok tt s' -> orders s !! oid = Some o ->
  exists payer s2, pay_addr s (paydid_of o) = Some payer /\ 0 < o_amount o /\ o_amount o <= balance s (macc ORDER) /\
    rollback_meta cx (o_data o) (move (macc ORDER) payer (o_amount o) s) = Ok tt s2 /\
    s' = s2 <| orders ::= delete oid |>.
Proof.
  unfold cancel_order. intros H Ho. apply bind_ok in H as (s0 & s1 & Hg & H). inversion Hg; subst s0 s1; clear Hg.
  rewrite Ho in H. apply bind_ok in H as (r & s1 & Ht & H).
  apply try_ok in Ht as [([] & Hr & ->)|(e & Hr & ->)]; [|discriminate].
  apply (refund_order_ok _ _ _ o) in Hr as (payer & Hp & H1 & H2 & ->); [|assumption].
  apply bind_ok in H as ([] & s2 & Hrb & H). inversion H; subst; clear H.
  exists payer, s2. repeat split; assumption.
Qed.

(* an error return of cancel_order is always the failed refund, with nothing written *)
Lemma cancel_order_err cx oid s e s' : cancel_order cx oid s = Err e s' -> e = "RefundOrder" /\ s' = s.
Proof.
  unfold cancel_order. intros H. apply bind_err in H as [H|(s0 & s1 & Hg & H)]; [discriminate|].
  inversion Hg; subst s0 s1; clear Hg.
  apply bind_err in H as [H|(r & s1 & Ht & H)]; [exfalso; eapply try_not_err; eassumption|].
  apply try_ok in Ht as [([] & Hr & ->)|(e1 & Hr & ->)].
  - apply bind_err in H as [H|([] & s2 & Hrb & H)]; [exfalso; eapply rollback_meta_noerr; eassumption|discriminate].
  - apply refund_order_err in Hr as ->. inversion H; subst. split; reflexivity.
Qed.

Theorem cancel_order_post : forall cx oid s s' o payer, cancel_order cx oid s = Ok tt s' -> orders s !! oid = Some o ->
  pay_addr s (if String.eqb (o_paydid o) "" then o_owner o else o_paydid o) = Some payer -> payer <> macc ORDER ->
  balance s' payer = balance s payer + o_amount o /\ balance s' (macc ORDER) = balance s (macc ORDER) - o_amount o /\
  (forall a, a <> payer -> a <> macc ORDER -> bal s' !! a = bal s !! a) /\
  orders s' !! oid = None /\ (forall k, k <> oid -> orders s' !! k = orders s !! k) /\
  shards s' = shards s /\ pledges s' = pledges s /\ workers s' = workers s /\ debts s' = debts s /\ pool s' = pool s /\
  (forall k, k <> o_data o -> metas s' !! k = metas s !! k) /\
  match metas s !! o_data o with
  | None => metas s' = metas s /\ models s' = models s
  | Some em =>
      match last_opt (m_commits em) with
      | None => metas s' !! o_data o = None /\ models s' !! meta_key em = None   (* never committed: the model and its alias cease to exist *)
      | Some lastv => exists em', metas s' !! o_data o = Some em' /\ m_status em' = MetaComplete /\
                        m_commit em' = commit_of_version lastv /\ m_commits em' = m_commits em /\ m_orders em' = m_orders em /\
                        m_owner em' = m_owner em /\ m_rw em' = m_rw em /\ m_ro em' = m_ro em /\ m_cid em' = m_cid em /\
                        models s' = models s
      end
  end.
Proof.
  intros cx oid s s' o payer H Ho Hp Hne.
  apply (cancel_order_inv _ _ _ _ o) in H as (payer' & s2 & Hp' & H1 & H2 & Hrb & ->); [|assumption].
  unfold paydid_of in Hp'. rewrite Hp in Hp'. inversion Hp'; subst payer'; clear Hp'.
  apply rollback_meta_ok in Hrb as ((ex & Hfr) & Hk & Hm).
  set (s1 := move (macc ORDER) payer (o_amount o) s) in *.
  assert (Eb : bal s2 = bal s1) by (rewrite Hfr; reflexivity).
  split; [|split; [|split; [|split; [|split; [|split; [|split; [|split; [|split; [|split; [|split]]]]]]]]]].
  - unfold balance. cbn. rewrite Eb. apply move_to. congruence.
  - unfold balance. cbn. rewrite Eb. apply move_from. congruence.
  - intros a Ha1 Ha2. cbn. rewrite Eb. apply move_other; assumption.
  - cbn. rewrite Hfr. cbn. apply lookup_delete.
  - intros k Hk'. cbn. rewrite Hfr. cbn. apply lookup_delete_ne. congruence.
  - cbn. rewrite Hfr. reflexivity.
  - cbn. rewrite Hfr. reflexivity.
  - cbn. rewrite Hfr. reflexivity.
  - cbn. rewrite Hfr. reflexivity.
  - cbn. rewrite Hfr. reflexivity.
  - exact Hk.
  - exact Hm.
Qed.
Print Assumptions cancel_order_post.

(** * C05: the Cancel message *)
Definition cancel_shard_body (id : Z) : M unit :=
  s1 <- get ;;
  match shards s1 !! id with
  | None => fail "shard not found"
  | Some sh =>
      (if sh_status sh =? ShardCompleted then shard_release (sh_sp sh) (Some sh) else ret tt) ;;;
      modify (fun s => s <| shards ::= delete id |>)
  end.

Lemma cancel_shards_loop : forall l s s',
  forM l cancel_shard_body s = Ok tt s' ->
  (forall id sh, In id l -> shards s !! id = Some sh -> sh_status sh <> ShardCompleted) ->
  s' = s <| shards := shards s' |> /\
  (forall id, In id l -> shards s' !! id = None) /\
  (forall id, ~ In id l -> shards s' !! id = shards s !! id).
Proof.
  induction l as [|id r IH]; intros s s' H Hst.
  - inversion H; subst. split; [destruct s'; reflexivity|]. split; [intros id []|reflexivity].
  - simpl in H. apply bind_ok in H as ([] & s1 & Hb & H).
    assert (E1 : s1 = s <| shards ::= delete id |>).
    { unfold cancel_shard_body in Hb. apply bind_ok in Hb as (s0 & s0' & Hg & Hb). inversion Hg; subst s0 s0'; clear Hg.
      destruct (shards s !! id) as [sh|] eqn:Es; [|discriminate].
      assert (Hn : (sh_status sh =? ShardCompleted) = false).
      { apply Z.eqb_neq. apply (Hst id sh); [left; reflexivity | exact Es]. }
      rewrite Hn in Hb. inversion Hb; reflexivity. }
    subst s1. apply IH in H as (Hf & Hin & Hout).
    + cbn in Hf. split; [exact Hf|]. split.
      * intros id' [<-|Hi].
        -- destruct (In_dec Z.eq_dec id r) as [Hi|Hi]; [apply Hin; exact Hi|].
           rewrite Hout by exact Hi. cbn. apply lookup_delete.
        -- apply Hin; exact Hi.
      * intros id' Hni. rewrite Hout by (intros Hi; apply Hni; right; exact Hi). cbn.
        apply lookup_delete_ne. intros ->. apply Hni. left; reflexivity.
    + intros id' sh Hi Hs. cbn in Hs. destruct (decide (id' = id)) as [->|Hne].
      * rewrite lookup_delete in Hs. discriminate.
      * rewrite lookup_delete_ne in Hs by congruence. apply (Hst id' sh); [right; exact Hi | exact Hs].
Qed.

Theorem cancel_msg_post : forall cx s c p oid s' d o, step cx s (OCancel c p oid) = (s', OutTx COk d) -> orders s !! oid = Some o ->
  (forall id sh, In id (o_shards o) -> shards s !! id = Some sh -> sh_status sh <> ShardCompleted) ->
  orders s' !! oid = None /\ (forall id, In id (o_shards o) -> shards s' !! id = None) /\
  (forall id, ~ In id (o_shards o) -> shards s' !! id = shards s !! id) /\
  pledges s' = pledges s /\ workers s' = workers s /\ debts s' = debts s /\
  exists payer, pay_addr s (if String.eqb (o_paydid o) "" then o_owner o else o_paydid o) = Some payer /\
    (payer <> macc ORDER -> balance s' payer = balance s payer + o_amount o).
Proof.
  intros cx s c p oid s' d o H Ho Hst.
  apply (step_tx_ok _ _ _ _ _ (sao_cancel cx c p oid)) in H; [|reflexivity].
  unfold sao_cancel in H. apply bind_ok in H as (s0 & s0' & Hg & H). inversion Hg; subst s0 s0'; clear Hg.
  rewrite Ho in H.
  destruct (negb _); [discriminate|]. destruct (o_status o =? OrderCompleted); [discriminate|].
  destruct (negb _); [discriminate|].
  apply bind_ok in H as ([] & s1 & Hl & H).
  apply (cancel_shards_loop (o_shards o)) in Hl as (Hf & Hin & Hout); [|exact Hst].
  assert (Ho1 : orders s1 !! oid = Some o) by (rewrite Hf; exact Ho).
  apply (cancel_order_inv _ _ _ _ o) in H as (payer & s2 & Hp & H1 & H2 & Hrb & ->); [|exact Ho1].
  apply rollback_meta_ok in Hrb as ((ex & Hfr) & _).
  set (s1m := move (macc ORDER) payer (o_amount o) s1) in *.
  split; [cbn; apply lookup_delete|].
  split; [intros id Hi; cbn; rewrite Hfr; cbn; apply Hin; exact Hi|].
  split; [intros id Hi; cbn; rewrite Hfr; cbn; apply Hout; exact Hi|].
  split; [cbn; rewrite Hfr; cbn; rewrite Hf; reflexivity|].
  split; [cbn; rewrite Hfr; cbn; rewrite Hf; reflexivity|].
  split; [cbn; rewrite Hfr; cbn; rewrite Hf; reflexivity|].
  exists payer. split.
  - rewrite Hf in Hp. exact Hp.
  - intros Hne. unfold balance. cbn. replace (bal s2) with (bal s1m) by (rewrite Hfr; reflexivity).
    replace (bal s) with (bal s1) by (rewrite Hf; reflexivity). apply move_to. congruence.
Qed.
Print Assumptions cancel_msg_post.

(** * C05: the timeout path *)
(* exact form: either the cancellation went through, or the refund failed and nothing at all
   was written (RollbackMeta itself has no error return) *)
Theorem timeout_pending_cancels_exact : forall cx oid s s' o, handle_timeout_order cx oid s = Ok tt s' -> orders s !! oid = Some o ->
  o_status o = OrderPending -> cancel_order cx oid s = Ok tt s' \/ (cancel_order cx oid s = Err "RefundOrder" s /\ s' = s).
Proof.
  intros cx oid s s' o H Ho Hs. unfold handle_timeout_order in H.
  apply bind_ok in H as (s0 & s0' & Hg & H). inversion Hg; subst s0 s0'; clear Hg.
  rewrite Ho, Hs in H. change (OrderPending =? OrderPending) with true in H. cbv iota in H.
  apply bind_ok in H as (r & s1 & Ht & H). inversion H; subst s1; clear H.
  apply try_ok in Ht as [([] & Hc & _)|(e & Hc & _)]; [left; exact Hc|].
  right. destruct (cancel_order_err _ _ _ _ _ Hc) as (-> & ->). split; [exact Hc | reflexivity].
Qed.
Print Assumptions timeout_pending_cancels_exact.

Theorem timeout_pending_cancels : forall cx oid s s' o, handle_timeout_order cx oid s = Ok tt s' -> orders s !! oid = Some o ->
  o_status o = OrderPending ->
  (cancel_order cx oid s = Ok tt s') \/ (s' = s (* the refund failed: nothing changed *)) \/
  (exists e sx, cancel_order cx oid s = Err e sx /\ s' = sx).
Proof.
  intros cx oid s s' o H Ho Hs. destruct (timeout_pending_cancels_exact _ _ _ _ _ H Ho Hs) as [Hc|(Hc & ->)].
  - left; exact Hc.
  - right; left; reflexivity.
Qed.
Print Assumptions timeout_pending_cancels.

(** * C07: collateral *)
Lemma settle_fields acc p :
  pl_spledged (settle acc p) = pl_spledged p /\ pl_shpledged (settle acc p) = pl_shpledged p /\
  pl_total (settle acc p) = pl_total p /\ pl_used (settle acc p) = pl_used p.
Proof. unfold settle. destruct (0 <? pl_total p); repeat split; reflexivity. Qed.

Lemma coin_sub_ok a b s r s' : coin_sub a b s = Ok r s' -> r = a - b /\ 0 <= a - b /\ s' = s.
Proof.
  unfold coin_sub. destruct (a - b <? 0) eqn:E; [discriminate|]. intros H; inversion H; subst. zb. repeat split; lia.
Qed.

(* repayment of a recorded debt out of a single released amount *)
Lemma repay_debt_one sp x s rw s' :
  repay_debt sp [x] s = Ok rw s' -> 0 <= x -> (forall dbt, debts s !! sp = Some dbt -> 0 <= dbt) ->
  exists repaid dm, rw = [x - repaid] /\ 0 <= repaid /\ repaid <= x /\ repaid <= default 0 (debts s !! sp) /\
    s' = s <| debts := dm |> /\ default 0 (dm !! sp) = default 0 (debts s !! sp) - repaid /\
    (forall k, k <> sp -> dm !! k = debts s !! k).
Proof.
  unfold repay_debt. intros H Hx Hd. apply bind_ok in H as (s0 & s0' & Hg & H). inversion Hg; subst s0 s0'; clear Hg.
  destruct (debts s !! sp) as [dbt|] eqn:Ed.
  - specialize (Hd dbt eq_refl). simpl in H. destruct (dbt <=? x) eqn:El; zb.
    + apply bind_ok in H as ([] & s1 & Hm & H). inversion Hm; subst s1; clear Hm. inversion H; subst; clear H.
      exists dbt, (delete sp (debts s)). cbn. rewrite lookup_delete. cbn.
      repeat split; try lia. intros k Hk. apply lookup_delete_ne. congruence.
    + apply bind_ok in H as ([] & s1 & Hm & H). inversion Hm; subst s1; clear Hm. inversion H; subst; clear H.
      exists x, (<[sp := dbt - x]> (debts s)). cbn. rewrite lookup_insert. cbn.
      repeat split; try lia.
      * f_equal. lia.
      * intros k Hk. apply lookup_insert_ne. congruence.
  - inversion H; subst; clear H. exists 0, (debts s'). rewrite Ed. cbn.
    repeat split; try lia.
    + f_equal. lia.
    + destruct s'; reflexivity.
Qed.

Theorem shard_release_pays_owner : forall sp sh s s' p, shard_release sp (Some sh) s = Ok tt s' -> sh_sp sh = sp ->
  pledges s !! sp = Some p -> sp <> macc NODE -> 0 <= sh_pledge sh ->
  (forall dbt, debts s !! sp = Some dbt -> 0 <= dbt) ->
  exists repaid p', 0 <= repaid /\ repaid <= sh_pledge sh /\ repaid <= default 0 (debts s !! sp) /\
    balance s' sp = balance s sp + (sh_pledge sh - repaid) /\
    balance s' (macc NODE) = balance s (macc NODE) - (sh_pledge sh - repaid) /\
    default 0 (debts s' !! sp) = default 0 (debts s !! sp) - repaid /\
    (forall a, a <> sp -> a <> macc NODE -> bal s' !! a = bal s !! a) /\
    pledges s' !! sp = Some p' /\ pl_shpledged p' = pl_shpledged p - sh_pledge sh /\
    pl_used p' = i64 (pl_used p - i64 (sh_size sh)) /\ pl_total p' = pl_total p /\ pl_spledged p' = pl_spledged p /\
    (forall k, k <> sp -> pledges s' !! k = pledges s !! k).
Proof.
  intros sp sh s s' p H Hsp Hp Hne Hpl Hd. unfold shard_release in H.
  apply bind_ok in H as (s0 & s0' & Hg & H). inversion Hg; subst s0 s0'; clear Hg.
  rewrite Hp in H. destruct (pool s) as [po|]; [|discriminate].
  apply bind_ok in H as (p2 & s1 & H2 & H). inversion H; subst s'; clear H.
  apply bind_ok in H2 as (rw & s2 & Hr & H2). rewrite Hsp in Hr.
  apply repay_debt_one in Hr as (repaid & dm & -> & R1 & R2 & R3 & -> & R4 & R5); [|assumption|assumption].
  cbn [hd] in H2. apply bind_ok in H2 as ([] & s3 & Hs & H2).
  apply bind_ok in H2 as (shp & s4 & Hc & H2). apply coin_sub_ok in Hc as (-> & Hc & ->).
  inversion H2; subst p2 s1; clear H2.
  destruct (settle_fields (po_accreward po) p) as (F1 & F2 & F3 & F4).
  exists repaid. eexists.
  assert (Hb : balance s3 sp = balance s sp + (sh_pledge sh - repaid) /\
               balance s3 (macc NODE) = balance s (macc NODE) - (sh_pledge sh - repaid) /\
               (forall a, a <> sp -> a <> macc NODE -> bal s3 !! a = bal s !! a) /\
               pledges s3 = pledges s /\ debts s3 = dm).
  { destruct (sh_pledge sh - repaid =? 0) eqn:E0; zb.
    - inversion Hs; subst s3; clear Hs. rewrite E0. cbn. repeat split; try reflexivity; unfold balance; cbn; lia.
    - apply send_strict_ok in Hs as (_ & _ & ->). repeat split; try reflexivity.
      + rewrite move_to by congruence. reflexivity.
      + rewrite move_from by congruence. reflexivity.
      + intros a A1 A2. rewrite move_other by assumption. reflexivity. }
  destruct Hb as (B1 & B2 & B3 & B4 & B5).
  split; [exact R1|]. split; [exact R2|]. split; [exact R3|].
  split; [exact B1|]. split; [exact B2|].
  split; [cbn; rewrite B5; exact R4|].
  split; [exact B3|].
  split; [cbn; apply lookup_insert|].
  split; [cbn; rewrite F2; reflexivity|].
  split; [cbn; rewrite F4; reflexivity|].
  split; [cbn; exact F3|].
  split; [cbn; exact F1|].
  intros k Hk. cbn. rewrite lookup_insert_ne by congruence. rewrite B4. reflexivity.
Qed.
Print Assumptions shard_release_pays_owner.

(** ** sdk.Dec arithmetic on whole coins *)
Lemma P18_pos : 0 < P18. Proof. unfold P18; lia. Qed.
Lemma P18_nz : P18 <> 0. Proof. unfold P18; lia. Qed.

Lemma chop_round_pos_mul k : chop_round_pos (k * P18) = k.
Proof.
  unfold chop_round_pos. cbv zeta. rewrite (Z.mod_mul k P18 P18_nz). rewrite (Z.div_mul k P18 P18_nz). reflexivity.
Qed.
Lemma chop_round_mul k : chop_round (k * P18) = k.
Proof.
  unfold chop_round. destruct (k * P18 <? 0).
  - replace (- (k * P18)) with ((- k) * P18) by lia. rewrite chop_round_pos_mul. lia.
  - apply chop_round_pos_mul.
Qed.
Lemma dec_trunc_mul k : dec_trunc (k * P18) = k.
Proof. unfold dec_trunc. apply Z.quot_mul. exact P18_nz. Qed.
Lemma dec_ceil_mul k : dec_ceil (k * P18) = k * P18.
Proof.
  unfold dec_ceil. cbv zeta. rewrite (Z.rem_mul k P18 P18_nz). rewrite (Z.quot_mul k P18 P18_nz). reflexivity.
Qed.
Lemma dec_quo_of_int_price a : dec_quo (dec_of_int a) PRICE = (a * 1000000) * P18.
Proof.
  unfold dec_quo, dec_of_int.
  replace (a * P18 * P18 * P18) with ((a * 1000000 * P18 * P18) * PRICE) by (unfold P18, PRICE; ring).
  rewrite Z.quot_mul by (unfold PRICE; lia). apply chop_round_mul.
Qed.
(* the storage bought by [a] whole coins at 10^-6 coins per byte *)
Lemma size_of_coins a : dec_trunc (dec_quo (dec_of_int a) PRICE) = a * 1000000.
Proof. rewrite dec_quo_of_int_price. apply dec_trunc_mul. Qed.
Lemma size_of_coins_ceil a : dec_trunc (dec_ceil (dec_quo (dec_of_int a) PRICE)) = a * 1000000.
Proof. rewrite dec_quo_of_int_price, dec_ceil_mul. apply dec_trunc_mul. Qed.

Definition node_frame (s : State) := (bal s, pledges s, pool s, debts s).

Theorem remove_vstorage_guard : forall cx s c sz s' d, step cx s (ORemoveVstorage c sz) = (s', OutTx COk d) ->
  exists p p' amount, pledges s !! c = Some p /\ pledges s' !! c = Some p' /\ 0 < amount /\
    amount * 1000000 <= pl_total p - pl_used p /\            (* never capacity that backs stored shards *)
    pl_total p' = pl_total p - amount * 1000000 /\ pl_used p' = pl_used p /\ pl_spledged p' = pl_spledged p - amount /\
    (c <> macc NODE -> balance s' c = balance s c + amount /\ balance s' (macc NODE) = balance s (macc NODE) - amount) /\
    (forall a, a <> c -> a <> macc NODE -> bal s' !! a = bal s !! a).
Proof.
  intros cx s c sz s' d H.
  apply (step_tx_ok _ _ _ _ _ (remove_vstorage c sz)) in H; [|reflexivity].
  unfold remove_vstorage in H. apply bind_ok in H as (s0 & s0' & Hg & H). inversion Hg; subst s0 s0'; clear Hg.
  destruct (nodes s !! c) as [n|]; [|discriminate].
  destruct (pool s) as [po|]; [|discriminate].
  destruct (pledges s !! c) as [p|] eqn:Ep; [|discriminate].
  cbv zeta in H. rewrite size_of_coins_ceil in H.
  remember (dec_trunc (dec_mul_int PRICE (i64 sz))) as amount eqn:Ea.
  destruct (amount =? 0) eqn:E0; [discriminate|].
  destruct (pl_total p - pl_used p <? amount * 1000000) eqn:E1; [discriminate|].
  destruct (amount <? 0) eqn:E2; [discriminate|]. zb.
  apply bind_ok in H as (sp' & s1 & Hc & H). apply coin_sub_ok in Hc as (-> & Hc & ->).
  apply bind_ok in H as ([] & s2 & Hs & H). apply send_strict_ok in Hs as (_ & _ & ->).
  apply bind_ok in H as ([] & s3 & Hr & H).
  assert (Hk : node_frame s3 = node_frame (move (macc NODE) c amount s)).
  { revert Hr. match goal with |- ?m _ = _ -> _ => assert (K : keeps node_frame m) end.
    { keeps_tac. }
    intros Hr. exact (keeps_ok _ _ _ _ _ K Hr). }
  unfold node_frame in Hk. injection Hk as Kb Kp Kpo Kd.
  inversion H; subst s'; clear H.
  destruct (settle_fields (po_accreward po) (p <| pl_spledged := pl_spledged p - amount |>)) as (F1 & F2 & F3 & F4).
  exists p. eexists. exists amount.
  split; [reflexivity|]. split; [cbn; apply lookup_insert|].
  split; [lia|]. split; [lia|].
  split; [cbn; rewrite F3; reflexivity|].
  split; [cbn; rewrite F4; reflexivity|].
  split; [cbn; rewrite F1; reflexivity|].
  split.
  - intros Hne. unfold balance. cbn. rewrite Kb. split; [apply move_to | apply move_from]; congruence.
  - intros a A1 A2. cbn. rewrite Kb. apply move_other; assumption.
Qed.
Print Assumptions remove_vstorage_guard.

Theorem add_vstorage_takes : forall cx s c sz s' d, step cx s (OAddVstorage c sz) = (s', OutTx COk d) ->
  exists amount p', 0 < amount /\ pledges s' !! c = Some p' /\
    pl_total p' = match pledges s !! c with Some p => pl_total p | None => 0 end + amount * 1000000 /\
    pl_spledged p' = match pledges s !! c with Some p => pl_spledged p | None => 0 end + amount /\
    (c <> macc NODE -> balance s' c = balance s c - amount /\ balance s' (macc NODE) = balance s (macc NODE) + amount).
Proof.
  intros cx s c sz s' d H.
  apply (step_tx_ok _ _ _ _ _ (add_vstorage c sz)) in H; [|reflexivity].
  unfold add_vstorage in H. apply bind_ok in H as (s0 & s0' & Hg & H). inversion Hg; subst s0 s0'; clear Hg.
  destruct (nodes s !! c) as [n|]; [|discriminate].
  destruct (pool s) as [po|]; [|discriminate].
  cbv zeta in H. rewrite size_of_coins in H.
  remember (dec_trunc (dec_ceil (dec_mul_int PRICE (i64 sz)))) as amount eqn:Ea.
  destruct (amount <? 0) eqn:E2; [discriminate|].
  apply bind_ok in H as ([] & s2 & Hs & H). apply send_strict_ok in Hs as (Hpos & _ & ->).
  apply bind_ok in H as ([] & s3 & Hr & H).
  assert (Hk : node_frame s3 = node_frame (move c (macc NODE) amount s)).
  { revert Hr. match goal with |- ?m _ = _ -> _ => assert (K : keeps node_frame m) end.
    { keeps_tac. }
    intros Hr. exact (keeps_ok _ _ _ _ _ K Hr). }
  unfold node_frame in Hk. injection Hk as Kb Kp Kpo Kd.
  inversion H; subst s'; clear H.
  exists amount. eexists.
  split; [exact Hpos|]. split; [cbn; apply lookup_insert|].
  split; [|split].
  - cbn. destruct (pledges s !! c) as [p|].
    + destruct (settle_fields (po_accreward po) (p <| pl_spledged := pl_spledged p + amount |>)) as (F1 & F2 & F3 & F4).
      rewrite F3. reflexivity.
    + destruct (settle_fields (po_accreward po) (mkPledge amount 0 0 0 0 0)) as (F1 & F2 & F3 & F4).
      rewrite F3. reflexivity.
  - cbn. destruct (pledges s !! c) as [p|].
    + destruct (settle_fields (po_accreward po) (p <| pl_spledged := pl_spledged p + amount |>)) as (F1 & F2 & F3 & F4).
      rewrite F1. reflexivity.
    + destruct (settle_fields (po_accreward po) (mkPledge amount 0 0 0 0 0)) as (F1 & F2 & F3 & F4).
      rewrite F1. cbn. lia.
  - intros Hne. unfold balance. cbn. rewrite Kb. split; [apply move_from | apply move_to]; congruence.
Qed.
Print Assumptions add_vstorage_takes.

(** * C04: Store *)
Definition quote (size replica duration : Z) : Z :=
  ceil_coin (dec_mul_int (dec_mul_int (dec_mul_int PRICE (i64 size)) (i64 replica)) (i64 duration)).

Definition store_frame (s : State) := (bal s, orders s, order_count s, did s).

Lemma keeps_random_sp_m cx count ign size : keeps store_frame (random_sp_m cx count ign size).
Proof. unfold random_sp_m. keeps_tac. Qed.

Lemma keeps_get_sps cx o data : keeps store_frame (get_sps cx o data).
Proof.
  unfold get_sps.
  repeat first [apply keeps_random_sp_m | keeps_step].
Qed.

Definition order_frame (s : State) := (bal s, orders s).

Lemma gen_shards_ok : forall sps oid o s o' s',
  gen_shards oid o sps s = Ok o' s' -> o_amount o' = o_amount o /\ order_frame s' = order_frame s.
Proof.
  induction sps as [|sp r IH]; intros oid o s o' s' H; simpl in H.
  - inversion H; subst. split; reflexivity.
  - apply bind_ok in H as (id & s1 & Hn & H). apply IH in H as (Ha & Hf).
    unfold new_shard_task, append_shard in Hn. apply bind_ok in Hn as (s0 & s0' & Hg & Hn). inversion Hg; subst s0 s0'; clear Hg.
    apply bind_ok in Hn as ([] & s2 & Hm & Hn). inversion Hm; subst s2; clear Hm. inversion Hn; subst; clear Hn.
    split; [exact Ha | exact Hf].
Qed.

Lemma generate_shards_ok sps oid o s o' s' :
  generate_shards oid o sps s = Ok o' s' -> o_amount o' = o_amount o /\ order_frame s' = order_frame s.
Proof.
  unfold generate_shards. destruct sps as [|sp r].
  - intros H; inversion H; subst. split; reflexivity.
  - intros H. apply bind_ok in H as (o1 & s1 & Hg & H). apply gen_shards_ok in Hg as (Ha & Hf).
    inversion H; subst. split; [exact Ha | exact Hf].
Qed.

Lemma new_order_ok cx o sps s id o2 s' :
  new_order cx o sps s = Ok (id, o2) s' ->
  id = order_count s /\ o_amount o2 = o_amount o /\ bal s' = bal s /\ orders s' !! id = Some o2 /\
  (forall k, k <> id -> orders s' !! k = orders s !! k).
Proof.
  unfold new_order. intros H. apply bind_ok in H as (id0 & s1 & Ha & H).
  unfold append_order in Ha. apply bind_ok in Ha as (s0 & s0' & Hg & Ha). inversion Hg; subst s0 s0'; clear Hg.
  apply bind_ok in Ha as ([] & s2 & Hm & Ha). inversion Hm; subst s2; clear Hm. inversion Ha; subst id0 s1; clear Ha.
  apply bind_ok in H as (o1 & s1 & Hg & H). apply generate_shards_ok in Hg as (Hamt & Hf).
  apply bind_ok in H as ([] & s2 & Hm & H). inversion Hm; subst s2; clear Hm. inversion H; subst; clear H.
  unfold order_frame in Hf. injection Hf as Fb Fo.
  split; [reflexivity|]. split; [exact Hamt|]. split; [exact Fb|].
  split; [cbn; apply lookup_insert|].
  intros k Hk. cbn. rewrite lookup_insert_ne by congruence. rewrite Fo. cbn. apply lookup_insert_ne. congruence.
Qed.

Lemma keeps_remove_data_expire {B} (f : State -> B) d a :
  (forall s e, f (s <| expdata := e |>) = f s) -> keeps f (remove_data_expire d a).
Proof.
  intros Hf s. destruct (remove_data_expire d a s) as [[] s1|e s1|e|] eqn:E; auto.
  - apply remove_data_expire_ok in E as (ex & ->). apply Hf.
  - exfalso. eapply remove_data_expire_noerr; eassumption.
Qed.

Lemma keeps_store_tail1 cx oid o : keeps order_frame (update_meta_status_commit cx oid o).
Proof.
  unfold update_meta_status_commit, set_data_expire.
  repeat first [apply keeps_remove_data_expire; reflexivity | keeps_step].
Qed.
Lemma keeps_store_tail2 cx o data nm : keeps order_frame (new_meta cx o data nm).
Proof. unfold new_meta, set_data_expire. keeps_tac. Qed.

Definition pay_not_escrow (s : State) : Prop := forall x a, pay_addr s x = Some a -> a <> macc ORDER.

Lemma sao_store_inv cx m s s' :
  sao_store cx m s = Ok tt s' ->
  exists payer oid o x, pay_addr s x = Some payer /\ oid = order_count s /\ orders s' !! oid = Some o /\
    o_amount o = quote (if st_size m =? 0 then 1 else st_size m) (st_replica m) (st_duration m) /\ 0 < o_amount o /\
    o_amount o <= balance s payer /\
    bal s' = bal (move payer (macc ORDER) (o_amount o) s) /\
    (forall k, k <> oid -> orders s' !! k = orders s !! k).
Proof.
  intros H. unfold sao_store in H.
  apply bind_ok in H as (s0 & s0' & Hg & H). inversion Hg; subst s0 s0'; clear Hg.
  destruct (verify_sig s (st_owner m) (st_sig m)) as [sigdid|]; [|discriminate].
  destruct (String.eqb (st_commit m) ""); [discriminate|].
  destruct (String.eqb (st_data m) ""); [discriminate|].
  destruct ((st_op m <? 1) || (2 <? st_op m)); [discriminate|].
  destruct (st_duration m <? 3600); [discriminate|].
  destruct (negb (st_cid_ok m)); [discriminate|].
  cbv zeta in H.
  match type of H with (if ?c then _ else _) _ = _ => destruct c; [discriminate|] end.
  match type of H with (if ?c then _ else _) _ = _ => destruct c; [discriminate|] end.
  apply bind_ok in H as (pay0 & s1 & Hpay0 & H).
  assert (P0 : s1 = s /\ (pay0 = None \/ exists a, pay0 = Some a /\ pay_addr s (st_paydid m) = Some a)).
  { destruct (String.eqb (st_paydid m) ""); [inversion Hpay0; auto|].
    destruct (negb _); [discriminate|].
    destruct (pay_addr s (st_paydid m)) as [a|]; [|discriminate].
    destruct (String.eqb a (st_creator m)); [|discriminate].
    inversion Hpay0; subst. split; [reflexivity|]. right. exists a. split; reflexivity. }
  destruct P0 as (-> & P0). clear Hpay0.
  destruct (nodes s !! st_pprovider m) as [pn|]; [|discriminate].
  destruct (split_commit (st_commit m)) as [last_commit commit].
  destruct (st_timeout m =? 0); [discriminate|].
  apply bind_ok in H as (isp & s1 & Hisp & H).
  assert (P1 : s1 = s).
  { destruct pay0; [inversion Hisp; reflexivity|].
    destruct (creator_bound_s _ _ _ _); [inversion Hisp; reflexivity|].
    match type of Hisp with (if ?c then _ else _) _ = _ => destruct c; [|discriminate] end.
    inversion Hisp; reflexivity. }
  subst s1. clear Hisp.
  apply bind_ok in H as (sps & s1 & Hsps & H).
  assert (P2 : store_frame s1 = store_frame s).
  { destruct isp; [|inversion Hsps; reflexivity]. exact (keeps_ok _ _ _ _ _ (keeps_get_sps _ _ _) Hsps). }
  unfold store_frame in P2. injection P2 as Fb Fo Fc Fd. clear Hsps.
  fold (quote (if st_size m =? 0 then 1 else st_size m) (st_replica m) (st_duration m)) in H.
  set (amount := quote (if st_size m =? 0 then 1 else st_size m) (st_replica m) (st_duration m)) in *.
  match type of H with (if ?c then _ else _) _ = _ => destruct c; [discriminate|] end.
  apply bind_ok in H as (s0 & s0' & Hg & H). inversion Hg; subst s0 s0'; clear Hg.
  apply bind_ok in H as (payer & s2 & Hpayer & H).
  assert (P3 : s2 = s1 /\ exists x, pay_addr s x = Some payer).
  { destruct P0 as [->|(a & -> & Ha)].
    - unfold pay_addr in *. rewrite Fd in Hpayer. destruct (d_pay (did s) !! st_owner m) as [a|] eqn:Ea; [|discriminate].
      inversion Hpayer; subst. split; [reflexivity|]. exists (st_owner m). exact Ea.
    - inversion Hpayer; subst. split; [reflexivity|]. exists (st_paydid m). exact Ha. }
  destruct P3 as (-> & x & Hx). clear Hpayer.
  destruct (balance s1 payer <? amount); [discriminate|].
  apply bind_ok in H as ([] & s2 & Hsend & H). apply send_strict_ok in Hsend as (Hpos & Hle & ->).
  apply bind_ok in H as ([oid o2] & s3 & Hno & H).
  apply new_order_ok in Hno as (Hid & Hamt & Hb3 & Ho3 & Hk3). cbn in Hid, Hamt, Hk3.
  apply bind_ok in H as ([] & s4 & Hst & H).
  assert (P4 : order_frame s4 = order_frame s3).
  { destruct isp; [|inversion Hst; reflexivity]. inversion Hst; reflexivity. }
  apply bind_ok in H as (s0 & s0' & Hg & H). inversion Hg; subst s0 s0'; clear Hg.
  assert (P5 : order_frame s' = order_frame s4).
  { destruct (metas s4 !! st_data m) as [em|].
    - destruct (oid <? m_order em); [discriminate|].
      destruct (orders s4 !! m_order em) as [lo|]; [|discriminate].
      destruct (negb _); [discriminate|]. destruct (negb _); [discriminate|].
      exact (keeps_ok _ _ _ _ _ (keeps_store_tail1 _ _ _) H).
    - exact (keeps_ok _ _ _ _ _ (keeps_store_tail2 _ _ _ _) H). }
  rewrite P4 in P5. unfold order_frame in P5. injection P5 as Gb Go.
  exists payer, oid, o2, x.
  split; [exact Hx|]. split; [congruence|]. split; [rewrite Go; exact Ho3|].
  split; [exact Hamt|]. rewrite Hamt.
  split; [exact Hpos|].
  split; [unfold balance in *; rewrite <- Fb; exact Hle|].
  split.
  - rewrite Gb, Hb3. unfold move, balance. cbn. rewrite Fb. reflexivity.
  - intros k Hk. rewrite Go, Hk3 by exact Hk. rewrite Fo. reflexivity.
Qed.

(* the general form: who pays is a payment address of the DID registry; the two balance
   equations need that address to differ from the order escrow account *)
Theorem store_charges_quote_core : forall cx s m s' d, step cx s (OStore m) = (s', OutTx COk d) ->
  exists payer oid o, (exists x, pay_addr s x = Some payer) /\ orders s' !! oid = Some o /\ oid = order_count s /\
    o_amount o = quote (if st_size m =? 0 then 1 else st_size m) (st_replica m) (st_duration m) /\ 0 < o_amount o /\
    o_amount o <= balance s payer /\
    (payer <> macc ORDER ->
     balance s' payer = balance s payer - o_amount o /\ balance s' (macc ORDER) = balance s (macc ORDER) + o_amount o) /\
    (payer = macc ORDER -> forall a, balance s' a = balance s a) /\
    (forall a, a <> payer -> a <> macc ORDER -> bal s' !! a = bal s !! a) /\
    (forall k, k <> oid -> orders s' !! k = orders s !! k).
Proof.
  intros cx s m s' d H.
  apply (step_tx_ok _ _ _ _ _ (sao_store cx m)) in H; [|reflexivity].
  apply sao_store_inv in H as (payer & oid & o & x & Hx & Hid & Ho & Hq & Hpos & Hle & Hb & Hk).
  exists payer, oid, o. split; [exists x; exact Hx|]. split; [exact Ho|]. split; [exact Hid|].
  split; [exact Hq|]. split; [exact Hpos|]. split; [exact Hle|]. split; [|split; [|split]].
  - intros Hne. unfold balance. rewrite Hb. split; [apply move_from | apply move_to]; exact Hne.
  - intros -> a. unfold balance. rewrite Hb. apply move_self.
  - intros a A1 A2. rewrite Hb. apply move_other; assumption.
  - exact Hk.
Qed.
Print Assumptions store_charges_quote_core.

(* the requested statement, under the two facts the model does not supply by itself:
   no payment address is the order escrow account, and the next order id is unused *)
Theorem store_charges_quote_partial : forall cx s m s' d, step cx s (OStore m) = (s', OutTx COk d) ->
  pay_not_escrow s -> orders s !! order_count s = None ->
  exists payer oid o, orders s !! oid = None /\ orders s' !! oid = Some o /\ oid = order_count s /\
    o_amount o = quote (if st_size m =? 0 then 1 else st_size m) (st_replica m) (st_duration m) /\ 0 < o_amount o /\
    payer <> macc ORDER /\
    balance s' payer = balance s payer - o_amount o /\ balance s' (macc ORDER) = balance s (macc ORDER) + o_amount o /\
    (forall a, a <> payer -> a <> macc ORDER -> bal s' !! a = bal s !! a).
Proof.
  intros cx s m s' d H Hpay Hfresh.
  apply store_charges_quote_core in H as (payer & oid & o & (x & Hx) & Ho & Hid & Hq & Hpos & Hle & Hb & _ & Hoth & _).
  pose proof (Hpay x payer Hx) as Hne. destruct (Hb Hne) as (B1 & B2).
  exists payer, oid, o. subst oid. repeat split; assumption.
Qed.
Print Assumptions store_charges_quote_partial.

Lemma Inv_ids_fresh s : Inv_ids s -> orders s !! order_count s = None.
Proof.
  intros (Ho & _). destruct (orders s !! order_count s) as [o|] eqn:E; [|reflexivity].
  apply Ho in E. lia.
Qed.

Corollary store_charges_quote_inv : forall cx s m s' d, step cx s (OStore m) = (s', OutTx COk d) ->
  pay_not_escrow s -> Inv_ids s ->
  exists payer oid o, orders s !! oid = None /\ orders s' !! oid = Some o /\ oid = order_count s /\
    o_amount o = quote (if st_size m =? 0 then 1 else st_size m) (st_replica m) (st_duration m) /\ 0 < o_amount o /\
    payer <> macc ORDER /\
    balance s' payer = balance s payer - o_amount o /\ balance s' (macc ORDER) = balance s (macc ORDER) + o_amount o /\
    (forall a, a <> payer -> a <> macc ORDER -> bal s' !! a = bal s !! a).
Proof. intros cx s m s' d H Hp Hi. eapply store_charges_quote_partial; eauto using Inv_ids_fresh. Qed.
Print Assumptions store_charges_quote_inv.

(** * C04: the first completion *)
Lemma head_omap_some {A B} (f : A -> option B) l x :
  head (omap f l) = Some x -> exists a, In a l /\ f a = Some x.
Proof.
  induction l as [|a r IH]; simpl; [discriminate|].
  destruct (f a) as [b|] eqn:E; simpl.
  - intros H; inversion H; subst. exists a. split; [left; reflexivity | exact E].
  - intros H. destruct (IH H) as (a' & Hi & Hf). exists a'. split; [right; exact Hi | exact Hf].
Qed.

Lemma shard_by_sp_some s o sp sid sh :
  shard_by_sp s o sp = Some (sid, sh) -> In sid (o_shards o) /\ shards s !! sid = Some sh /\ sh_sp sh = sp.
Proof.
  unfold shard_by_sp. intros H. apply head_omap_some in H as (id & Hi & Hf).
  destruct (shards s !! id) as [sh0|] eqn:Es; [|discriminate].
  destruct (String.eqb (sh_sp sh0) sp) eqn:Eq; [|discriminate]. inversion Hf; subst.
  apply String.eqb_eq in Eq. repeat split; assumption.
Qed.

Lemma keeps_update_meta cx oid o : o_op o <> 2 -> keeps bal (update_meta cx oid o).
Proof.
  intros Hop. unfold update_meta. apply keeps_bind; [apply keeps_get|intros s0].
  destruct (negb _); [apply keeps_fail|]. destruct (metas s0 !! o_data o) as [em|]; [|apply keeps_fail].
  destruct (negb _); [apply keeps_fail|]. apply keeps_bind; [|intros; keeps_tac].
  destruct (o_op o =? 1); [apply keeps_ret|]. destruct (o_op o =? 2) eqn:E; [zb; contradiction|]. keeps_tac.
Qed.

Lemma keeps_extend_meta_duration data e : keeps bal (extend_meta_duration data e).
Proof.
  unfold extend_meta_duration, set_data_expire.
  repeat first [apply keeps_remove_data_expire; reflexivity | keeps_step].
Qed.

Lemma shard_pledge_bal id sh price s r s' :
  shard_pledge id sh price s = Ok r s' -> forall a, a <> sh_sp sh -> a <> macc NODE -> bal s' !! a = bal s !! a.
Proof.
  unfold shard_pledge. intros H a A1 A2.
  apply bind_ok in H as (s0 & s0' & Hg & H). inversion Hg; subst s0 s0'; clear Hg.
  destruct (pledges s !! sh_sp sh) as [p|]; [|discriminate]. destruct (pool s) as [po|]; [|discriminate].
  cbv zeta in H. destruct (u64 _ <? sh_size sh); [discriminate|]. destruct (dec_trunc _ <? 0); [discriminate|].
  apply bind_ok in H as ([] & s1 & Hs & H).
  apply bind_ok in H as ([] & s2 & Hm & H). inversion Hm; subst s2; clear Hm. inversion H; subst; clear H. cbn.
  destruct (sh_renew sh) as [|ri rr].
  - apply send_lenient_ok in Hs as [(_ & ->)|(_ & _ & ->)]; [reflexivity|]. apply move_other; assumption.
  - match type of Hs with (if ?c then _ else _) _ = _ => destruct c end.
    + apply send_lenient_ok in Hs as [(_ & ->)|(_ & _ & ->)]; [reflexivity|]. apply move_other; assumption.
    + apply bind_ok in Hs as ([] & s2 & Hm & Hs). inversion Hm; subst s2; clear Hm.
      apply send_strict_ok in Hs as (_ & _ & ->). rewrite move_other by assumption. reflexivity.
Qed.

Lemma macc_order_node : macc ORDER <> macc NODE. Proof. discriminate. Qed.
Lemma macc_market_node : macc MARKET <> macc NODE. Proof. discriminate. Qed.
Lemma macc_order_market : macc ORDER <> macc MARKET. Proof. discriminate. Qed.

(* [o_op o <> 2]: a force-push order terminates the orders of the commit it replaces while
   it completes, which moves their refunds out of the market escrow in the same
   transaction; see [first_complete_deposits] below for the statement without it *)
Theorem first_complete_deposits_partial : forall cx s c p oid cid sz ok s' d o, step cx s (OComplete c p oid cid sz ok) = (s', OutTx COk d) ->
  orders s !! oid = Some o -> o_status o <> OrderCompleted ->
  (forall sid sh, shard_by_sp s o p = Some (sid, sh) -> sh_status sh = ShardWaiting) ->
  o_op o <> 2 -> p <> macc ORDER -> p <> macc MARKET ->
  balance s' (macc ORDER) = balance s (macc ORDER) - o_amount o /\ balance s' (macc MARKET) = balance s (macc MARKET) + o_amount o.
Proof.
  intros cx s c p oid cid sz ok s' d o H Ho Hst Hw Hop Hp1 Hp2.
  apply (step_tx_ok _ _ _ _ _ (sao_complete cx c p oid cid sz ok)) in H; [|reflexivity].
  unfold sao_complete in H. destruct (sz =? 0); [discriminate|].
  apply bind_ok in H as (s0 & s0' & Hg & H). inversion Hg; subst s0 s0'; clear Hg.
  rewrite Ho in H. destruct (negb (acts_for s c p)); [discriminate|].
  destruct (shard_by_sp s o p) as [[sid sh]|] eqn:Esp; [|discriminate].
  pose proof (Hw sid sh eq_refl) as Hsw. apply shard_by_sp_some in Esp as (_ & _ & Hsp).
  rewrite Hsw in H. change (ShardWaiting =? ShardCompleted) with false in H.
  change (ShardWaiting =? ShardWaiting) with true in H. change (ShardWaiting =? ShardMigrating) with false in H.
  cbn [negb andb] in H. cbv iota in H.
  destruct (negb (sz =? sh_size sh)); [discriminate|].
  destruct (metas s !! o_data o) as [meta|]; [|discriminate].
  match type of H with (if ?c then _ else _) _ = _ => destruct c; [discriminate|] end.
  destruct (last_order_blocks s meta); [discriminate|].
  destruct (negb ok); [discriminate|].
  apply bind_ok in H as ([[sh1 ip] o'] & s1 & Hr & H).
  assert (Hr' : bal s1 = bal (move (macc ORDER) (macc MARKET) (o_amount o) s) /\ 0 < o_amount o /\ sh_sp sh1 = p).
  { apply bind_ok in Hr as ([] & s2 & Hwa & Hr).
    assert (K1 : bal s2 = bal s).
    { revert Hwa. apply keeps_ok. unfold worker_append. keeps_tac. }
    assert (En : negb (o_status o =? OrderCompleted) = true) by (apply negb_true_iff, Z.eqb_neq; exact Hst).
    rewrite En in Hr. apply bind_ok in Hr as ([] & s3 & Hum & Hr).
    pose proof (keeps_ok _ _ _ _ _ (keeps_update_meta cx oid o Hop) Hum) as K2.
    apply bind_ok in Hr as ([] & s4 & Hmd & Hr).
    unfold market_deposit in Hmd. destruct (o_amount o =? 0); [discriminate|].
    apply send_strict_ok in Hmd as (Hpos & _ & ->). injection Hr as E1 E2 E3 E4. subst sh1 s1. split; [|split; [exact Hpos | exact Hsp]].
    unfold move, balance. cbn. rewrite K2, K1. reflexivity. }
  destruct Hr' as (Hb1 & Hpos & Hsp1). clear Hr.
  apply bind_ok in H as ([] & s2 & H2 & H). inversion H2; subst s2; clear H2.
  apply bind_ok in H as ([] & s3 & H3 & H).
  pose proof (keeps_ok _ _ _ _ _ (keeps_extend_meta_duration _ _) H3) as K3. cbn in K3.
  apply bind_ok in H as (shr & s4 & H4 & H).
  pose proof (shard_pledge_bal _ _ _ _ _ _ H4) as K4. cbn in K4. rewrite Hsp1 in K4.
  apply bind_ok in H as ([] & s5 & H5 & H).
  assert (s5 = s4) by (destruct (o_replica o' =? 0); [discriminate | inversion H5; reflexivity]). subst s5.
  apply bind_ok in H as ([] & s5 & H6 & H).
  assert (s5 = s4) by (destruct (_ <? 0); [discriminate | inversion H6; reflexivity]). subst s5.
  apply bind_ok in H as (r7 & s5 & H7 & H).
  assert (K7 : bal s5 = bal s4).
  { revert H7. apply keeps_ok. unfold increase_reputation. keeps_tac. }
  inversion H; subst s'; clear H.
  assert (Ko : forall a, a <> p -> a <> macc NODE -> bal s5 !! a = bal (move (macc ORDER) (macc MARKET) (o_amount o) s) !! a).
  { intros a A1 A2. rewrite K7, K4, K3 by assumption. cbn. rewrite Hb1. reflexivity. }
  unfold balance. cbn.
  rewrite (Ko (macc ORDER)) by (first [congruence | apply macc_order_node]).
  rewrite (Ko (macc MARKET)) by (first [congruence | apply macc_market_node]).
  split; [apply move_from | apply move_to]; apply macc_order_market.
Qed.
Print Assumptions first_complete_deposits_partial.

(** * Non-vacuity: a concrete run *)
Definition ex_cx : Ctx := {| cx_height := 5; cx_chain := "c"; cx_time := 0; cx_seed := 7 |}.
Definition ex_data : string := "0123456789abcdef0123456789abcdef0123".
Definition ex_did (payaddr : string) : DidState :=
  mkDid ∅ ∅ ∅ ∅ ∅ ∅ ∅ {[ "did:key:K1" := payaddr ]} ∅ ∅.
Definition ex_nparams : NParams := mkNParams 0 0 0 1 1 0 "" 0 0 0 1000.
Definition ex_pool : Pool := mkPool 10 0 0 0 0 0 10000000 0.
Definition ex_state (payaddr : string) (ords : gmap Z Order) : State :=
  mkState (ex_did payaddr)
          (<["G" := mkNode "" 10000 3 5 [] 0 ""]> (<["S" := mkNode "" 10000 13 5 [] 0 ""]> ∅))
          {[ "S" := mkPledge 10 0 0 0 10000000 0 ]}
          ∅ (Some ex_pool) None ∅ ∅ ∅ ex_nparams
          ords 1 ∅ 1 ∅ ∅ ∅ ∅ ∅ ∅
          (<[payaddr := 10000]> (<["S" := 1000]> ∅)) 11000 ∅ ∅ 0.
Definition ex_s0 : State := ex_state "P1" ∅.
Definition ex_sig : SigO := {| so_owner := Some ("key", "K1"); so_kid := Some ("key", "K1", ""); so_keys := ["K1"] |}.
Definition ex_store (op : Z) (commit : string) : StoreMsg :=
  {| st_creator := "G"; st_provider := "G"; st_owner := "did:key:K1"; st_pprovider := "G"; st_group := "";
     st_duration := 3600; st_replica := 1; st_timeout := 100; st_alias := "a"; st_data := ex_data; st_commit := commit;
     st_tags := []; st_cid := "cid"; st_rule := ""; st_ext := ""; st_size := 1000000; st_op := op; st_ro := [];
     st_paydid := ""; st_sig := ex_sig; st_cid_ok := true |}.
Definition ex_msg : StoreMsg := ex_store 1 ex_data.

Definition ex_s1 : State := fst (step ex_cx ex_s0 (OStore ex_msg)).
Definition ex_s2 : State := fst (step ex_cx ex_s1 (OCancel "G" "G" 1)).

Example ex_length : String.length ex_data = 36%nat. Proof. reflexivity. Qed.

Ltac conj_compute :=
  repeat match goal with |- _ /\ _ => split; [vm_compute; reflexivity|] end; vm_compute; reflexivity.

Example money_nonvacuous :
  step ex_cx ex_s0 (OStore ex_msg) = (ex_s1, OutTx COk "") /\
  (exists o, orders ex_s1 !! 1 = Some o /\ o_amount o = 3600 /\ o_shards o = [1] /\ o_status o = OrderDataReady) /\
  quote 1000000 1 3600 = 3600 /\
  balance ex_s0 "P1" = 10000 /\ balance ex_s1 "P1" = 6400 /\ balance ex_s1 (macc ORDER) = 3600 /\
  step ex_cx ex_s1 (OCancel "G" "G" 1) = (ex_s2, OutTx COk "") /\
  balance ex_s2 "P1" = 10000 /\ balance ex_s2 (macc ORDER) = 0 /\ orders ex_s2 !! 1 = None /\ shards ex_s2 !! 1 = None /\
  metas ex_s2 !! ex_data = None /\ expdata ex_s1 !! 3605 = Some [ex_data] /\ expdata ex_s2 !! 3605 = None.
Proof.
  split; [vm_compute; reflexivity|].
  split; [eexists; conj_compute|].
  conj_compute.
Qed.
Print Assumptions money_nonvacuous.

(* the hypotheses of the theorems above hold of the example state *)
Example ex_hyps : pay_not_escrow ex_s0 /\ Inv_ids ex_s0 /\ orders ex_s0 !! order_count ex_s0 = None.
Proof.
  split; [|split].
  - intros x a H. unfold pay_addr, ex_s0, ex_state, ex_did in H. cbn in H.
    apply lookup_singleton_Some in H as (_ & <-). discriminate.
  - split; intros id x H; cbn in H; rewrite lookup_empty in H; discriminate.
  - reflexivity.
Qed.

(** * Refutations of the statements as requested *)
(* (a) The payment address of a DID is whatever address the registry holds; nothing in the
   model keeps it apart from the order escrow account. With [d_pay] pointing at
   "module:order" the charge is a self-transfer and no balance moves. (On the real chain a
   module account cannot sign the UpdatePaymentAddress / Binding message that stores it, so
   this state is not reachable there; it is a hypothesis the model needs.) *)
Definition exr_s0 : State := ex_state (macc ORDER) ∅.
Definition exr_s1 : State := fst (step ex_cx exr_s0 (OStore ex_msg)).
Theorem store_charges_quote_refuted : exists cx s m s' d, step cx s (OStore m) = (s', OutTx COk d) /\
  ~ exists payer oid o, orders s !! oid = None /\ orders s' !! oid = Some o /\ oid = order_count s /\
    o_amount o = quote (if st_size m =? 0 then 1 else st_size m) (st_replica m) (st_duration m) /\ 0 < o_amount o /\
    payer <> macc ORDER /\
    balance s' payer = balance s payer - o_amount o /\ balance s' (macc ORDER) = balance s (macc ORDER) + o_amount o /\
    (forall a, a <> payer -> a <> macc ORDER -> bal s' !! a = bal s !! a).
Proof.
  exists ex_cx, exr_s0, ex_msg, exr_s1, "". split; [vm_compute; reflexivity|].
  intros (payer & oid & o & _ & _ & _ & _ & Hpos & _ & _ & Hb & _).
  assert (E : balance exr_s1 (macc ORDER) = balance exr_s0 (macc ORDER)) by (vm_compute; reflexivity).
  lia.
Qed.
Print Assumptions store_charges_quote_refuted.

(* (b) AppendOrder writes at the counter without looking: if the slot is taken (a state
   outside [Inv_ids]) the old order is overwritten, so "the id was unused" is not a
   consequence of acceptance *)
Definition exi_s0 : State := ex_state "P1" {[ 1 := zero_order ]}.
Definition exi_s1 : State := fst (step ex_cx exi_s0 (OStore ex_msg)).
Theorem store_charges_quote_refuted_ids : exists cx s m s' d, step cx s (OStore m) = (s', OutTx COk d) /\
  ~ exists payer oid o, orders s !! oid = None /\ orders s' !! oid = Some o /\ oid = order_count s /\
    o_amount o = quote (if st_size m =? 0 then 1 else st_size m) (st_replica m) (st_duration m) /\ 0 < o_amount o /\
    payer <> macc ORDER /\
    balance s' payer = balance s payer - o_amount o /\ balance s' (macc ORDER) = balance s (macc ORDER) + o_amount o /\
    (forall a, a <> payer -> a <> macc ORDER -> bal s' !! a = bal s !! a).
Proof.
  exists ex_cx, exi_s0, ex_msg, exi_s1, "". split; [vm_compute; reflexivity|].
  intros (payer & oid & o & H1 & _ & -> & _). vm_compute in H1. discriminate.
Qed.
Print Assumptions store_charges_quote_refuted_ids.

(* (c) first completion of a force-push order (operation 2): UpdateMeta terminates the order
   of the replaced commit inside the same Complete transaction -- its unused payment goes
   market escrow -> order escrow -> payer -- so the market escrow does not grow by the new
   order's amount. Run: store, complete, force-push store, complete. *)
Definition fp_s2 : State := fst (step ex_cx ex_s1 (OComplete "S" "S" 1 "cid" 1000000 true)).
Definition fp_msg : StoreMsg := ex_store 2 (ex_data +:+ "|" +:+ "c2").
Definition fp_s3 : State := fst (step ex_cx fp_s2 (OStore fp_msg)).
Definition fp_s4 : State := fst (step ex_cx fp_s3 (OComplete "S" "S" 2 "cid" 1000000 true)).

Example fp_run :
  step ex_cx ex_s1 (OComplete "S" "S" 1 "cid" 1000000 true) = (fp_s2, OutTx COk "") /\
  step ex_cx fp_s2 (OStore fp_msg) = (fp_s3, OutTx COk "") /\
  step ex_cx fp_s3 (OComplete "S" "S" 2 "cid" 1000000 true) = (fp_s4, OutTx COk "") /\
  balance ex_s1 (macc ORDER) = 3600 /\ balance ex_s1 (macc MARKET) = 0 /\
  balance fp_s2 (macc ORDER) = 0 /\ balance fp_s2 (macc MARKET) = 3600 /\
  balance fp_s3 (macc ORDER) = 3600 /\ balance fp_s3 (macc MARKET) = 3600 /\ balance fp_s3 "P1" = 2800 /\
  balance fp_s4 (macc ORDER) = 0 /\ balance fp_s4 (macc MARKET) = 3600 /\ balance fp_s4 "P1" = 6400 /\
  orders fp_s4 !! 1 = None.
Proof. conj_compute. Qed.

Theorem first_complete_deposits_refuted :
  exists cx s c p oid cid sz ok s' d o, step cx s (OComplete c p oid cid sz ok) = (s', OutTx COk d) /\
    orders s !! oid = Some o /\ o_status o <> OrderCompleted /\
    (forall sid sh, shard_by_sp s o p = Some (sid, sh) -> sh_status sh = ShardWaiting) /\
    p <> macc ORDER /\ p <> macc MARKET /\
    ~ (balance s' (macc ORDER) = balance s (macc ORDER) - o_amount o /\ balance s' (macc MARKET) = balance s (macc MARKET) + o_amount o).
Proof.
  exists ex_cx, fp_s3, "S", "S", 2, "cid", 1000000, true, fp_s4, "". eexists.
  split; [vm_compute; reflexivity|].
  split; [vm_compute; reflexivity|].
  split; [vm_compute; discriminate|].
  split; [intros sid sh Hs; vm_compute in Hs; inversion Hs; reflexivity|].
  split; [discriminate|]. split; [discriminate|].
  intros (_ & H). vm_compute in H. discriminate.
Qed.
Print Assumptions first_complete_deposits_refuted.

(* the partial theorem is exercised by the first completion of the run *)
Example first_complete_nonvacuous :
  balance fp_s2 (macc ORDER) = balance ex_s1 (macc ORDER) - 3600 /\ balance fp_s2 (macc MARKET) = balance ex_s1 (macc MARKET) + 3600.
Proof.
  assert (Ho : exists o, orders ex_s1 !! 1 = Some o /\ o_amount o = 3600 /\ o_status o <> OrderCompleted /\ o_op o <> 2 /\
                         (forall sid sh, shard_by_sp ex_s1 o "S" = Some (sid, sh) -> sh_status sh = ShardWaiting)).
  { eexists. split; [vm_compute; reflexivity|]. split; [vm_compute; reflexivity|].
    split; [vm_compute; discriminate|]. split; [vm_compute; discriminate|].
    intros sid sh Hs. vm_compute in Hs. inversion Hs. reflexivity. }
  destruct Ho as (o & Ho & Ha & Hs & Hop & Hw). rewrite <- Ha.
  apply (first_complete_deposits_partial ex_cx ex_s1 "S" "S" 1 "cid" 1000000 true fp_s2 "" o); try assumption; try discriminate.
  vm_compute; reflexivity.
Qed.

(* C07 on the example: pledge one coin of storage, take it back; the shard collateral of the
   run above (360) went provider -> node escrow at the first completion and came back in
   full when the force-push terminated that order *)
Definition vs_s1 : State := fst (step ex_cx ex_s0 (OAddVstorage "S" 1000000)).
Definition vs_s2 : State := fst (step ex_cx vs_s1 (ORemoveVstorage "S" 1000000)).
Example vstorage_nonvacuous :
  step ex_cx ex_s0 (OAddVstorage "S" 1000000) = (vs_s1, OutTx COk "") /\
  balance vs_s1 "S" = 999 /\ balance vs_s1 (macc NODE) = 1 /\
  step ex_cx vs_s1 (ORemoveVstorage "S" 1000000) = (vs_s2, OutTx COk "") /\
  balance vs_s2 "S" = 1000 /\ balance vs_s2 (macc NODE) = 0 /\
  balance ex_s1 "S" = 1000 /\ balance fp_s2 "S" = 640 /\ balance fp_s2 (macc NODE) = 360 /\
  balance fp_s4 "S" = 640 /\ balance fp_s4 (macc NODE) = 360.
Proof. conj_compute. Qed.
