(* A small Hoare logic for the outcome monad: [ht P m Q E] -- from a state satisfying [P], a
   normal return of [m] with value [a] ends in a state satisfying [Q a] and an error return
   (whose writes are kept: block phases ignore errors) ends in a state satisfying [E].
   Panics and hangs are not constrained here (they are the subject of C02). Unlike [mok]
   (Proofs/Frame.v), which composes a state RELATION and therefore forgets what was read
   earlier in the same function, a triple carries an assertion about the current state from
   the read to the write. *)
From SaoVerif Require Import Base.Prelude Base.Ints Base.Dec Model.Did Model.Types Model.Monad Proofs.Frame.

Definition ht {A} (P : State -> Prop) (m : M A) (Q : A -> State -> Prop) (E : State -> Prop) : Prop :=
  forall t, P t -> match m t with Ok a t' => Q a t' | Err _ t' => E t' | Panic _ => True | Hang => True end.

Section Rules.
  Context {A : Type} (P : State -> Prop) (Q : A -> State -> Prop) (E : State -> Prop).

  Lemma ht_ret (a : A) : (forall t, P t -> Q a t) -> ht P (ret a) Q E.
  Proof. intros H t Ht. cbn. auto. Qed.
  Lemma ht_fail e : (forall t, P t -> E t) -> ht P (@fail A e) Q E.
  Proof. intros H t Ht. cbn. auto. Qed.
  Lemma ht_panic e : ht P (@panic A e) Q E.
  Proof. intros t Ht. exact I. Qed.
  Lemma ht_conseq (P' : State -> Prop) (Q' : A -> State -> Prop) (E' : State -> Prop) (m : M A) :
    ht P' m Q' E' -> (forall t, P t -> P' t) -> (forall a t, Q' a t -> Q a t) -> (forall t, E' t -> E t) -> ht P m Q E.
  Proof. intros H H1 H2 H3 t Ht. specialize (H t (H1 t Ht)). destruct (m t); auto. Qed.
  Lemma ht_pre (P' : State -> Prop) (m : M A) : ht P' m Q E -> (forall t, P t -> P' t) -> ht P m Q E.
  Proof. intros H H1. eapply ht_conseq; eauto. Qed.
  Lemma ht_bind {B} (m : M B) (k : B -> M A) (Qm : B -> State -> Prop) :
    ht P m Qm E -> (forall b, ht (Qm b) (k b) Q E) -> ht P (bind m k) Q E.
  Proof.
    intros Hm Hk t Ht. unfold bind. specialize (Hm t Ht). destruct (m t) as [b t1|e t1|e|]; auto.
    apply (Hk b t1 Hm).
  Qed.
  (* reading the state: what was known of it moves to the context, the precondition becomes equality *)
  Lemma ht_bind_get (k : State -> M A) :
    (forall s0, P s0 -> ht (eq s0) (k s0) Q E) -> ht P (bind get k) Q E.
  Proof. intros H t Ht. unfold bind, get. apply (H t Ht t eq_refl). Qed.
End Rules.
Lemma ht_if {A} P (Q : A -> State -> Prop) E (c : bool) (m1 m2 : M A) :
  (c = true -> ht P m1 Q E) -> (c = false -> ht P m2 Q E) -> ht P (if c then m1 else m2) Q E.
Proof. intros H1 H2 t Ht. destruct c; [apply (H1 eq_refl t Ht)|apply (H2 eq_refl t Ht)]. Qed.

Lemma ht_get (P : State -> Prop) (Q : State -> State -> Prop) E : (forall t, P t -> Q t t) -> ht P get Q E.
Proof. intros H t Ht. cbn. auto. Qed.
Lemma ht_modify (P : State -> Prop) (Q : unit -> State -> Prop) E g : (forall t, P t -> Q tt (g t)) -> ht P (modify g) Q E.
Proof. intros H t Ht. cbn. auto. Qed.
Lemma ht_try {A} (P : State -> Prop) (m : M A) (Q : option A -> State -> Prop) E :
  ht P m (fun a => Q (Some a)) (Q None) -> ht P (try_ m) Q E.
Proof. intros H t Ht. unfold try_. specialize (H t Ht). destruct (m t); auto. Qed.
Lemma ht_forM {A} (I : State -> Prop) E (l : list A) (f : A -> M unit) :
  (forall a, ht I (f a) (fun _ => I) E) -> ht I (forM l f) (fun _ => I) E.
Proof.
  intros Hf. induction l as [|x l IH]; cbn [forM]; [apply ht_ret; auto|].
  eapply ht_bind; [apply Hf|intros []; exact IH].
Qed.

(* a computation that keeps a projection keeps every assertion about that projection *)
Lemma ht_keeps {T A} (f : State -> T) (F : T -> Prop) (m : M A) :
  keeps f m -> ht (fun t => F (f t)) m (fun _ t' => F (f t')) (fun t' => F (f t')).
Proof. intros H t Ht. specialize (H t). destruct (m t); auto; rewrite H; exact Ht. Qed.

(* a computation that respects a transitive relation extends every chain of it *)
Lemma ht_mok {A} (R : State -> State -> Prop) `{!Transitive R} h (m : M A) (b : State) :
  mok R h m -> ht (R b) m (fun _ t' => R b t') (R b).
Proof. intros H t Ht. specialize (H t). destruct (m t); auto; etransitivity; eauto. Qed.

(* back to the relational form *)
Lemma mok_ht {A} (R : State -> State -> Prop) (m : M A) :
  (forall b, ht (eq b) m (fun _ t' => R b t') (R b)) -> mok R true m.
Proof. intros H s. specialize (H s s eq_refl). destruct (m s); auto. Qed.
